(** * Reflected CRC-32 (IEEE 802.3, as computed by crc32fast::hash), bitwise.
    The register update is written as a map on [N]; messages are bit lists, bytes are
    fed least-significant bit first.  No proofs in this file. *)
From Coq Require Export NArith ZArith List Bool.
Export ListNotations.
Open Scope N_scope.

Definition crc_poly : N := 0xEDB88320.
Definition step0 (s : N) : N := N.lxor (N.shiftr s 1) (if N.testbit s 0 then crc_poly else 0).
Definition step (s : N) (b : bool) : N := step0 (N.lxor s (N.b2n b)).
Definition run (s : N) (bits : list bool) : N := fold_left step bits s.

Definition byte_bits (b : Z) : list bool :=
  [Z.testbit b 0; Z.testbit b 1; Z.testbit b 2; Z.testbit b 3;
   Z.testbit b 4; Z.testbit b 5; Z.testbit b 6; Z.testbit b 7].
Definition bytes_bits (bs : list Z) : list bool := flat_map byte_bits bs.

Definition crc_init : N := 0xFFFFFFFF.
Definition crc32 (bs : list Z) : Z := Z.of_N (N.lxor (run crc_init (bytes_bits bs)) 0xFFFFFFFF).

(** flip bit [k] of a bit list *)
Fixpoint flip (k : nat) (l : list bool) : list bool :=
  match l, k with
  | [], _ => []
  | b :: l', O => negb b :: l'
  | b :: l', S k' => b :: flip k' l'
  end.
