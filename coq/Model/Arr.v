(** * Arrays with raw content under NULL, and the vectorised kernels of src/array/ops.rs.
    An array is a type tag and a list of slots (validity bit, raw value); the raw value under an
    invalid slot is arbitrary.  Every kernel is a slot-wise map: that the Rust kernels (word-level
    bitmap operations, iterators over raw data) are such maps is what the correspondence check
    establishes.  Integer arithmetic is the DEV-profile one: overflow panics.  No proofs here. *)
From Coq Require Export List ZArith Bool.
Export ListNotations.
Open Scope Z_scope.

Inductive ty := TBool | TI16 | TI32 | TI64 | TStr | TNull.
Inductive raw := RB (b : bool) | RI (z : Z) | RS (s : list Z) | RU.   (* RU: the unit of a NullArray *)
Record slot := mk_slot { sv : bool; sr : raw }.
Record arr := mk_arr { aty : ty; asl : list slot }.

Inductive res (A : Type) := Ok (a : A) | Err | Panic.
Arguments Ok {A} a. Arguments Err {A}. Arguments Panic {A}.

Definition ty_eqb (a b : ty) : bool :=
  match a, b with
  | TBool, TBool | TI16, TI16 | TI32, TI32 | TI64, TI64 | TStr, TStr | TNull, TNull => true
  | _, _ => false
  end.
Definition int_bits (t : ty) : option Z :=
  match t with TI16 => Some 16 | TI32 => Some 32 | TI64 => Some 64 | _ => None end.
Definition fits (bits : Z) (z : Z) : bool := (- 2 ^ (bits - 1) <=? z) && (z <? 2 ^ (bits - 1)).
(** result type of mixed-width integer arithmetic / comparison *)
Definition promote (a b : ty) : option ty :=
  match int_bits a, int_bits b with
  | Some x, Some y => Some (if x <? y then b else a)
  | _, _ => None
  end.

Definition rz (r : raw) : Z := match r with RI z => z | _ => 0 end.
Definition rb (r : raw) : bool := match r with RB b => b | _ => false end.
Definition rs (r : raw) : list Z := match r with RS s => s | _ => [] end.

(** ** slot-wise maps; [None] from the slot function = the kernel panics *)
Fixpoint map2_opt {A B C} (f : A -> B -> option C) (l : list A) (m : list B) : option (list C) :=
  match l, m with
  | x :: l', y :: m' =>
      match f x y, map2_opt f l' m' with
      | Some z, Some r => Some (z :: r)
      | _, _ => None
      end
  | _, _ => Some []
  end.
Fixpoint map_opt {A C} (f : A -> option C) (l : list A) : option (list C) :=
  match l with
  | x :: l' => match f x, map_opt f l' with Some z, Some r => Some (z :: r) | _, _ => None end
  | [] => Some []
  end.
Definition lift (t : ty) (o : option (list slot)) : res arr :=
  match o with Some l => Ok (mk_arr t l) | None => Panic end.

(** binary_op: validity = and of the validities, raw = f raw raw (computed for EVERY slot) *)
Definition bin_slot (f : raw -> raw -> option raw) (a b : slot) : option slot :=
  match f (sr a) (sr b) with
  | Some r => Some (mk_slot (sv a && sv b) r)
  | None => None
  end.
Definition un_slot (f : raw -> option raw) (a : slot) : option slot :=
  match f (sr a) with Some r => Some (mk_slot (sv a) r) | None => None end.
(** clear_null: the raw bit under a NULL becomes false *)
Definition clear_null (s : slot) : slot := if sv s then s else mk_slot false (RB false).

(** ** arithmetic (arith! macro): integers of the three widths, result in the wider type;
       dev profile: overflow panics *)
Inductive aop := AAdd | ASub | AMul | ADiv | ARem.
Definition arith_raw (op : aop) (bits : Z) (x y : Z) : option raw :=
  let chk z := if fits bits z then Some (RI z) else None in
  match op with
  | AAdd => chk (x + y)
  | ASub => chk (x - y)
  | AMul => chk (x * y)
  | ADiv => if y =? 0 then None else chk (Z.quot x y)
  | ARem => if y =? 0 then None else if (x =? - 2 ^ (bits - 1)) && (y =? -1) then None else Some (RI (Z.rem x y))
  end.
(** safen_dividend: a zero divisor (raw, whatever its validity) becomes 1 and invalid *)
Definition safen (b : slot) : slot :=
  if rz (sr b) =? 0 then mk_slot false (RI 1) else b.
Definition k_arith (op : aop) (a b : arr) : res arr :=
  match promote (aty a) (aty b) with
  | None => Err
  | Some t =>
      let bits := match int_bits t with Some n => n | None => 0 end in
      let bs := match op with ADiv | ARem => map safen (asl b) | _ => asl b end in
      lift t (map2_opt (bin_slot (fun x y => arith_raw op bits (rz x) (rz y))) (asl a) bs)
  end.

(** ** comparison (cmp! macro) *)
Inductive cop := CEq | CNe | CGt | CLt | CGe | CLe.
Fixpoint str_cmp (a b : list Z) : comparison :=
  match a, b with
  | [], [] => Eq
  | [], _ => Lt
  | _, [] => Gt
  | x :: a', y :: b' => match x ?= y with Eq => str_cmp a' b' | c => c end
  end.
Definition cmp_of (c : comparison) (op : cop) : bool :=
  match op, c with
  | CEq, Eq => true | CEq, _ => false
  | CNe, Eq => false | CNe, _ => true
  | CGt, Gt => true | CGt, _ => false
  | CLt, Lt => true | CLt, _ => false
  | CGe, Lt => false | CGe, _ => true
  | CLe, Gt => false | CLe, _ => true
  end.
Definition bool_cmp (a b : bool) : comparison :=
  match a, b with false, true => Lt | true, false => Gt | _, _ => Eq end.
Definition cmp_raw (t : ty) (op : cop) (x y : raw) : raw :=
  RB (cmp_of (match t with
              | TBool => bool_cmp (rb x) (rb y)
              | TStr => str_cmp (rs x) (rs y)
              | _ => rz x ?= rz y
              end) op).
Definition k_cmp (op : cop) (a b : arr) : res arr :=
  let okty := match aty a, aty b with
              | TBool, TBool => Some TBool
              | TStr, TStr => Some TStr
              | x, y => promote x y
              end in
  match okty with
  | None => Err
  | Some t =>
      match map2_opt (bin_slot (fun x y => Some (cmp_raw t op x y))) (asl a) (asl b) with
      | Some l => Ok (mk_arr TBool (map clear_null l))
      | None => Panic
      end
  end.

(** ** three-valued logic *)
Definition and_slot (a b : slot) : slot :=
  let ra := rb (sr a) in let rb' := rb (sr b) in
  mk_slot ((sv a && sv b) || (negb ra && sv a) || (negb rb' && sv b)) (RB (ra && rb')).
Definition or_slot (a b : slot) : slot :=
  let ra := rb (sr a) in let rb' := rb (sr b) in
  clear_null (mk_slot ((sv a && sv b) || (ra && sv a) || (rb' && sv b)) (RB (ra || rb'))).
Definition not_slot (a : slot) : slot := clear_null (mk_slot (sv a) (RB (negb (rb (sr a))))).
Fixpoint map2 {A B C} (f : A -> B -> C) (l : list A) (m : list B) : list C :=
  match l, m with x :: l', y :: m' => f x y :: map2 f l' m' | _, _ => [] end.
Definition k_and (a b : arr) : res arr :=
  match aty a, aty b with TBool, TBool => Ok (mk_arr TBool (map2 and_slot (asl a) (asl b))) | _, _ => Err end.
Definition k_or (a b : arr) : res arr :=
  match aty a, aty b with TBool, TBool => Ok (mk_arr TBool (map2 or_slot (asl a) (asl b))) | _, _ => Err end.
Definition k_not (a : arr) : res arr :=
  match aty a with TBool => Ok (mk_arr TBool (map not_slot (asl a))) | _ => Err end.
(** neg is defined for INT and BIGINT only (not SMALLINT) *)
Definition k_neg (a : arr) : res arr :=
  match (match aty a with TI16 => None | t => int_bits t end) with
  | Some bits => lift (aty a) (map_opt (un_slot (fun x => if fits bits (- rz x) then Some (RI (- rz x)) else None)) (asl a))
  | None => Err
  end.
Definition k_isnull (a : arr) : res arr :=
  Ok (mk_arr TBool (map (fun s => mk_slot true (RB (negb (sv s)))) (asl a))).

(** select (CASE / IF): TRUE (valid and set) selects [a], FALSE and NULL select [b] *)
Definition select_slot (c a b : slot) : slot :=
  let t := rb (sr c) && sv c in
  mk_slot ((t && sv a) || (negb t && sv b)) (if t then sr a else sr b).
Fixpoint map3 {A B C D} (f : A -> B -> C -> D) (l : list A) (m : list B) (n : list C) : list D :=
  match l, m, n with x :: l', y :: m', z :: n' => f x y z :: map3 f l' m' n' | _, _, _ => [] end.
Definition k_select (c a b : arr) : res arr :=
  match aty c with
  | TBool =>
      if ty_eqb (aty a) (aty b) && match int_bits (aty a) with Some _ => true | None => false end
      then Ok (mk_arr (aty a) (map3 select_slot (asl c) (asl a) (asl b))) else Err
  | _ => Err
  end.

(** string concatenation *)
Definition k_concat (a b : arr) : res arr :=
  match aty a, aty b with
  | TStr, TStr => lift TStr (map2_opt (bin_slot (fun x y => Some (RS (rs x ++ rs y)))) (asl a) (asl b))
  | _, _ => Err
  end.

(** ** casts among BOOLEAN and the integer types (ArrayImpl::cast); narrowing uses try_unary_op:
       only VALID slots are converted (and may fail with an error), NULL slots get the default *)
Definition k_cast (t : ty) (a : arr) : res arr :=
  match aty a, t with
  | TNull, _ => Ok (mk_arr t (map (fun _ => mk_slot false (match t with TBool => RB false | TStr => RS [] | TNull => RU | _ => RI 0 end)) (asl a)))
  | TBool, TBool => Ok a
  | TBool, (TI16 | TI32 | TI64) =>
      Ok (mk_arr t (map (fun s => mk_slot (sv s) (RI (if rb (sr s) then 1 else 0))) (asl a)))
  | (TI16 | TI32 | TI64), TBool =>
      Ok (mk_arr TBool (map (fun s => mk_slot (sv s) (RB (negb (rz (sr s) =? 0)))) (asl a)))
  | (TI16 | TI32 | TI64), (TI16 | TI32 | TI64) =>
      match int_bits (aty a), int_bits t with
      | Some from, Some to =>
          if from <=? to then Ok (mk_arr t (asl a))      (* widening / same: raw kept as is *)
          else if forallb (fun s => negb (sv s) || fits to (rz (sr s))) (asl a)
               then Ok (mk_arr t (map (fun s => if sv s then s else mk_slot false (RI 0)) (asl a)))
               else Err
      | _, _ => Err
      end
  | TStr, TStr => Ok a
  | _, _ => Err
  end.
