(** * Scalar expressions and their vectorised evaluation (src/executor/evaluator.rs).
    No proofs in this file. *)
From RL Require Export Model.Arr.
Open Scope Z_scope.

Inductive expr :=
| ECol (i : nat)
| EConst (t : ty) (v : option raw)            (* a typed constant; [None] = NULL of that type *)
| EArith (op : aop) (a b : expr)
| ECmp (op : cop) (a b : expr)
| EAnd (a b : expr) | EOr (a b : expr) | ENot (a : expr)
| ENeg (a : expr)
| EIsNull (a : expr)
| EIf (c a b : expr)
| EIn (a : expr) (first : expr) (rest : list expr)
| ECast (t : ty) (a : expr)
| EConcat (a b : expr).

Definition bind {A B} (r : res A) (f : A -> res B) : res B :=
  match r with Ok a => f a | Err => Err | Panic => Panic end.

Definition default_raw (t : ty) : raw :=
  match t with TBool => RB false | TStr => RS [] | TNull => RU | _ => RI 0 end.
Definition const_arr (t : ty) (v : option raw) (n : nat) : arr :=
  mk_arr t (repeat (match v with Some r => mk_slot true r | None => mk_slot false (default_raw t) end) n).

(** [n] is the chunk's cardinality, [cols] its arrays *)
Fixpoint veval (e : expr) (n : nat) (cols : list arr) : res arr :=
  match e with
  | ECol i => match nth_error cols i with Some a => Ok a | None => Panic end
  | EConst t v => Ok (const_arr t v n)
  | EArith op a b => bind (veval a n cols) (fun x => bind (veval b n cols) (fun y => k_arith op x y))
  | ECmp op a b => bind (veval a n cols) (fun x => bind (veval b n cols) (fun y => k_cmp op x y))
  | EAnd a b => bind (veval a n cols) (fun x => bind (veval b n cols) (fun y => k_and x y))
  | EOr a b => bind (veval a n cols) (fun x => bind (veval b n cols) (fun y => k_or x y))
  | ENot a => bind (veval a n cols) k_not
  | ENeg a => bind (veval a n cols) k_neg
  | EIsNull a => bind (veval a n cols) k_isnull
  | EIf c a b => bind (veval c n cols) (fun z => bind (veval a n cols) (fun x => bind (veval b n cols) (fun y => k_select z x y)))
  | EIn a first rest =>
      bind (veval a n cols) (fun x =>
      bind (veval first n cols) (fun v0 =>
      bind (k_cmp CEq x v0) (fun acc0 =>
      (fix go (l : list expr) (acc : arr) : res arr :=
         match l with
         | [] => Ok acc
         | v :: l' => bind (veval v n cols) (fun y => bind (k_cmp CEq x y) (fun e => bind (k_or acc e) (go l')))
         end) rest acc0)))
  | ECast t a => bind (veval a n cols) (k_cast t)
  | EConcat a b => bind (veval a n cols) (fun x => bind (veval b n cols) (fun y => k_concat x y))
  end.

(** the logical content of an array: what SQL sees *)
Definition logical (a : arr) : list (option raw) := map (fun s => if sv s then Some (sr s) else None) (asl a).
