(** * Plans as the executor builder sees them (src/executor/mod.rs Builder::build_id,
    src/planner/rules/schema.rs analyze_schema).  A plan is a term of the optimiser's language:
    an operator name with children, or an atom (column $t.c, table $t, constant, type, ...).
    Sub-terms are compared structurally, as hash-consed e-graph ids are.  No proofs in this file. *)
From Coq Require Export List String Ascii Bool Arith.
Export ListNotations.
Open Scope string_scope.

Inductive sx := A (s : string) | N (op : string) (args : list sx).

Fixpoint sx_eqb (a b : sx) {struct a} : bool :=
  match a, b with
  | A s, A t => String.eqb s t
  | N o l, N p m =>
      String.eqb o p &&
      (fix go (l m : list sx) : bool :=
         match l, m with
         | [], [] => true
         | x :: l', y :: m' => sx_eqb x y && go l' m'
         | _, _ => false
         end) l m
  | _, _ => false
  end.
Definition mem (e : sx) (l : list sx) : bool := existsb (sx_eqb e) l.

(** a column atom is $<table>.<column> (a table atom has no dot) *)
Fixpoint has_dot (s : string) : bool :=
  match s with EmptyString => false | String c r => Ascii.eqb c "."%char || has_dot r end.
Definition is_column (s : string) : bool :=
  match s with String c r => Ascii.eqb c "$"%char && has_dot r | _ => false end.

Definition args_of (e : sx) : list sx := match e with N _ l => l | A _ => [] end.
Definition nth_arg (n : nat) (e : sx) : sx := nth n (args_of e) (A "").
Definition is_op (o : string) (e : sx) : bool := match e with N p _ => String.eqb o p | A _ => false end.
Definition is_atom (s : string) (e : sx) : bool := match e with A t => String.eqb s t | N _ _ => false end.
Definition semi_or_anti (t : sx) : bool := is_atom "semi" t || is_atom "anti" t.

(** analyze_schema: the output expressions of a plan node *)
Fixpoint schema (p : sx) : list sx :=
  match p with
  | A _ => []
  | N op args =>
      let schs := (fix go (l : list sx) : list (list sx) := match l with [] => [] | x :: r => schema x :: go r end) args in
      let sch n := nth n schs [] in
      if String.eqb op "list" then args
      else if String.eqb op "filter" || String.eqb op "order" then sch 1
      else if String.eqb op "limit" then sch 2
      else if String.eqb op "topn" then sch 3
      else if String.eqb op "empty" then sch 0
      else if String.eqb op "join" then (if semi_or_anti (nth 0 args (A "")) then sch 2 else sch 2 ++ sch 3)
      else if String.eqb op "hashjoin" || String.eqb op "mergejoin" then (if semi_or_anti (nth 0 args (A "")) then sch 4 else sch 4 ++ sch 5)
      else if String.eqb op "apply" then (if semi_or_anti (nth 0 args (A "")) then sch 1 else sch 1 ++ sch 2)
      else if String.eqb op "scan" then sch 1
      else if String.eqb op "values" then sch 0
      else if String.eqb op "proj" || String.eqb op "agg" then sch 0
      else if String.eqb op "window" then sch 1 ++ sch 0
      else if String.eqb op "hashagg" || String.eqb op "sortagg" then sch 0 ++ sch 1
      else []
  end.

(** resolve_column_index_on_schema: a sub-term found in the input schema becomes an index; any
    column left over panics ("column .. not found from input") *)
Fixpoint resolvable (sch : list sx) (e : sx) {struct e} : bool :=
  if mem e sch then true else
  match e with
  | A s => negb (is_column s)
  | N _ args => (fix go (l : list sx) : bool := match l with [] => true | x :: r => resolvable sch x && go r end) args
  end.

Definition four_types (t : sx) : bool := is_atom "inner" t || is_atom "left_outer" t || is_atom "right_outer" t || is_atom "full_outer" t.
Definition is_true (e : sx) : bool := is_atom "true" e.

(** Builder::build_id does not panic *)
Fixpoint build_ok (p : sx) {struct p} : bool :=
  match p with
  | A _ => true                                  (* statements carried as atoms: CREATE TABLE .., sources, ... *)
  | N op args =>
      let a n := nth n args (A "") in
      let oks := (fix go (l : list sx) : list bool := match l with [] => [] | x :: r => build_ok x :: go r end) args in
      let ok n := nth n oks true in
      if String.eqb op "scan" then
        forallb (fun c => match c with A s => is_column s | _ => false end) (args_of (a 1)) &&
        (is_true (a 2) || resolvable (schema p) (a 2))
      else if String.eqb op "values" then true
      else if String.eqb op "proj" || String.eqb op "filter" || String.eqb op "order" || String.eqb op "agg" || String.eqb op "window" then
        ok 1 && resolvable (schema (a 1)) (a 0)
      else if String.eqb op "limit" then ok 2
      else if String.eqb op "topn" then ok 3 && resolvable (schema (a 3)) (a 2)
      else if String.eqb op "hashagg" || String.eqb op "sortagg" then
        ok 2 && resolvable (schema (a 2)) (a 0) && resolvable (schema (a 2)) (a 1)
      else if String.eqb op "join" then
        (four_types (a 0) || semi_or_anti (a 0)) && ok 2 && ok 3 && resolvable (schema (a 2) ++ schema (a 3)) (a 1)
      else if String.eqb op "hashjoin" then
        ok 4 && ok 5 && resolvable (schema (a 4)) (a 2) && resolvable (schema (a 5)) (a 3) &&
        Nat.eqb (List.length (args_of (a 2))) (List.length (args_of (a 3))) &&
        (if four_types (a 0) then is_true (a 1)
         else semi_or_anti (a 0) && (is_true (a 1) || resolvable (schema (a 4) ++ schema (a 5)) (a 1)))
      else if String.eqb op "mergejoin" then
        four_types (a 0) && is_true (a 1) && ok 4 && ok 5 && resolvable (schema (a 4)) (a 2) && resolvable (schema (a 5)) (a 3) &&
        Nat.eqb (List.length (args_of (a 2))) (List.length (args_of (a 3)))
      else if String.eqb op "apply" then false    (* "Apply is not supported in executor" *)
      else if String.eqb op "insert" then ok 2
      else if String.eqb op "delete" || String.eqb op "copy_to" || String.eqb op "create_view" then ok 1
      else if String.eqb op "explain" || String.eqb op "analyze" || String.eqb op "empty" then ok 0
      else true                                   (* drop, copy_from, pragma, set: no child plan to resolve against *)
  end.

(** the bound and the optimised plan return the same number of columns, and where both name a plain
    column at a position it is the same column *)
Fixpoint same_columns (a b : list sx) : bool :=
  match a, b with
  | [], [] => true
  | x :: a', y :: b' =>
      (match x, y with A s, A t => if is_column s && is_column t then String.eqb s t else true | _, _ => true end) && same_columns a' b'
  | _, _ => false
  end.

(** ** a few of the optimiser's plan rewrites (src/planner/rules/plan.rs), as functions *)
Definition filter_ (c p : sx) := N "filter" [c; p].
Definition join_ (t on l r : sx) := N "join" [t; on; l; r].
Definition and_ (a b : sx) := N "and" [a; b].
(* "pushdown-filter-join-left": (filter c (join inner on l r)) => (join inner on (filter c l) r)   if c only uses l *)
Definition push_filter_left (t on l r c : sx) : sx := join_ t on (filter_ c l) r.
Definition push_filter_right (t on l r c : sx) : sx := join_ t on l (filter_ c r).
(* "filter-merge": (filter a (filter b p)) => (filter (and a b) p) *)
Definition filter_merge (a b p : sx) : sx := filter_ (and_ a b) p.
(* "hash-join-on-one-eq": (join t (= lk rk) l r) => (hashjoin t true (list lk) (list rk) l r)  if lk from l, rk from r *)
Definition to_hashjoin (t lk rk l r : sx) : sx := N "hashjoin" [t; A "true"; N "list" [lk]; N "list" [rk]; l; r].
(* "limit-order-topn": (limit n o (order keys p)) => (topn n o keys p) *)
Definition to_topn (n o keys p : sx) : sx := N "topn" [n; o; keys; p].
