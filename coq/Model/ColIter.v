(** * ConcreteColumnIterator over an arbitrary partition of a column into blocks
    (src/storage/secondary/column/concrete_column_iterator.rs, index.rs block_of_row).
    A block iterator is abstracted to a cursor [pos] into the decoded block; that every block
    iterator kind behaves like such a cursor is what the correspondence check establishes for
    the stateful RLE / dictionary iterators.  No proofs in this file. *)
From Coq Require Export List Arith Bool PeanoNat.
Export ListNotations.

Section Col.
Variable A : Type.

Definition blocks := list (list A).
(** first_rowid of block [i] *)
Definition first (bs : blocks) (i : nat) : nat := length (concat (firstn i bs)).
Definition blk_at (bs : blocks) (i : nat) : list A := nth i bs [].

Record cstate := {
  c_blk : nat;        (* current_block_id *)
  c_pos : nat;        (* cursor of the block iterator inside its block *)
  c_row : nat;        (* current_row_id *)
  c_fin : bool;       (* finished *)
  c_fake : bool       (* is_fake_iter *)
}.

(** partition_point(first_rowid <= rowid) - 1 *)
Fixpoint count_le (bs : blocks) (acc rowid : nat) : nat :=
  match bs with
  | [] => 0
  | b :: r => if acc <=? rowid then S (count_le r (acc + length b) rowid) else 0
  end.
Definition block_of_row (bs : blocks) (rowid : nat) : nat := count_le bs 0 rowid - 1.

Definition col_new (bs : blocks) (start : nat) : cstate :=
  let b := block_of_row bs start in
  {| c_blk := b; c_pos := start - first bs b; c_row := start; c_fin := false; c_fake := false |}.

Inductive req := RNext (k : option nat) | RSkip (n : nat) | RHint.
Inductive resp :=
| OBatch (r : option (nat * list A)) (cur : nat)
| OSkipped (cur : nat)
| OHint (n : nat) (fin : bool).

(** the loop of next_batch_inner; [k] = expected_size *)
Fixpoint nb_loop (fuel : nat) (bs : blocks) (k : option nat)
         (blk pos row total : nat) (acc : list A) : (nat * nat * nat * bool) * (nat * list A) :=
  match fuel with
  | O => ((blk, pos, row, true), (total, acc))
  | S f =>
      let b := blk_at bs blk in
      let remaining := length b - pos in
      let want := match k with Some k => Nat.min remaining (k - total) | None => remaining end in
      let acc' := acc ++ firstn want (skipn pos b) in
      let total' := total + want in
      let row' := row + want in
      let pos' := pos + want in
      let stop := match k with Some k => k <=? total' | None => negb (total' =? 0) end in
      if stop then ((blk, pos', row', false), (total', acc'))
      else
        let blk' := S blk in
        if length bs <=? blk' then ((blk', pos', row', true), (total', acc'))
        else nb_loop f bs k blk' (row' - first bs blk') row' total' acc'
  end.

Definition col_next (bs : blocks) (k : option nat) (s : cstate) : cstate * resp :=
  if c_fin s then (s, OBatch None (c_row s))
  else
    let pos := if c_fake s then c_row s - first bs (c_blk s) else c_pos s in
    let '((blk, pos', row, fin), (total, out)) :=
      nb_loop (S (length bs - c_blk s)) bs k (c_blk s) pos (c_row s) 0 [] in
    let s' := {| c_blk := blk; c_pos := pos'; c_row := row; c_fin := fin; c_fake := false |} in
    (s', OBatch (if total =? 0 then None else Some (c_row s, out)) row).

Definition col_hint (bs : blocks) (s : cstate) : nat * bool :=
  if c_fin s then (0, true)
  else
    let hint := length (blk_at bs (c_blk s)) - (c_row s - first bs (c_blk s)) in
    (if hint =? 0 then
       if S (c_blk s) <? length bs then length (blk_at bs (S (c_blk s))) else 0
     else hint, false).

(** fake-iterator branch of skip_inner: advance blocks while row > reached *)
Fixpoint skip_fake (fuel : nat) (bs : blocks) (blk row reached : nat) : nat * bool :=
  match fuel with
  | O => (blk, true)
  | S f =>
      if reached <? row then
        let blk' := S blk in
        if length bs <=? blk' then (blk', true)
        else skip_fake f bs blk' row (reached + length (blk_at bs blk'))
      else (blk, false)
  end.
(** second loop of skip_inner: whole blocks *)
Fixpoint skip_blocks (fuel : nat) (bs : blocks) (blk cnt : nat) : nat * bool :=
  match fuel with
  | O => (blk, true)
  | S f =>
      if cnt =? 0 then (blk, false)
      else
        let rc := length (blk_at bs blk) in
        if rc <=? cnt then
          let blk' := S blk in
          if length bs <=? blk' then (blk', true) else skip_blocks f bs blk' (cnt - rc)
        else (blk, false)
  end.

Definition col_skip (bs : blocks) (cnt : nat) (s : cstate) : cstate :=
  if c_fin s then s
  else
    let row := c_row s + cnt in
    if c_fake s then
      let b := c_blk s in
      let '(blk, fin) := skip_fake (S (length bs)) bs b row (first bs b + length (blk_at bs b)) in
      {| c_blk := blk; c_pos := c_pos s; c_row := row; c_fin := fin; c_fake := true |}
    else
      let remaining := length (blk_at bs (c_blk s)) - c_pos s in
      if remaining <=? cnt then
        let cnt' := cnt - remaining in
        let blk' := S (c_blk s) in
        if length bs <=? blk' then
          {| c_blk := blk'; c_pos := c_pos s; c_row := row; c_fin := true; c_fake := false |}
        else
          let '(blk, fin) := skip_blocks (S (length bs)) bs blk' cnt' in
          {| c_blk := blk; c_pos := c_pos s; c_row := row; c_fin := fin; c_fake := negb fin |}
      else
        {| c_blk := c_blk s; c_pos := c_pos s + cnt; c_row := row; c_fin := false; c_fake := false |}.

Definition col_step (bs : blocks) (s : cstate) (r : req) : cstate * resp :=
  match r with
  | RNext k => col_next bs k s
  | RSkip n => let s' := col_skip bs n s in (s', OSkipped (c_row s'))
  | RHint => let '(n, f) := col_hint bs s in (s, OHint n f)
  end.

Fixpoint col_run (bs : blocks) (s : cstate) (rs : list req) : list resp :=
  match rs with
  | [] => []
  | r :: rs' => let '(s', o) := col_step bs s r in o :: col_run bs s' rs'
  end.

Definition col_read (bs : blocks) (start : nat) (rs : list req) : list resp :=
  col_run bs (col_new bs start) rs.
End Col.
