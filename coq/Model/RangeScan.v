(** * Key-range scan of one row-set: DiskRowset::start_rowid over the block index, and the
      per-batch position mask / early end of RowSetIterator::next_batch_inner
      (src/storage/secondary/rowset/{disk_rowset,rowset_iterator}.rs).
    Keys are the values of scanned column 0 (INT, non-NULL).  No proofs in this file. *)
From Coq Require Export List ZArith Bool.
Export ListNotations.
Open Scope Z_scope.

Inductive bnd := BUnb | BIn (k : Z) | BEx (k : Z).
Record krange := mk_range { r_start : bnd; r_end : bnd }.

(** the predicate the range denotes *)
Definition ge_start (b : bnd) (x : Z) : bool := match b with BUnb => true | BIn k => k <=? x | BEx k => k <? x end.
Definition gt_end (b : bnd) (x : Z) : bool := match b with BUnb => false | BIn k => k <? x | BEx k => k <=? x end.
Definition in_range (r : krange) (x : Z) : bool := ge_start (r_start r) x && negb (gt_end (r_end r) x).

(** start_rowid: walk the blocks (first_rowid, first_key); stop at the first block whose first key
    is >= the lower bound; the scan starts at the first row of the block before it *)
Fixpoint start_go (blocks : list (nat * Z)) (k : Z) (pre : nat) : nat :=
  match blocks with
  | [] => pre
  | (fr, fk) :: rest => if k <=? fk then pre else start_go rest k fr
  end.
Definition start_rowid (blocks : list (nat * Z)) (r : option krange) : nat :=
  match r with
  | Some r => match r_start r with BIn k | BEx k => start_go blocks k 0 | BUnb => 0%nat end
  | None => 0%nat
  end.

(** position(|x| p x).unwrap_or(len) *)
Fixpoint first_pos (p : Z -> bool) (ks : list Z) : nat :=
  match ks with
  | [] => 0
  | x :: r => if p x then 0 else S (first_pos p r)
  end.
(** the mask of one batch, and whether the scan of this row-set ends after it *)
Definition batch_mask (r : krange) (ks : list Z) : list bool * bool :=
  let len := length ks in
  let s := first_pos (ge_start (r_start r)) ks in
  let e := match r_end r with BUnb => len | b => first_pos (gt_end b) ks end in
  (map (fun i => Nat.leb s i && Nat.ltb i e) (seq 0 len), Nat.eqb e 0).

(** the scan of one row-set: batches of the given sizes from [pos]; a row is returned iff it is not
    in a delete vector and the batch mask keeps it; [deleted i] = row id i is in some delete vector *)
Fixpoint scan_go (r : option krange) (keys : list Z) (deleted : nat -> bool) (pos : nat) (sizes : list nat)
  : list nat :=
  match sizes with
  | [] => []
  | n :: rest =>
      let ks := firstn n (skipn pos keys) in
      let ids := seq pos (length ks) in
      let alive := map (fun i => negb (deleted i)) ids in
      if forallb negb alive then scan_go r keys deleted (pos + n) rest    (* all deleted: skipped *)
      else
        match r with
        | None => map fst (filter snd (combine ids alive)) ++ scan_go r keys deleted (pos + n) rest
        | Some rg =>
            let '(mask, stop) := batch_mask rg ks in
            map fst (filter snd (combine ids (map (fun p => fst p && snd p) (combine alive mask))))
              ++ (if stop then [] else scan_go r keys deleted (pos + n) rest)
        end
  end.
Definition scan_rowset (blocks : list (nat * Z)) (r : option krange) (keys : list Z) (deleted : nat -> bool)
           (sizes : list nat) : list nat :=
  scan_go r keys deleted (start_rowid blocks r) sizes.

(** the specification: a full scan followed by the range predicate *)
Definition spec_rowset (r : option krange) (keys : list Z) (deleted : nat -> bool) : list nat :=
  filter (fun i => negb (deleted i) && match r with Some rg => in_range rg (nth i keys 0) | None => true end)
         (seq 0 (length keys)).
