(** * Delete vectors and the row-set bookkeeping of the disk engine
    (src/storage/secondary/{delete_vector,transaction,compactor}.rs, src/storage/memory).
    Rows are abstract ([nat] payloads stand for whole rows); a table is a bag of rows.
    No proofs in this file. *)
From Coq Require Export List Arith Bool PeanoNat.
Export ListNotations.

(** ** DeleteVector::apply_to: [deletes] is sorted and duplicate-free; clear the bits of the
       visibility map (for rows offset, offset+1, ...) whose row id is in the vector *)
Fixpoint drop_below (deletes : list nat) (offset : nat) : list nat :=
  match deletes with
  | [] => []
  | d :: r => if d <? offset then drop_below r offset else deletes
  end.
Fixpoint apply_go (pending : list nat) (row : nat) (vis : list bool) : list bool :=
  match vis with
  | [] => []
  | b :: vs =>
      match pending with
      | d :: ps => if Nat.eqb d row then false :: apply_go ps (S row) vs else b :: apply_go pending (S row) vs
      | [] => b :: apply_go [] (S row) vs
      end
  end.
Definition apply_to (deletes : list nat) (offset : nat) (vis : list bool) : list bool :=
  apply_go (drop_below deletes offset) offset vis.

(** ** the two engines as state machines over abstract rows *)
Definition row := nat.

(** disk engine: row-sets with ids, delete vectors per row-set id (several may exist) *)
Record rowset := { rs_id : nat; rs_rows : list row }.
Record disk_table := { d_rowsets : list rowset; d_dvs : list (nat * list nat); d_next : nat }.
Definition rs_deleted (t : disk_table) (id : nat) (ri : nat) : bool :=
  existsb (fun dv => Nat.eqb (fst dv) id && existsb (Nat.eqb ri) (snd dv)) (d_dvs t).
Definition rs_visible (t : disk_table) (rs : rowset) : list row :=
  map snd (filter (fun '(ri, _) => negb (rs_deleted t (rs_id rs) ri)) (combine (seq 0 (length (rs_rows rs))) (rs_rows rs))).
Definition disk_scan (t : disk_table) : list row := concat (map (rs_visible t) (d_rowsets t)).
Definition disk_insert (t : disk_table) (rows : list row) : disk_table :=
  match rows with
  | [] => t
  | _ => {| d_rowsets := d_rowsets t ++ [{| rs_id := d_next t; rs_rows := rows |}]; d_dvs := d_dvs t; d_next := S (d_next t) |}
  end.
(** DELETE: one new delete vector per row-set that has a visible matching row *)
Definition disk_delete (p : row -> bool) (t : disk_table) : disk_table * nat :=
  let hits rs := map fst (filter (fun '(ri, r) => p r && negb (rs_deleted t (rs_id rs) ri))
                                 (combine (seq 0 (length (rs_rows rs))) (rs_rows rs))) in
  let new := flat_map (fun rs => match hits rs with [] => [] | h => [(rs_id rs, h)] end) (d_rowsets t) in
  ({| d_rowsets := d_rowsets t; d_dvs := d_dvs t ++ new; d_next := d_next t |},
   length (flat_map hits (d_rowsets t))).
(** compaction of the row-sets selected by [sel]: their visible rows (in any order [perm] chosen by the
    merge / concat iterator) become one new row-set; the old row-sets AND their delete vectors go *)
Definition disk_compact (sel : nat -> bool) (reorder : list row -> list row) (t : disk_table) : disk_table :=
  let chosen := filter (fun rs => sel (rs_id rs)) (d_rowsets t) in
  match chosen with
  | [] | [_] => t
  | _ =>
    let rows := reorder (concat (map (rs_visible t) chosen)) in
    let rest := filter (fun rs => negb (sel (rs_id rs))) (d_rowsets t) in
    let dvs := filter (fun dv => negb (existsb (fun rs => Nat.eqb (rs_id rs) (fst dv)) chosen)) (d_dvs t) in
    match rows with
    | [] => {| d_rowsets := rest; d_dvs := dvs; d_next := d_next t |}
    | _ => {| d_rowsets := rest ++ [{| rs_id := d_next t; rs_rows := rows |}]; d_dvs := dvs; d_next := S (d_next t) |}
    end
  end.

(** reopen: same row-sets and delete vectors; the next id is re-derived (storage.rs bootstrap) *)
Definition ids_below (n : nat) (t : disk_table) : bool :=
  forallb (fun rs => rs_id rs <? n) (d_rowsets t) && forallb (fun dv => fst dv <? n) (d_dvs t).
Definition disk_reopen (n : nat) (t : disk_table) : disk_table :=
  if ids_below n t then {| d_rowsets := d_rowsets t; d_dvs := d_dvs t; d_next := n |} else t.

(** memory engine (src/storage/memory): a vector of appended chunks and a set of deleted
    (chunk, offset) positions -- the same bookkeeping as row-sets with delete vectors, the chunk
    index playing the role of the row-set id, without compaction *)
Definition mem_table := disk_table.
Definition mem_scan : mem_table -> list row := disk_scan.
Definition mem_insert : mem_table -> list row -> mem_table := disk_insert.
Definition mem_delete : (row -> bool) -> mem_table -> mem_table * nat := disk_delete.
Definition empty_table : disk_table := {| d_rowsets := []; d_dvs := []; d_next := 0 |}.

(** ** histories *)
Inductive op :=
| OInsert (rows : list row)
| ODelete (p : row -> bool)
| OCompact (sel : nat -> bool) (reorder : list row -> list row)    (* disk only; [reorder] = the merge / concat order *)
| OReopen (n : nat).                                                 (* restart: the manifest replays to the same row-sets and delete
                                                                        vectors; the id generator restarts at [n] = 1 + the largest id
                                                                        still in the log, which is fresh but may be SMALLER than before *)
Definition disk_step (t : disk_table) (o : op) : disk_table :=
  match o with
  | OInsert rows => disk_insert t rows
  | ODelete p => fst (disk_delete p t)
  | OCompact sel reorder => disk_compact sel reorder t
  | OReopen n => disk_reopen n t
  end.
Definition mem_step (t : mem_table) (o : op) : mem_table :=
  match o with
  | OInsert rows => mem_insert t rows
  | ODelete p => fst (mem_delete p t)
  | _ => t
  end.
(** the specification: a plain bag (list up to permutation) *)
Definition spec_step (b : list row) (o : op) : list row :=
  match o with
  | OInsert rows => b ++ rows
  | ODelete p => filter (fun r => negb (p r)) b
  | _ => b
  end.

(** ** ordered scan of a table with a primary key: every row-set is stored sorted by key
       (the mem-table of an insert is a B-tree; compaction writes the merge of its inputs), and
       MergeIterator merges the row-sets.  [key] maps a row to its key. *)
Section Ordered.
  Variable key : row -> nat.
  Fixpoint insert_sorted (x : row) (l : list row) : list row :=
    match l with
    | [] => [x]
    | y :: r => if key y <=? key x then y :: insert_sorted x r else x :: l
    end.
  Definition sort_by_key (l : list row) : list row := fold_right insert_sorted [] (rev l).
  Fixpoint merge2 (a : list row) : list row -> list row :=
    fix inner (b : list row) : list row :=
      match a, b with
      | [], _ => b
      | _, [] => a
      | x :: a', y :: b' => if key x <=? key y then x :: merge2 a' b else y :: inner b'
      end.
  Definition kmerge (ls : list (list row)) : list row := fold_right merge2 [] ls.
  Definition ordered_scan (t : disk_table) : list row := kmerge (map (rs_visible t) (d_rowsets t)).
  Definition insert_pk (t : disk_table) (rows : list row) : disk_table := disk_insert t (sort_by_key rows).
  Definition compact_pk (sel : nat -> bool) (t : disk_table) : disk_table :=
    disk_compact sel (fun _ => kmerge (map (rs_visible t) (filter (fun rs => sel (rs_id rs)) (d_rowsets t)))) t.
End Ordered.
