(** * The manifest log, its replay, and the boot procedure of the disk engine
    (src/storage/secondary/{manifest,storage,version_manager}.rs).
    Table names are numbers; row-set and delete-vector files are identified by their ids (their
    content is immutable once written: Model/Store.v gives the table content as a function of the
    live row-sets and delete vectors).  No proofs in this file. *)
From Coq Require Export List Arith Bool PeanoNat.
Export ListNotations.

(** ** records *)
Inductive mop :=
| MCreate (name : nat)                 (* CreateTable: the table id is NOT logged, replay re-assigns it *)
| MDrop (tid : nat)
| MAddRS (tid rsid : nat)
| MDelRS (tid rsid : nat)
| MAddDV (tid dvid rsid : nat)
| MDelDV (tid dvid rsid : nat).
Inductive rec :=
| RBegin | REnd | ROp (o : mop)
| RTorn.                               (* an incomplete record: the JSON stream ends inside it *)

(** Manifest::replay: operations between Begin and End are buffered and released by End; an
    operation outside a transaction is skipped; an incomplete record at the end stops the replay.
    (As in the code, Begin does not clear the buffer.) *)
Fixpoint replay_go (l : list rec) (begin : bool) (buf acc : list mop) : list mop :=
  match l with
  | [] => acc
  | RTorn :: _ => acc
  | RBegin :: r => replay_go r true buf acc
  | REnd :: r => replay_go r false [] (acc ++ buf)
  | ROp o :: r => if begin then replay_go r begin (buf ++ [o]) acc else replay_go r begin buf acc
  end.
Definition replay (l : list rec) : list mop := replay_go l false [] [].
(** Manifest::append writes one transaction *)
Definition frame (t : list mop) : list rec := RBegin :: map ROp t ++ [REnd].

(** ** the state rebuilt at boot *)
Record mstate := {
  m_tables : list (nat * nat);          (* live tables (id, name), in creation order *)
  m_next_tid : nat;                     (* SchemaCatalog.next_id *)
  m_rowsets : list (nat * nat);         (* live (table id, row-set id) *)
  m_dvs : list (nat * nat * nat);       (* live (table id, dv id, row-set id) *)
  m_catlog : list mop                   (* every CreateTable / DropTable so far, kept by the rewrite *)
}.
Definition m_init : mstate := {| m_tables := []; m_next_tid := 0; m_rowsets := []; m_dvs := []; m_catlog := [] |}.

Definition pair_eqb (a b : nat * nat) : bool := Nat.eqb (fst a) (fst b) && Nat.eqb (snd a) (snd b).
Definition trip_eqb (a b : nat * nat * nat) : bool := pair_eqb (fst a) (fst b) && Nat.eqb (snd a) (snd b).
Definition has_table (s : mstate) (tid : nat) : bool := existsb (fun t => Nat.eqb (fst t) tid) (m_tables s).
Definition has_name (s : mstate) (name : nat) : bool := existsb (fun t => Nat.eqb (snd t) name) (m_tables s).

(** one operation; [None] = the boot fails (duplicate table name, dropping an unknown table) *)
Definition apply_op (s : mstate) (o : mop) : option mstate :=
  match o with
  | MCreate name =>
      if has_name s name then None else
      Some {| m_tables := m_tables s ++ [(m_next_tid s, name)]; m_next_tid := S (m_next_tid s);
              m_rowsets := m_rowsets s; m_dvs := m_dvs s; m_catlog := m_catlog s ++ [o] |}
  | MDrop tid =>
      if has_table s tid then
        Some {| m_tables := filter (fun t => negb (Nat.eqb (fst t) tid)) (m_tables s); m_next_tid := m_next_tid s;
                m_rowsets := m_rowsets s; m_dvs := m_dvs s; m_catlog := m_catlog s ++ [o] |}
      else None
  | MAddRS tid rsid =>
      Some {| m_tables := m_tables s; m_next_tid := m_next_tid s;
              m_rowsets := filter (fun x => negb (pair_eqb x (tid, rsid))) (m_rowsets s) ++ [(tid, rsid)];
              m_dvs := m_dvs s; m_catlog := m_catlog s |}
  | MDelRS tid rsid =>
      Some {| m_tables := m_tables s; m_next_tid := m_next_tid s;
              m_rowsets := filter (fun x => negb (pair_eqb x (tid, rsid))) (m_rowsets s);
              m_dvs := m_dvs s; m_catlog := m_catlog s |}
  | MAddDV tid dvid rsid =>
      Some {| m_tables := m_tables s; m_next_tid := m_next_tid s; m_rowsets := m_rowsets s;
              m_dvs := filter (fun x => negb (trip_eqb x (tid, dvid, rsid))) (m_dvs s) ++ [(tid, dvid, rsid)];
              m_catlog := m_catlog s |}
  | MDelDV tid dvid rsid =>
      Some {| m_tables := m_tables s; m_next_tid := m_next_tid s; m_rowsets := m_rowsets s;
              m_dvs := filter (fun x => negb (trip_eqb x (tid, dvid, rsid))) (m_dvs s); m_catlog := m_catlog s |}
  end.
Fixpoint apply_ops (s : mstate) (ops : list mop) : option mstate :=
  match ops with
  | [] => Some s
  | o :: r => match apply_op s o with Some s' => apply_ops s' r | None => None end
  end.

(** every live row-set and delete vector must belong to a live table (bootstrap unwraps the table) *)
Definition refs_ok (s : mstate) : bool :=
  forallb (fun x => has_table s (fst x)) (m_rowsets s) && forallb (fun d => has_table s (fst (fst d))) (m_dvs s).

(** SecondaryStorage::bootstrap: replay, apply, check the references *)
Definition bootstrap (l : list rec) : option mstate :=
  match apply_ops m_init (replay l) with
  | Some s => if refs_ok s then Some s else None
  | None => None
  end.
(** ... and the compacted manifest it writes (tmp file + rename): live row-sets, live delete
    vectors, then every catalog operation in order *)
Definition rewrite (s : mstate) : list rec :=
  frame (map (fun x => MAddRS (fst x) (snd x)) (m_rowsets s) ++
         map (fun d => MAddDV (fst (fst d)) (snd (fst d)) (snd d)) (m_dvs s) ++ m_catlog s).
(** the id generators after boot: 1 + the largest id in an AddRowSet / AddDV record of the log *)
Definition next_rs (ops : list mop) : nat :=
  fold_left (fun m o => match o with MAddRS _ r => Nat.max m (S r) | _ => m end) ops 0.
Definition next_dv (ops : list mop) : nat :=
  fold_left (fun m o => match o with MAddDV _ d _ => Nat.max m (S d) | _ => m end) ops 0.

(** ** the running engine: what each statement logs.  The running catalog hands out ids from
       ONE counter to tables, views and indexes; only tables are logged. *)
Inductive stmt :=
| SCreate (name : nat)
| SCreateView                                   (* also CREATE INDEX: takes an id, logs nothing *)
| SDrop (tid : nat)
| SInsert (tid : nat) (rsids : list nat)
| SDelete (tid : nat) (dvs : list (nat * nat))  (* (dv id, row-set id) *)
| SCompact (tid : nat) (chosen : list nat) (new : option nat).

Record rstate := { r_abs : mstate; r_next_id : nat (* the running catalog's counter *); r_log : list rec }.
Definition r_init : rstate := {| r_abs := m_init; r_next_id := 0; r_log := [] |}.

Definition rs_of (s : mstate) (tid : nat) : list nat := map snd (filter (fun x => Nat.eqb (fst x) tid) (m_rowsets s)).
Definition dvs_of_rs (s : mstate) (tid rsid : nat) : list mop :=
  map (fun d => MDelDV tid (snd (fst d)) rsid) (filter (fun d => Nat.eqb (fst (fst d)) tid && Nat.eqb (snd d) rsid) (m_dvs s)).
(** the transaction a statement appends *)
Definition txn_of (s : mstate) (st : stmt) : list mop :=
  match st with
  | SCreate name => [MCreate name]
  | SCreateView => []
  | SDrop tid => MDrop tid :: flat_map (fun r => MDelRS tid r :: dvs_of_rs s tid r) (rs_of s tid)
  | SInsert tid rsids => map (MAddRS tid) rsids
  | SDelete tid dvs => map (fun d => MAddDV tid (fst d) (snd d)) dvs
  | SCompact tid chosen new =>
      (match new with Some n => [MAddRS tid n] | None => [] end) ++
      flat_map (fun r => MDelRS tid r :: dvs_of_rs s tid r) chosen
  end.
(** the running state applies the same operations, except that a created table gets the RUNNING
    counter's id *)
Definition run_create (s : mstate) (id name : nat) : mstate :=
  {| m_tables := m_tables s ++ [(id, name)]; m_next_tid := S id; m_rowsets := m_rowsets s; m_dvs := m_dvs s;
     m_catlog := m_catlog s ++ [MCreate name] |}.
Definition step (r : rstate) (st : stmt) : option rstate :=
  match st with
  | SCreateView => Some {| r_abs := r_abs r; r_next_id := S (r_next_id r); r_log := r_log r |}
  | SCreate name =>
      if has_name (r_abs r) name then None else
      Some {| r_abs := run_create (r_abs r) (r_next_id r) name; r_next_id := S (r_next_id r);
              r_log := r_log r ++ frame (txn_of (r_abs r) st) |}
  | _ =>
      match apply_ops (r_abs r) (txn_of (r_abs r) st) with
      | Some s' => Some {| r_abs := s'; r_next_id := r_next_id r; r_log := r_log r ++ frame (txn_of (r_abs r) st) |}
      | None => None
      end
  end.
Fixpoint run (r : rstate) (h : list stmt) : option rstate :=
  match h with
  | [] => Some r
  | st :: h' => match step r st with Some r' => run r' h' | None => None end
  end.
(** statements that make sense in the state they are issued in *)
Definition stmt_ok (s : mstate) (st : stmt) : bool :=
  match st with
  | SCreate name => negb (has_name s name)
  | SCreateView => true
  | SDrop tid => has_table s tid
  | SInsert tid rsids => has_table s tid
  | SDelete tid dvs => has_table s tid && forallb (fun d => existsb (pair_eqb (tid, snd d)) (m_rowsets s)) dvs
  | SCompact tid chosen new => has_table s tid
  end.
Definition is_view (st : stmt) : bool := match st with SCreateView => true | _ => false end.
(** reopen = shut down (nothing is written), boot from the log, continue on the compacted log *)
Definition reopen (r : rstate) : option rstate :=
  match bootstrap (r_log r) with
  | Some s => Some {| r_abs := s; r_next_id := m_next_tid s; r_log := rewrite s |}
  | None => None
  end.

(** ** crashes (C04): the directory is a set of files, each complete or partially written, and
       the manifest.  A commit writes and fsyncs its new files first, then appends its
       transaction (write-ahead ordering of SecondaryTransaction::commit_inner / the compactor). *)
Inductive fid := FRs (tid rsid : nat) | FDv (tid dvid rsid : nat).
Definition fid_eqb (a b : fid) : bool :=
  match a, b with
  | FRs t r, FRs t' r' => Nat.eqb t t' && Nat.eqb r r'
  | FDv t d r, FDv t' d' r' => Nat.eqb t t' && Nat.eqb d d' && Nat.eqb r r'
  | _, _ => false
  end.
Record disk := { dk_files : list (fid * bool) (* file, complete? *); dk_log : list rec }.
Definition files_of_txn (t : list mop) : list fid :=
  flat_map (fun o => match o with MAddRS t r => [FRs t r] | MAddDV t d r => [FDv t d r] | _ => [] end) t.
Definition refs_of (s : mstate) : list fid :=
  map (fun x => FRs (fst x) (snd x)) (m_rowsets s) ++ map (fun d => FDv (fst (fst d)) (snd (fst d)) (snd d)) (m_dvs s).
Definition complete (d : disk) (f : fid) : bool := existsb (fun x => fid_eqb (fst x) f && snd x) (dk_files d).
(** recovery = boot; opening a referenced file that is missing or incomplete fails *)
Definition recover (d : disk) : option mstate :=
  match bootstrap (dk_log d) with
  | Some s => if forallb (complete d) (refs_of s) then Some s else None
  | None => None
  end.
(** the states a crash can leave while transaction [t] is being committed on [d]:
    [k] of its files are complete, possibly one more is partial; or all files are complete and the
    manifest holds a torn prefix of the transaction; or everything is there *)
Definition add_files (d : disk) (fs : list (fid * bool)) : disk := {| dk_files := dk_files d ++ fs; dk_log := dk_log d |}.
Definition crash_states (d : disk) (t : list mop) : list disk :=
  let fs := files_of_txn t in
  flat_map (fun k => [add_files d (map (fun f => (f, true)) (firstn k fs));
                      add_files d (map (fun f => (f, true)) (firstn k fs) ++ map (fun f => (f, false)) (firstn 1 (skipn k fs)))])
           (seq 0 (S (length fs))) ++
  map (fun p => {| dk_files := dk_files d ++ map (fun f => (f, true)) fs; dk_log := dk_log d ++ p |})
      (flat_map (fun k => [firstn k (frame t); firstn k (frame t) ++ [RTorn]]) (seq 0 (length (frame t)))).
Definition committed_state (d : disk) (t : list mop) : disk :=
  {| dk_files := dk_files d ++ map (fun f => (f, true)) (files_of_txn t); dk_log := dk_log d ++ frame t |}.
