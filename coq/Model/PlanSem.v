(** * A denotational bag semantics for the optimiser's PLAN rewrite rules (src/planner/rules/plan.rs).
    Rows are association lists from column ids to values: expressions of the optimiser's language
    refer to columns by name ($t.c) whatever the position, so a condition written above a join
    and the same condition pushed below it read the same columns.  The pattern variables of a rule
    are bound to semantic objects directly: ?child / ?left / ?right to a relation (schema + list
    of rows), ?cond / ?on / ?limit to an expression (the columns it mentions + a function from rows
    to values), ?keys to a list of order keys, ?type to a join-type keyword.  [ppev] gives the
    meaning of a pattern under such a binding; it is defined only where the plan can be built:
    every expression mentions only columns of the schema it is evaluated on (the executor resolves
    column references in the child's schema, C17), the two sides of a join have disjoint schemas.
    Modelled operators: filter, empty, limit, order, topn, window with no function, the nested
    loop join of all six types, the hash join, the conjunction and the equality of expressions; anything else has no meaning here ([None]) and rules mentioning it
    get no obligation.  No proofs in this file. *)
From RL Require Export Model.Exec.
From RL Require Model.Plan.
From Coq Require Export String Ascii Permutation.
Open Scope string_scope.
Open Scope list_scope.

Definition arow := list (nat * dv).
Fixpoint lookup (c : nat) (r : arow) : dv :=
  match r with
  | [] => DNull
  | (k, v) :: r' => if Nat.eqb k c then v else lookup c r'
  end.

Inductive sem :=
| MRel (cols : list nat) (rows : list arow)
| MExpr (sup : list nat) (f : arow -> dv)     (* the columns the expression mentions, its value on a row *)
| MKeys (ks : list (list nat * (arow -> dv) * bool))     (* order keys: columns, expression, descending? *)
| MLit (s : string)
| MList (l : list sem).

(** ** expressions *)
Definition holdsf (f : arow -> dv) (r : arow) : bool := match f r with DBool true => true | _ => false end.
Definition and3f (f g : arow -> dv) : arow -> dv :=
  fun r => match f r, g r with
           | DBool false, _ | _, DBool false => DBool false
           | DBool true, DBool true => DBool true
           | _, _ => DNull
           end.
(** [=]: NULL when either side is, numbers of different widths compared by value (array/ops.rs cmp!) *)
Definition eq3f (f g : arow -> dv) : arow -> dv :=
  fun r => cmp3 (fun c => match c with Eq => true | _ => false end) (f r) (g r).
Definition digit_of (c : ascii) : option Z :=
  match c with
  | "0"%char => Some 0%Z | "1"%char => Some 1%Z | "2"%char => Some 2%Z | "3"%char => Some 3%Z | "4"%char => Some 4%Z
  | "5"%char => Some 5%Z | "6"%char => Some 6%Z | "7"%char => Some 7%Z | "8"%char => Some 8%Z | "9"%char => Some 9%Z
  | _ => None
  end.
Fixpoint digitsz (s : string) (acc : Z) : option Z :=
  match s with
  | EmptyString => Some acc
  | String c r => match digit_of c with Some d => digitsz r (acc * 10 + d)%Z | None => None end
  end.
Definition is_pvar (s : string) : bool := match s with String "?"%char _ => true | _ => false end.
Definition join_kw (s : string) : bool :=
  String.eqb s "inner" || String.eqb s "left_outer" || String.eqb s "right_outer" || String.eqb s "full_outer"
  || String.eqb s "semi" || String.eqb s "anti".
Definition atom_sem (s : string) : option sem :=
  if String.eqb s "true" then Some (MExpr [] (fun _ => DBool true))
  else if String.eqb s "false" then Some (MExpr [] (fun _ => DBool false))
  else if String.eqb s "null" then Some (MExpr [] (fun _ => DNull))
  else if join_kw s then Some (MLit s)
  else match s with
       | EmptyString => None
       | _ => match digitsz s 0 with Some z => Some (MExpr [] (fun _ => DI32 z)) | None => None end
       end.

(** ** LIMIT / OFFSET: constant expressions; NULL limit = none *)
Definition as_count (f : arow -> dv) : option (option nat) :=
  match f [] with
  | DNull => Some None
  | DI16 z | DI32 z | DI64 z => if (0 <=? z)%Z then Some (Some (Z.to_nat z)) else None
  | _ => None
  end.
Definition limit_rows {A} (lim : option nat) (off : nat) (rows : list A) : list A :=
  match lim with Some n => firstn n (skipn off rows) | None => skipn off rows end.

(** ** ORDER BY: stable insertion sort on the key order of src/executor/order.rs *)
Definition okey := (list nat * (arow -> dv) * bool)%type.
Definition key_le (ks : list okey) (a b : arow) : bool :=
  match ord_cmp (map snd ks) (map (fun k => snd (fst k) a) ks) (map (fun k => snd (fst k) b) ks) with Gt => false | _ => true end.
Fixpoint insert_by {A} (le : A -> A -> bool) (x : A) (l : list A) : list A :=
  match l with
  | [] => [x]
  | y :: l' => if le x y then x :: l else y :: insert_by le x l'
  end.
Definition sort_by {A} (le : A -> A -> bool) (l : list A) : list A := fold_right (insert_by le) [] l.
Definition keys_of_sem (s : sem) : option (list okey) :=
  match s with MKeys ks => Some ks | MList [] => Some [] | _ => None end.

(** ** scoping *)
Definition memb (c : nat) (l : list nat) : bool := existsb (Nat.eqb c) l.
Definition inclb (a b : list nat) : bool := forallb (fun c => memb c b) a.
Definition disjb (a b : list nat) : bool := forallb (fun c => negb (memb c b)) a.

(** ** joins (logical nested loop) *)
Definition nulls_for (cols : list nat) : arow := map (fun c => (c, DNull)) cols.
Definition matches (on : arow -> dv) (l : arow) (R : list arow) : list arow := filter (holdsf on) (map (fun r => l ++ r) R).
Definition rmatches (on : arow -> dv) (L : list arow) (r : arow) : list arow := filter (holdsf on) (map (fun l => l ++ r) L).
Definition left_rows (on : arow -> dv) (rc : list nat) (L R : list arow) : list arow :=
  flat_map (fun l => match matches on l R with [] => [l ++ nulls_for rc] | m => m end) L.
Definition join_sem (ty : string) (on : arow -> dv) (lc rc : list nat) (L R : list arow) : option sem :=
  if String.eqb ty "inner" then Some (MRel (lc ++ rc) (flat_map (fun l => matches on l R) L))
  else if String.eqb ty "left_outer" then Some (MRel (lc ++ rc) (left_rows on rc L R))
  else if String.eqb ty "right_outer" then
    Some (MRel (lc ++ rc) (flat_map (fun r => match rmatches on L r with [] => [nulls_for lc ++ r] | m => m end) R))
  else if String.eqb ty "full_outer" then
    Some (MRel (lc ++ rc) (left_rows on rc L R ++
                           flat_map (fun r => match rmatches on L r with [] => [nulls_for lc ++ r] | _ => [] end) R))
  else if String.eqb ty "semi" then Some (MRel lc (filter (fun l => existsb (fun r => holdsf on (l ++ r)) R) L))
  else if String.eqb ty "anti" then Some (MRel lc (filter (fun l => negb (existsb (fun r => holdsf on (l ++ r)) R)) L))
  else None.

(** ** hash join: every left key is evaluated on the LEFT row alone, every right key on the RIGHT row alone
       ([restrict]: the part of the joined row that comes from that input); a pair matches when no key is NULL and
       the keys are equal as DataValues after the cast of mixed integer widths to the wider one done by
       executor::build ([wide], see Model/Exec.v [wide_keys]); a residual condition is evaluated on the joined row.
       HashJoinExecutor takes no residual condition (build asserts that it is the literal true); the semi / anti
       variants do. *)
Definition restrict (cols : list nat) (r : arow) : arow := filter (fun kv => memb (fst kv) cols) r.
Definition key_match1 (a b : dv) : bool := negb (is_null a) && negb (is_null b) && dv_eqb (wide a) (wide b).
Definition kexpr := (list nat * (arow -> dv))%type.
Fixpoint keys_matchb (lk rk : list kexpr) (l r : arow) : bool :=
  match lk, rk with
  | [], [] => true
  | a :: lk', b :: rk' => key_match1 (snd a l) (snd b r) && keys_matchb lk' rk' l r
  | _, _ => false
  end.
Definition hash_on (lc rc : list nat) (lk rk : list kexpr) (on : arow -> dv) : arow -> dv :=
  and3f (fun x => DBool (keys_matchb lk rk (restrict lc x) (restrict rc x))) on.
Definition is_true_const (s : list nat) (f : arow -> dv) : bool :=
  match s with [] => match f [] with DBool true => true | _ => false end | _ => false end.
Definition takes_residual (ty : string) : bool := String.eqb ty "semi" || String.eqb ty "anti".

(** ** the meaning of an operator applied to the meanings of its arguments; [None] where the plan
       cannot be built (an expression mentions a column its input does not have) *)
Definition keys_in (ks : list okey) (c : list nat) : bool := forallb (fun k => inclb (fst (fst k)) c) ks.
(** projection: the output columns are numbered by position (the semantics is used for the equivalence of
    two plans under the same projection, not for what stands above it) *)
Fixpoint exprs_of (l : list sem) : option (list (list nat * (arow -> dv))) :=
  match l with
  | [] => Some []
  | MExpr s f :: r => match exprs_of r with Some t => Some ((s, f) :: t) | None => None end
  | _ => None
  end.
Definition proj_row (es : list (list nat * (arow -> dv))) (r : arow) : arow :=
  combine (seq 0 (List.length es)) (map (fun e => snd e r) es).
Definition op_sem (op : string) (vs : list sem) : option sem :=
  if String.eqb op "list" then Some (MList vs)
  else if String.eqb op "proj" then
    match vs with
    | [MList es; MRel c rows] =>
        match exprs_of es with
        | Some fs => if forallb (fun e => inclb (fst e) c) fs then Some (MRel (seq 0 (List.length fs)) (map (proj_row fs) rows)) else None
        | None => None
        end
    | _ => None
    end
  else if String.eqb op "hashjoin" then
    match vs with
    | [MLit ty; MExpr s on; MList lks; MList rks; MRel lc L; MRel rc R] =>
        match exprs_of lks, exprs_of rks with
        | Some lk, Some rk =>
            if Nat.eqb (List.length lk) (List.length rk)
               && forallb (fun e => inclb (fst e) lc) lk && forallb (fun e => inclb (fst e) rc) rk
               && inclb s (lc ++ rc) && disjb lc rc && (takes_residual ty || is_true_const s on)
            then join_sem ty (hash_on lc rc lk rk on) lc rc L R else None
        | _, _ => None
        end
    | _ => None
    end
  else match vs with
  | [MExpr s f; MExpr t g] =>
      if String.eqb op "and" then Some (MExpr (s ++ t) (and3f f g))
      else if String.eqb op "=" then Some (MExpr (s ++ t) (eq3f f g)) else None
  | [MRel c _] => if String.eqb op "empty" then Some (MRel c []) else None
  | [MExpr s f; MRel c rows] =>
      if String.eqb op "filter" then if inclb s c then Some (MRel c (filter (holdsf f) rows)) else None else None
  | [MList []; MRel c rows] =>
      if String.eqb op "order" then Some (MRel c (sort_by (key_le []) rows))
      else if String.eqb op "window" then Some (MRel c rows) else None
  | [MKeys ks; MRel c rows] =>
      if String.eqb op "order" then if keys_in ks c then Some (MRel c (sort_by (key_le ks) rows)) else None else None
  | [MExpr _ lim; MExpr _ off; MRel c rows] =>
      if String.eqb op "limit" then
        match as_count lim, as_count off with
        | Some l, Some (Some o) => Some (MRel c (limit_rows l o rows))
        | _, _ => None
        end
      else None
  | [MExpr _ lim; MExpr _ off; ks; MRel c rows] =>
      if String.eqb op "topn" then
        match as_count lim, as_count off, keys_of_sem ks with
        | Some l, Some (Some o), Some k => if keys_in k c then Some (MRel c (limit_rows l o (sort_by (key_le k) rows))) else None
        | _, _, _ => None
        end
      else None
  | [MLit ty; MExpr s on; MRel lc L; MRel rc R] =>
      if String.eqb op "join" then if inclb s (lc ++ rc) && disjb lc rc then join_sem ty on lc rc L R else None else None
  | _ => None
  end.

Fixpoint all_some {A} (l : list (option A)) : option (list A) :=
  match l with
  | [] => Some []
  | Some x :: r => match all_some r with Some t => Some (x :: t) | None => None end
  | None :: _ => None
  end.

(** the meaning of a pattern instance *)
Fixpoint ppev (env : string -> sem) (e : Plan.sx) {struct e} : option sem :=
  match e with
  | Plan.A s => if is_pvar s then Some (env s) else atom_sem s
  | Plan.N op args =>
      match all_some ((fix go (l : list Plan.sx) : list (option sem) :=
                         match l with [] => [] | x :: r => ppev env x :: go r end) args) with
      | Some vs => op_sem op vs
      | None => None
      end
  end.

(** ** well-formed bindings *)
(** an expression reads a row only through lookups of the columns it mentions *)
Definition reads_only (sup : list nat) (f : arow -> dv) : Prop :=
  forall r r', (forall c, In c sup -> lookup c r = lookup c r') -> f r = f r'.
Definition wf_rel (cols : list nat) (rows : list arow) : Prop := Forall (fun r => map fst r = cols) rows.
Definition wf_sem (s : sem) : Prop :=
  match s with
  | MRel c rows => wf_rel c rows
  | MExpr sup f => reads_only sup f
  | MKeys ks => Forall (fun k => reads_only (fst (fst k)) (snd (fst k))) ks
  | MList l => (fix all (l : list sem) : Prop :=
                  match l with
                  | [] => True
                  | MExpr sup f :: r => reads_only sup f /\ all r
                  | _ :: r => all r
                  end) l
  | _ => True
  end.
Definition env_ok (env : string -> sem) : Prop := forall v, wf_sem (env v).

(** side conditions of plan rules *)
Inductive pcond :=
| PNotDependOn (e p : string).       (* not_depend_on(e, p): no column produced by plan p is used by e *)
Definition pholds (env : string -> sem) (c : pcond) : Prop :=
  match c with
  | PNotDependOn e p =>
      match env e, env p with
      | MExpr sup _, MRel cols _ => disjb sup cols = true
      | _, _ => False
      end
  end.

Record prule := mk_prule { pr_name : string; pr_lhs : Plan.sx; pr_rhs : Plan.sx; pr_conds : list pcond }.

(** two plans are equivalent when they have the same schema and return the same bag of rows *)
Definition sem_equiv (a b : sem) : Prop :=
  match a, b with
  | MRel c rows, MRel c' rows' => c = c' /\ Permutation rows rows'
  | _, _ => False
  end.
Definition psound (r : prule) : Prop :=
  forall env, env_ok env -> Forall (pholds env) (pr_conds r) ->
  forall x y, ppev env (pr_lhs r) = Some x -> ppev env (pr_rhs r) = Some y -> sem_equiv x y.
(** a rewrite keeps a buildable plan buildable: whenever the left-hand side has a meaning, so has the right-hand side *)
Definition pbuildable (r : prule) : Prop :=
  forall env, env_ok env -> Forall (pholds env) (pr_conds r) ->
  forall x, ppev env (pr_lhs r) = Some x -> exists y, ppev env (pr_rhs r) = Some y.
(** a counterexample: a well-formed binding satisfying the conditions on which the two sides return
    different numbers of rows *)
Definition rows_of_sem (s : sem) : list arow := match s with MRel _ rows => rows | _ => [] end.
Definition prefuted (r : prule) : Prop :=
  exists env, env_ok env /\ Forall (pholds env) (pr_conds r) /\
  exists x y, ppev env (pr_lhs r) = Some x /\ ppev env (pr_rhs r) = Some y /\
              List.length (rows_of_sem x) <> List.length (rows_of_sem y).
