(** * CSV as COPY TO / COPY FROM use it (src/executor/copy_{to,from}_file.rs with the csv crate):
    the writer quotes a field when it has to and doubles quotes inside; the reader is the usual
    four-state automaton.  Bytes are numbers; [d] is the delimiter, [q] the quote.  No proofs here. *)
From Coq Require Export List ZArith Bool.
Export ListNotations.
Open Scope Z_scope.

Section Csv.
  Variables d q : Z.
  Definition special (c : Z) : bool := Z.eqb c d || Z.eqb c q || Z.eqb c 10 || Z.eqb c 13.
  Definition needs_quote (f : list Z) : bool := existsb special f.
  Fixpoint esc (f : list Z) : list Z :=
    match f with [] => [] | c :: r => if Z.eqb c q then q :: q :: esc r else c :: esc r end.
  Definition write_field (f : list Z) : list Z := if needs_quote f then q :: esc f ++ [q] else f.
  Fixpoint write_fields (fs : list (list Z)) : list Z :=
    match fs with
    | [] => [10]
    | [f] => write_field f ++ [10]
    | f :: r => write_field f ++ d :: write_fields r
    end.
  (** a record that is one empty field is written as a pair of quotes (an empty line would be skipped) *)
  Definition write_record (fs : list (list Z)) : list Z :=
    match fs with [[]] => [q; q; 10] | _ => write_fields fs end.
  Definition write_file (recs : list (list (list Z))) : list Z := concat (map write_record recs).

  Inductive pst := PStart | PUnq | PQ | PQQ.
  Definition is_nl (c : Z) : bool := Z.eqb c 10 || Z.eqb c 13.
  (** [cur]: the field being read; [fs]: the fields of the current record so far; [acc]: the records so far *)
  Fixpoint parse_go (st : pst) (cur : list Z) (fs : list (list Z)) (acc : list (list (list Z))) (inp : list Z) : list (list (list Z)) :=
    match inp with
    | [] => match st, fs with
            | PStart, [] => acc
            | _, _ => acc ++ [fs ++ [cur]]
            end
    | c :: r =>
        match st with
        | PStart =>
            if Z.eqb c q then parse_go PQ [] fs acc r
            else if Z.eqb c d then parse_go PStart [] (fs ++ [[]]) acc r
            else if is_nl c then match fs with [] => parse_go PStart [] [] acc r | _ => parse_go PStart [] [] (acc ++ [fs ++ [[]]]) r end
            else parse_go PUnq [c] fs acc r
        | PUnq =>
            if Z.eqb c d then parse_go PStart [] (fs ++ [cur]) acc r
            else if is_nl c then parse_go PStart [] [] (acc ++ [fs ++ [cur]]) r
            else parse_go PUnq (cur ++ [c]) fs acc r
        | PQ => if Z.eqb c q then parse_go PQQ cur fs acc r else parse_go PQ (cur ++ [c]) fs acc r
        | PQQ =>
            if Z.eqb c q then parse_go PQ (cur ++ [q]) fs acc r
            else if Z.eqb c d then parse_go PStart [] (fs ++ [cur]) acc r
            else if is_nl c then parse_go PStart [] [] (acc ++ [fs ++ [cur]]) r
            else parse_go PUnq (cur ++ [c]) fs acc r
        end
    end.
  Definition parse (inp : list Z) : list (list (list Z)) := parse_go PStart [] [] [] inp.
End Csv.

(** ** cells: NULL and text.  COPY TO writes a NULL cell as the text [NULL]; COPY FROM reads an
       empty field as NULL (DataChunkBuilder::push_str_row) *)
Definition null_text : list Z := [78; 85; 76; 76].
Definition cell_out (c : option (list Z)) : list Z := match c with None => null_text | Some s => s end.
Definition cell_in (s : list Z) : option (list Z) := match s with [] => None | _ => Some s end.
(** a table of text cells through COPY TO then COPY FROM *)
Definition copy_roundtrip (d q : Z) (rows : list (list (option (list Z)))) : list (list (option (list Z))) :=
  map (map cell_in) (parse d q (write_file d q (map (map cell_out) rows))).
