(** * Expression rewrite rules of the optimiser (src/planner/rules/expr.rs) as data, and their
    meaning under SQL's three-valued logic.  A rule is a pair of patterns over the optimiser's
    term language (Model/Plan.v [sx]: "?a" is a pattern variable) with side conditions on the
    constant analysis.  No proofs in this file. *)
From RL Require Export Model.Plan.
From Coq Require Export ZArith.
Open Scope Z_scope.

Inductive val := VNull | VBool (b : bool) | VInt (z : Z).

Definition arith (f : Z -> Z -> Z) (a b : val) : option val :=
  match a, b with
  | VNull, VNull | VNull, VInt _ | VInt _, VNull => Some VNull
  | VInt x, VInt y => Some (VInt (f x y))
  | _, _ => None
  end.
(** division and remainder: NULL where the divisor is zero (src/array/ops.rs div / rem) *)
Definition divop (f : Z -> Z -> Z) (a b : val) : option val :=
  match a, b with
  | VNull, VNull | VNull, VInt _ | VInt _, VNull => Some VNull
  | VInt x, VInt y => Some (if Z.eqb y 0 then VNull else VInt (f x y))
  | _, _ => None
  end.
Definition cmpop (f : Z -> Z -> bool) (a b : val) : option val :=
  match a, b with
  | VNull, VNull | VNull, VInt _ | VNull, VBool _ | VInt _, VNull | VBool _, VNull => Some VNull
  | VInt x, VInt y => Some (VBool (f x y))
  | VBool x, VBool y => Some (VBool (f (Z.b2z x) (Z.b2z y)))
  | _, _ => None
  end.
Definition and3 (a b : val) : option val :=
  match a, b with
  | VBool false, VBool _ | VBool false, VNull | VBool true, VBool false | VNull, VBool false => Some (VBool false)
  | VBool true, VBool true => Some (VBool true)
  | VBool true, VNull | VNull, VBool true | VNull, VNull => Some VNull
  | _, _ => None
  end.
Definition or3 (a b : val) : option val :=
  match a, b with
  | VBool true, VBool _ | VBool true, VNull | VBool false, VBool true | VNull, VBool true => Some (VBool true)
  | VBool false, VBool false => Some (VBool false)
  | VBool false, VNull | VNull, VBool false | VNull, VNull => Some VNull
  | _, _ => None
  end.
Definition not3 (a : val) : option val := match a with VNull => Some VNull | VBool b => Some (VBool (negb b)) | _ => None end.
Definition neg (a : val) : option val := match a with VNull => Some VNull | VInt z => Some (VInt (- z)) | _ => None end.
Definition if3 (c t e : val) : option val :=
  match c with VBool true => Some t | VBool false | VNull => Some e | _ => None end.
Definition bind {A B} (x : option A) (f : A -> option B) : option B := match x with Some a => f a | None => None end.

(** integer literals of patterns *)
Fixpoint digits (s : string) (acc : Z) : option Z :=
  match s with
  | EmptyString => Some acc
  | String c r => let n := Z.of_nat (nat_of_ascii c) in if (48 <=? n) && (n <=? 57) then digits r (acc * 10 + (n - 48)) else None
  end.
Definition literal (s : string) : option val :=
  if String.eqb s "true" then Some (VBool true) else if String.eqb s "false" then Some (VBool false)
  else if String.eqb s "null" then Some VNull
  else match s with
       | String "-"%char (String c r) => match digits (String c r) 0 with Some z => Some (VInt (- z)) | None => None end
       | String _ _ => match digits s 0 with Some z => Some (VInt z) | None => None end
       | EmptyString => None
       end.
Definition is_pvar (s : string) : bool := match s with String "?"%char _ => true | _ => false end.

(** evaluation of a pattern instance: [env] gives the value of the sub-expression bound to each variable *)
Fixpoint pev (env : string -> val) (e : sx) {struct e} : option val :=
  match e with
  | Plan.A s => if is_pvar s then Some (env s) else literal s
  | Plan.N op args =>
      let vs := (fix go (l : list sx) : list (option val) := match l with [] => [] | x :: r => pev env x :: go r end) args in
      match vs with
      | [Some a; Some b] =>
          if String.eqb op "+" then arith Z.add a b else if String.eqb op "-" then arith Z.sub a b
          else if String.eqb op "*" then arith Z.mul a b
          else if String.eqb op "/" then divop Z.quot a b else if String.eqb op "%" then divop Z.rem a b
          else if String.eqb op "=" then cmpop Z.eqb a b else if String.eqb op "<>" then cmpop (fun x y => negb (Z.eqb x y)) a b
          else if String.eqb op ">" then cmpop Z.gtb a b else if String.eqb op "<" then cmpop Z.ltb a b
          else if String.eqb op ">=" then cmpop Z.geb a b else if String.eqb op "<=" then cmpop Z.leb a b
          else if String.eqb op "and" then and3 a b else if String.eqb op "or" then or3 a b
          else None
      | [Some a] => if String.eqb op "-" then neg a else if String.eqb op "not" then not3 a
                    else if String.eqb op "isnull" then Some (VBool (match a with VNull => true | _ => false end)) else None
      | [Some c; Some t; Some e'] => if String.eqb op "if" then if3 c t e' else None
      | _ => None
      end
  end.

(** side conditions (expr.rs value_is / value_cmp on the constant analysis) *)
Inductive cond :=
| CNotZero (v : string)
| CCmp (rel : Z -> Z -> bool) (a b : string).       (* both constants of the same kind, related *)
Definition holds (env : string -> val) (c : cond) : Prop :=
  match c with
  | CNotZero v => env v <> VInt 0
  | CCmp rel a b =>
      match env a, env b with
      | VInt x, VInt y => rel x y = true
      | VBool x, VBool y => rel (Z.b2z x) (Z.b2z y) = true
      | VNull, VNull => rel 0 0 = true
      | _, _ => False
      end
  end.
Record rule := mk_rule { r_name : string; r_lhs : sx; r_rhs : sx; r_conds : list cond }.

(** a rule is sound (modulo evaluation errors / ill-typed instances) when, for every instantiation
    that satisfies its conditions, both sides evaluate to the same value whenever both evaluate *)
Definition sound (r : rule) : Prop :=
  forall env, Forall (holds env) (r_conds r) -> forall x y, pev env (r_lhs r) = Some x -> pev env (r_rhs r) = Some y -> x = y.
(** a counterexample: an instantiation satisfying the conditions on which the two sides differ *)
Definition refuted (r : rule) : Prop :=
  exists env, Forall (holds env) (r_conds r) /\ exists x y, pev env (r_lhs r) = Some x /\ pev env (r_rhs r) = Some y /\ x <> y.
