(** * Byte-level encoders used by the secondary storage engine
    (src/storage/secondary/encode.rs, bytes::BufMut put_*_le / put_* ).
    Bytes and values are [Z]; lengths are [nat].  No proofs in this file. *)
From Coq Require Export List ZArith Bool.
Export ListNotations.
Open Scope Z_scope.

(** little-endian unsigned, [w] bytes *)
Fixpoint ule_enc (w : nat) (n : Z) : list Z :=
  match w with
  | O => []
  | S w' => (n mod 256) :: ule_enc w' (n / 256)
  end.

Fixpoint ule_dec (bs : list Z) : Z :=
  match bs with
  | [] => 0
  | b :: r => b + 256 * ule_dec r
  end.

Definition bits_of (w : nat) : Z := 8 * Z.of_nat w.

(** two's complement *)
Definition wrap_s (w : nat) (u : Z) : Z :=
  if u <? 2 ^ (bits_of w - 1) then u else u - 2 ^ bits_of w.

Definition sle_enc (w : nat) (z : Z) : list Z := ule_enc w (z mod 2 ^ bits_of w).
Definition sle_dec (w : nat) (bs : list Z) : Z := wrap_s w (ule_dec (firstn w bs)).
(** big-endian (put_i32 / put_i64 / put_u64 without _le) *)
Definition sbe_enc (w : nat) (z : Z) : list Z := rev (sle_enc w z).
Definition sbe_dec (w : nat) (bs : list Z) : Z := sle_dec w (rev (firstn w bs)).
Definition ube_enc (w : nat) (n : Z) : list Z := rev (ule_enc w n).
Definition ube_dec (w : nat) (bs : list Z) : Z := ule_dec (rev (firstn w bs)).

Definition in_range (w : nat) (z : Z) : Prop :=
  - 2 ^ (bits_of w - 1) <= z < 2 ^ (bits_of w - 1).
Definition in_range_b (w : nat) (z : Z) : bool :=
  (- 2 ^ (bits_of w - 1) <=? z) && (z <? 2 ^ (bits_of w - 1)).

(** ** prost-style varint of a u32 (rle_block_builder.rs: encode_32 / decode_u32_slice) *)
Fixpoint varint_enc_fuel (fuel : nat) (v : Z) : list Z :=
  match fuel with
  | O => []
  | S f => if v <? 128 then [v] else (v mod 128 + 128) :: varint_enc_fuel f (v / 128)
  end.
Definition varint_enc (v : Z) : list Z := varint_enc_fuel 5 v.

(** decode one varint: [Some (value, bytes consumed)], or [None] = "invalid varint".
    [pos] is the index of the byte (0..4); the fifth byte must be < 0x0f. *)
Fixpoint varint_dec_at (pos fuel : nat) (bs : list Z) : option (Z * nat) :=
  match fuel, bs with
  | S f, b :: r =>
      if Nat.eqb pos 4 then (if b <? 15 then Some (b, 1%nat) else None)
      else if b <? 128 then Some (b, 1%nat)
      else match varint_dec_at (S pos) f r with
           | Some (v, n) => Some (b - 128 + 128 * v, S n)
           | None => None
           end
  | _, _ => None
  end.
Definition varint_dec (bs : list Z) : option (Z * nat) := varint_dec_at 0 5 bs.

(** decode_u32: all varints of a buffer (fuel = its length) *)
Fixpoint varints_dec (fuel : nat) (bs : list Z) : option (list Z) :=
  match bs with
  | [] => Some []
  | _ => match fuel with
         | O => None
         | S f => match varint_dec bs with
                  | None => None
                  | Some (v, n) => match varints_dec f (skipn n bs) with
                                   | Some vs => Some (v :: vs)
                                   | None => None
                                   end
                  end
         end
  end.

(** ** bitmaps: BitVec<u8, Lsb0>::as_raw_slice *)
Definition b2z (b : bool) : Z := if b then 1 else 0.
Fixpoint byte_of_bits (bs : list bool) : Z :=
  match bs with
  | [] => 0
  | b :: r => b2z b + 2 * byte_of_bits r
  end.
Fixpoint pack_bits (bs : list bool) : list Z :=
  match bs with
  | b0 :: b1 :: b2 :: b3 :: b4 :: b5 :: b6 :: b7 :: r =>
      byte_of_bits [b0; b1; b2; b3; b4; b5; b6; b7] :: pack_bits r
  | [] => []
  | l => [byte_of_bits l]
  end.
Definition bits8 (b : Z) : list bool :=
  [Z.testbit b 0; Z.testbit b 1; Z.testbit b 2; Z.testbit b 3;
   Z.testbit b 4; Z.testbit b 5; Z.testbit b 6; Z.testbit b 7].
Fixpoint unpack_bits (n : nat) (bytes : list Z) : list bool :=
  match bytes with
  | [] => []
  | b :: r => firstn n (bits8 b) ++ unpack_bits (n - 8) r
  end.
