(** * Static types (src/planner/rules/type_.rs analyze_type) against the array variants the
    kernels return (src/array/ops.rs), and the conversion an INSERT applies (src/executor/insert.rs,
    ArrayImpl::cast) on the integer family.  No proofs in this file. *)
From Coq Require Export List ZArith Bool.
Export ListNotations.
Open Scope Z_scope.

(** DataType, in the order of its derive(Ord) (which analyze_type relies on); DECIMAL precision and
    scale are not part of the array variant and are left out *)
Inductive dty := DNull | DBool | DI16 | DI32 | DI64 | DF64 | DDec | DDate | DTs | DTsTz | DIv | DStr | DBlob.
Definition all_dty := [DNull; DBool; DI16; DI32; DI64; DF64; DDec; DDate; DTs; DTsTz; DIv; DStr; DBlob].
Definition rank (t : dty) : nat :=
  match t with DNull => 0 | DBool => 1 | DI16 => 2 | DI32 => 3 | DI64 => 4 | DF64 => 5 | DDec => 6 | DDate => 7
             | DTs => 8 | DTsTz => 9 | DIv => 10 | DStr => 11 | DBlob => 12 end%nat.
Definition dty_eqb (a b : dty) : bool := Nat.eqb (rank a) (rank b).
Definition is_number (t : dty) : bool := match t with DI16 | DI32 | DI64 | DF64 | DDec => true | _ => false end.

Inductive bop := BAdd | BSub | BMul | BDiv | BMod | BCmp | BAnd | BOr | BConcat | BLike.
Definition all_bop := [BAdd; BSub; BMul; BDiv; BMod; BCmp; BAnd; BOr; BConcat; BLike].
Definition is_arith (o : bop) : bool := match o with BAdd | BSub | BMul | BDiv | BMod => true | _ => false end.

(** analyze_type *)
Definition static_bin (o : bop) (a b : dty) : option dty :=
  match o with
  | BAdd | BSub | BMul | BDiv | BMod =>
      let '(lo, hi) := if Nat.ltb (rank b) (rank a) then (b, a) else (a, b) in
      match lo, hi with
      | DNull, _ => Some DNull
      | DDate, DIv => Some DDate
      | _, _ => if is_number lo && is_number hi then Some hi else None
      end
  | BCmp =>
      if is_number a && is_number b || dty_eqb a b || dty_eqb a DStr || dty_eqb b DStr || dty_eqb a DNull || dty_eqb b DNull
      then Some DBool else None
  | BAnd | BOr =>
      if (dty_eqb a DBool || dty_eqb a DNull) && (dty_eqb b DBool || dty_eqb b DNull) then Some DBool else None
  | BConcat => if dty_eqb a DStr && dty_eqb b DStr then Some DStr else None
  | BLike => if dty_eqb a DStr && dty_eqb b DStr then Some DBool else None
  end.

(** the kernels: the variant of the array a binary kernel returns on arrays of the given variants;
    [None] = ConvertError::NoBinaryOp (the statement fails) *)
Definition runtime_bin (o : bop) (a b : dty) : option dty :=
  match o with
  | BAdd | BSub | BMul | BDiv | BMod =>
      match a, b with
      | DDate, DIv => match o with BAdd | BSub => Some DDate | _ => None end   (* Date * / % Interval panics in the task: the statement fails *)
      | _, _ => if is_number a && is_number b then Some (if Nat.ltb (rank a) (rank b) then b else a) else None
      end
  | BCmp =>
      (* the cmp! macro has arms for the numbers, BOOLEAN, VARCHAR and DATE only *)
      if is_number a && is_number b then Some DBool
      else if dty_eqb a b && (dty_eqb a DBool || dty_eqb a DStr || dty_eqb a DDate) then Some DBool else None
  | BAnd | BOr => if dty_eqb a DBool && dty_eqb b DBool then Some DBool else None
  | BConcat => if dty_eqb a DStr && dty_eqb b DStr then Some DStr else None
  | BLike => None        (* the pattern operand is a COLUMN here: the evaluator only accepts a constant pattern (the task panics) *)
  end.

(** ** INSERT into an integer / string column (the integer family of ArrayImpl::cast) *)
Inductive val := VNull | VInt (t : dty) (z : Z) | VStr (s : list Z) | VBool (b : bool).
Definition bits (t : dty) : option Z := match t with DI16 => Some 16 | DI32 => Some 32 | DI64 => Some 64 | _ => None end.
Definition fits (w z : Z) : bool := (- 2 ^ (w - 1) <=? z) && (z <? 2 ^ (w - 1)).
Definition tyof (v : val) : dty := match v with VNull => DNull | VInt t _ => t | VStr _ => DStr | VBool _ => DBool end.
Inductive ires := IOk (v : val) | IErr.
(** the value stored in a column of type [t] (nullable or not) when [v] is inserted: a lossless
    conversion or a failing statement *)
Definition insert_cast (t : dty) (nullable : bool) (v : val) : ires :=
  match v with
  | VNull => if nullable then IOk VNull else IErr
  | VInt _ z =>
      match bits t with
      | Some w => if fits w z then IOk (VInt t z) else IErr
      | None => IErr                         (* other targets are outside this model *)
      end
  | VBool b => match t with DBool => IOk v | _ => IErr end
  | VStr s => match t with DStr => IOk v | _ => IErr end
  end.
Definition num (v : val) : option Z := match v with VInt _ z => Some z | _ => None end.
