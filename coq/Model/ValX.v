(** * All value types of the engine (src/types/{value,date,timestamp,interval,blob}.rs, OrderedFloat):
      the derived order / equality, what hashing distinguishes, and decimal printing / parsing of
      the integer types.  No proofs in this file. *)
From Coq Require Export List ZArith Bool String Ascii DecimalString Decimal.
Export ListNotations.
Open Scope Z_scope.

Inductive xv :=
| XNull
| XBool (b : bool)
| XI16 (z : Z) | XI32 (z : Z) | XI64 (z : Z)
| XF64 (bits : Z)                 (* IEEE-754 binary64 bit pattern *)
| XStr (s : list Z)               (* utf-8 bytes *)
| XBlob (s : list Z)
| XDate (days : Z)
| XTs (us : Z) | XTsTz (us : Z)
| XIv (m d ms : Z).               (* derived lexicographic order on (months, days, ms) *)

Definition xtag (v : xv) : Z :=
  match v with
  | XNull => 0 | XBool _ => 1 | XI16 _ => 2 | XI32 _ => 3 | XI64 _ => 4 | XF64 _ => 5 | XStr _ => 6
  | XBlob _ => 7 | XDate _ => 9 | XTs _ => 10 | XTsTz _ => 11 | XIv _ _ _ => 12
  end.

(** OrderedFloat: every NaN is equal to every NaN and greater than everything; -0 = +0 *)
Definition f64_is_nan (bits : Z) : bool := ((bits / 2 ^ 52) mod 2 ^ 11 =? 2047) && negb (bits mod 2 ^ 52 =? 0).
Definition f64_key (bits : Z) : Z :=
  if f64_is_nan bits then 2 ^ 63 + 1
  else if bits / 2 ^ 63 =? 1 then - (bits mod 2 ^ 63) else bits mod 2 ^ 63.

Fixpoint zl_cmp (a b : list Z) : comparison :=
  match a, b with
  | [], [] => Eq
  | [], _ => Lt
  | _, [] => Gt
  | x :: a', y :: b' => match x ?= y with Eq => zl_cmp a' b' | c => c end
  end.
Definition lex3 (a b c : comparison) : comparison :=
  match a with Eq => match b with Eq => c | o => o end | o => o end.

Definition xcmp (a b : xv) : comparison :=
  match a, b with
  | XNull, XNull => Eq
  | XBool x, XBool y => match x, y with false, true => Lt | true, false => Gt | _, _ => Eq end
  | XI16 x, XI16 y | XI32 x, XI32 y | XI64 x, XI64 y | XDate x, XDate y | XTs x, XTs y | XTsTz x, XTsTz y => x ?= y
  | XF64 x, XF64 y => f64_key x ?= f64_key y
  | XStr x, XStr y | XBlob x, XBlob y => zl_cmp x y
  | XIv m d s, XIv m' d' s' => lex3 (m ?= m') (d ?= d') (s ?= s')
  | _, _ => xtag a ?= xtag b
  end.
Definition xeqb (a b : xv) : bool := match xcmp a b with Eq => true | _ => false end.

(** what Hash distinguishes: a canonical representative (equal values hash alike iff they have
    the same representative; the hash function itself is SipHash, outside the model) *)
Definition xhash_key (v : xv) : xv :=
  match v with
  | XF64 bits => if f64_is_nan bits then XF64 (2 ^ 63 - 2 ^ 51) else if f64_key bits =? 0 then XF64 0 else XF64 bits
  | _ => v
  end.

(** the SQL comparison operators on two non-NULL values of one type (cmp! kernels) *)
Definition sql_lt (a b : xv) : bool := match xcmp a b with Lt => true | _ => false end.

(** ** printing and parsing integers and booleans (Display / FromStr; CSV export / import) *)
Definition print_int (z : Z) : string := NilZero.string_of_int (Z.to_int z).
Definition parse_int (s : string) : option Z := option_map Z.of_int (NilZero.int_of_string s).
Definition print_bool (b : bool) : string := if b then "true"%string else "false"%string.
Definition parse_bool (s : string) : option bool :=
  if String.eqb s "true" then Some true else if String.eqb s "false" then Some false else None.
