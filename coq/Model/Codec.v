(** * Block and column encodings of the secondary storage engine.
    Mirrors src/storage/secondary/encode.rs, the block builders, the decode_ functions of the
    block iterators and block_index_builder.rs.  Cells are the values of one column; a column is a list of
    [option cell] (None = NULL).  No proofs in this file. *)
From RL Require Export Model.Bytes Model.Crc.
Open Scope Z_scope.

Inductive cell :=
| CInt (z : Z)                 (* integers, bool (0/1), date, timestamps, f64 / decimal bit patterns *)
| CBytes (bs : list Z)         (* varchar (utf-8 bytes) and blob *)
| CIv (m d s : Z).             (* interval: months, days, milliseconds *)

Definition list_eqb {A} (eqb : A -> A -> bool) := fix go (a b : list A) : bool :=
  match a, b with
  | [], [] => true
  | x :: a', y :: b' => eqb x y && go a' b'
  | _, _ => false
  end.
Definition cell_eqb (a b : cell) : bool :=
  match a, b with
  | CInt x, CInt y => x =? y
  | CBytes x, CBytes y => list_eqb Z.eqb x y
  | CIv m d s, CIv m' d' s' => (m =? m') && (d =? d') && (s =? s')
  | _, _ => false
  end.
Definition ocell_eqb (a b : option cell) : bool :=
  match a, b with
  | None, None => true
  | Some x, Some y => cell_eqb x y
  | _, _ => false
  end.

(** ** fixed-width value codecs: trait PrimitiveFixedWidthEncode *)
Record fw := {
  fw_width : nat;
  fw_enc : cell -> list Z;
  fw_dec : list Z -> cell;
  fw_default : cell;
  fw_okb : cell -> bool;    (* values of the Rust type *)
  fw_eqb : cell -> cell -> bool   (* PartialEq of the Rust type (used by RLE and dictionary builders) *)
}.

Definition cint (c : cell) : Z := match c with CInt z => z | _ => 0 end.

Definition fw_int_le (w : nat) : fw := {|
  fw_width := w;
  fw_enc := fun c => sle_enc w (cint c);
  fw_dec := fun bs => CInt (sle_dec w bs);
  fw_default := CInt 0;
  fw_okb := fun c => match c with CInt z => in_range_b w z | _ => false end;
  fw_eqb := cell_eqb |}.
Definition fw_int_be (w : nat) : fw := {|
  fw_width := w;
  fw_enc := fun c => sbe_enc w (cint c);
  fw_dec := fun bs => CInt (sbe_dec w bs);
  fw_default := CInt 0;
  fw_okb := fun c => match c with CInt z => in_range_b w z | _ => false end;
  fw_eqb := cell_eqb |}.
(** f64 (8) and Decimal (16) payloads are opaque unsigned bit patterns *)
Definition fw_bits_le (w : nat) : fw := {|
  fw_width := w;
  fw_enc := fun c => ule_enc w (cint c);
  fw_dec := fun bs => CInt (ule_dec (firstn w bs));
  fw_default := CInt 0;
  fw_okb := fun c => match c with CInt z => (0 <=? z) && (z <? 2 ^ bits_of w) | _ => false end;
  fw_eqb := cell_eqb |}.
(** f64: OrderedFloat equality on the IEEE-754 bit pattern: -0 = +0, every NaN equals every NaN *)
Definition f64_is_nan (z : Z) : bool := ((z / 2 ^ 52) mod 2 ^ 11 =? 2047) && negb (z mod 2 ^ 52 =? 0).
Definition f64_is_zero (z : Z) : bool := z mod 2 ^ 63 =? 0.
Definition f64_eqb (a b : cell) : bool :=
  match a, b with
  | CInt x, CInt y => (x =? y) || (f64_is_zero x && f64_is_zero y) || (f64_is_nan x && f64_is_nan y)
  | _, _ => false
  end.
Definition fw_f64 : fw := {|
  fw_width := 8;
  fw_enc := fun c => ule_enc 8 (cint c);
  fw_dec := fun bs => CInt (ule_dec (firstn 8 bs));
  fw_default := CInt 0;
  fw_okb := fun c => match c with CInt z => (0 <=? z) && (z <? 2 ^ 64) | _ => false end;
  fw_eqb := f64_eqb |}.
Definition fw_bool : fw := {|
  fw_width := 1;
  fw_enc := fun c => [cint c];
  fw_dec := fun bs => CInt (if hd 0 bs =? 0 then 0 else 1);
  fw_default := CInt 0;
  fw_okb := fun c => match c with CInt z => (z =? 0) || (z =? 1) | _ => false end;
  fw_eqb := cell_eqb |}.
(** Interval: put_i32(months) put_i32(days) put_i32(milliseconds), big-endian *)
Definition fw_interval : fw := {|
  fw_width := 12;
  fw_enc := fun c => match c with
                     | CIv m d s => sbe_enc 4 m ++ sbe_enc 4 d ++ sbe_enc 4 s
                     | _ => sbe_enc 4 0 ++ sbe_enc 4 0 ++ sbe_enc 4 0
                     end;
  fw_dec := fun bs => CIv (sbe_dec 4 bs) (sbe_dec 4 (skipn 4 bs)) (sbe_dec 4 (skipn 8 bs));
  fw_default := CIv 0 0 0;
  fw_okb := fun c => match c with CIv m d s => in_range_b 4 m && in_range_b 4 d && in_range_b 4 s | _ => false end;
  fw_eqb := cell_eqb |}.

(** ** non-nullable block bodies: values -> bytes, (row count, bytes) -> values *)
Record nnblock := {
  nn_enc : list cell -> list Z;
  nn_dec : nat -> list Z -> list cell;
  nn_default : cell;
  nn_okb : cell -> bool;
  nn_eqb : cell -> cell -> bool
}.

(** PlainPrimitiveBlockBuilder / PlainPrimitiveBlockIterator *)
Definition plain_enc (c : fw) (xs : list cell) : list Z := flat_map (fw_enc c) xs.
Fixpoint plain_dec (c : fw) (n : nat) (bs : list Z) : list cell :=
  match n with
  | O => []
  | S n' => fw_dec c bs :: plain_dec c n' (skipn (fw_width c) bs)
  end.
Definition nn_plain (c : fw) : nnblock :=
  {| nn_enc := plain_enc c; nn_dec := plain_dec c; nn_default := fw_default c; nn_okb := fw_okb c;
     nn_eqb := fw_eqb c |}.

(** PlainBlobBlockBuilder (varchar and blob): u32-LE end offsets, then the bytes *)
Definition cbytes (c : cell) : list Z := match c with CBytes b => b | _ => [] end.
Fixpoint blob_offsets (acc : nat) (xs : list cell) : list Z :=
  match xs with
  | [] => []
  | x :: r => let acc' := (acc + length (cbytes x))%nat in Z.of_nat acc' :: blob_offsets acc' r
  end.
Definition blob_enc (xs : list cell) : list Z :=
  flat_map (ule_enc 4) (blob_offsets 0 xs) ++ flat_map cbytes xs.
(** decode row [i] of [n]: offsets[i-1] .. offsets[i] *)
Definition blob_off (bs : list Z) (i : nat) : nat :=
  match i with O => O | S j => Z.to_nat (ule_dec (firstn 4 (skipn (4 * j) bs))) end.
Definition blob_get (n : nat) (bs : list Z) (i : nat) : cell :=
  let data := skipn (4 * n) bs in
  let a := blob_off bs i in let b := blob_off bs (S i) in
  CBytes (firstn (b - a) (skipn a data)).
Definition blob_dec (n : nat) (bs : list Z) : list cell := map (blob_get n bs) (seq 0 n).
Definition is_byte (b : Z) : bool := (0 <=? b) && (b <? 256).
Definition nn_blob : nnblock :=
  {| nn_enc := blob_enc; nn_dec := blob_dec; nn_default := CBytes [];
     nn_okb := fun c => match c with CBytes b => forallb is_byte b | _ => false end;
     nn_eqb := cell_eqb |}.

(** ** blocks over nullable values *)
Record block_codec := {
  bk_enc : list (option cell) -> list Z;
  bk_dec : nat -> list Z -> list (option cell);
  bk_okb : option cell -> bool;
  bk_eqb : cell -> cell -> bool
}.

Definition is_some {A} (o : option A) : bool := match o with Some _ => true | None => false end.
Definition or_default (d : cell) (o : option cell) : cell := match o with Some v => v | None => d end.

(** non-nullable column: every value is present (NULL would be written as the default) *)
Definition bk_plain (b : nnblock) : block_codec := {|
  bk_enc := fun xs => nn_enc b (map (or_default (nn_default b)) xs);
  bk_dec := fun n bs => map Some (nn_dec b n bs);
  bk_okb := fun o => match o with Some v => nn_okb b v | None => false end;
  bk_eqb := nn_eqb b |}.

(** NullableBlockBuilder: inner bytes ++ bitmap bytes ++ u32-LE bitmap length *)
Definition nullable_enc (b : nnblock) (xs : list (option cell)) : list Z :=
  let bm := pack_bits (map is_some xs) in
  nn_enc b (map (or_default (nn_default b)) xs) ++ bm ++ ule_enc 4 (Z.of_nat (length bm)).
Definition nullable_split (bs : list Z) : list Z * list Z :=
  let len := length bs in
  let bmlen := Z.to_nat (ule_dec (skipn (len - 4) bs)) in
  (firstn (len - 4 - bmlen) bs, firstn bmlen (skipn (len - 4 - bmlen) bs)).
Fixpoint zip_valid (vs : list bool) (xs : list cell) : list (option cell) :=
  match vs, xs with
  | v :: vs', x :: xs' => (if v then Some x else None) :: zip_valid vs' xs'
  | _, _ => []
  end.
Definition nullable_dec (b : nnblock) (n : nat) (bs : list Z) : list (option cell) :=
  let '(inner, bm) := nullable_split bs in
  zip_valid (unpack_bits n bm) (nn_dec b n inner).
Definition bk_nullable (b : nnblock) : block_codec := {|
  bk_enc := nullable_enc b;
  bk_dec := nullable_dec b;
  bk_okb := fun o => match o with Some v => nn_okb b v | None => true end;
  bk_eqb := nn_eqb b |}.

(** RleBlockBuilder over any block codec: runs of equal consecutive values *)
Definition oeqb (eqb : cell -> cell -> bool) (a b : option cell) : bool :=
  match a, b with
  | None, None => true
  | Some x, Some y => eqb x y
  | _, _ => false
  end.
(** the head of a run is its FIRST element (previous_value is set when the run starts) *)
Fixpoint rle_groups (eqb : cell -> cell -> bool) (xs : list (option cell)) : list (option cell * Z) :=
  match xs with
  | [] => []
  | x :: r => match rle_groups eqb r with
              | (y, n) :: g => if oeqb eqb x y then (x, n + 1) :: g else (x, 1) :: (y, n) :: g
              | [] => [(x, 1)]
              end
  end.
Definition rle_enc (inner : block_codec) (xs : list (option cell)) : list Z :=
  match xs with
  | [] => []
  | _ =>
    let g := rle_groups (bk_eqb inner) xs in
    let counts := flat_map (fun p => varint_enc (snd p)) g in
    ule_enc 4 (Z.of_nat (length g)) ++ ule_enc 4 (Z.of_nat (length counts)) ++ counts
      ++ bk_enc inner (map fst g)
  end.
Fixpoint expand_runs (heads : list (option cell)) (counts : list Z) : list (option cell) :=
  match heads, counts with
  | h :: hs, c :: cs => repeat h (Z.to_nat c) ++ expand_runs hs cs
  | _, _ => []
  end.
Definition rle_dec (inner : block_codec) (n : nat) (bs : list Z) : list (option cell) :=
  let rle_num := Z.to_nat (ule_dec (firstn 4 bs)) in
  let rle_len := Z.to_nat (ule_dec (firstn 4 (skipn 4 bs))) in
  let rle_data := firstn rle_len (skipn 8 bs) in
  let body := skipn (8 + rle_len) bs in
  match varints_dec (length rle_data) rle_data with
  | Some counts => expand_runs (bk_dec inner rle_num body) counts
  | None => []
  end.
Definition bk_rle (inner : block_codec) : block_codec :=
  {| bk_enc := rle_enc inner; bk_dec := rle_dec inner; bk_okb := bk_okb inner; bk_eqb := bk_eqb inner |}.

(** DictBlockBuilder: keys are i32, NULL = i32::MIN, the k-th distinct value gets MIN + 1 + k;
    key column = RLE over a plain i32 block; dictionary = inner block of the distinct values *)
Definition dict_null_key : Z := - 2 ^ 31.
Fixpoint find_idx (eqb : cell -> cell -> bool) (v : cell) (d : list cell) : option nat :=
  match d with
  | [] => None
  | x :: r => if eqb x v then Some O else option_map S (find_idx eqb v r)
  end.
(** returns (dictionary in insertion order, keys) *)
Fixpoint dict_build (eqb : cell -> cell -> bool) (d : list cell) (xs : list (option cell)) : list cell * list Z :=
  match xs with
  | [] => (d, [])
  | None :: r => let '(d', ks) := dict_build eqb d r in (d', dict_null_key :: ks)
  | Some v :: r =>
      match find_idx eqb v d with
      | Some i => let '(d', ks) := dict_build eqb d r in (d', dict_null_key + 1 + Z.of_nat i :: ks)
      | None => let '(d', ks) := dict_build eqb (d ++ [v]) r in
                (d', dict_null_key + 1 + Z.of_nat (length d) :: ks)
      end
  end.
Definition key_codec : block_codec := bk_rle (bk_plain (nn_plain (fw_int_le 4))).
Definition dict_enc (inner : block_codec) (xs : list (option cell)) : list Z :=
  let '(d, ks) := dict_build (bk_eqb inner) [] xs in
  let rle := bk_enc key_codec (map (fun k => Some (CInt k)) ks) in
  ube_enc 8 (Z.of_nat (length rle)) ++ ube_enc 4 (Z.of_nat (length d)) ++ rle
    ++ bk_enc inner (map Some d).
Definition dict_dec (inner : block_codec) (n : nat) (bs : list Z) : list (option cell) :=
  let rle_len := Z.to_nat (ube_dec 8 bs) in
  let dsize := Z.to_nat (ube_dec 4 (skipn 8 bs)) in
  let rle := firstn rle_len (skipn 12 bs) in
  let dict := bk_dec inner dsize (skipn (12 + rle_len) bs) in
  map (fun k => match k with
                | Some (CInt k) => if k =? dict_null_key then None
                                   else nth (Z.to_nat (k - dict_null_key - 1)) dict None
                | _ => None
                end) (bk_dec key_codec n rle).
Definition bk_dict (inner : block_codec) : block_codec :=
  {| bk_enc := dict_enc inner; bk_dec := dict_dec inner; bk_okb := bk_okb inner; bk_eqb := bk_eqb inner |}.

(** ** block trailer (BlockIndexBuilder::finish_block):
       body ++ i32-BE block type ++ i32-BE checksum type ++ u64-BE checksum,
       checksum = crc32 (body ++ block type) or 0 *)
Definition trailer (block_type : Z) (crc : bool) (body : list Z) : list Z :=
  let covered := body ++ sbe_enc 4 block_type in
  covered ++ sbe_enc 4 (if crc then 1 else 0) ++ ube_enc 8 (if crc then crc32 covered else 0).

(** ** a column file for a given partition of the rows into blocks *)
Fixpoint split_at (sizes : list nat) (xs : list (option cell)) : list (list (option cell)) :=
  match sizes with
  | [] => []
  | n :: r => firstn n xs :: split_at r (skipn n xs)
  end.
Definition column_bytes (bk : block_codec) (block_type : Z) (crc : bool)
           (blocks : list (list (option cell))) : list Z :=
  flat_map (fun b => trailer block_type crc (bk_enc bk b)) blocks.

(** decode a column file given the block index (offset, length, row count) *)
Definition block_body (file : list Z) (off len : nat) : list Z :=
  firstn (len - 16) (skipn off file).
Definition column_decode (bk : block_codec) (file : list Z) (index : list (nat * nat * nat))
  : list (list (option cell)) :=
  map (fun '(off, len, rows) => bk_dec bk rows (block_body file off len)) index.
