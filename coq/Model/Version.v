(** * The epoch / pin / vacuum bookkeeping of VersionManager (src/storage/secondary/version_manager.rs)
    as a state machine: commits create epochs, transactions pin the current epoch, the vacuum
    applies the deletions recorded at epochs <= the smallest pinned epoch.  No proofs in this file. *)
From Coq Require Export List Arith Bool PeanoNat.
Export ListNotations.

Definition rs := nat.                       (* row-set id *)
Record st := {
  epoch   : nat;
  status  : nat -> list rs;                 (* snapshot of each epoch *)
  refcnt  : nat -> nat;                     (* pins per epoch *)
  pending : list (nat * list rs);           (* rowset_deletion_to_apply: epoch -> deletions *)
  pool    : list rs;                        (* row-sets whose object / directory still exists *)
  nextid  : rs                              (* ids >= nextid have never been used *)
}.

Definition upd {A} (f : nat -> A) (k : nat) (v : A) : nat -> A := fun x => if Nat.eqb x k then v else f x.
Definition remove_all (dels l : list rs) := filter (fun x => negb (existsb (Nat.eqb x) dels)) l.

Inductive op :=
| Commit (nadds : nat) (dels : list rs)     (* add [nextid, nextid+nadds), delete dels *)
| Pin
| Unpin (e : nat)
| Vacuum.

Definition fresh_ids (s : st) (n : nat) := seq (nextid s) n.

(* min pinned epoch among 0..epoch, or epoch if none *)
Fixpoint min_pinned_upto (rc : nat -> nat) (n : nat) : option nat :=
  match n with
  | O => if Nat.ltb 0 (rc 0) then Some 0 else None
  | S n' => match min_pinned_upto rc n' with
            | Some m => Some m
            | None => if Nat.ltb 0 (rc (S n')) then Some (S n') else None end
  end.
Definition vacuum_epoch (s : st) := match min_pinned_upto (refcnt s) (epoch s) with Some m => m | None => epoch s end.

Definition step (s : st) (o : op) : st :=
  match o with
  | Commit nadds dels =>
      let adds := fresh_ids s nadds in
      let e' := S (epoch s) in
      {| epoch := e';
         status := upd (status s) e' (remove_all dels (status s (epoch s)) ++ adds);
         refcnt := refcnt s;
         pending := (e', dels) :: pending s;
         pool := pool s ++ adds;
         nextid := nextid s + nadds |}
  | Pin => {| epoch := epoch s; status := status s; refcnt := upd (refcnt s) (epoch s) (S (refcnt s (epoch s)));
              pending := pending s; pool := pool s; nextid := nextid s |}
  | Unpin e => {| epoch := epoch s; status := status s; refcnt := upd (refcnt s) e (pred (refcnt s e));
                  pending := pending s; pool := pool s; nextid := nextid s |}
  | Vacuum =>
      let v := vacuum_epoch s in
      let app := filter (fun p => Nat.leb (fst p) v) (pending s) in
      let keep := filter (fun p => negb (Nat.leb (fst p) v)) (pending s) in
      {| epoch := epoch s; status := status s; refcnt := refcnt s;
         pending := keep; pool := remove_all (concat (map snd app)) (pool s); nextid := nextid s |}
  end.

Definition init : st :=
  {| epoch := 0; status := fun _ => []; refcnt := fun _ => 0; pending := []; pool := []; nextid := 0 |}.


(** a reader: the snapshot it pinned *)
Definition reader_snapshot (s : st) (e : nat) : list rs := status s e.

(* precondition of a commit: it deletes only row-sets of the current snapshot *)
Definition ok (s : st) (o : op) : Prop :=
  match o with
  | Commit _ dels => forall x, In x dels -> In x (status s (epoch s))
  | Unpin e => 0 < refcnt s e
  | _ => True end.

(* every reachable state, for every operation sequence whose steps are admissible *)
Fixpoint run (s : st) (os : list op) : st := match os with [] => s | o :: os' => run (step s o) os' end.

Fixpoint all_ok (s : st) (os : list op) : Prop := match os with [] => True | o :: os' => ok s o /\ all_ok (step s o) os' end.
