(** * Sessions and their serial specification (C10): what each statement does to the catalog and the
    tables when statements run one at a time.  Rows are keys; a DELETE removes the rows whose key
    is in its list.  No proofs in this file. *)
From Coq Require Export List Arith Bool.
Export ListNotations.

Inductive stmt :=
| SCreate (t : nat) | SDrop (t : nat)
| SInsert (t : nat) (keys : list nat)
| SDelete (t : nat) (keys : list nat)
| SCount (t : nat).
Inductive res := ROk (n : nat) | RErr.
Definition state := list (nat * list nat).          (* live tables: (name, rows) *)

Fixpoint lookup (t : nat) (s : state) : option (list nat) :=
  match s with [] => None | (t', r) :: s' => if Nat.eqb t t' then Some r else lookup t s' end.
Fixpoint update (t : nat) (r : list nat) (s : state) : state :=
  match s with [] => [] | (t', r') :: s' => if Nat.eqb t t' then (t', r) :: s' else (t', r') :: update t r s' end.
Fixpoint remove (t : nat) (s : state) : state :=
  match s with [] => [] | (t', r') :: s' => if Nat.eqb t t' then s' else (t', r') :: remove t s' end.
Definition memb (x : nat) (l : list nat) : bool := existsb (Nat.eqb x) l.

Definition exec (s : state) (st : stmt) : state * res :=
  match st with
  | SCreate t => match lookup t s with Some _ => (s, RErr) | None => (s ++ [(t, [])], ROk 0) end
  | SDrop t => match lookup t s with Some _ => (remove t s, ROk 0) | None => (s, RErr) end
  | SInsert t keys => match lookup t s with Some r => (update t (r ++ keys) s, ROk (length keys)) | None => (s, RErr) end
  | SDelete t keys =>
      match lookup t s with
      | Some r => (update t (filter (fun k => negb (memb k keys)) r) s, ROk (length (filter (fun k => memb k keys) r)))
      | None => (s, RErr)
      end
  | SCount t => match lookup t s with Some r => (s, ROk (length r)) | None => (s, RErr) end
  end.

(** a total order of the statements of the sessions is given as the list of session numbers whose
    next statement runs; replaying it yields each statement's result *)
Fixpoint replay (fuel : nat) (s : state) (sessions : list (list stmt)) (order : list nat) (acc : list (nat * res)) : option (state * list (nat * res)) :=
  match order with
  | [] => if forallb (fun l => match l with [] => true | _ => false end) sessions then Some (s, acc) else None
  | i :: order' =>
      match nth_error sessions i with
      | Some (st :: rest) =>
          let '(s', r) := exec s st in
          replay fuel s' (firstn i sessions ++ rest :: skipn (S i) sessions) order' (acc ++ [(i, r)])
      | _ => None
      end
  end.
Definition res_eqb (a b : res) : bool :=
  match a, b with ROk n, ROk m => Nat.eqb n m | RErr, RErr => true | _, _ => false end.
(** the results of session [i], in order, from the replay log *)
Definition results_of (i : nat) (log : list (nat * res)) : list res := map snd (filter (fun p => Nat.eqb (fst p) i) log).
Fixpoint eq_lres (a b : list res) : bool :=
  match a, b with [] , [] => true | x :: a', y :: b' => res_eqb x y && eq_lres a' b' | _, _ => false end.
Fixpoint eq_ln (a b : list nat) : bool :=
  match a, b with [], [] => true | x :: a', y :: b' => Nat.eqb x y && eq_ln a' b' | _, _ => false end.
(** a certificate: the order explains the observed per-session results and the observed final tables
    (rows as sorted lists, tables in any order) *)
Definition explains (sort : list nat -> list nat) (sessions : list (list stmt)) (order : list nat)
                    (observed : list (list res)) (final : list (nat * list nat)) : bool :=
  match replay 0 [] sessions order [] with
  | None => false
  | Some (s, log) =>
      forallb (fun i => eq_lres (results_of i log) (nth i observed [])) (seq 0 (length sessions)) &&
      Nat.eqb (length s) (length final) &&
      forallb (fun p => match lookup (fst p) s with Some r => eq_ln (sort r) (snd p) | None => false end) final
  end.
