(** * SQL values as the executors see them: enum DataValue (src/types/value.rs) restricted to
      NULL, BOOLEAN, the three integer widths and strings, with the DERIVED order and equality
      (variant first, then payload) used by ORDER BY, join keys, GROUP BY and MIN/MAX.
    No proofs in this file. *)
From Coq Require Export List ZArith Bool.
Export ListNotations.
Open Scope Z_scope.

Inductive dv := DNull | DBool (b : bool) | DI16 (z : Z) | DI32 (z : Z) | DI64 (z : Z) | DStr (s : list Z).

Definition dv_tag (v : dv) : Z :=
  match v with DNull => 0 | DBool _ => 1 | DI16 _ => 2 | DI32 _ => 3 | DI64 _ => 4 | DStr _ => 6 end.

Fixpoint zlist_cmp (a b : list Z) : comparison :=
  match a, b with
  | [], [] => Eq
  | [], _ => Lt
  | _, [] => Gt
  | x :: a', y :: b' => match x ?= y with Eq => zlist_cmp a' b' | c => c end
  end.

(** #[derive(PartialOrd, Ord)]: NULL first, then by variant, then by payload *)
Definition dv_cmp (a b : dv) : comparison :=
  match a, b with
  | DNull, DNull => Eq
  | DBool x, DBool y => match x, y with false, true => Lt | true, false => Gt | _, _ => Eq end
  | DI16 x, DI16 y | DI32 x, DI32 y | DI64 x, DI64 y => x ?= y
  | DStr x, DStr y => zlist_cmp x y
  | _, _ => dv_tag a ?= dv_tag b
  end.
Definition dv_eqb (a b : dv) : bool := match dv_cmp a b with Eq => true | _ => false end.
Definition is_null (v : dv) : bool := match v with DNull => true | _ => false end.

Definition row := list dv.
Fixpoint row_cmp (a b : row) : comparison :=
  match a, b with
  | [], [] => Eq
  | [], _ => Lt
  | _, [] => Gt
  | x :: a', y :: b' => match dv_cmp x y with Eq => row_cmp a' b' | c => c end
  end.
Definition row_eqb (a b : row) : bool := match row_cmp a b with Eq => true | _ => false end.
Definition has_null (r : row) : bool := existsb is_null r.

(** numeric value of an integer of any width (SQL comparison / arithmetic across widths) *)
Definition dv_int (v : dv) : option Z :=
  match v with DI16 z | DI32 z | DI64 z => Some z | _ => None end.

(** ** a small scalar expression language over rows, for join conditions, keys and aggregate
       arguments (per-row SQL semantics; the vectorised evaluation is C14's subject) *)
Inductive sx :=
| SCol (i : nat)
| SConst (v : dv)
| SEq (a b : sx) | SLt (a b : sx) | SLe (a b : sx) | SGt (a b : sx) | SGe (a b : sx) | SNe (a b : sx)
| SAnd (a b : sx) | SOr (a b : sx) | SNot (a : sx)
| SAdd (a b : sx)
| SIsNull (a : sx)
| SWide (a : sx).      (* an integer of any width at full width (a join key cast to the widest integer type) *)

Definition cmp3 (f : comparison -> bool) (a b : dv) : dv :=
  match a, b with
  | DNull, _ | _, DNull => DNull
  | _, _ =>
      match dv_int a, dv_int b with
      | Some x, Some y => DBool (f (x ?= y))
      | _, _ => DBool (f (dv_cmp a b))
      end
  end.
Definition wide (v : dv) : dv := match v with DI16 z | DI32 z | DI64 z => DI64 z | _ => v end.
Definition widest (a b : dv) (z : Z) : dv :=
  match a, b with
  | DI64 _, _ | _, DI64 _ => DI64 z
  | DI32 _, _ | _, DI32 _ => DI32 z
  | _, _ => DI16 z
  end.
Fixpoint sx_eval (e : sx) (r : row) : dv :=
  match e with
  | SCol i => nth i r DNull
  | SConst v => v
  | SEq a b => cmp3 (fun c => match c with Eq => true | _ => false end) (sx_eval a r) (sx_eval b r)
  | SNe a b => cmp3 (fun c => match c with Eq => false | _ => true end) (sx_eval a r) (sx_eval b r)
  | SLt a b => cmp3 (fun c => match c with Lt => true | _ => false end) (sx_eval a r) (sx_eval b r)
  | SLe a b => cmp3 (fun c => match c with Gt => false | _ => true end) (sx_eval a r) (sx_eval b r)
  | SGt a b => cmp3 (fun c => match c with Gt => true | _ => false end) (sx_eval a r) (sx_eval b r)
  | SGe a b => cmp3 (fun c => match c with Lt => false | _ => true end) (sx_eval a r) (sx_eval b r)
  | SAnd a b =>
      match sx_eval a r, sx_eval b r with
      | DBool false, _ | _, DBool false => DBool false
      | DBool true, DBool true => DBool true
      | _, _ => DNull
      end
  | SOr a b =>
      match sx_eval a r, sx_eval b r with
      | DBool true, _ | _, DBool true => DBool true
      | DBool false, DBool false => DBool false
      | _, _ => DNull
      end
  | SNot a => match sx_eval a r with DBool x => DBool (negb x) | _ => DNull end
  | SAdd a b =>
      match dv_int (sx_eval a r), dv_int (sx_eval b r) with
      | Some x, Some y => widest (sx_eval a r) (sx_eval b r) (x + y)
      | _, _ => DNull
      end
  | SIsNull a => DBool (is_null (sx_eval a r))
  | SWide a => wide (sx_eval a r)
  end.
(** a condition holds for a row iff it evaluates to TRUE (NULL and FALSE do not pass) *)
Definition holds (e : sx) (r : row) : bool := match sx_eval e r with DBool true => true | _ => false end.
