(** * The physical operators as the executors compute them over chunked input
    (src/executor/{filter,projection,nested_loop_join,hash_join,merge_join,hash_agg,simple_agg,
    sort_agg,order,top_n,limit}.rs).  A stream is a list of chunks, a chunk a list of rows.
    Where the implementation's output order depends on hash-map iteration the model fixes one
    order and the correspondence compares bags.  No proofs in this file. *)
From RL Require Export Model.Val.
Open Scope Z_scope.

Definition chunks := list (list row).
Definition nulls (n : nat) : row := repeat DNull n.
Definition keys_of (ks : list sx) (r : row) : row := map (fun e => sx_eval e r) ks.

(** ** filter / projection: chunk by chunk *)
Definition x_filter (cond : sx) (c : chunks) : chunks := map (filter (holds cond)) c.
Definition x_proj (es : list sx) (c : chunks) : chunks := map (map (keys_of es)) c.

(** ** joins *)
Inductive jty := JInner | JLeft | JRight | JFull | JSemi | JAnti.
Definition pads_left (t : jty) : bool := match t with JLeft | JFull => true | _ => false end.
Definition pads_right (t : jty) : bool := match t with JRight | JFull => true | _ => false end.

(** nested loop: right-major enumeration of all pairs, condition evaluated on the concatenated row;
    LEFT OUTER appends the unmatched left rows padded with NULLs; RIGHT / FULL are `todo!()` *)
Definition nl_pairs (L R : list row) : list row := flat_map (fun r => map (fun l => l ++ r) L) R.
Definition x_nljoin (t : jty) (cond : sx) (nr : nat) (L R : chunks) : option (list row) :=
  let Ls := concat L in let Rs := concat R in
  match t with
  | JInner => Some (filter (holds cond) (nl_pairs Ls Rs))
  | JLeft => Some (filter (holds cond) (nl_pairs Ls Rs) ++
                   map (fun l => l ++ nulls nr)
                       (filter (fun l => negb (existsb (fun r => holds cond (l ++ r)) Rs)) Ls))
  | JSemi => Some (filter (fun l => existsb (fun r => holds cond (l ++ r)) Rs) Ls)
  | JAnti => Some (filter (fun l => negb (existsb (fun r => holds cond (l ++ r)) Rs)) Ls)
  | _ => None   (* todo!(): the task dies, the statement fails *)
  end.

(** hash join: the LEFT input is the build side; rows whose key contains a NULL stay out of the
    table; keys are compared with DataValue equality (Int32 1 <> Int64 1) *)
(** executor::build (resolve_join_keys) casts a pair of numeric join keys of different types to the
    wider one before the hash / merge join sees them; DataValue equality and order of two integers
    of ONE width are the numeric ones, so on columns of one type each the executors compare integer
    keys as if all were of full width: the key lists the join executors run with *)
Definition wide_keys (ks : list sx) : list sx := map SWide ks.
Definition x_hashjoin (t : jty) (lk rk : list sx) (nl nr : nat) (L R : chunks) : list row :=
  let Ls := concat L in let Rs := concat R in
  let table := filter (fun l => negb (has_null (keys_of lk l))) Ls in
  let matches r := filter (fun l => row_eqb (keys_of lk l) (keys_of rk r)) table in
  match t with
  | JSemi => filter (fun l => existsb (fun r => negb (has_null (keys_of rk r)) && row_eqb (keys_of lk l) (keys_of rk r)) Rs) Ls
  | JAnti => filter (fun l => negb (existsb (fun r => negb (has_null (keys_of rk r)) && row_eqb (keys_of lk l) (keys_of rk r)) Rs)) Ls
  | _ =>
    flat_map (fun r => match matches r with
                       | [] => if pads_right t then [nulls nl ++ r] else []
                       | m => map (fun l => l ++ r) m
                       end) Rs ++
    (if pads_left t then
       map (fun l => l ++ nulls nr)
           (filter (fun l => has_null (keys_of lk l) ||
                             negb (existsb (fun r => row_eqb (keys_of lk l) (keys_of rk r)) Rs)) Ls)
     else [])
  end.
(** hash semi / anti join with a residual condition (HashSemiJoinExecutor2) *)
Definition x_hashsemi2 (anti : bool) (lk rk : list sx) (cond : sx) (L R : chunks) : list row :=
  let Rs := concat R in
  filter (fun l => xorb anti
            (existsb (fun r => negb (has_null (keys_of rk r)) && row_eqb (keys_of lk l) (keys_of rk r)
                               && holds cond (l ++ r)) Rs)) (concat L).

(** merge join: runs of equal consecutive keys on both sides, then a three-way walk *)
Fixpoint group_runs (ks : list sx) (rows : list row) : list (row * list row) :=
  match rows with
  | [] => []
  | r :: rest =>
      match group_runs ks rest with
      | (k, g) :: gs => if row_eqb (keys_of ks r) k then (k, r :: g) :: gs else (keys_of ks r, [r]) :: (k, g) :: gs
      | [] => [(keys_of ks r, [r])]
      end
  end.
Definition cross (lc rc : list row) : list row := flat_map (fun l => map (fun r => l ++ r) rc) lc.
Fixpoint merge_walk (fuel : nat) (t : jty) (nl nr : nat) (lg rg : list (row * list row)) : list row :=
  match fuel with
  | O => []
  | S f =>
      let lpad lc := if pads_left t then map (fun l => l ++ nulls nr) lc else [] in
      let rpad rc := if pads_right t then map (fun r => nulls nl ++ r) rc else [] in
      match lg, rg with
      | (lk, lc) :: lg', (rk, rc) :: rg' =>
          if row_eqb lk rk && negb (has_null lk) then cross lc rc ++ merge_walk f t nl nr lg' rg'
          else match row_cmp lk rk with
               | Gt => rpad rc ++ merge_walk f t nl nr lg rg'
               | _ => lpad lc ++ merge_walk f t nl nr lg' rg
               end
      | (lk, lc) :: lg', [] => lpad lc ++ merge_walk f t nl nr lg' []
      | [], (rk, rc) :: rg' => rpad rc ++ merge_walk f t nl nr [] rg'
      | [], [] => []
      end
  end.
Definition x_mergejoin (t : jty) (lk rk : list sx) (nl nr : nat) (L R : chunks) : list row :=
  let lg := group_runs lk (concat L) in let rg := group_runs rk (concat R) in
  merge_walk (S (length lg + length rg)) t nl nr lg rg.

(** ** aggregation: the AggState machine of evaluator.rs *)
Inductive agg := ACount (e : sx) | ASum (e : sx) | AMin (e : sx) | AMax (e : sx)
               | ACountDistinct (e : sx) | ARowCount | AFirst (e : sx) | ALast (e : sx).
Inductive astate := AV (v : dv) | AD (seen : list dv).

Definition agg_arg (a : agg) (r : row) : dv :=
  match a with
  | ACount e | ASum e | AMin e | AMax e | ACountDistinct e | AFirst e | ALast e => sx_eval e r
  | ARowCount => DNull
  end.
Definition agg_init (a : agg) : astate :=
  match a with
  | ACountDistinct _ => AD []
  | ARowCount | ACount _ => AV (DI32 0)
  | _ => AV DNull
  end.
(** Ext::add: NULL is the neutral element, otherwise `+` of two values of one type *)
Definition dv_add (a b : dv) : dv :=
  match a, b with
  | DNull, x | x, DNull => x
  | DI16 x, DI16 y => DI16 (x + y)
  | DI32 x, DI32 y => DI32 (x + y)
  | DI64 x, DI64 y => DI64 (x + y)
  | _, _ => DNull
  end.
Definition dv_min (a b : dv) : dv :=
  match a, b with DNull, x | x, DNull => x | _, _ => match dv_cmp a b with Gt => b | _ => a end end.
Definition dv_max (a b : dv) : dv :=
  match a, b with DNull, x | x, DNull => x | _, _ => match dv_cmp a b with Lt => b | _ => a end end.
Definition agg_append (a : agg) (s : astate) (v : dv) : astate :=
  match s with
  | AV st =>
      AV (match a with
          | ARowCount => dv_add st (DI32 1)
          | ACount _ => dv_add st (DI32 (if is_null v then 0 else 1))
          | ASum _ => dv_add st v
          | AMin _ => dv_min st v
          | AMax _ => dv_max st v
          | AFirst _ => match st with DNull => v | _ => st end
          | ALast _ => v
          | ACountDistinct _ => st
          end)
  | AD seen => AD (if is_null v || existsb (dv_eqb v) seen then seen else v :: seen)
  end.
Definition agg_result (s : astate) : dv :=
  match s with AV v => v | AD seen => DI32 (Z.of_nat (length seen)) end.
Definition agg_rows (a : agg) (rows : list row) : dv :=
  agg_result (fold_left (fun s r => agg_append a s (agg_arg a r)) rows (agg_init a)).

(** simple aggregation: one state per aggregate, updated chunk by chunk with the array-level
    functions (count / sum / min / max / first / last of the chunk's argument array) *)
Definition agg_chunk (a : agg) (s : astate) (chunk : list row) : astate :=
  let vals := map (agg_arg a) chunk in
  let nonnull := filter (fun v => negb (is_null v)) vals in
  match s with
  | AV st =>
      AV (match a with
          | ARowCount => dv_add st (DI32 (Z.of_nat (length chunk)))
          | ACount _ => dv_add st (DI32 (Z.of_nat (length nonnull)))
          | ASum _ => dv_add st (fold_left dv_add nonnull DNull)
          | AMin _ => dv_min st (fold_left dv_min nonnull DNull)
          | AMax _ => dv_max st (fold_left dv_max nonnull DNull)
          | AFirst _ => match st with DNull => hd DNull vals | _ => st end
          | ALast _ => match last vals DNull with DNull => st | v => v end
          | ACountDistinct _ => st
          end)
  | AD seen => fold_left (fun s v => agg_append a s v) vals (AD seen)
  end.
Definition x_simpleagg (aggs : list agg) (c : chunks) : list row :=
  [map (fun a => agg_result (fold_left (agg_chunk a) c (agg_init a))) aggs].

(** hash aggregation: one group per distinct key row (DataValue equality), first-seen order here *)
Fixpoint distinct_keys (ks : list sx) (rows : list row) (seen : list row) : list row :=
  match rows with
  | [] => rev seen
  | r :: rest => let k := keys_of ks r in
                 if existsb (row_eqb k) seen then distinct_keys ks rest seen else distinct_keys ks rest (k :: seen)
  end.
Definition x_hashagg (ks : list sx) (aggs : list agg) (c : chunks) : list row :=
  let rows := concat c in
  map (fun k => k ++ map (fun a => agg_rows a (filter (fun r => row_eqb (keys_of ks r) k) rows)) aggs)
      (distinct_keys ks rows []).
(** sort aggregation: one group per RUN of equal consecutive keys *)
Definition x_sortagg (ks : list sx) (aggs : list agg) (c : chunks) : list row :=
  map (fun kg => fst kg ++ map (fun a => agg_rows a (snd kg)) aggs) (group_runs ks (concat c)).

(** ** ORDER BY, top-N, LIMIT / OFFSET *)
(** order keys: expression and descending flag *)
Definition okeys := list (sx * bool).
Fixpoint ord_cmp (descs : list bool) (a b : row) : comparison :=
  match descs, a, b with
  | d :: ds, x :: a', y :: b' =>
      match dv_cmp x y with
      | Eq => ord_cmp ds a' b'
      | c => if d then CompOpp c else c
      end
  | _, _, _ => Eq
  end.
Definition key_row (ks : okeys) (r : row) : row := map (fun k => sx_eval (fst k) r) ks.
Definition row_le (ks : okeys) (a b : row) : bool :=
  match ord_cmp (map snd ks) (key_row ks a) (key_row ks b) with Gt => false | _ => true end.
Fixpoint insert_sorted (ks : okeys) (r : row) (l : list row) : list row :=
  match l with
  | [] => [r]
  | x :: l' => if row_le ks r x then r :: l else x :: insert_sorted ks r l'
  end.
Definition sort_rows (ks : okeys) (rows : list row) : list row := fold_right (insert_sorted ks) [] rows.
Definition x_order (ks : okeys) (c : chunks) : list row := sort_rows ks (concat c).
(** top-N: a bounded heap = the first offset+limit rows of the order, then skip / take;
    an absent LIMIT is usize::MAX / 2 *)
Definition x_topn (limit : option nat) (offset : nat) (ks : okeys) (c : chunks) : list row :=
  let sorted := sort_rows ks (concat c) in
  match limit with
  | Some n => firstn n (skipn offset sorted)
  | None => skipn offset sorted
  end.
(** LIMIT / OFFSET chunk by chunk, with the start / end arithmetic of limit.rs *)
Fixpoint limit_go (limit : option nat) (offset : nat) (processed : nat) (c : chunks) : chunks :=
  match c with
  | [] => []
  | batch :: rest =>
      match limit with
      | Some O => []
      | _ =>
        let card := length batch in
        let stop := match limit with Some n => (offset + n)%nat | None => (processed + card)%nat end in
        let start := (Nat.max processed offset - processed)%nat in
        let end_ := (Nat.min (processed + card) stop - processed)%nat in
        let processed' := (processed + card)%nat in
        let out := if Nat.leb end_ start then [] else [firstn (end_ - start) (skipn start batch)] in
        out ++ (if match limit with Some n => Nat.leb (offset + n) processed' | None => false end
                then [] else limit_go limit offset processed' rest)
      end
  end.
Definition x_limit (limit : option nat) (offset : nat) (c : chunks) : chunks := limit_go limit offset 0 c.
