(** * Checksummed blocks and index files: Column::get_block, verify_checksum, BlockMeta::decode,
      ColumnIndex::from_bytes (src/storage/secondary/{column.rs, checksum.rs, block.rs, index.rs}).
    No proofs in this file. *)
From RL Require Export Model.Bytes Model.Crc.
Open Scope Z_scope.

Inductive rd (A : Type) := ROk (a : A) | RErr.
Arguments ROk {A} a. Arguments RErr {A}.

(** checksum types: 0 = None, 1 = Crc32, anything else is a decode error *)
Definition checksum_of (ty : Z) (data : list Z) : option Z :=
  if ty =? 0 then Some 0 else if ty =? 1 then Some (crc32 data) else None.

(** block types accepted by BlockType::try_from *)
Definition valid_block_type (t : Z) : bool := (0 <=? t) && (t <=? 18).

(** verification of a block read from disk, as done inside the cache fill of get_block:
    | body | block_type i32 BE | checksum_type i32 BE | checksum u64 BE | ;
    the checksum covers body ++ block_type. *)
Definition verify_block (blk : list Z) : bool :=
  let n := length blk in
  if Nat.ltb n 16 then false
  else
    let covered := firstn (n - 12) blk in
    let bt := sbe_dec 4 (skipn (n - 16) blk) in
    let ct := sbe_dec 4 (skipn (n - 12) blk) in
    let ck := ube_dec 8 (skipn (n - 8) blk) in
    valid_block_type bt &&
    match checksum_of ct covered with
    | Some c => c =? ck
    | None => false
    end.

(** a column file, its block index (offset, length), and the block cache (block id -> bytes) *)
Definition cache := list (nat * list Z).
Fixpoint cache_get (c : cache) (k : nat) : option (list Z) :=
  match c with
  | [] => None
  | (k', v) :: r => if Nat.eqb k k' then Some v else cache_get r k
  end.
Definition slice (file : list Z) (off len : nat) : list Z := firstn len (skipn off file).

(** get_block: a cache hit is served as is; a miss reads the file, verifies, and only then caches *)
Definition get_block (file : list Z) (index : list (nat * nat)) (c : cache) (id : nat)
  : cache * rd (list Z) :=
  match cache_get c id with
  | Some b => (c, ROk b)
  | None =>
      match nth_error index id with
      | None => (c, RErr)
      | Some (off, len) =>
          if Nat.ltb (length file) (off + len) then (c, RErr)     (* short read *)
          else
            let b := slice file off len in
            if verify_block b then ((id, b) :: c, ROk b) else (c, RErr)
      end
  end.

Fixpoint get_blocks (file : list Z) (index : list (nat * nat)) (c : cache) (ids : list nat)
  : list (rd (list Z)) :=
  match ids with
  | [] => []
  | id :: r => let '(c', o) := get_block file index c id in o :: get_blocks file index c' r
  end.

(** ** index file: entries ++ magic u32 BE ++ count u64 BE ++ checksum_type i32 BE ++ checksum u64 BE;
       entries are length-delimited records (prost): varint length, then that many bytes *)
Definition index_magic : Z := 9011.   (* 0x2333 *)

(** prost's varint for lengths is the general 64-bit one; record lengths here stay below 2^28, so
    the same 7-bit groups as the u32 codec of the RLE counts describe it *)
Fixpoint frames (fuel : nat) (count : Z) (buf : list Z) : option (list (list Z)) :=
  if count <=? 0 then match buf with [] => Some [] | _ => None end   (* the block count must consume everything *)
  else
    match fuel with
    | O => None
    | S f =>
        match varint_dec buf with
        | None => None
        | Some (len, n) =>
            let rest := skipn n buf in
            if Z.of_nat (length rest) <? len then None
            else match frames f (count - 1) (skipn (Z.to_nat len) rest) with
                 | Some fs => Some (firstn (Z.to_nat len) rest :: fs)
                 | None => None
                 end
        end
    end.

Definition parse_index (file : list Z) : option (list (list Z)) :=
  let n := length file in
  if Nat.ltb n 24 then None
  else
    let entries := firstn (n - 24) file in
    let magic := ube_dec 4 (skipn (n - 24) file) in
    let count := ube_dec 8 (skipn (n - 20) file) in
    let ct := sbe_dec 4 (skipn (n - 12) file) in
    let ck := ube_dec 8 (skipn (n - 8) file) in
    if negb (magic =? index_magic) then None
    else match checksum_of ct entries with
         | None => None
         | Some c => if c =? ck then frames (S (length entries)) count entries else None
         end.

Definition frame_enc (body : list Z) : list Z := varint_enc (Z.of_nat (length body)) ++ body.
Definition index_file (crc : bool) (records : list (list Z)) : list Z :=
  let entries := flat_map frame_enc records in
  entries ++ ube_enc 4 index_magic ++ ube_enc 8 (Z.of_nat (length records))
          ++ sbe_enc 4 (if crc then 1 else 0) ++ ube_enc 8 (if crc then crc32 entries else 0).

(** ** corruption: flip bit [k] (0 = least significant bit of byte 0) of a byte string *)
Fixpoint flip_bit (bs : list Z) (k : nat) : list Z :=
  match bs with
  | [] => []
  | b :: r => if Nat.ltb k 8 then Z.lxor b (2 ^ Z.of_nat k) :: r else b :: flip_bit r (k - 8)
  end.
