(** * From a WHERE condition to the key range pushed into the scan: analyze_range, the side
    condition is_primary_key_range of the rule filter-scan, and the conversion of the bounds
    (src/planner/rules/range.rs).  A condition is a comparison between a column and a constant, in
    either order, or a conjunction of such conditions on one column in which at most one conjunct
    bounds each end.  The rule replaces the WHOLE filter by the scan range, so the range has to
    denote exactly the rows on which the condition is TRUE.  No proofs in this file. *)
From RL Require Export Model.RangeScan Model.Val.
Open Scope Z_scope.

Inductive cmpop := OEq | OGt | OGe | OLt | OLe.
Inductive rex :=
| XCol (c : nat)
| XConst (v : dv)                       (* a constant (the constant analysis), NULL included *)
| XCmp (op : cmpop) (a b : rex)
| XAnd (a b : rex)
| XOther.                               (* anything else: no range *)

Inductive vbnd := VUnb | VIn (v : dv) | VEx (v : dv).
Record vrange := mk_vrange { v_start : vbnd; v_end : vbnd }.

Definition flip (op : cmpop) : cmpop := match op with OEq => OEq | OGt => OLt | OGe => OLe | OLt => OGt | OLe => OGe end.
Definition cmp_range (op : cmpop) (v : dv) : vrange :=
  mk_vrange (match op with OEq | OGe => VIn v | OGt => VEx v | OLt | OLe => VUnb end)
            (match op with OEq | OLe => VIn v | OLt => VEx v | OGt | OGe => VUnb end).
Definition merge_bnd (a b : vbnd) : option vbnd :=
  match a, b with VUnb, s | s, VUnb => Some s | _, _ => None end.

Fixpoint arange (e : rex) : option (nat * vrange) :=
  match e with
  | XCmp op (XConst v) (XCol k) => Some (k, cmp_range (flip op) v)     (* `v op k` is normalised to `k op' v` *)
  | XCmp op (XCol k) (XConst v) => Some (k, cmp_range op v)
  | XAnd a b =>
      match arange a, arange b with
      | Some (ka, ra), Some (kb, rb) =>
          if Nat.eqb ka kb then
            match merge_bnd (v_start ra) (v_start rb), merge_bnd (v_end ra) (v_end rb) with
            | Some s, Some e => Some (ka, mk_vrange s e)
            | _, _ => None
            end
          else None
      | _, _ => None
      end
  | _ => None
  end.

(** the rule only fires for INT bounds (repair 7c92d51): the storage seeks and masks INT keys *)
Definition int_bnd (b : vbnd) : option bnd :=
  match b with VUnb => Some BUnb | VIn (DI32 z) => Some (BIn z) | VEx (DI32 z) => Some (BEx z) | _ => None end.
Definition pushed (e : rex) : option (nat * krange) :=
  match arange e with
  | Some (k, r) => match int_bnd (v_start r), int_bnd (v_end r) with
                   | Some s, Some t => Some (k, mk_range s t)
                   | _, _ => None
                   end
  | None => None
  end.

(** the condition under SQL's three-valued logic; a row gives every column a value *)
Definition cmp_dv (op : cmpop) (a b : dv) : dv :=
  cmp3 (fun c => match op, c with
                 | OEq, Eq => true | OEq, _ => false
                 | OGt, Gt => true | OGt, _ => false
                 | OGe, Lt => false | OGe, _ => true
                 | OLt, Lt => true | OLt, _ => false
                 | OLe, Gt => false | OLe, _ => true
                 end) a b.
Fixpoint rex_eval (e : rex) (row : nat -> dv) : dv :=
  match e with
  | XCol c => row c
  | XConst v => v
  | XCmp op a b => cmp_dv op (rex_eval a row) (rex_eval b row)
  | XAnd a b =>
      match rex_eval a row, rex_eval b row with
      | DBool false, _ | _, DBool false => DBool false
      | DBool true, DBool true => DBool true
      | _, _ => DNull
      end
  | XOther => DNull
  end.
Definition rex_true (e : rex) (row : nat -> dv) : bool := match rex_eval e row with DBool true => true | _ => false end.
