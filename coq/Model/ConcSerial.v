(** * The protocol of Model/Conc.v with a ghost log, and the serial execution it is compared with (C10).
    The log lists, in real-time order (newest first), the acknowledged INSERTs (at their commit) and
    the DELETE statements (at the point where their scan pins its snapshot) with their fate.
    [serial_run] executes the acknowledged statements of the log one after the other on a plain list
    of rows.  No proofs in this file. *)
From RL Require Export Model.Conc.

Inductive fate := Pending | Acked | Failed.
Inductive lentry :=
| LIns (rows : list row)
| LDel (d : nat) (p : row -> bool) (insb acked_before targets : list row) (f : fate).
   (* ghost: the rows inserted / removed by acknowledged statements when the snapshot was pinned, the rows located *)

Record gstate := { g_s : cstate; g_log : list lentry }.
Definition g_init : gstate := {| g_s := c_init; g_log := [] |}.

(** the fate of the most recent DELETE with identifier [d] *)
Fixpoint set_fate (d : nat) (f : fate) (log : list lentry) : list lentry :=
  match log with
  | [] => []
  | LDel d' p i a t f0 :: r => if Nat.eqb d d' then LDel d' p i a t f :: r else LDel d' p i a t f0 :: set_fate d f r
  | e :: r => e :: set_fate d f r
  end.

Definition gstep (g : gstate) (e : ev) : option gstate :=
  match step (g_s g) e with
  | None => None
  | Some s' =>
      let s := g_s g in
      Some {| g_s := s';
              g_log := match e with
                       | EInsert rows => LIns rows :: g_log g
                       | EDelBegin d p => LDel d p (c_ins s) (c_acked s) (fst (located p (c_tbl s))) Pending :: g_log g
                       | EDelCommit d =>
                           match find_del d (c_dels s) with
                           | Some ds => set_fate d (if forallb (fun r => memb r (live_ids (c_tbl s))) (ds_rsids ds) then Acked else Failed) (g_log g)
                           | None => g_log g
                           end
                       | _ => g_log g
                       end |}
  end.
Fixpoint grun (g : gstate) (es : list ev) : option gstate :=
  match es with [] => Some g | e :: r => match gstep g e with Some g' => grun g' r | None => None end end.

(** ** the serial execution of the acknowledged statements of a log (oldest entry = last) *)
Fixpoint serial_run (log : list lentry) : list row :=
  match log with
  | [] => []
  | LIns rows :: older => serial_run older ++ rows
  | LDel _ p _ _ _ Acked :: older => filter (fun r => negb (p r)) (serial_run older)
  | _ :: older => serial_run older
  end.
(** what each acknowledged DELETE reports in that serial execution: the number of rows it removes *)
Fixpoint serial_counts (log : list lentry) : list (nat * nat) :=
  match log with
  | [] => []
  | LDel d p _ _ _ Acked :: older => (d, length (filter p (serial_run older))) :: serial_counts older
  | _ :: older => serial_counts older
  end.
(** ... and what it reports in the concurrent execution: the rows it located in its snapshot *)
Fixpoint reported_counts (log : list lentry) : list (nat * nat) :=
  match log with
  | [] => []
  | LDel d _ _ _ t Acked :: older => (d, length t) :: reported_counts older
  | _ :: older => reported_counts older
  end.

(** the statements of an event sequence in real-time order (newest first), without the ghost fields *)
Inductive stmt_ev := VIns (rows : list row) | VDel (d : nat).
Fixpoint stmts_of (es : list ev) (acc : list stmt_ev) : list stmt_ev :=
  match es with
  | [] => acc
  | EInsert rows :: r => stmts_of r (VIns rows :: acc)
  | EDelBegin d _ :: r => stmts_of r (VDel d :: acc)
  | _ :: r => stmts_of r acc
  end.
Definition erase (e : lentry) : stmt_ev := match e with LIns rows => VIns rows | LDel d _ _ _ _ _ => VDel d end.
