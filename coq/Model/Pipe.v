(** * The task / channel plumbing between executors (src/executor/mod.rs Builder::spawn,
    StreamSubscriber::subscribe): every operator runs as a task that broadcasts its items; a
    consumer re-raises an error item with `?`, and when the channel closes it checks the
    completion flag: a task that died (panicked) never set it.  No proofs in this file. *)
From Coq Require Export List Arith Bool.
Export ListNotations.

(** an operator that produces [n] items when all its inputs succeed, over its input operators *)
Inductive plan := P (n : nat) (children : plans)
with plans := PNil | PCons (p : plan) (r : plans).
Inductive kind := FErr | FPanic.
Record fault := mk_fault { f_op : nat; f_chunk : nat; f_kind : kind }.   (* f_op: index in spawn (post-) order *)

Inductive ending := EndOk | EndErrItem | EndDied.
(** what a consumer of the task concludes *)
Inductive outcome := OOk | OErr.
Definition subscribe (finished_flag_checked : bool) (e : ending) : outcome :=
  match e with
  | EndOk => OOk
  | EndErrItem => OErr
  | EndDied => if finished_flag_checked then OErr else OOk     (* the channel just closes: without the flag it looks like the end of the stream *)
  end.
Definition own_ending (f : option fault) (me n : nat) : ending :=
  match f with
  | Some ft => if Nat.eqb (f_op ft) me && Nat.ltb (f_chunk ft) n
               then match f_kind ft with FErr => EndErrItem | FPanic => EndDied end
               else EndOk
  | None => EndOk
  end.

(** run the tasks of a plan in spawn order; returns how the root task ended and the next free index *)
Fixpoint run_go (chk : bool) (f : option fault) (p : plan) (next : nat) {struct p} : ending * nat :=
  match p with
  | P n children =>
      let '(child_err, me) := run_list chk f children next in
      (if child_err then EndErrItem        (* the executor re-raises its input's error and ends *)
       else own_ending f me n, S me)
  end
with run_list (chk : bool) (f : option fault) (l : plans) (next : nat) {struct l} : bool * nat :=
  match l with
  | PNil => (false, next)
  | PCons c r =>
      let '(e, nx) := run_go chk f c next in
      let '(err_r, nx') := run_list chk f r nx in
      (match subscribe chk e with OErr => true | OOk => err_r end, nx')
  end.
Definition run (chk : bool) (f : option fault) (p : plan) : outcome := subscribe chk (fst (run_go chk f p 0)).

(** number of operators, and the number of items of the operator with a given spawn index *)
Fixpoint size (p : plan) : nat := match p with P _ cs => S (sizes cs) end
with sizes (l : plans) : nat := match l with PNil => 0 | PCons c r => size c + sizes r end.
Fixpoint items_at (p : plan) (base idx : nat) {struct p} : option nat :=
  match p with
  | P n cs => match items_list cs base idx with
              | Some k => Some k
              | None => if Nat.eqb idx (base + sizes cs) then Some n else None
              end
  end
with items_list (l : plans) (base idx : nat) {struct l} : option nat :=
  match l with
  | PNil => None
  | PCons c r => match items_at c base idx with Some k => Some k | None => items_list r (base + size c) idx end
  end.
(** the fault is reached: the targeted operator exists and would produce that item *)
Definition hit_at (f : option fault) (p : plan) (base : nat) : bool :=
  match f with
  | Some ft => match items_at p base (f_op ft) with Some n => Nat.ltb (f_chunk ft) n | None => false end
  | None => false
  end.
Definition hit_list (f : option fault) (l : plans) (base : nat) : bool :=
  match f with
  | Some ft => match items_list l base (f_op ft) with Some n => Nat.ltb (f_chunk ft) n | None => false end
  | None => false
  end.

(** a statement with a transaction: its effects are committed only when the root reports success *)
Definition apply_stmt {T} (chk : bool) (f : option fault) (p : plan) (commit : T -> T) (t : T) : T * outcome :=
  match run chk f p with OOk => (commit t, OOk) | OErr => (t, OErr) end.
