(** * Compaction against concurrent inserts and deletes on one table
    (src/storage/secondary/{compactor,transaction,transaction_manager}.rs).
    The per-table lock is held by a DELETE from `table.update()` to its commit and by the compactor
    from try_lock_for_compaction to the end of compact_table; the compactor pins its snapshot AFTER
    taking the lock; a DELETE locates its rows in the snapshot pinned when the statement started
    and, at commit, refuses to commit if one of the row-sets it touched is gone.
    Rows are unique numbers.  No proofs in this file. *)
From RL Require Export Model.Store.
From Coq Require Export ListDec.

Inductive owner := OComp | ODel (d : nat).
Record dstmt := { ds_id : nat; ds_targets : list row; ds_rsids : list nat }.
Record cstate := {
  c_tbl : disk_table;
  c_lock : option owner;
  c_comp : option (list nat * list row);   (* the compaction in flight: chosen row-set ids, rows read *)
  c_dels : list dstmt;                     (* DELETE statements that have located their rows *)
  c_acked : list row;                      (* rows removed by acknowledged DELETEs *)
  c_ins : list row }.                      (* rows of acknowledged INSERTs *)
Definition c_init : cstate :=
  {| c_tbl := empty_table; c_lock := None; c_comp := None; c_dels := []; c_acked := []; c_ins := [] |}.

Inductive ev :=
| EInsert (rows : list row)
| EDelBegin (d : nat) (p : row -> bool)    (* the child scan pins a snapshot and locates the matching rows *)
| EDelLock (d : nat)                       (* table.update(): take the table lock (waits while it is held) *)
| EDelCommit (d : nat)
| ECompLock                                (* try_lock_for_compaction *)
| ECompPin (sel : nat -> bool)             (* pin, select row-sets, read them through their delete vectors *)
| ECompCommit
| ECompUnlock.

Definition memb (x : nat) (l : list nat) : bool := existsb (Nat.eqb x) l.
Fixpoint nodupb (l : list nat) : bool := match l with [] => true | x :: r => negb (memb x r) && nodupb r end.
Definition live_ids (t : disk_table) : list nat := map rs_id (d_rowsets t).
(** the visible rows matching [p], and the row-sets they live in *)
Definition located (p : row -> bool) (t : disk_table) : list row * list nat :=
  (filter p (disk_scan t),
   map rs_id (filter (fun rs => existsb p (rs_visible t rs)) (d_rowsets t))).
Definition set_tbl (s : cstate) (t : disk_table) : cstate :=
  {| c_tbl := t; c_lock := c_lock s; c_comp := c_comp s; c_dels := c_dels s; c_acked := c_acked s; c_ins := c_ins s |}.
Definition find_del (d : nat) (l : list dstmt) : option dstmt := find (fun x => Nat.eqb (ds_id x) d) l.
Definition drop_del (d : nat) (l : list dstmt) : list dstmt := filter (fun x => negb (Nat.eqb (ds_id x) d)) l.

Definition step (s : cstate) (e : ev) : option cstate :=
  match e with
  | EInsert rows =>
      (* acknowledged rows are new and distinct *)
      if forallb (fun r => negb (memb r (c_ins s))) rows && nodupb rows then
        Some {| c_tbl := disk_insert (c_tbl s) rows; c_lock := c_lock s; c_comp := c_comp s; c_dels := c_dels s;
                c_acked := c_acked s; c_ins := c_ins s ++ rows |}
      else None
  | EDelBegin d p =>
      match find_del d (c_dels s) with
      | Some _ => None
      | None => let '(targets, rsids) := located p (c_tbl s) in
                Some {| c_tbl := c_tbl s; c_lock := c_lock s; c_comp := c_comp s;
                        c_dels := {| ds_id := d; ds_targets := targets; ds_rsids := rsids |} :: c_dels s;
                        c_acked := c_acked s; c_ins := c_ins s |}
      end
  | EDelLock d =>
      match c_lock s, find_del d (c_dels s) with
      | None, Some _ => Some {| c_tbl := c_tbl s; c_lock := Some (ODel d); c_comp := c_comp s; c_dels := c_dels s; c_acked := c_acked s; c_ins := c_ins s |}
      | _, _ => None
      end
  | EDelCommit d =>
      match c_lock s, find_del d (c_dels s) with
      | Some (ODel d'), Some ds =>
          if Nat.eqb d d' then
            if forallb (fun r => memb r (live_ids (c_tbl s))) (ds_rsids ds) then
              (* every touched row-set is still live: write the delete vectors, acknowledge *)
              Some {| c_tbl := fst (disk_delete (fun r => memb r (ds_targets ds)) (c_tbl s)); c_lock := None; c_comp := c_comp s;
                      c_dels := drop_del d (c_dels s); c_acked := c_acked s ++ ds_targets ds; c_ins := c_ins s |}
            else
              (* a touched row-set was replaced meanwhile: the statement fails, nothing is acknowledged *)
              Some {| c_tbl := c_tbl s; c_lock := None; c_comp := c_comp s; c_dels := drop_del d (c_dels s); c_acked := c_acked s; c_ins := c_ins s |}
          else None
      | _, _ => None
      end
  | ECompLock =>
      match c_lock s with
      | None => Some {| c_tbl := c_tbl s; c_lock := Some OComp; c_comp := None; c_dels := c_dels s; c_acked := c_acked s; c_ins := c_ins s |}
      | Some _ => None
      end
  | ECompPin sel =>
      match c_lock s, c_comp s with
      | Some OComp, None =>
          let chosen := filter (fun rs => sel (rs_id rs)) (d_rowsets (c_tbl s)) in
          Some {| c_tbl := c_tbl s; c_lock := c_lock s;
                  c_comp := Some (map rs_id chosen, concat (map (rs_visible (c_tbl s)) chosen));
                  c_dels := c_dels s; c_acked := c_acked s; c_ins := c_ins s |}
      | _, _ => None
      end
  | ECompCommit =>
      match c_lock s, c_comp s with
      | Some OComp, Some (chosen, merged) =>
          Some {| c_tbl := disk_compact (fun id => memb id chosen) (fun _ => merged) (c_tbl s); c_lock := c_lock s; c_comp := None;
                  c_dels := c_dels s; c_acked := c_acked s; c_ins := c_ins s |}
      | _, _ => None
      end
  | ECompUnlock =>
      match c_lock s, c_comp s with
      | Some OComp, None => Some {| c_tbl := c_tbl s; c_lock := None; c_comp := None; c_dels := c_dels s; c_acked := c_acked s; c_ins := c_ins s |}
      | _, _ => None
      end
  end.
Fixpoint run (s : cstate) (es : list ev) : option cstate :=
  match es with [] => Some s | e :: r => match step s e with Some s' => run s' r | None => None end end.

(** what the table must hold: the inserted rows that no acknowledged DELETE removed *)
Definition expected (s : cstate) : list row := filter (fun r => negb (memb r (c_acked s))) (c_ins s).

(** the protocol before the repairs, for the refutations:
    - [pin_before_lock]: the snapshot is pinned for the whole pass, before the table is locked;
    - [no_liveness_check]: a DELETE commits its delete vectors whatever happened to the row-sets. *)
Definition step_pin_before_lock (s : cstate) (e : ev) : option cstate :=
  match e with
  | ECompPin sel =>
      match c_comp s with
      | None => let chosen := filter (fun rs => sel (rs_id rs)) (d_rowsets (c_tbl s)) in
                Some {| c_tbl := c_tbl s; c_lock := c_lock s; c_comp := Some (map rs_id chosen, concat (map (rs_visible (c_tbl s)) chosen));
                        c_dels := c_dels s; c_acked := c_acked s; c_ins := c_ins s |}
      | Some _ => None
      end
  | ECompLock => match c_lock s with
                 | None => Some {| c_tbl := c_tbl s; c_lock := Some OComp; c_comp := c_comp s; c_dels := c_dels s; c_acked := c_acked s; c_ins := c_ins s |}
                 | Some _ => None end
  | _ => step s e
  end.
Fixpoint run_with (st : cstate -> ev -> option cstate) (s : cstate) (es : list ev) : option cstate :=
  match es with [] => Some s | e :: r => match st s e with Some s' => run_with st s' r | None => None end end.
