(** * The column iterator returns exactly the column, for every partition into blocks,
      start row, batch-size sequence and skip pattern. *)
From RL Require Import Model.ColIter.
From Coq Require Import Lia.

Section ColP.
Variable A : Type.
Notation blocks := (blocks A).
Notation first := (first A).
Notation blk_at := (blk_at A).

(** ** partitions *)
Lemma first_S bs i : i < length bs -> first bs (S i) = first bs i + length (blk_at bs i).
Proof.
  unfold ColIter.first, ColIter.blk_at. revert i. induction bs as [|b bs IH]; intros i H; cbn in H; [lia|].
  destruct i as [|i]; cbn [firstn concat nth].
  - rewrite app_nil_r. cbn. lia.
  - rewrite !app_length. cbn [firstn concat] in IH. rewrite (IH i) by lia. lia.
Qed.
Lemma first_0 bs : first bs 0 = 0. Proof. reflexivity. Qed.
Lemma first_all bs i : length bs <= i -> first bs i = length (concat bs).
Proof. intros H. unfold ColIter.first. rewrite firstn_all2 by exact H. reflexivity. Qed.
Lemma first_mono bs i j : i <= j -> first bs i <= first bs j.
Proof.
  intros H. induction H as [|j H IH]; [lia|].
  destruct (Nat.lt_ge_cases j (length bs)) as [L|L].
  - rewrite first_S by exact L. lia.
  - rewrite (first_all bs (S j)) by lia. rewrite (first_all bs j) in IH by lia. exact IH.
Qed.
Lemma first_le_total bs i : first bs i <= length (concat bs).
Proof. rewrite <- (first_all bs (length bs)) by lia. destruct (Nat.le_ge_cases i (length bs)); [apply first_mono; assumption|]. rewrite first_all by assumption. rewrite first_all by lia. lia. Qed.

Lemma skipn_concat bs i c : i < length bs -> c <= length (blk_at bs i) ->
  skipn (first bs i + c) (concat bs) = skipn c (blk_at bs i) ++ concat (skipn (S i) bs).
Proof.
  unfold ColIter.first, ColIter.blk_at. revert i. induction bs as [|b bs IH]; intros i H Hc; cbn in H; [lia|].
  destruct i as [|i]; cbn [firstn concat nth skipn].
  - cbn [length Nat.add]. cbn [nth] in Hc. rewrite skipn_app. replace (c - length b) with 0 by lia. reflexivity.
  - cbn [nth] in Hc. rewrite app_length, skipn_app.
    replace (length b + length (concat (firstn i bs)) + c - length b) with (length (concat (firstn i bs)) + c) by lia.
    rewrite (skipn_all2 b) by lia. cbn [app]. apply IH; [lia|exact Hc].
Qed.
Lemma concat_skipn_S bs i : i < length bs -> concat (skipn i bs) = blk_at bs i ++ concat (skipn (S i) bs).
Proof.
  unfold ColIter.blk_at. revert i. induction bs as [|b bs IH]; intros i H; cbn in H; [lia|].
  destruct i as [|i]; cbn [skipn concat nth]; [reflexivity|]. apply IH. lia.
Qed.
Lemma skipn_first bs i : i < length bs -> skipn (first bs i) (concat bs) = concat (skipn i bs).
Proof.
  intros H. replace (first bs i) with (first bs i + 0) by lia. rewrite skipn_concat by (try assumption; lia).
  cbn [skipn]. symmetry. apply concat_skipn_S, H.
Qed.

(** [lia] chokes on the destructuring-let induction hypotheses below: drop them first *)
Ltac mylia := repeat match goal with H : forall _, _ |- _ => clear H end; lia.

(** position invariant of a live iterator *)
Definition pos_ok (bs : blocks) (blk row : nat) : Prop :=
  blk < length bs /\ first bs blk <= row <= first bs blk + length (blk_at bs blk).

(** ** next_batch with a requested size *)
Lemma nb_loop_some bs k : forall fuel blk pos row total acc,
  pos_ok bs blk row -> pos = row - first bs blk -> length bs - blk < fuel -> total < k ->
  let rest := skipn row (concat bs) in
  let d := firstn (k - total) rest in
  let '((blk', pos', row', fin), (total', out)) := nb_loop A fuel bs (Some k) blk pos row total acc in
  out = acc ++ d /\ total' = total + length d /\ row' = row + length d /\
  (fin = false -> pos_ok bs blk' row' /\ pos' = row' - first bs blk') /\
  (fin = true -> row' = length (concat bs)).
Proof.
  induction fuel as [|f IH]; intros blk pos row total acc [Hb Hrow] Hpos Hf Ht; [mylia|].
  cbn [nb_loop]. cbv zeta.
  subst pos. remember (blk_at bs blk) as b eqn:Eb in *. remember (row - first bs blk) as cur eqn:Ecur.
  remember (Nat.min (length b - cur) (k - total)) as want eqn:Ewant.
  assert (Hcur : cur <= length b) by mylia.
  assert (Hrest : skipn row (concat bs) = skipn cur b ++ concat (skipn (S blk) bs)).
  { replace row with (first bs blk + cur) by mylia. rewrite Eb. apply skipn_concat; [assumption|rewrite <- Eb; assumption]. }
  assert (Hitems : firstn want (skipn cur b) = firstn want (skipn row (concat bs))).
  { rewrite Hrest, firstn_app. replace (want - length (skipn cur b)) with 0.
    - cbn. rewrite app_nil_r. reflexivity.
    - rewrite skipn_length. mylia. }
  assert (Hlen : length (firstn want (skipn cur b)) = want).
  { rewrite firstn_length, skipn_length. mylia. }
  destruct (Nat.leb_spec k (total + want)) as [Hk|Hk].
  - assert (Hw : want = k - total) by mylia.
    rewrite <- Hw, <- Hitems, Hlen. repeat split; try reflexivity; try discriminate.
    all: try exact Hb; rewrite <- ?Eb; mylia.
  - assert (Hw : want = length b - cur) by mylia.
    assert (Hrow' : row + want = first bs (S blk)).
    { rewrite first_S by exact Hb. rewrite <- Eb. mylia. }
    destruct (Nat.leb_spec (length bs) (S blk)) as [Hlast|Hmore].
    + assert (Hnil : concat (skipn (S blk) bs) = []) by (rewrite skipn_all2 by mylia; reflexivity).
      assert (Hall : firstn (k - total) (skipn row (concat bs)) = skipn cur b).
      { rewrite Hrest, Hnil, app_nil_r. apply firstn_all2. rewrite skipn_length. mylia. }
      rewrite Hall. rewrite Hw. rewrite (firstn_all2 (skipn cur b)) by (rewrite skipn_length; mylia).
      rewrite skipn_length. repeat split; try reflexivity; try discriminate.
      intros _. rewrite <- Hw, Hrow'. apply first_all. mylia.
    + specialize (IH (S blk) (row + want - first bs (S blk)) (row + want) (total + want)
                     (acc ++ firstn want (skipn cur b))).
      assert (Hp' : pos_ok bs (S blk) (row + want)) by (split; [mylia|rewrite <- Hrow'; mylia]).
      specialize (IH Hp' eq_refl ltac:(mylia) ltac:(mylia)). cbv zeta in IH.
      destruct (nb_loop A f bs (Some k) (S blk) (row + want - first bs (S blk)) (row + want) (total + want)
                        (acc ++ firstn want (skipn cur b))) as [[[[blk' pos'] row'] fin] [total' out]].
      destruct IH as (Ho & Htot & Hr & Hfin & Hfin').
      assert (Hsplit : firstn (k - total) (skipn row (concat bs))
                       = skipn cur b ++ firstn (k - (total + want)) (skipn (row + want) (concat bs))).
      { rewrite Hrest, firstn_app, skipn_length.
        rewrite (firstn_all2 (skipn cur b)) by (rewrite skipn_length; mylia).
        f_equal. replace (k - total - (length b - cur)) with (k - (total + want)) by mylia.
        f_equal. rewrite Hrow'. symmetry. apply skipn_first. mylia. }
      assert (Hfw : firstn want (skipn cur b) = skipn cur b).
      { rewrite Hw. apply firstn_all2. rewrite skipn_length. mylia. }
      split; [|split; [|split; [|split]]].
      * rewrite Ho, Hsplit, <- app_assoc, Hfw. reflexivity.
      * rewrite Htot, Hsplit, app_length, skipn_length. mylia.
      * rewrite Hr, Hsplit, app_length, skipn_length. mylia.
      * exact Hfin.
      * exact Hfin'.
Qed.

(** ** next_batch without a requested size: what is left of the current block, or, when that is
       nothing, of the next non-empty block *)
Lemma nb_loop_none bs : forall fuel blk pos row acc,
  pos_ok bs blk row -> pos = row - first bs blk -> length bs - blk < fuel ->
  let rest := skipn row (concat bs) in
  let '((blk', pos', row', fin), (total', out)) := nb_loop A fuel bs None blk pos row 0 acc in
  exists d, out = acc ++ d /\ d = firstn (length d) rest /\ total' = length d /\ row' = row + length d /\
            (rest <> [] -> d <> []) /\
            (fin = false -> pos_ok bs blk' row' /\ pos' = row' - first bs blk') /\
            (fin = true -> row' = length (concat bs)).
Proof.
  induction fuel as [|f IH]; intros blk pos row acc [Hb Hrow] Hpos Hf; [mylia|].
  cbn [nb_loop]. cbv zeta.
  subst pos. remember (blk_at bs blk) as b eqn:Eb in *. remember (row - first bs blk) as cur eqn:Ecur.
  assert (Hcur : cur <= length b) by mylia.
  assert (Hrest : skipn row (concat bs) = skipn cur b ++ concat (skipn (S blk) bs)).
  { replace row with (first bs blk + cur) by mylia. rewrite Eb. apply skipn_concat; [assumption|rewrite <- Eb; assumption]. }
  cbn [Nat.add].
  assert (Hfl : length (firstn (length b - cur) (skipn cur b)) = length b - cur).
  { rewrite firstn_length, skipn_length. mylia. }
  assert (Hfa : firstn (length b - cur) (skipn cur b) = skipn cur b).
  { apply firstn_all2. rewrite skipn_length. mylia. }
  destruct (Nat.eqb_spec (length b - cur) 0) as [Hz|Hnz]; cbn [negb].
  - (* nothing left in this block *)
    assert (Hrow' : row = first bs (S blk)).
    { rewrite first_S by exact Hb. rewrite <- Eb. mylia. }
    destruct (Nat.leb_spec (length bs) (S blk)) as [Hlast|Hmore].
    + exists []. rewrite Hz. cbn [firstn]. rewrite app_nil_r, !Nat.add_0_r.
      repeat split; try reflexivity; try discriminate.
      * intros Hne. exfalso. apply Hne. rewrite Hrest.
        rewrite (skipn_all2 b) by mylia. rewrite skipn_all2 by mylia. reflexivity.
      * intros _. rewrite Hrow'. apply first_all. mylia.
    + rewrite Hz. cbn [firstn]. rewrite app_nil_r, !Nat.add_0_r.
      specialize (IH (S blk) (row - first bs (S blk)) row acc).
      assert (Hp' : pos_ok bs (S blk) row) by (split; [mylia|rewrite <- Hrow'; mylia]).
      specialize (IH Hp' eq_refl ltac:(mylia)). cbv zeta in IH.
      destruct (nb_loop A f bs None (S blk) (row - first bs (S blk)) row 0 acc) as [[[[blk' pos'] row'] fin] [total' out]].
      exact IH.
  - exists (skipn cur b). rewrite Hfa, skipn_length.
    repeat split; try reflexivity; try discriminate.
    + rewrite Hrest, firstn_app, skipn_length, Nat.sub_diag. cbn [firstn]. rewrite app_nil_r.
      symmetry. apply firstn_all2. rewrite skipn_length. mylia.
    + intros _ E. apply (f_equal (@length A)) in E. rewrite skipn_length in E. cbn in E. mylia.
    + exact Hb.
    + mylia.
    + rewrite <- ?Eb; mylia.
    + mylia.
Qed.

(** ** block_of_row *)
Lemma first_cons b bs i : first (b :: bs) (S i) = length b + first bs i.
Proof. unfold ColIter.first. cbn [firstn concat]. apply app_length. Qed.

Lemma count_le_spec : forall bs acc rowid,
  let c := count_le A bs acc rowid in
  c <= length bs /\ (forall i, i < c -> acc + first bs i <= rowid) /\
  (c < length bs -> rowid < acc + first bs c).
Proof.
  induction bs as [|b bs IH]; intros acc rowid; cbn [count_le length].
  - repeat split; try lia; intros i Hi; lia.
  - destruct (Nat.leb_spec acc rowid) as [H|H].
    + specialize (IH (acc + length b) rowid). cbv zeta in IH. destruct IH as (H1 & H2 & H3).
      cbv zeta. repeat split.
      * lia.
      * intros [|i] Hi; [rewrite first_0; lia|]. rewrite first_cons. specialize (H2 i ltac:(lia)). lia.
      * intros Hc. rewrite first_cons. specialize (H3 ltac:(lia)). lia.
    + cbv zeta. repeat split; try lia; try (intros _; rewrite first_0; lia).
Qed.

Lemma block_of_row_ok bs start : 0 < length bs -> start <= length (concat bs) ->
  pos_ok bs (block_of_row A bs start) start.
Proof.
  intros Hn Hs. unfold block_of_row. pose proof (count_le_spec bs 0 start) as H. cbv zeta in H.
  set (c := count_le A bs 0 start) in *. destruct H as (H1 & H2 & H3). cbn [Nat.add] in *.
  assert (Hc : 0 < c).
  { destruct c as [|c]; [|lia]. specialize (H3 Hn). rewrite first_0 in H3. lia. }
  unfold pos_ok. split; [lia|]. split; [apply H2; lia|].
  rewrite <- first_S by lia. replace (S (c - 1)) with c by lia.
  destruct (Nat.lt_ge_cases c (length bs)) as [L|L]; [specialize (H3 L); lia|].
  rewrite first_all by lia. exact Hs.
Qed.

(** ** skip *)
Lemma skip_fake_spec bs row : forall fuel blk reached,
  blk < length bs -> reached = first bs (S blk) -> first bs blk <= row -> length bs - blk < fuel ->
  let '(blk', fin) := skip_fake A fuel bs blk row reached in
  (fin = false -> pos_ok bs blk' row) /\ (fin = true -> length (concat bs) <= row).
Proof.
  induction fuel as [|f IH]; intros blk reached Hb Hr Hrow Hf; [lia|].
  cbn [skip_fake]. destruct (Nat.ltb_spec reached row) as [H|H].
  - destruct (Nat.leb_spec (length bs) (S blk)) as [Hl|Hl].
    + split; [discriminate|]. intros _. rewrite <- (first_all bs (S blk)) by lia. lia.
    + apply IH; try lia. rewrite (first_S bs (S blk)) by lia. lia.
  - split; [|discriminate]. intros _. unfold pos_ok. rewrite <- first_S by lia. lia.
Qed.

Lemma skip_blocks_spec bs : forall fuel blk cnt,
  blk < length bs -> length bs - blk < fuel ->
  let '(blk', fin) := skip_blocks A fuel bs blk cnt in
  (fin = false -> pos_ok bs blk' (first bs blk + cnt)) /\
  (fin = true -> length (concat bs) <= first bs blk + cnt).
Proof.
  induction fuel as [|f IH]; intros blk cnt Hb Hf; [lia|].
  cbn [skip_blocks]. destruct (Nat.eqb_spec cnt 0) as [Hz|Hz].
  - split; [|discriminate]. intros _. unfold pos_ok. lia.
  - destruct (Nat.leb_spec (length (blk_at bs blk)) cnt) as [H|H].
    + destruct (Nat.leb_spec (length bs) (S blk)) as [Hl|Hl].
      * split; [discriminate|]. intros _. rewrite <- (first_all bs (S blk)) by lia. rewrite first_S by lia. lia.
      * specialize (IH (S blk) (cnt - length (blk_at bs blk)) ltac:(lia) ltac:(lia)).
        destruct (skip_blocks A f bs (S blk) (cnt - length (blk_at bs blk))) as [blk' fin].
        rewrite first_S in IH by lia.
        replace (first bs blk + length (blk_at bs blk) + (cnt - length (blk_at bs blk))) with (first bs blk + cnt) in IH by lia.
        exact IH.
    + split; [|discriminate]. intros _. unfold pos_ok. lia.
Qed.

Lemma firstn_length_firstn k (l : list A) : firstn (length (firstn k l)) l = firstn k l.
Proof.
  rewrite firstn_length. destruct (Nat.le_ge_cases k (length l)) as [H|H].
  - rewrite Nat.min_l by exact H. reflexivity.
  - rewrite Nat.min_r by exact H. rewrite firstn_all, firstn_all2 by exact H. reflexivity.
Qed.

(** ** the invariant and the specification of a read trace *)
Definition Inv (bs : blocks) (s : cstate) (r : nat) : Prop :=
  if c_fin s then length (concat bs) <= r
  else c_row s = r /\ pos_ok bs (c_blk s) r /\ (c_fake s = false -> c_pos s = r - first bs (c_blk s)).

Fixpoint trace_ok (a : list A) (r : nat) (reqs : list req) (outs : list (resp A)) : Prop :=
  match reqs, outs with
  | [], [] => True
  | RNext k :: reqs', OBatch _ None cur :: outs' => length a <= r /\ trace_ok a r reqs' outs'
  | RNext k :: reqs', OBatch _ (Some (rid, d)) cur :: outs' =>
      rid = r /\ d <> [] /\ d = firstn (length d) (skipn r a) /\
      (match k with Some n => length d = Nat.min n (length a - r) | None => True end) /\
      cur = r + length d /\ trace_ok a (r + length d) reqs' outs'
  | RSkip n :: reqs', OSkipped _ cur :: outs' =>
      (r + n < length a -> cur = r + n) /\ trace_ok a (r + n) reqs' outs'
  | RHint :: reqs', OHint _ _ _ :: outs' => trace_ok a r reqs' outs'
  | _, _ => False
  end.

Definition req_ok (q : req) : Prop := match q with RNext (Some 0) => False | _ => True end.

Lemma col_new_inv bs start : 0 < length bs -> start <= length (concat bs) -> Inv bs (col_new A bs start) start.
Proof.
  intros Hn Hs. unfold Inv, col_new. cbn [c_fin c_row c_blk c_fake c_pos].
  split; [reflexivity|]. split; [apply block_of_row_ok; assumption|reflexivity].
Qed.

Lemma col_skip_inv bs n s r : Inv bs s r ->
  let s' := col_skip A bs n s in Inv bs s' (r + n) /\ (r + n < length (concat bs) -> c_row s' = r + n).
Proof.
  intros HI. unfold col_skip, Inv in *. destruct (c_fin s) eqn:Ef.
  - cbv zeta. rewrite Ef. split; lia.
  - destruct HI as (Hrow & [Hb Hp] & Hpos). rewrite Hrow.
    destruct (c_fake s) eqn:Efk.
    + pose proof (skip_fake_spec bs (r + n) (S (length bs)) (c_blk s)
                   (first bs (c_blk s) + length (blk_at bs (c_blk s))) Hb) as H.
      rewrite <- first_S in H by exact Hb. specialize (H eq_refl ltac:(lia) ltac:(lia)).
      rewrite <- first_S by exact Hb.
      destruct (skip_fake A (S (length bs)) bs (c_blk s) (r + n) (first bs (S (c_blk s)))) as [blk' fin].
      destruct H as [H1 H2]. cbv zeta. cbn [c_fin c_row c_blk c_fake c_pos].
      destruct fin.
      * split; [apply H2; reflexivity|]. intros Hlt. specialize (H2 eq_refl). lia.
      * split; [|reflexivity]. split; [reflexivity|]. split; [apply H1; reflexivity|discriminate].
    + specialize (Hpos eq_refl).
      destruct (Nat.leb_spec (length (blk_at bs (c_blk s)) - c_pos s) n) as [Hrem|Hrem].
      * destruct (Nat.leb_spec (length bs) (S (c_blk s))) as [Hl|Hl].
        -- cbv zeta. cbn [c_fin c_row]. split; [|reflexivity].
           rewrite <- (first_all bs (S (c_blk s))) by lia. rewrite first_S by lia. lia.
        -- pose proof (skip_blocks_spec bs (S (length bs)) (S (c_blk s))
                        (n - (length (blk_at bs (c_blk s)) - c_pos s)) ltac:(lia) ltac:(lia)) as H.
           destruct (skip_blocks A (S (length bs)) bs (S (c_blk s)) (n - (length (blk_at bs (c_blk s)) - c_pos s))) as [blk' fin].
           rewrite first_S in H by lia.
           replace (first bs (c_blk s) + length (blk_at bs (c_blk s)) + (n - (length (blk_at bs (c_blk s)) - c_pos s)))
             with (r + n) in H by lia.
           destruct H as [H1 H2]. cbv zeta. cbn [c_fin c_row c_blk c_fake c_pos].
           destruct fin; cbn [negb].
           ++ split; [apply H2; reflexivity|reflexivity].
           ++ split; [|reflexivity]. split; [reflexivity|]. split; [apply H1; reflexivity|discriminate].
      * cbv zeta. cbn [c_fin c_row c_blk c_fake c_pos]. split; [|reflexivity].
        split; [reflexivity|]. split; [unfold pos_ok; lia|]. intros _. lia.
Qed.

Lemma col_next_spec bs k s r : Inv bs s r -> req_ok (RNext k) ->
  let a := concat bs in
  let '(s', o) := col_next A bs k s in
  match o with
  | OBatch _ None cur => length a <= r /\ Inv bs s' r
  | OBatch _ (Some (rid, d)) cur =>
      rid = r /\ d <> [] /\ d = firstn (length d) (skipn r a) /\
      (match k with Some n => length d = Nat.min n (length a - r) | None => True end) /\
      cur = r + length d /\ Inv bs s' (r + length d)
  | _ => False
  end.
Proof.
  intros HI Hk. cbv zeta. unfold col_next, Inv in *. destruct (c_fin s) eqn:Ef.
  - rewrite Ef. split; exact HI.
  - destruct HI as (Hrow & Hp & Hpos).
    assert (Hposeq : (if c_fake s then c_row s - first bs (c_blk s) else c_pos s) = r - first bs (c_blk s)).
    { destruct (c_fake s); [rewrite Hrow; reflexivity|apply Hpos; reflexivity]. }
    rewrite Hposeq, Hrow.
    destruct k as [k|].
    + assert (Hk0 : 0 < k) by (destruct k; [contradiction|lia]).
      pose proof (nb_loop_some bs k (S (length bs - c_blk s)) (c_blk s) (r - first bs (c_blk s)) r 0 []
                    Hp eq_refl ltac:(lia) Hk0) as H. cbv zeta in H.
      destruct (nb_loop A (S (length bs - c_blk s)) bs (Some k) (c_blk s) (r - first bs (c_blk s)) r 0 [])
        as [[[[blk' pos'] row'] fin] [total' out]].
      destruct H as (Ho & Ht & Hr & Hf & Hf'). cbn [app Nat.add] in Ho, Ht. rewrite Nat.sub_0_r in *.
      set (d := firstn k (skipn r (concat bs))) in *.
      assert (Hdl : length d = Nat.min k (length (concat bs) - r)).
      { unfold d. rewrite firstn_length, skipn_length. reflexivity. }
      cbn [c_fin c_row c_blk c_fake c_pos].
      destruct (Nat.eqb_spec total' 0) as [Hz|Hz].
      * assert (Hd0 : length d = 0) by lia. rewrite Hd0, Nat.add_0_r in Hr. subst row'.
        split; [lia|]. destruct fin.
        -- specialize (Hf' eq_refl). lia.
        -- destruct (Hf eq_refl) as [Hq1 Hq2]. split; [reflexivity|]. split; [exact Hq1|intros _; exact Hq2].
      * subst out. split; [reflexivity|]. split; [intros E; rewrite E in Ht; cbn in Ht; lia|].
        split; [unfold d; symmetry; apply firstn_length_firstn|].
        split; [exact Hdl|]. split; [exact Hr|].
        destruct fin.
        -- specialize (Hf' eq_refl). lia.
        -- destruct (Hf eq_refl) as [Hq1 Hq2]. split; [exact Hr|]. rewrite <- Hr. split; [exact Hq1|intros _; exact Hq2].
    + pose proof (nb_loop_none bs (S (length bs - c_blk s)) (c_blk s) (r - first bs (c_blk s)) r []
                    Hp eq_refl ltac:(lia)) as H. cbv zeta in H.
      destruct (nb_loop A (S (length bs - c_blk s)) bs None (c_blk s) (r - first bs (c_blk s)) r 0 [])
        as [[[[blk' pos'] row'] fin] [total' out]].
      destruct H as (d & Ho & Hd & Ht & Hr & Hne & Hf & Hf'). cbn [app] in Ho. subst out.
      cbn [c_fin c_row c_blk c_fake c_pos].
      destruct (Nat.eqb_spec total' 0) as [Hz|Hz].
      * assert (Hd0 : d = []) by (destruct d; [reflexivity|cbn in Ht; lia]).
        assert (Hrest : skipn r (concat bs) = []).
        { destruct (skipn r (concat bs)) eqn:E; [reflexivity|]. exfalso. apply Hne; [discriminate|exact Hd0]. }
        assert (Hlen : length (concat bs) <= r).
        { apply (f_equal (@length A)) in Hrest. rewrite skipn_length in Hrest. cbn in Hrest. lia. }
        rewrite Hd0 in Hr. cbn [length] in Hr. rewrite Nat.add_0_r in Hr. subst row'.
        split; [exact Hlen|]. destruct fin; [exact Hlen|].
        destruct (Hf eq_refl) as [Hq1 Hq2]. split; [reflexivity|]. split; [exact Hq1|intros _; exact Hq2].
      * split; [reflexivity|]. split; [intros E; rewrite E in Ht; cbn in Ht; lia|].
        split; [exact Hd|]. split; [exact I|]. split; [exact Hr|].
        destruct fin.
        -- specialize (Hf' eq_refl). lia.
        -- destruct (Hf eq_refl) as [Hq1 Hq2]. split; [exact Hr|]. rewrite <- Hr. split; [exact Hq1|intros _; exact Hq2].
Qed.

Theorem col_run_exact bs : forall reqs s r,
  Inv bs s r -> Forall req_ok reqs -> trace_ok (concat bs) r reqs (col_run A bs s reqs).
Proof.
  induction reqs as [|q reqs IH]; intros s r HI Hok; cbn [col_run]; [exact I|].
  inversion Hok as [|? ? Hq Hqs]; subst.
  destruct q as [k|n|]; cbn [col_step].
  - pose proof (col_next_spec bs k s r HI Hq) as H. cbv zeta in H.
    destruct (col_next A bs k s) as [s' o]. destruct o as [[[rid d]|] cur| |]; try contradiction; cbn [trace_ok].
    + destruct H as (H1 & H2 & H3 & H4 & H5 & H6). repeat split; try assumption. apply IH; assumption.
    + destruct H as (H1 & H2). split; [exact H1|]. apply IH; assumption.
  - pose proof (col_skip_inv bs n s r HI) as H. cbv zeta in H. destruct H as [H1 H2].
    cbn [trace_ok]. split; [exact H2|]. apply IH; assumption.
  - destruct (col_hint A bs s) as [n f]. cbn [trace_ok]. apply IH; assumption.
Qed.

Theorem col_read_exact bs start reqs :
  0 < length bs -> start <= length (concat bs) -> Forall req_ok reqs ->
  trace_ok (concat bs) start reqs (col_read A bs start reqs).
Proof. intros Hn Hs Hr. unfold col_read. apply col_run_exact; [apply col_new_inv; assumption|exact Hr]. Qed.
End ColP.
