(** * Round-trip laws of the byte-level encoders. *)
From RL Require Import Model.Bytes.
From Coq Require Import Lia ZifyBool.
Open Scope Z_scope.

Lemma ule_enc_length w n : length (ule_enc w n) = w.
Proof. revert n; induction w as [|w IH]; intros n; cbn [ule_enc length]; [reflexivity|]. rewrite IH. reflexivity. Qed.

Lemma bits_of_S w : bits_of (S w) = 8 + bits_of w.
Proof. unfold bits_of. lia. Qed.
Lemma bits_of_nonneg w : 0 <= bits_of w. Proof. unfold bits_of. lia. Qed.

Lemma pow_bits_pos w : 0 < 2 ^ bits_of w.
Proof. apply Z.pow_pos_nonneg; [lia|apply bits_of_nonneg]. Qed.

Lemma ule_dec_enc w : forall n, ule_dec (ule_enc w n) = n mod 2 ^ bits_of w.
Proof.
  induction w as [|w IH]; intros n.
  - cbn. rewrite Z.mod_1_r. reflexivity.
  - cbn [ule_enc ule_dec]. rewrite IH, bits_of_S, Z.pow_add_r by (pose proof (bits_of_nonneg w); lia).
    change (2 ^ 8) with 256.
    rewrite Z.rem_mul_r; [reflexivity|lia|apply pow_bits_pos].
Qed.

Lemma ule_enc_bytes w : forall n b, In b (ule_enc w n) -> 0 <= b < 256.
Proof.
  induction w as [|w IH]; intros n b H; cbn in H; [contradiction|].
  destruct H as [<-|H]; [apply Z.mod_pos_bound; lia|]. eapply IH; exact H.
Qed.

Lemma pow_half w : (0 < w)%nat -> 2 ^ bits_of w = 2 * 2 ^ (bits_of w - 1).
Proof.
  intros H. rewrite <- Z.pow_succ_r by (unfold bits_of; lia). f_equal. lia.
Qed.

Lemma wrap_s_mod w z : (0 < w)%nat -> in_range w z -> wrap_s w (z mod 2 ^ bits_of w) = z.
Proof.
  intros Hw [Hlo Hhi]. unfold wrap_s. pose proof (pow_half w Hw) as Hp.
  pose proof (pow_bits_pos w) as Hpos.
  destruct (Z.ltb_spec (z mod 2 ^ bits_of w) (2 ^ (bits_of w - 1))) as [H|H].
  - destruct (Z.le_gt_cases 0 z) as [Hz|Hz].
    + rewrite Z.mod_small in * by lia. reflexivity.
    + exfalso. assert (E : z mod 2 ^ bits_of w = z + 2 ^ bits_of w).
      { symmetry. apply (Z.mod_unique_pos _ _ (-1)); lia. }
      lia.
  - destruct (Z.le_gt_cases 0 z) as [Hz|Hz].
    + rewrite Z.mod_small in H by lia. lia.
    + assert (E : z mod 2 ^ bits_of w = z + 2 ^ bits_of w).
      { symmetry. apply (Z.mod_unique_pos _ _ (-1)); lia. }
      lia.
Qed.

Lemma firstn_app_exact {A} (l r : list A) n : n = length l -> firstn n (l ++ r) = l.
Proof. intros ->. rewrite firstn_app, Nat.sub_diag, firstn_all. cbn. apply app_nil_r. Qed.
Lemma skipn_app_exact {A} (l r : list A) n : n = length l -> skipn n (l ++ r) = r.
Proof. intros ->. rewrite skipn_app, Nat.sub_diag, skipn_all. reflexivity. Qed.

Lemma skipn_add {A} (a b : nat) : forall (l : list A), skipn (a + b) l = skipn b (skipn a l).
Proof. induction a as [|a IH]; intros l; [reflexivity|]. destruct l; cbn [Nat.add skipn]; [destruct b; reflexivity|apply IH]. Qed.

Theorem sle_dec_enc w z rest : (0 < w)%nat -> in_range w z -> sle_dec w (sle_enc w z ++ rest) = z.
Proof.
  intros Hw Hz. unfold sle_dec, sle_enc.
  rewrite firstn_app_exact by (rewrite ule_enc_length; reflexivity).
  rewrite ule_dec_enc, Z.mod_mod by (pose proof (pow_bits_pos w); lia).
  apply wrap_s_mod; assumption.
Qed.

Lemma sle_enc_length w z : length (sle_enc w z) = w.
Proof. apply ule_enc_length. Qed.
Lemma sbe_enc_length w z : length (sbe_enc w z) = w.
Proof. unfold sbe_enc. rewrite rev_length. apply sle_enc_length. Qed.

Theorem sbe_dec_enc w z rest : (0 < w)%nat -> in_range w z -> sbe_dec w (sbe_enc w z ++ rest) = z.
Proof.
  intros Hw Hz. unfold sbe_dec, sbe_enc.
  rewrite firstn_app_exact by (rewrite rev_length, sle_enc_length; reflexivity).
  rewrite rev_involutive. rewrite <- (app_nil_r (sle_enc w z)). apply sle_dec_enc; assumption.
Qed.

Theorem ule_dec_enc_small w n rest : 0 <= n < 2 ^ bits_of w -> ule_dec (firstn w (ule_enc w n ++ rest)) = n.
Proof.
  intros H. rewrite firstn_app_exact by (rewrite ule_enc_length; reflexivity).
  rewrite ule_dec_enc. apply Z.mod_small. exact H.
Qed.
Lemma ube_enc_length w n : length (ube_enc w n) = w.
Proof. unfold ube_enc. rewrite rev_length. apply ule_enc_length. Qed.
Theorem ube_dec_enc w n rest : 0 <= n < 2 ^ bits_of w -> ube_dec w (ube_enc w n ++ rest) = n.
Proof.
  intros H. unfold ube_dec, ube_enc.
  rewrite firstn_app_exact by (rewrite rev_length, ule_enc_length; reflexivity).
  rewrite rev_involutive, ule_dec_enc. apply Z.mod_small. exact H.
Qed.

Lemma in_range_b_spec w z : in_range_b w z = true <-> in_range w z.
Proof. unfold in_range_b, in_range. lia. Qed.

(** ** varint *)
Lemma varint_enc_fuel_ok : forall fuel pos v rest,
  (pos + fuel = 5)%nat -> 0 <= v < (if Nat.eqb pos 4 then 15 else 128 ^ (Z.of_nat fuel - 1) * 15) ->
  varint_dec_at pos fuel (varint_enc_fuel fuel v ++ rest)
  = Some (v, length (varint_enc_fuel fuel v)).
Proof.
  induction fuel as [|f IH]; intros pos v rest Hp Hv;
    [exfalso; replace pos with 5%nat in Hv by lia; vm_compute in Hv; destruct Hv as [Ha Hb]; destruct v; try discriminate; contradiction|].
  cbn [varint_enc_fuel].
  destruct (Nat.eqb pos 4) eqn:E.
  - apply Nat.eqb_eq in E. assert (f = 0%nat) by lia. subst f pos.
    destruct (Z.ltb_spec v 128) as [H|H]; [|lia].
    cbn [app varint_dec_at Nat.eqb length].
    destruct (Z.ltb_spec v 15); [reflexivity|lia].
  - apply Nat.eqb_neq in E.
    destruct (Z.ltb_spec v 128) as [H|H].
    + cbn [app varint_dec_at length]. destruct (Nat.eqb_spec pos 4); [contradiction|].
      destruct (Z.ltb_spec v 128); [reflexivity|lia].
    + cbn [app varint_dec_at length]. destruct (Nat.eqb_spec pos 4); [contradiction|].
      destruct (Z.ltb_spec (v mod 128 + 128) 128) as [H2|H2];
        [pose proof (Z.mod_pos_bound v 128 ltac:(lia)); lia|].
      assert (Hf : (0 < f)%nat) by lia.
      assert (Hrec : 0 <= v / 128 < (if Nat.eqb (S pos) 4 then 15 else 128 ^ (Z.of_nat f - 1) * 15)).
      { split; [apply Z.div_pos; lia|].
        replace (Z.of_nat (S f) - 1) with (Z.succ (Z.of_nat f - 1)) in Hv by lia.
        rewrite Z.pow_succ_r in Hv by lia.
        destruct (Nat.eqb (S pos) 4) eqn:E4.
        - apply Nat.eqb_eq in E4. assert (f = 1%nat) by lia. subst f.
          change (128 ^ (Z.of_nat 1 - 1)) with 1 in Hv. apply Z.div_lt_upper_bound; lia.
        - apply Z.div_lt_upper_bound; lia. }
      rewrite (IH (S pos) (v / 128) rest) by (try exact Hrec; lia).
      f_equal. f_equal. pose proof (Z.div_mod v 128 ltac:(lia)). lia.
Qed.

Theorem varint_dec_enc v rest : 0 <= v < 15 * 2 ^ 28 ->
  varint_dec (varint_enc v ++ rest) = Some (v, length (varint_enc v)).
Proof.
  intros H. unfold varint_dec, varint_enc. apply varint_enc_fuel_ok; [reflexivity|].
  cbn [Nat.eqb]. change (128 ^ (Z.of_nat 5 - 1)) with (2 ^ 28). lia.
Qed.

Lemma varint_enc_nonempty v : varint_enc v <> [].
Proof. unfold varint_enc. cbn. destruct (v <? 128); discriminate. Qed.

(** a list of varints decodes back *)
Lemma varints_dec_step f bs : bs <> [] ->
  varints_dec (S f) bs = match varint_dec bs with
                         | None => None
                         | Some (v, n) => match varints_dec f (skipn n bs) with
                                          | Some vs => Some (v :: vs)
                                          | None => None
                                          end
                         end.
Proof. destruct bs; [contradiction|reflexivity]. Qed.

Lemma varints_dec_enc : forall vs fuel,
  Forall (fun v => 0 <= v < 15 * 2 ^ 28) vs ->
  (length (flat_map varint_enc vs) <= fuel)%nat ->
  varints_dec fuel (flat_map varint_enc vs) = Some vs.
Proof.
  induction vs as [|v vs IH]; intros fuel Hok Hf; cbn [flat_map].
  - destruct fuel; reflexivity.
  - inversion Hok as [|? ? Hv Hvs]; subst.
    cbn [flat_map] in Hf. rewrite app_length in Hf.
    assert (Hne : varint_enc v ++ flat_map varint_enc vs <> []).
    { pose proof (varint_enc_nonempty v). destruct (varint_enc v); [contradiction|discriminate]. }
    assert (Hl : (0 < length (varint_enc v))%nat).
    { pose proof (varint_enc_nonempty v). destruct (varint_enc v); [contradiction|cbn; lia]. }
    destruct fuel as [|fuel]; [lia|].
    rewrite varints_dec_step by exact Hne.
    rewrite varint_dec_enc by exact Hv.
    rewrite skipn_app_exact by reflexivity.
    rewrite IH; [reflexivity|exact Hvs|lia].
Qed.

(** ** bitmaps *)
Lemma bits8_byte_of_bits b0 b1 b2 b3 b4 b5 b6 b7 :
  bits8 (byte_of_bits [b0; b1; b2; b3; b4; b5; b6; b7]) = [b0; b1; b2; b3; b4; b5; b6; b7].
Proof. destruct b0, b1, b2, b3, b4, b5, b6, b7; reflexivity. Qed.

Lemma unpack_short l : (length l < 8)%nat -> l <> [] ->
  firstn (length l) (bits8 (byte_of_bits l)) = l.
Proof.
  intros H Hn.
  destruct l as [|b0 [|b1 [|b2 [|b3 [|b4 [|b5 [|b6 [|b7 r]]]]]]]]; cbn in H; try lia; try contradiction;
  repeat match goal with b : bool |- _ => destruct b end; reflexivity.
Qed.

Theorem unpack_pack : forall n bs, length bs = n -> unpack_bits n (pack_bits bs) = bs.
Proof.
  induction n as [n IH] using lt_wf_ind. intros bs Hlen.
  destruct bs as [|b0 [|b1 [|b2 [|b3 [|b4 [|b5 [|b6 [|b7 r]]]]]]]];
    try (subst n; cbn [length]; repeat match goal with b : bool |- _ => destruct b end; reflexivity).
  cbn [pack_bits unpack_bits]. rewrite bits8_byte_of_bits.
  cbn [length] in Hlen. subst n.
  replace (S (S (S (S (S (S (S (S (length r)))))))) - 8)%nat with (length r) by lia.
  rewrite IH by (try reflexivity; lia).
  cbn [firstn app]. rewrite firstn_nil. reflexivity.
Qed.
