(** * Pinned snapshots keep their files (C08) *)
From RL Require Import Model.Version.
From Coq Require Import Lia.

(* invariant *)
Record Inv (s : st) : Prop := {
  I_cur   : forall x, In x (status s (epoch s)) -> In x (pool s);
  I_pin   : forall e x, e <= epoch s -> 0 < refcnt s e -> In x (status s e) -> In x (pool s);
  I_pend  : forall e' dels x e, In (e', dels) (pending s) -> In x dels -> e' <= e -> e <= epoch s -> ~ In x (status s e);
  I_pende : forall e' dels, In (e', dels) (pending s) -> e' <= epoch s;
  I_ids   : forall e x, e <= epoch s -> In x (status s e) -> x < nextid s;
  I_idp   : forall e' dels x, In (e', dels) (pending s) -> In x dels -> x < nextid s;
  I_rc    : forall e, epoch s < e -> refcnt s e = 0
}.

Lemma in_remove_all dels l x : In x (remove_all dels l) <-> In x l /\ ~ In x dels.
Proof.
  unfold remove_all. rewrite filter_In. split; intros [H1 H2]; split; auto.
  - intro C. rewrite negb_true_iff in H2. assert (existsb (Nat.eqb x) dels = true); [|congruence].
    apply existsb_exists. exists x; split; [exact C|apply Nat.eqb_refl].
  - apply negb_true_iff. destruct (existsb (Nat.eqb x) dels) eqn:E; [|reflexivity].
    apply existsb_exists in E as (y & Hy & Hxy). apply Nat.eqb_eq in Hxy. subst. contradiction.
Qed.

Lemma min_pinned_spec rc n m : min_pinned_upto rc n = Some m ->
  m <= n /\ 0 < rc m /\ forall e, e <= n -> 0 < rc e -> m <= e.
Proof.
  revert m. induction n as [|n IH]; cbn [min_pinned_upto]; intros m.
  - destruct (Nat.ltb_spec 0 (rc 0)); [|discriminate]. intros [= <-]. repeat split; auto. intros; lia.
  - destruct (min_pinned_upto rc n) as [m'|] eqn:E.
    + intros [= <-]. destruct (IH m' eq_refl) as (A & B & C). repeat split; auto.
      intros e He Hp. destruct (Nat.eq_dec e (S n)) as [->|]; [lia|]. apply C; [lia|exact Hp].
    + destruct (Nat.ltb_spec 0 (rc (S n))); [|discriminate]. intros [= <-]. repeat split; auto.
      intros e He Hp. destruct (Nat.eq_dec e (S n)) as [->|]; [lia|].
      exfalso. clear IH. assert (forall k, k <= n -> min_pinned_upto rc k = None -> forall j, j <= k -> rc j = 0) as Hn.
      { induction k as [|k IHk]; cbn [min_pinned_upto]; intros Hk Hm j Hj.
        - assert (j = 0) by lia; subst. destruct (Nat.ltb_spec 0 (rc 0)); [discriminate|lia].
        - destruct (min_pinned_upto rc k) eqn:Ek; [discriminate|].
          destruct (Nat.ltb_spec 0 (rc (S k))); [discriminate|].
          destruct (Nat.eq_dec j (S k)) as [->|]; [lia|]. apply IHk; [lia|reflexivity|lia]. }
      specialize (Hn n (le_n _) E e ltac:(lia)). lia.
Qed.
Lemma min_pinned_none rc n : min_pinned_upto rc n = None -> forall e, e <= n -> rc e = 0.
Proof.
  induction n as [|n IH]; cbn [min_pinned_upto]; intros H e He.
  - assert (e = 0) by lia; subst. destruct (Nat.ltb_spec 0 (rc 0)); [discriminate|lia].
  - destruct (min_pinned_upto rc n) eqn:E; [discriminate|].
    destruct (Nat.ltb_spec 0 (rc (S n))); [discriminate|].
    destruct (Nat.eq_dec e (S n)) as [->|]; [lia|]. apply IH; [reflexivity|lia].
Qed.

Lemma upd_same {A} (f:nat->A) k v : upd f k v k = v.
Proof. unfold upd. rewrite Nat.eqb_refl. reflexivity. Qed.
Lemma upd_other {A} (f:nat->A) k v x : x <> k -> upd f k v x = f x.
Proof. unfold upd. intros H. destruct (Nat.eqb_spec x k); [contradiction|reflexivity]. Qed.

Lemma init_inv : Inv init.
Proof. constructor; cbn; intros; try contradiction; try lia; try reflexivity. Qed.


Lemma step_inv s o : Inv s -> ok s o -> Inv (step s o).
Proof.
  intros [Icur Ipin Ipend Ipende Iids Iidp Irc] Hok. destruct o as [nadds dels| |e|]; cbn [step].
  - (* Commit *)
    set (adds := fresh_ids s nadds).
    assert (Hadds : forall x, In x adds <-> nextid s <= x < nextid s + nadds).
    { intros x. unfold adds, fresh_ids. rewrite in_seq. lia. }
    constructor; cbn.
    + intros x. rewrite upd_same. intros H. apply in_or_app. apply in_app_or in H as [H|H]; [left; apply in_remove_all in H as [H _]; auto|right; exact H].
    + intros e x He Hp. destruct (Nat.eq_dec e (S (epoch s))) as [->|Ne].
      * rewrite Irc in Hp by lia. lia.
      * rewrite upd_other by exact Ne. intros H. apply in_or_app. left. apply (Ipin e x); [lia|exact Hp|exact H].
    + intros e' dels' x e [[= <- <-]|Hin] Hx He' He.
      * assert (e = S (epoch s)) by lia; subst. rewrite upd_same. intros C. apply in_app_or in C as [C|C]; [apply in_remove_all in C as [_ C]; contradiction|]. apply Hadds in C. cbn in Hok. specialize (Hok x Hx).
        specialize (Iids (epoch s) x (le_n _) Hok). lia.
      * destruct (Nat.eq_dec e (S (epoch s))) as [->|Ne].
        -- rewrite upd_same. intros C. apply in_app_or in C as [C|C]; [apply in_remove_all in C as [C _]|].
           ++ apply (Ipend e' dels' x (epoch s) Hin Hx); [apply (Ipende _ _ Hin)|lia|exact C].
           ++ apply Hadds in C. specialize (Iidp _ _ _ Hin Hx). lia.
        -- rewrite upd_other by exact Ne. apply (Ipend e' dels' x e Hin Hx He'). lia.
    + intros e' dels' [[= <- <-]|Hin]; [lia|]. specialize (Ipende _ _ Hin). lia.
    + intros e x He. destruct (Nat.eq_dec e (S (epoch s))) as [->|Ne].
      * rewrite upd_same. intros C. apply in_app_or in C as [C|C]; [apply in_remove_all in C as [C _]|].
        -- specialize (Iids (epoch s) x (le_n _) C). lia.
        -- apply Hadds in C. lia.
      * rewrite upd_other by exact Ne. intros H. specialize (Iids e x ltac:(lia) H). lia.
    + intros e' dels' x [[= <- <-]|Hin] Hx.
      * cbn in Hok. specialize (Iids (epoch s) x (le_n _) (Hok x Hx)). lia.
      * specialize (Iidp _ _ _ Hin Hx). lia.
    + intros e He. apply Irc. lia.
  - (* Pin *)
    constructor; cbn; auto.
    + intros e x He Hp Hin. destruct (Nat.eq_dec e (epoch s)) as [->|Ne]; [apply Icur; exact Hin|].
      rewrite upd_other in Hp by exact Ne. eapply Ipin; eauto.
    + intros e He. rewrite upd_other by lia. apply Irc; exact He.
  - (* Unpin *)
    constructor; cbn; auto.
    + intros e' x He Hp Hin. destruct (Nat.eq_dec e' e) as [->|Ne].
      * rewrite upd_same in Hp. cbn in Hok. eapply Ipin; eauto.
      * rewrite upd_other in Hp by exact Ne. eapply Ipin; eauto.
    + intros e' He. destruct (Nat.eq_dec e' e) as [->|Ne]; [rewrite upd_same, Irc by exact He; reflexivity|].
      rewrite upd_other by exact Ne. apply Irc; exact He.
  - (* Vacuum *)
    set (app := filter (fun p => fst p <=? vacuum_epoch s) (pending s)).
    set (keep := filter (fun p => negb (fst p <=? vacuum_epoch s)) (pending s)).
    assert (Happ : forall p, In p app <-> In p (pending s) /\ fst p <= vacuum_epoch s).
    { intros p. unfold app. rewrite filter_In, Nat.leb_le. reflexivity. }
    assert (Hkeep : forall p, In p keep -> In p (pending s)).
    { intros p. unfold keep. rewrite filter_In. tauto. }
    assert (Hgone : forall x, In x (concat (map snd app)) -> exists e' dels, In (e', dels) (pending s) /\ In x dels /\ e' <= vacuum_epoch s).
    { intros x Hx. apply in_concat in Hx as (l & Hl & Hxl). apply in_map_iff in Hl as ([e' dels] & <- & Hp).
      apply Happ in Hp as [Hp Hle]. exists e', dels. auto. }
    assert (Hv : vacuum_epoch s <= epoch s).
    { unfold vacuum_epoch. destruct (min_pinned_upto _ _) eqn:E; [apply min_pinned_spec in E; lia|lia]. }
    constructor; cbn.
    + intros x Hx. apply in_remove_all. split; [apply Icur; exact Hx|].
      intros C. apply Hgone in C as (e' & dels & Hp & Hd & Hle).
      apply (Ipend e' dels x (epoch s) Hp Hd); [lia|lia|exact Hx].
    + intros e x He Hpn Hx. apply in_remove_all. split; [eapply Ipin; eauto|].
      intros C. apply Hgone in C as (e' & dels & Hp & Hd & Hle).
      assert (vacuum_epoch s <= e).
      { unfold vacuum_epoch. destruct (min_pinned_upto _ _) eqn:E.
        - apply min_pinned_spec in E as (_ & _ & Hm). apply Hm; assumption.
        - pose proof (min_pinned_none _ _ E e He). lia. }
      apply (Ipend e' dels x e Hp Hd); [lia|exact He|exact Hx].
    + intros e' dels x e Hin. apply Ipend. apply Hkeep. exact Hin.
    + intros e' dels Hin. eapply Ipende. apply Hkeep. exact Hin.
    + exact Iids.
    + intros e' dels x Hin. eapply Iidp. apply Hkeep. exact Hin.
    + exact Irc.
Qed.

Theorem pinned_files_present os : all_ok init os -> Inv (run init os).
Proof.
  assert (G : forall s, Inv s -> all_ok s os -> Inv (run s os)).
  { induction os as [|o os IH]; cbn; intros s Hi Ho; [exact Hi|]. destruct Ho as [H1 H2]. apply IH; [apply step_inv; assumption|exact H2]. }
  apply G, init_inv.
Qed.


Lemma status_stable s o e : e <= epoch s -> status (step s o) e = status s e.
Proof.
  intros He. destruct o; cbn [step status]; try reflexivity. apply upd_other. lia.
Qed.
