(** * Generic tactics for the generated plan-rule obligations (C01) *)
From RL Require Export Model.PlanSem Proofs.PlanSemP Proofs.PlanHashP.
From Coq Require Export Lia Btauto.
Open Scope string_scope.
Open Scope list_scope.

Arguments sort_by : simpl never.
Arguments filter : simpl never.
Arguments holdsf : simpl never.
Arguments and3f : simpl never.
Arguments flat_map : simpl never.
Arguments matches : simpl never.
Arguments rmatches : simpl never.
Arguments left_rows : simpl never.
Arguments limit_rows : simpl never.
Arguments key_le : simpl never.
Arguments inclb : simpl never.
Arguments disjb : simpl never.
Arguments keys_in : simpl never.
Arguments app : simpl never.
Arguments existsb : simpl never.
Arguments Z.to_nat : simpl never.
Lemma perm_eq {A} (a b : list A) : a = b -> Permutation a b.
Proof. intros ->. apply Permutation_refl. Qed.
Ltac pcbn := cbn -[sort_by filter holdsf and3f flat_map matches rmatches left_rows limit_rows key_le inclb disjb keys_in app existsb Z.to_nat].

(** case analysis on whatever the evaluation of the two patterns is stuck on *)
Ltac pstep :=
  first
    [ match goal with
      | |- context [match ?e ?v with _ => _ end] =>
          lazymatch type of e with string -> sem => idtac end;
          destruct (e v) eqn:?; pcbn; try solve [intros; congruence]
      end
    | match goal with
      | |- context [match ?t with _ => _ end] =>
          lazymatch t with
          | context [match _ with _ => _ end] => fail
          | _ => idtac
          end;
          first [ is_var t; destruct t | destruct t eqn:? ]; pcbn; try solve [intros; congruence]
      end ].

(** facts about the bindings: well-formedness of every variable that was bound, scoping consequences *)
Ltac wf_facts Hok :=
  repeat match goal with
         | E : ?env ?v = MRel ?c ?rows |- _ =>
             lazymatch goal with
             | _ : wf_rel c rows |- _ => fail
             | _ => let W := fresh "W" in pose proof (Hok v) as W; rewrite E in W; cbn [wf_sem] in W
             end
         | E : ?env ?v = MList ?l |- _ =>
             lazymatch goal with
             | _ : wf_sem (MList l) |- _ => fail
             | _ => let W := fresh "W" in pose proof (Hok v) as W; rewrite E in W
             end
         | E : ?env ?v = MExpr ?s ?f |- _ =>
             lazymatch goal with
             | _ : reads_only s f |- _ => fail
             | _ => let W := fresh "W" in pose proof (Hok v) as W; rewrite E in W; cbn [wf_sem] in W
             end
         end.
Ltac scope_facts :=
  repeat match goal with
         | H : (_ && _)%bool = true |- _ => apply andb_prop in H as [? ?]
         | H : inclb (_ ++ _) _ = true |- _ => rewrite inclb_app in H
         | H1 : inclb ?s (?lc ++ ?rc) = true, H2 : disjb ?s ?rc = true |- _ =>
             lazymatch goal with
             | _ : inclb s lc = true |- _ => fail
             | _ => pose proof (inclb_app_disj s lc rc H1 H2)
             end
         | H1 : inclb ?s (?lc ++ ?rc) = true, H2 : disjb ?s ?lc = true |- _ =>
             lazymatch goal with
             | _ : inclb s rc = true |- _ => fail
             | _ => pose proof (inclb_app_disj_l s lc rc H1 H2)
             end
         end.
Ltac use_pconds :=
  repeat match goal with
         | H : Forall _ [] |- _ => clear H
         | H : Forall _ (_ :: _) |- _ => let a := fresh "C" in let b := fresh "Cs" in inversion H as [|? ? a b]; subst; clear H; cbn [pholds] in a
         end;
  repeat match goal with
         | C : match ?env ?v with _ => _ end |- _ => destruct (env v) eqn:?; try contradiction
         end.

Ltac close_rows :=
  first [ reflexivity
        | rewrite filter_true; reflexivity
        | rewrite filter_false; reflexivity
        | rewrite sort_by_no_keys; reflexivity
        | rewrite filter_and; reflexivity
        | rewrite <- filter_and; reflexivity
        | rewrite filter_order; reflexivity
        | rewrite filter_inner_join; reflexivity
        | solve [eapply filter_semi_join; [eassumption| |eassumption]; eassumption]
        | solve [apply filter_anti_join]
        | solve [eapply filter_left_rows; [eassumption| |eassumption]; eassumption]
        | solve [apply filter_inner_join]
        | solve [eapply inner_join_rotate; [eassumption| |eassumption|eassumption]; eassumption]
        | solve [eapply inner_join_cond_left; [eassumption| |eassumption]; eassumption]
        | solve [eapply inner_join_cond_left_1; [eassumption| |eassumption]; eassumption]
        | solve [eapply semi_join_cond_left; [eassumption| |eassumption]; eassumption]
        | solve [eapply inner_join_cond_right; [eassumption| |eassumption]; eassumption]
        | solve [eapply left_join_cond_right; [eassumption| |eassumption]; eassumption]
        | solve [eapply semi_join_cond_right; [eassumption| |eassumption]; eassumption]
        | solve [eapply anti_join_cond_right; [eassumption| |eassumption]; eassumption]
        | solve [apply filter_order]
        | solve [apply filter_and]
        | solve [symmetry; apply filter_and] ].

Ltac pfinish Hok :=
  let H1 := fresh "H1" in let H2 := fresh "H2" in
  intros H1 H2; injection H1 as <-; injection H2 as <-;
  repeat match goal with
         | H : MExpr _ _ = MExpr _ _ |- _ => inversion H; subst; clear H
         | H : MRel _ _ = MRel _ _ |- _ => inversion H; subst; clear H
         | H : Some _ = Some _ |- _ => inversion H; subst; clear H
         end;
  wf_facts Hok; scope_facts;
  repeat match goal with
         | W : wf_sem (MList ?es), E : exprs_of ?es = Some ?fs |- _ =>
             lazymatch goal with
             | _ : exprs_ok fs |- _ => fail
             | _ => pose proof (exprs_of_ok es fs W E)
             end
         end;
  cbn [sem_equiv]; split;
  [ first [reflexivity|symmetry; apply app_assoc|apply app_assoc]
  | first [ apply perm_eq; close_rows
          | solve [eapply inner_join_swap; [eassumption|eassumption|eassumption|eassumption|eassumption]] ] ].
Ltac prule_sound :=
  match goal with |- psound ?r => unfold r end;
  let env := fresh "env" in let Hok := fresh "Hok" in let Hc := fresh "Hc" in
  unfold psound; intros env Hok Hc x y; cbn [pr_lhs pr_rhs pr_conds] in *; use_pconds;
  pcbn; repeat pstep; pfinish Hok.

(** ** buildability: the scoping tests of the right-hand side follow from those of the left-hand side *)
Ltac scope_solve :=
  repeat match goal with
         | H : inclb _ _ = true |- _ => rewrite inclb_spec in H
         | H : disjb _ _ = true |- _ => rewrite disjb_spec in H
         end;
  first [ rewrite inclb_spec | rewrite disjb_spec ];
  let c := fresh "c" in intros c;
  repeat match goal with H : forall c0 : nat, _ |- _ => specialize (H c) end;
  rewrite ?in_app_iff in *; cbn [In] in *; tauto.
(** the branch in which a scoping test of the right-hand side fails is impossible: the test follows from the tests the
    left-hand side passed and from the side conditions *)
Ltac kill_false :=
  exfalso;
  match goal with
  | Hf : ?b = false |- _ =>
      assert (b = true) by (rewrite ?andb_true_iff; repeat split; first [reflexivity | scope_solve | rewrite forallb_inclb_app_comm; assumption]); congruence
  end.
Ltac pbuild_finish Hok :=
  let H1 := fresh "H1" in
  intros H1;
  repeat match goal with
         | H : MExpr _ _ = MExpr _ _ |- _ => inversion H; subst; clear H
         | H : MRel _ _ = MRel _ _ |- _ => inversion H; subst; clear H
         | H : Some _ = Some _ |- _ => inversion H; subst; clear H
         end;
  scope_facts;
  first [ eexists; reflexivity | kill_false ].
Ltac prule_buildable :=
  match goal with |- pbuildable ?r => unfold r end;
  let env := fresh "env" in let Hok := fresh "Hok" in let Hc := fresh "Hc" in
  unfold pbuildable; intros env Hok Hc x; cbn [pr_lhs pr_rhs pr_conds] in *; use_pconds;
  pcbn; repeat pstep; pbuild_finish Hok.


(** ** rules that mention the hash join: [join_sem] stays folded, both sides become [join_sem ty on lc rc L R] with two
       conditions that agree on every pair of rows of the inputs ([join_sem_equiv]) *)
Ltac pcbn_hj := cbn -[sort_by filter holdsf and3f flat_map matches rmatches left_rows limit_rows key_le inclb disjb keys_in app existsb Z.to_nat join_sem hash_on eq3f].
Ltac pstep_hj :=
  first
    [ match goal with
      | |- context [match ?e ?v with _ => _ end] =>
          lazymatch type of e with string -> sem => idtac end;
          destruct (e v) eqn:?; pcbn_hj; try solve [intros; congruence]
      end
    | match goal with
      | |- context [match ?t with _ => _ end] =>
          lazymatch t with
          | context [match _ with _ => _ end] => fail
          | _ => idtac
          end;
          first [ is_var t; destruct t | destruct t eqn:? ]; pcbn_hj; try solve [intros; congruence]
      end ].
(** the two conditions agree on the pair (l, r): every expression is moved to the input row it reads, the rest is a
    boolean identity over the key comparisons *)
Ltac pointwise :=
  let l := fresh "l" in let r := fresh "r" in let Hl := fresh "Hl" in let Hr := fresh "Hr" in
  intros l r Hl Hr;
  repeat match goal with
         | W : wf_rel ?c ?rows, H : In ?x ?rows |- _ =>
             lazymatch goal with
             | _ : map fst x = c |- _ => fail
             | _ => let M := fresh "M" in pose proof (proj1 (Forall_forall _ _) W x H) as M; cbv beta in M
             end
         end;
  repeat match goal with
         | Hi : inclb ?s ?rc = true, Hd : disjb ?lc ?rc = true |- _ =>
             lazymatch goal with
             | _ : disjb s lc = true |- _ => fail
             | _ => pose proof (disjb_right s lc rc Hi Hd)
             end
         end;
  rewrite ?holdsf_and3f;
  repeat match goal with
         | |- context [holdsf (hash_on ?lc ?rc ?lk ?rk ?on) (l ++ r)] =>
             rewrite (holdsf_hash_on lc rc lk rk on l r) by assumption
         end;
  rewrite ?holdsf_and3f, ?holdsf_eq3f, ?holdsf_bool; cbn [keys_matchb snd];
  repeat match goal with
         | Hro : reads_only ?s ?f, Hi : inclb ?s ?lc = true, M : map fst l = ?lc |- context [?f (l ++ r)] =>
             rewrite (expr_left s f lc l r Hro Hi M)
         | Hro : reads_only ?s ?f, Hd : disjb ?s ?lc = true, M : map fst l = ?lc |- context [?f (l ++ r)] =>
             rewrite (expr_right s f lc l r Hro Hd M)
         end;
  btauto.
Ltac pfinish_hj Hok :=
  let H1 := fresh "H1" in let H2 := fresh "H2" in
  rewrite ?join_sem_inner in *;
  intros H1 H2;
  repeat match goal with
         | H : MExpr _ _ = MExpr _ _ |- _ => inversion H; subst; clear H
         | H : MRel _ _ = MRel _ _ |- _ => inversion H; subst; clear H
         | H : Some _ = Some _ |- _ => inversion H; subst; clear H
         end;
  wf_facts Hok; scope_facts;
  repeat match goal with
         | W : wf_sem (MList ?es), E : exprs_of ?es = Some ?fs |- _ =>
             lazymatch goal with
             | _ : exprs_ok fs |- _ => fail
             | _ => pose proof (exprs_of_ok es fs W E)
             end
         end;
  first [ eapply join_sem_equiv; [|eassumption|eassumption]; pointwise
        | rewrite ?filter_inner_join; apply inner_rows_equiv; pointwise
        | cbn [sem_equiv]; split; [reflexivity|];
          solve [eapply inner_hash_join_swap; [eassumption|eassumption|eassumption|eassumption|eassumption]] ].
Ltac prule_sound_hj :=
  match goal with |- psound ?r => unfold r end;
  let env := fresh "env" in let Hok := fresh "Hok" in let Hc := fresh "Hc" in
  unfold psound; intros env Hok Hc x y; cbn [pr_lhs pr_rhs pr_conds] in *; use_pconds;
  pcbn_hj; repeat pstep_hj; pfinish_hj Hok.
Ltac kill_false_hj :=
  exfalso;
  match goal with
  | Hf : ?b = false |- _ =>
      assert (b = true) by (rewrite ?orb_true_r, ?andb_true_iff; repeat split; first [reflexivity | assumption | scope_solve | rewrite forallb_inclb_app_comm; assumption | rewrite Nat.eqb_sym; assumption]); congruence
  end.
Ltac pbuild_finish_hj Hok :=
  let H1 := fresh "H1" in
  rewrite ?join_sem_inner in *;
  intros H1;
  repeat match goal with
         | H : MExpr _ _ = MExpr _ _ |- _ => inversion H; subst; clear H
         | H : MRel _ _ = MRel _ _ |- _ => inversion H; subst; clear H
         | H : Some _ = Some _ |- _ => inversion H; subst; clear H
         end;
  scope_facts;
  first [ eexists; reflexivity | congruence | eapply join_sem_defined; eassumption | kill_false_hj ].
Ltac prule_buildable_hj :=
  match goal with |- pbuildable ?r => unfold r end;
  let env := fresh "env" in let Hok := fresh "Hok" in let Hc := fresh "Hc" in
  unfold pbuildable; intros env Hok Hc x; cbn [pr_lhs pr_rhs pr_conds] in *; use_pconds;
  pcbn_hj; repeat pstep_hj; pbuild_finish_hj Hok.

(** refutation from an explicit binding *)
Definition penv_of (l : list (string * sem)) : string -> sem :=
  fun s => match find (fun p => String.eqb (fst p) s) l with Some p => snd p | None => MList [] end.
(** a condition of the counterexamples: column c = 2 *)
Definition is2 (c : nat) : arow -> dv := fun r => match lookup c r with DI32 2 => DBool true | _ => DBool false end.
Ltac wf_lookup := unfold reads_only, is2; intros r r' Hr; cbn; rewrite ?(Hr 0%nat), ?(Hr 1%nat), ?(Hr 2%nat) by (cbn; tauto); reflexivity.
Ltac prule_refuted l :=
  match goal with |- prefuted ?r => unfold r end; unfold prefuted; cbn [pr_lhs pr_rhs pr_conds];
  exists (penv_of l); split;
  [ intros v; unfold penv_of; cbn [find fst snd];
    repeat match goal with
           | |- context [String.eqb ?a v] => destruct (String.eqb a v); cbn [wf_sem snd]
           end;
    try exact I; try (repeat constructor; fail); try wf_lookup
  | split; [repeat constructor; vm_compute; reflexivity|];
    eexists; eexists; split; [vm_compute; reflexivity|split; [vm_compute; reflexivity|vm_compute; lia]] ].
