(** * C12 over the plan semantics: what the planner's order analysis relies on.
    [analyze_order] gives (order keys c) and (topn l o keys c) the order [keys], lets filter, limit and window pass
    their child's order on, and [useless-order] drops (order keys c) when c is claimed to be ordered by keys.
    Here: each of those claims is true of the meaning of the plan, and dropping the ORDER BY of an input that IS
    sorted on the keys keeps the very sequence of rows. *)
From RL Require Import Model.PlanSem Proofs.PlanSemP.
From Coq Require Import Sorted Permutation.
Open Scope string_scope.
Open Scope list_scope.

Definition sorted_by (ks : list okey) (rows : list arow) : Prop := StronglySorted (fun a b => key_le ks a b = true) rows.

Lemma sorted_by_sort ks rows : sorted_by ks (sort_by (key_le ks) rows).
Proof. apply sort_by_sorted; [apply key_le_trans|apply key_le_total]. Qed.
Lemma sorted_by_filter ks (p : arow -> bool) rows : sorted_by ks rows -> sorted_by ks (filter p rows).
Proof.
  unfold sorted_by. induction rows as [|r rows IH]; intros H; [constructor|].
  inversion H as [|? ? Hs Hf]; subst. cbn [filter]. destruct (p r); [|apply IH, Hs].
  constructor; [apply IH, Hs|]. rewrite Forall_forall in *. intros x Hx. apply filter_In in Hx as [Hx _]. apply Hf, Hx.
Qed.
Lemma sorted_by_skipn ks n rows : sorted_by ks rows -> sorted_by ks (skipn n rows).
Proof.
  unfold sorted_by. revert rows. induction n as [|n IH]; intros rows H; [exact H|].
  destruct rows as [|r rows]; [constructor|]. inversion H; subst. cbn [skipn]. apply IH. assumption.
Qed.
Lemma in_firstn {A} (x : A) : forall n l, In x (firstn n l) -> In x l.
Proof. induction n as [|n IH]; intros [|y l] H; cbn in H; try contradiction. destruct H as [H|H]; [left; exact H|right; apply IH, H]. Qed.
Lemma sorted_by_firstn ks n rows : sorted_by ks rows -> sorted_by ks (firstn n rows).
Proof.
  unfold sorted_by. revert rows. induction n as [|n IH]; intros rows H; [constructor|].
  destruct rows as [|r rows]; [constructor|]. inversion H as [|? ? Hs Hf]; subst. cbn [firstn]. constructor; [apply IH, Hs|].
  rewrite Forall_forall in *. intros x Hx. apply Hf. eapply in_firstn, Hx.
Qed.
Lemma sorted_by_limit ks l o rows : sorted_by ks rows -> sorted_by ks (limit_rows l o rows).
Proof. intros H. unfold limit_rows. destruct l; [apply sorted_by_firstn|]; apply sorted_by_skipn, H. Qed.

(** sorting a list that is sorted on the keys returns it unchanged (the sort is a stable insertion sort) *)
Lemma sort_sorted_id ks rows : sorted_by ks rows -> sort_by (key_le ks) rows = rows.
Proof.
  unfold sorted_by. induction rows as [|r rows IH]; intros H; [reflexivity|].
  inversion H as [|? ? Hs Hf]; subst. cbn [sort_by fold_right]. fold (sort_by (key_le ks) rows). rewrite (IH Hs).
  apply insert_by_head. rewrite Forall_forall in Hf. exact Hf.
Qed.

(** ** on plans *)
Definition keys_pat (env : string -> sem) (k : Plan.sx) : option (list okey) :=
  match ppev env k with Some s => keys_of_sem s | None => None end.

(** (order keys c) is sorted on keys *)
Theorem order_is_sorted_on_its_keys env k c cols rows ks :
  ppev env (Plan.N "order" [k; c]) = Some (MRel cols rows) -> keys_pat env k = Some ks -> sorted_by ks rows.
Proof.
  unfold keys_pat. cbn [ppev all_some]. destruct (ppev env k) as [sk|]; [|discriminate]. destruct (ppev env c) as [sc|]; [|discriminate].
  cbn [all_some]. unfold op_sem. cbn -[sort_by key_le keys_in].
  destruct sk as [| | kl | |l]; try discriminate.
  - destruct sc; try discriminate. destruct (keys_in kl cols0); [|discriminate]. intros H E. inversion H; subst. cbn in E. inversion E; subst.
    apply sorted_by_sort.
  - destruct l; [|destruct sc; discriminate]. destruct sc; try discriminate. intros H E. inversion H; subst. cbn in E. inversion E; subst.
    apply sorted_by_sort.
Qed.
(** (topn limit offset keys c) is sorted on keys *)
Theorem topn_is_sorted_on_its_keys env l o k c cols rows ks :
  ppev env (Plan.N "topn" [l; o; k; c]) = Some (MRel cols rows) -> keys_pat env k = Some ks -> sorted_by ks rows.
Proof.
  unfold keys_pat. cbn [ppev all_some].
  destruct (ppev env l) as [sl|]; [|discriminate]. destruct (ppev env o) as [so|]; [|discriminate].
  destruct (ppev env k) as [sk|]; [|discriminate]. destruct (ppev env c) as [sc|]; [|discriminate].
  cbn [all_some]. unfold op_sem. cbn -[sort_by key_le keys_in limit_rows as_count keys_of_sem].
  intros H E.
  destruct sl; try (repeat match type of H with match ?t with _ => _ end = Some _ => destruct t end; discriminate).
  destruct so; try (repeat match type of H with match ?t with _ => _ end = Some _ => destruct t end; discriminate).
  destruct sc; try (repeat match type of H with match ?t with _ => _ end = Some _ => destruct t end; discriminate).
  assert (H' : match as_count f, as_count f0, keys_of_sem sk with
               | Some lim, Some (Some off), Some k0 =>
                   if keys_in k0 cols0 then Some (MRel cols0 (limit_rows lim off (sort_by (key_le k0) rows0))) else None
               | _, _, _ => None
               end = Some (MRel cols rows)) by (destruct sk; exact H).
  clear H. rewrite E in H'. destruct (as_count f) as [lim|]; [|discriminate]. destruct (as_count f0) as [[off|]|]; try discriminate.
  destruct (keys_in ks cols0); [|discriminate]. inversion H'; subst. apply sorted_by_limit, sorted_by_sort.
Qed.

Ltac kill_none H := repeat match type of H with match ?t with _ => _ end = Some _ => destruct t end; discriminate.

(** filter and limit pass the order of their child on *)
Theorem filter_keeps_the_order env p c cols rows ks :
  ppev env (Plan.N "filter" [p; c]) = Some (MRel cols rows) ->
  (forall cols' rows', ppev env c = Some (MRel cols' rows') -> sorted_by ks rows') -> sorted_by ks rows.
Proof.
  cbn [ppev all_some]. destruct (ppev env p) as [sp|]; [|discriminate]. destruct (ppev env c) as [sc|]; [|discriminate].
  cbn [all_some]. unfold op_sem. cbn -[filter holdsf inclb]. intros H Hc.
  destruct sp; try (kill_none H). destruct sc; try (kill_none H).
  destruct (inclb sup cols0); [|discriminate]. inversion H; subst. apply sorted_by_filter. eapply Hc. reflexivity.
Qed.
Theorem limit_keeps_the_order env l o c cols rows ks :
  ppev env (Plan.N "limit" [l; o; c]) = Some (MRel cols rows) ->
  (forall cols' rows', ppev env c = Some (MRel cols' rows') -> sorted_by ks rows') -> sorted_by ks rows.
Proof.
  cbn [ppev all_some]. destruct (ppev env l) as [sl|]; [|discriminate]. destruct (ppev env o) as [so|]; [|discriminate].
  destruct (ppev env c) as [sc|]; [|discriminate].
  cbn [all_some]. unfold op_sem. cbn -[limit_rows as_count]. intros H Hc.
  destruct sl; try (kill_none H). destruct so; try (kill_none H). destruct sc; try (kill_none H).
  destruct (as_count f) as [lim|]; [|discriminate]. destruct (as_count f0) as [[off|]|]; try discriminate.
  inversion H; subst. apply sorted_by_limit. eapply Hc. reflexivity.
Qed.

(** useless-order: an ORDER BY over an input that is sorted on the keys returns the input itself, row for row *)
Theorem order_of_sorted_input_is_the_input env k c cols rows ks x :
  ppev env c = Some (MRel cols rows) -> keys_pat env k = Some ks -> sorted_by ks rows ->
  ppev env (Plan.N "order" [k; c]) = Some x -> x = MRel cols rows.
Proof.
  unfold keys_pat. intros Hc Hk Hs. cbn [ppev all_some]. rewrite Hc.
  destruct (ppev env k) as [sk|]; [|discriminate]. cbn [all_some]. unfold op_sem. cbn -[sort_by key_le keys_in].
  intros H. destruct sk as [| | kl | |l]; try discriminate.
  - cbn in Hk. inversion Hk; subst kl. destruct (keys_in ks cols); [|discriminate]. inversion H; subst. rewrite (sort_sorted_id ks rows Hs). reflexivity.
  - destruct l; [|discriminate]. cbn in Hk. inversion Hk; subst ks. inversion H; subst. rewrite sort_by_no_keys. reflexivity.
Qed.
