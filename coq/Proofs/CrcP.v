(** * CRC-32 detects every single-bit error (and the lemmas C18 needs). *)
From RL Require Import Model.Crc.
From Coq Require Import Lia.
Open Scope N_scope.

Ltac xor_solve := apply N.bits_inj; let n := fresh "n" in intro n; rewrite ?N.lxor_spec, ?N.bits_0;
  repeat match goal with |- context[N.testbit ?a n] => destruct (N.testbit a n) end; reflexivity.

Lemma step0_lxor s d : step0 (N.lxor s d) = N.lxor (step0 s) (step0 d).
Proof.
  unfold step0. rewrite N.shiftr_lxor, N.lxor_spec.
  generalize (N.shiftr s 1) (N.shiftr d 1); intros x y.
  destruct (N.testbit s 0), (N.testbit d 0); cbn [xorb]; xor_solve.
Qed.
Lemma step_lxor s d b : step (N.lxor s d) b = N.lxor (step s b) (step0 d).
Proof. unfold step. rewrite <- step0_lxor. f_equal. xor_solve. Qed.

Lemma P_lt : crc_poly < 2^32. Proof. reflexivity. Qed.
Lemma lxor_lt a b n : a < 2^n -> b < 2^n -> N.lxor a b < 2^n.
Proof.
  intros Ha Hb. destruct (N.eq_dec (N.lxor a b) 0) as [E|E]; [rewrite E; apply N.neq_0_lt_0; apply N.pow_nonzero; discriminate|].
  apply N.log2_lt_pow2; [lia|].
  eapply N.le_lt_trans; [apply N.log2_lxor|].
  destruct (N.eq_dec a 0) as [->|Na], (N.eq_dec b 0) as [->|Nb]; cbn [N.log2 N.max] in *.
  - exfalso; apply E; reflexivity.
  - rewrite N.max_r by lia. apply N.log2_lt_pow2; lia.
  - rewrite N.max_l by lia. apply N.log2_lt_pow2; lia.
  - apply N.max_lub_lt; apply N.log2_lt_pow2; lia.
Qed.
Lemma step0_lt s : s < 2^32 -> step0 s < 2^32.
Proof.
  intros H. unfold step0. apply lxor_lt.
  - rewrite N.shiftr_div_pow2. change (2^1) with 2. change (2^32) with 4294967296 in *.
    apply N.div_lt_upper_bound; lia.
  - destruct (N.testbit s 0); [apply P_lt|reflexivity].
Qed.
Lemma step_lt s b : s < 2^32 -> step s b < 2^32.
Proof. intros H. unfold step. apply step0_lt, lxor_lt; [exact H|destruct b; reflexivity]. Qed.
Lemma run_lt l : forall s, s < 2^32 -> run s l < 2^32.
Proof. induction l as [|b l IH]; intros s H; cbn; [exact H|]. apply IH, step_lt, H. Qed.

Lemma step0_bit31 s : s < 2^32 -> N.testbit (step0 s) 31 = N.testbit s 0.
Proof.
  intros H. unfold step0. rewrite N.lxor_spec, N.shiftr_spec by lia.
  replace (N.testbit s (31+1)) with false.
  2:{ symmetry. destruct (N.eq_dec s 0) as [->|Ns]; [apply N.bits_0|].
      apply N.bits_above_log2. change (31+1) with 32. apply N.log2_lt_pow2; lia. }
  destruct (N.testbit s 0); reflexivity.
Qed.
Lemma lxor_cancel_r x y c : N.lxor x c = N.lxor y c -> x = y.
Proof. intros H. rewrite <- (N.lxor_0_r x), <- (N.lxor_nilpotent c), <- N.lxor_assoc, H, N.lxor_assoc, N.lxor_nilpotent, N.lxor_0_r. reflexivity. Qed.
Lemma step0_inj a b : a < 2^32 -> b < 2^32 -> step0 a = step0 b -> a = b.
Proof.
  intros Ha Hb E.
  assert (B0 : N.testbit a 0 = N.testbit b 0).
  { rewrite <- (step0_bit31 a Ha), <- (step0_bit31 b Hb), E. reflexivity. }
  unfold step0 in E. rewrite B0 in E. apply lxor_cancel_r in E.
  apply N.bits_inj. intros n. destruct (N.eq_dec n 0) as [->|Nn]; [exact B0|].
  replace n with (N.pred n + 1) by lia. rewrite <- !N.shiftr_spec by lia. rewrite E. reflexivity.
Qed.
Lemma step0_nz d : d < 2^32 -> d <> 0 -> step0 d <> 0.
Proof. intros H Hn E. apply Hn. apply step0_inj; [exact H| reflexivity | rewrite E; reflexivity]. Qed.

Lemma run_diff_tail l : forall d s, s < 2^32 -> d < 2^32 ->
  run (N.lxor s d) l = N.lxor (run s l) (fold_left (fun x _ => step0 x) l d).
Proof.
  induction l as [|b l IH]; intros d s Hs Hd; cbn [run fold_left]; [reflexivity|].
  fold (run (step (N.lxor s d) b) l). rewrite step_lxor. fold (run (step s b) l).
  apply IH; [|apply step0_lt; exact Hd]. apply step_lt, Hs.
Qed.
Lemma iter_step0_nz l : forall d, d < 2^32 -> d <> 0 -> fold_left (fun x (_:bool) => step0 x) l d <> 0.
Proof. induction l as [|b l IH]; intros d H Hn; cbn; [exact Hn|]. apply IH; [apply step0_lt; exact H|apply step0_nz; assumption]. Qed.

(** a non-zero register difference never dies out, whatever follows *)
Lemma run_diff_nz l s d : s < 2^32 -> d < 2^32 -> d <> 0 -> run (N.lxor s d) l <> run s l.
Proof.
  intros Hs Hd Hn C. rewrite run_diff_tail in C by assumption.
  apply (iter_step0_nz l d Hd Hn).
  apply (lxor_cancel_r _ _ (run s l)). rewrite N.lxor_0_l, N.lxor_comm. exact C.
Qed.

Theorem run_detects_single_bit : forall l k s, s < 2^32 -> (k < length l)%nat -> run s (flip k l) <> run s l.
Proof.
  induction l as [|b l IH]; intros k s Hs Hk; cbn in Hk; [lia|].
  destruct k as [|k]; cbn [flip run fold_left].
  - fold (run (step s (negb b)) l). fold (run (step s b) l).
    assert (E : step s (negb b) = N.lxor (step s b) (step0 1)).
    { unfold step. rewrite <- step0_lxor. f_equal. rewrite N.lxor_assoc. f_equal. destruct b; reflexivity. }
    rewrite E. apply run_diff_nz; [apply step_lt, Hs|reflexivity|discriminate].
  - fold (run (step s b) (flip k l)). fold (run (step s b) l). apply IH; [|lia]. apply step_lt, Hs.
Qed.

Lemma crc_init_lt : crc_init < 2^32. Proof. reflexivity. Qed.
