(** * C10 — every interleaving of the protocol's events on a table leaves the table in the state of a
    serial execution of the acknowledged statements, in an order that respects real time
    (an INSERT at its commit, a DELETE at the point where its scan pinned its snapshot). *)
From RL Require Import Model.Store Proofs.StoreP Model.Conc Proofs.ConcP Model.ConcSerial.
From Coq Require Import Lia Permutation.

Fixpoint ins_of (log : list lentry) : list row :=
  match log with
  | [] => []
  | LIns rows :: o => ins_of o ++ rows
  | _ :: o => ins_of o
  end.
Fixpoint acked_rows (log : list lentry) : list row :=
  match log with
  | [] => []
  | LDel _ _ _ _ t Acked :: o => t ++ acked_rows o
  | _ :: o => acked_rows o
  end.
(** [x] is removed by an acknowledged DELETE of the log in the serial execution *)
Fixpoint removed (log : list lentry) (x : row) : bool :=
  match log with
  | [] => false
  | LDel _ p _ _ _ Acked :: o => (memb x (ins_of o) && p x) || removed o x
  | _ :: o => removed o x
  end.
Fixpoint first_del (d : nat) (log : list lentry) : option (list row * fate) :=
  match log with
  | [] => None
  | LDel d' _ _ _ t f :: o => if Nat.eqb d d' then Some (t, f) else first_del d o
  | _ :: o => first_del d o
  end.
(** the ghost fields of every DELETE entry say what its snapshot was *)
Fixpoint ents_ok (ackd : list row) (log : list lentry) : Prop :=
  match log with
  | [] => True
  | LDel _ p i a t _ :: o =>
      i = ins_of o /\ (forall x, In x t <-> p x = true /\ In x i /\ ~ In x a) /\ incl a ackd /\ ents_ok ackd o
  | _ :: o => ents_ok ackd o
  end.

Record K (g : gstate) : Prop := {
  K_J : J (g_s g);
  K_ins : c_ins (g_s g) = ins_of (g_log g);
  K_ack : forall x, In x (c_acked (g_s g)) <-> In x (acked_rows (g_log g));
  K_ent : ents_ok (c_acked (g_s g)) (g_log g);
  K_pend : forall ds, In ds (c_dels (g_s g)) -> first_del (ds_id ds) (g_log g) = Some (ds_targets ds, Pending)
}.

Lemma NoDup_app_inv {A} (a b : list A) : NoDup (a ++ b) -> NoDup a /\ NoDup b /\ (forall x, In x a -> In x b -> False).
Proof.
  induction a as [|x a IH]; cbn; intros H; [repeat split; [constructor|exact H|tauto]|].
  inversion H as [|? ? Hx Hr]; subst. destruct (IH Hr) as (Ha & Hb & Hd). repeat split; [|exact Hb|].
  - constructor; [|exact Ha]. intros Hin. apply Hx, in_or_app. left. exact Hin.
  - intros y [<-|Hy] Hyb; [apply Hx, in_or_app; right; exact Hyb|exact (Hd y Hy Hyb)].
Qed.

(** ** the serial execution *)
Lemma removed_in log x : removed log x = true -> In x (ins_of log).
Proof.
  induction log as [|e o IH]; cbn; [discriminate|]. destruct e as [rows|d p i a t f].
  - intros H. apply in_or_app. left. auto.
  - destruct f; auto. intros H. apply orb_prop in H as [H|H]; [|auto].
    apply andb_prop in H as [H _]. apply memb_In in H. exact H.
Qed.
Lemma serial_in log x : NoDup (ins_of log) -> (In x (serial_run log) <-> In x (ins_of log) /\ removed log x = false).
Proof.
  induction log as [|e o IH]; cbn [serial_run ins_of removed]; intros Hn; [tauto|].
  destruct e as [rows|d p i a t f].
  - destruct (NoDup_app_inv _ _ Hn) as (Hno & _ & Hd). specialize (IH Hno). rewrite !in_app_iff, IH. split.
    + intros [[H1 H2]|H]; [tauto|]. split; [tauto|].
      destruct (removed o x) eqn:E; [|reflexivity]. exfalso. apply removed_in in E. exact (Hd x E H).
    + intros [[H|H] H2]; [left; tauto|right; exact H].
  - destruct f; try (apply IH; exact Hn). specialize (IH Hn). rewrite filter_In, IH. split.
    + intros [[H1 H2] H3]. split; [exact H1|]. rewrite H2. apply negb_true_iff in H3. rewrite H3, andb_false_r. reflexivity.
    + intros [H1 H2]. apply orb_false_elim in H2 as [H2 H3]. split; [tauto|].
      apply memb_In in H1. rewrite H1 in H2. cbn in H2. rewrite H2. reflexivity.
Qed.
Lemma serial_incl log : incl (serial_run log) (ins_of log).
Proof.
  induction log as [|e o IH]; cbn [serial_run ins_of]; [intros x []|]. destruct e as [rows|d p i a t f].
  - intros x H. apply in_app_or in H as [H|H]; apply in_or_app; [left; auto|right; exact H].
  - destruct f; auto. intros x H. apply filter_In in H as [H _]. auto.
Qed.
Lemma NoDup_filter {A} (f : A -> bool) l : NoDup l -> NoDup (filter f l).
Proof.
  induction 1 as [|x l Hx Hl IH]; cbn; [constructor|]. destruct (f x); [|exact IH].
  constructor; [|exact IH]. intros H. apply filter_In in H. tauto.
Qed.
Lemma serial_nodup log : NoDup (ins_of log) -> NoDup (serial_run log).
Proof.
  induction log as [|e o IH]; cbn [serial_run ins_of]; intros Hn; [constructor|]. destruct e as [rows|d p i a t f].
  - destruct (NoDup_app_inv _ _ Hn) as (Hno & Hnr & Hd).
    apply NoDup_app'; [apply IH, Hno|exact Hnr|].
    intros x H1 H2. apply serial_incl in H1. exact (Hd x H1 H2).
  - destruct f; auto. apply NoDup_filter. auto.
Qed.

(** ** what the acknowledged DELETEs removed, from the ghost fields *)
Lemma ins_of_older_incl log : forall x, removed log x = true -> In x (ins_of log).
Proof. intros x. apply removed_in. Qed.
Lemma acked_removed ackd log : ents_ok ackd log -> forall x, In x (acked_rows log) -> removed log x = true.
Proof.
  induction log as [|e o IH]; cbn [ents_ok acked_rows removed]; intros He x H; [destruct H|].
  destruct e as [rows|d p i a t f]; [auto|]. destruct He as (Hi & Ht & _ & Ho).
  destruct f; auto. apply in_app_or in H as [H|H]; [|rewrite (IH Ho x H); apply orb_true_r].
  apply Ht in H as (Hp & Hx & _). subst i. apply memb_In in Hx. rewrite Hx, Hp. reflexivity.
Qed.
Lemma removed_acked ackd log : ents_ok ackd log -> (forall x, In x (acked_rows log) -> In x ackd) ->
  forall x, removed log x = true -> In x ackd.
Proof.
  induction log as [|e o IH]; cbn [ents_ok acked_rows removed]; intros He Ha x H; [discriminate|].
  destruct e as [rows|d p i a t f]; [auto|]. destruct He as (Hi & Ht & Hinc & Ho).
  destruct f; auto.
  apply orb_prop in H as [H|H].
  - apply andb_prop in H as [Hx Hp]. apply memb_In in Hx.
    destruct (in_dec Nat.eq_dec x a) as [Hin|Hnin]; [apply Hinc, Hin|].
    apply Ha, in_or_app. left. apply Ht. subst i. tauto.
  - apply IH; [exact Ho| |exact H]. intros y Hy. apply Ha, in_or_app. right. exact Hy.
Qed.

(** ** the ghost log under the protocol's steps *)
Lemma ins_of_set_fate d f log : ins_of (set_fate d f log) = ins_of log.
Proof.
  induction log as [|e o IH]; [reflexivity|]. destruct e as [rows|d' p i a t f0]; cbn [set_fate ins_of].
  - rewrite IH. reflexivity.
  - destruct (Nat.eqb d d'); cbn [ins_of]; [reflexivity|exact IH].
Qed.
Lemma ents_ok_mono ackd ackd' log : incl ackd ackd' -> ents_ok ackd log -> ents_ok ackd' log.
Proof.
  intros Hi. induction log as [|e o IH]; cbn [ents_ok]; [tauto|]. destruct e as [rows|d p i a t f]; [exact IH|].
  intros (H1 & H2 & H3 & H4). repeat split; try assumption; try (apply H2; assumption).
  - intros y Hy. apply Hi, H3, Hy.
  - apply IH, H4.
Qed.
Lemma ents_ok_set_fate ackd d f log : ents_ok ackd log -> ents_ok ackd (set_fate d f log).
Proof.
  induction log as [|e o IH]; cbn [set_fate ents_ok]; [tauto|]. destruct e as [rows|d' p i a t f0].
  - exact IH.
  - intros (H1 & H2 & H3 & H4). destruct (Nat.eqb d d'); cbn [ents_ok]; rewrite ?ins_of_set_fate; repeat split; try assumption; try (apply H2; assumption).
    apply IH, H4.
Qed.
Lemma first_del_set_fate_other d d' f log : d' <> d -> first_del d' (set_fate d f log) = first_del d' log.
Proof.
  intros Hne. induction log as [|e o IH]; [reflexivity|]. destruct e as [rows|d0 p i a t f0]; cbn [set_fate first_del]; [exact IH|].
  destruct (Nat.eqb d d0) eqn:E; cbn [first_del].
  - apply Nat.eqb_eq in E. subst d0. apply Nat.eqb_neq in Hne. rewrite Hne. reflexivity.
  - destruct (Nat.eqb d' d0); [reflexivity|exact IH].
Qed.
Lemma acked_rows_set_fate_acked d t log : first_del d log = Some (t, Pending) ->
  forall x, In x (acked_rows (set_fate d Acked log)) <-> In x (acked_rows log) \/ In x t.
Proof.
  induction log as [|e o IH]; cbn [first_del set_fate acked_rows]; intros H x; [discriminate|].
  destruct e as [rows|d0 p i a t0 f0]; [apply IH, H|].
  destruct (Nat.eqb d d0).
  - inversion H; subst. cbn [acked_rows]. rewrite in_app_iff. tauto.
  - cbn [acked_rows]. destruct f0; try (apply IH, H). rewrite !in_app_iff, (IH H x). tauto.
Qed.
Lemma acked_rows_set_fate_failed d t log : first_del d log = Some (t, Pending) ->
  acked_rows (set_fate d Failed log) = acked_rows log.
Proof.
  induction log as [|e o IH]; cbn [first_del set_fate acked_rows]; intros H; [reflexivity|].
  destruct e as [rows|d0 p i a t0 f0]; [apply IH, H|].
  destruct (Nat.eqb d d0).
  - inversion H; subst. reflexivity.
  - cbn [acked_rows]. destruct f0; rewrite ?(IH H); reflexivity.
Qed.
Lemma find_del_none d l : find_del d l = None -> forall ds, In ds l -> ds_id ds <> d.
Proof.
  unfold find_del. intros H ds Hin E. apply (find_none _ _ H) in Hin. rewrite E, Nat.eqb_refl in Hin. discriminate.
Qed.
Lemma find_del_id d l ds : find_del d l = Some ds -> ds_id ds = d.
Proof. unfold find_del. intros H. apply find_some in H as [_ H]. apply Nat.eqb_eq in H. exact H. Qed.
Lemma drop_del_ne d l ds : In ds (drop_del d l) -> ds_id ds <> d.
Proof. unfold drop_del. intros H E. apply filter_In in H as [_ H]. rewrite E, Nat.eqb_refl in H. discriminate. Qed.

Lemma K_init : K g_init.
Proof. constructor; cbn; try tauto; try reflexivity; try exact J_init. Qed.

Lemma gstep_K g e g' : K g -> gstep g e = Some g' -> K g'.
Proof.
  intros [Hj Hi Ha He Hp] E. unfold gstep in E. destruct (step (g_s g) e) as [s'|] eqn:Es; [|discriminate].
  pose proof (step_J _ _ _ Hj Es) as Hj'. inversion E; subst; clear E. set (s := g_s g) in *.
  destruct e as [rows|d p|d|d| |sel| |]; cbn [step] in Es.
  - (* INSERT *)
    match type of Es with (if ?c then _ else _) = _ => destruct c end; [|discriminate]. inversion Es; subst; clear Es.
    constructor; cbn [g_s g_log c_ins c_acked c_dels ins_of acked_rows ents_ok first_del]; try assumption.
    rewrite Hi. reflexivity.
  - (* DELETE begins: pins its snapshot *)
    destruct (find_del d (c_dels s)) eqn:Ef; [discriminate|].
    destruct (located p (c_tbl s)) as [targets rsids] eqn:El. inversion Es; subst; clear Es.
    assert (Ht : targets = filter p (disk_scan (c_tbl s))) by (unfold located in El; inversion El; reflexivity).
    constructor; cbn [g_s g_log c_ins c_acked c_dels ins_of acked_rows ents_ok first_del fst]; try assumption.
    + split; [exact Hi|]. split; [|split; [intros y Hy; exact Hy|exact He]].
      intros x. rewrite filter_In.
      assert (Hx : In x (disk_scan (c_tbl s)) <-> In x (c_ins s) /\ ~ In x (c_acked s)).
      { split.
        - intros H. apply (Permutation_in _ (J_scan _ Hj)) in H. unfold expected in H. apply filter_In in H as [H1 H2].
          split; [exact H1|]. intros Hin. apply memb_In in Hin. rewrite Hin in H2. discriminate.
        - intros [H1 H2]. apply (Permutation_in _ (Permutation_sym (J_scan _ Hj))). unfold expected. apply filter_In.
          split; [exact H1|]. destruct (memb x (c_acked s)) eqn:Em; [apply memb_In in Em; contradiction|reflexivity]. }
      rewrite Hx. tauto.
    + intros ds [<-|Hin]; cbn [ds_id ds_targets].
      * rewrite Nat.eqb_refl, Ht. reflexivity.
      * pose proof (find_del_none _ _ Ef ds Hin) as Hne. apply Nat.eqb_neq in Hne. rewrite Hne. apply Hp, Hin.
  - (* DELETE takes the lock *)
    destruct (c_lock s); [discriminate|]. destruct (find_del d (c_dels s)); [|discriminate]. inversion Es; subst; clear Es.
    constructor; cbn [g_s g_log c_ins c_acked c_dels]; assumption.
  - (* DELETE commits or fails *)
    destruct (c_lock s) as [[|d']|]; try discriminate. destruct (find_del d (c_dels s)) as [ds|] eqn:Ef; [|discriminate].
    destruct (Nat.eqb d d'); [|discriminate].
    pose proof (find_del_id _ _ _ Ef) as Hid. pose proof (Hp ds (find_del_in _ _ _ Ef)) as Hfd. rewrite Hid in Hfd.
    match type of Es with (if ?c then _ else _) = _ => destruct c eqn:Elive end; inversion Es; subst; clear Es.
    + constructor; cbn [g_s g_log c_ins c_acked c_dels]; try assumption.
      * rewrite ins_of_set_fate. exact Hi.
      * intros x. rewrite in_app_iff, (acked_rows_set_fate_acked _ _ _ Hfd x), Ha. tauto.
      * apply ents_ok_set_fate. eapply ents_ok_mono; [|exact He]. intros y Hy. apply in_or_app. left. exact Hy.
      * intros ds' Hin. pose proof (drop_del_ne _ _ _ Hin) as Hne. rewrite (first_del_set_fate_other _ _ _ _ Hne).
        apply Hp. eapply drop_del_in. exact Hin.
    + constructor; cbn [g_s g_log c_ins c_acked c_dels]; try assumption.
      * rewrite ins_of_set_fate. exact Hi.
      * rewrite (acked_rows_set_fate_failed _ _ _ Hfd). exact Ha.
      * apply ents_ok_set_fate. exact He.
      * intros ds' Hin. pose proof (drop_del_ne _ _ _ Hin) as Hne. rewrite (first_del_set_fate_other _ _ _ _ Hne).
        apply Hp. eapply drop_del_in. exact Hin.
  - destruct (c_lock s); [discriminate|]. inversion Es; subst; clear Es.
    constructor; cbn [g_s g_log c_ins c_acked c_dels]; assumption.
  - destruct (c_lock s) as [[|]|]; try discriminate. destruct (c_comp s); [discriminate|]. inversion Es; subst; clear Es.
    constructor; cbn [g_s g_log c_ins c_acked c_dels]; assumption.
  - destruct (c_lock s) as [[|]|]; try discriminate. destruct (c_comp s) as [[chosen merged]|]; [|discriminate]. inversion Es; subst; clear Es.
    constructor; cbn [g_s g_log c_ins c_acked c_dels]; assumption.
  - destruct (c_lock s) as [[|]|]; try discriminate. destruct (c_comp s); [discriminate|]. inversion Es; subst; clear Es.
    constructor; cbn [g_s g_log c_ins c_acked c_dels]; assumption.
Qed.

Lemma grun_K : forall es g g', K g -> grun g es = Some g' -> K g'.
Proof.
  induction es as [|e es IH]; intros g g' Hk E; cbn [grun] in E; [inversion E; subst; exact Hk|].
  destruct (gstep g e) as [g1|] eqn:Es; [|discriminate]. eapply IH; [eapply gstep_K; eassumption|exact E].
Qed.

(** the ghost log does not restrict the protocol, and lists its statements in real-time order *)
Lemma grun_run : forall es g g', grun g es = Some g' -> run (g_s g) es = Some (g_s g').
Proof.
  induction es as [|e es IH]; intros g g' E; cbn [grun run] in *; [inversion E; reflexivity|].
  destruct (gstep g e) as [g1|] eqn:Es; [|discriminate]. unfold gstep in Es.
  destruct (step (g_s g) e) as [s1|] eqn:E1; [|discriminate]. inversion Es; subst; clear Es. apply (IH _ _ E).
Qed.
Lemma run_grun : forall es g s', run (g_s g) es = Some s' -> exists g', grun g es = Some g' /\ g_s g' = s'.
Proof.
  induction es as [|e es IH]; intros g s' E; cbn [grun run] in *; [inversion E; subst; eexists; split; reflexivity|].
  destruct (step (g_s g) e) as [s1|] eqn:E1; [|discriminate]. unfold gstep. rewrite E1.
  match goal with |- context [grun ?g1 es] => destruct (IH g1 s' E) as (g' & Hg & Hs) end. exists g'. split; assumption.
Qed.
Lemma erase_set_fate d f log : map erase (set_fate d f log) = map erase log.
Proof.
  induction log as [|e o IH]; [reflexivity|]. destruct e as [rows|d' p i a t f0]; cbn [set_fate map erase].
  - rewrite IH. reflexivity.
  - destruct (Nat.eqb d d'); cbn [map erase]; rewrite ?IH; reflexivity.
Qed.
Lemma grun_log : forall es g g', grun g es = Some g' -> map erase (g_log g') = stmts_of es (map erase (g_log g)).
Proof.
  induction es as [|e es IH]; intros g g' E; cbn [grun stmts_of] in *; [inversion E; reflexivity|].
  destruct (gstep g e) as [g1|] eqn:Es; [|discriminate]. rewrite (IH _ _ E). unfold gstep in Es.
  destruct (step (g_s g) e) as [s1|]; [|discriminate]. inversion Es; subst; clear Es. cbn [g_log].
  destruct e; cbn [map erase]; try reflexivity.
  destruct (find_del d (c_dels (g_s g))); [rewrite erase_set_fate|]; reflexivity.
Qed.

(** ** the theorem *)
Theorem final_state_is_serial : forall es g, grun g_init es = Some g ->
  Permutation (disk_scan (c_tbl (g_s g))) (serial_run (g_log g)).
Proof.
  intros es g E. pose proof (grun_K es g_init g K_init E) as [Hj Hi Ha He Hp].
  eapply Permutation_trans; [apply (J_scan _ Hj)|].
  pose proof (J_nodup _ Hj) as Hn. rewrite Hi in Hn.
  apply NoDup_Permutation.
  - unfold expected. apply NoDup_filter. rewrite Hi. exact Hn.
  - apply serial_nodup. exact Hn.
  - intros x. rewrite (serial_in _ x Hn). unfold expected. rewrite filter_In, Hi. split.
    + intros [H1 H2]. split; [exact H1|]. destruct (removed (g_log g) x) eqn:Er; [|reflexivity]. exfalso.
      pose proof (removed_acked _ _ He (fun y Hy => proj2 (Ha y) Hy) x Er) as Hin.
      apply memb_In in Hin. rewrite Hin in H2. discriminate.
    + intros [H1 H2]. split; [exact H1|]. destruct (memb x (c_acked (g_s g))) eqn:Em; [|reflexivity]. exfalso.
      apply memb_In in Em. apply Ha in Em. rewrite (acked_removed _ _ He x Em) in H2. discriminate.
Qed.

Corollary ghost_log_faithful : forall es,
  (forall s, run c_init es = Some s -> exists g, grun g_init es = Some g /\ g_s g = s) /\
  (forall g, grun g_init es = Some g -> run c_init es = Some (g_s g) /\ map erase (g_log g) = stmts_of es []).
Proof.
  intros es. split.
  - intros s H. apply (run_grun es g_init s H).
  - intros g H. split; [apply (grun_run es g_init g H)|apply (grun_log es g_init g H)].
Qed.

(** known finding KF_C10_concurrent_delete_double_count: the COUNTS two overlapping DELETEs report are not
    those of the serial execution (the table content is) *)
Lemma delete_counts_not_serial :
  exists es g, grun g_init es = Some g /\
    reported_counts (g_log g) = [(1, 1); (0, 1)] /\ serial_counts (g_log g) = [(1, 0); (0, 1)] /\
    disk_scan (c_tbl (g_s g)) = [] /\ serial_run (g_log g) = [].
Proof.
  exists [EInsert [7]; EDelBegin 0 (Nat.eqb 7); EDelBegin 1 (Nat.eqb 7); EDelLock 0; EDelCommit 0; EDelLock 1; EDelCommit 1].
  eexists. split; [vm_compute; reflexivity|]. repeat split; reflexivity.
Qed.
(** non-vacuity: a schedule with two sessions, a compaction in between and a DELETE that loses the race *)
Example serial_state_example :
  exists g, grun g_init [EInsert [1; 2]; EInsert [3]; EDelBegin 0 (Nat.eqb 1); ECompLock; ECompPin (fun _ => true); EInsert [4];
                         EDelBegin 1 (Nat.eqb 4); ECompCommit; ECompUnlock; EDelLock 0; EDelCommit 0; EDelLock 1; EDelCommit 1]
            = Some g /\
  map erase (g_log g) = [VDel 1; VIns [4]; VDel 0; VIns [3]; VIns [1; 2]] /\
  serial_run (g_log g) = [1; 2; 3] /\ disk_scan (c_tbl (g_s g)) = [1; 2; 3] /\ reported_counts (g_log g) = [(1, 1)].
Proof. eexists. split; [vm_compute; reflexivity|]. repeat split; reflexivity. Qed.
