(** * C19: equality is an equivalence, the order is total and consistent with it, equal values
      hash alike, SQL `<` is the order, integers and booleans print and parse back. *)
From RL Require Import Model.ValX.
From Coq Require Import Lia DecimalZ DecimalFacts DecimalPos.
Open Scope Z_scope.

Lemma Zc_refl x : (x ?= x) = Eq. Proof. apply Z.compare_refl. Qed.
Lemma Zc_antisym x y : (y ?= x) = CompOpp (x ?= y). Proof. apply Z.compare_antisym. Qed.
Lemma Zc_trans x y z o : (x ?= y) = o -> (y ?= z) = o -> (x ?= z) = o.
Proof.
  destruct o; intros H1 H2.
  - apply Z.compare_eq in H1, H2. subst. apply Z.compare_refl.
  - exact (Z.lt_trans x y z H1 H2).
  - exact (Zgt_trans x y z H1 H2).
Qed.
Lemma Zc_eq_l x y z : (x ?= y) = Eq -> (x ?= z) = (y ?= z).
Proof. intros H. apply Z.compare_eq in H. subst. reflexivity. Qed.
Lemma Zc_eq_r x y z : (y ?= z) = Eq -> (x ?= y) = (x ?= z).
Proof. intros H. apply Z.compare_eq in H. subst. reflexivity. Qed.

Lemma zl_refl a : zl_cmp a a = Eq.
Proof. induction a as [|x a IH]; cbn; [reflexivity|]. rewrite Zc_refl. exact IH. Qed.
Lemma zl_antisym : forall a b, zl_cmp b a = CompOpp (zl_cmp a b).
Proof.
  induction a as [|x a IH]; intros [|y b]; cbn; try reflexivity.
  rewrite (Zc_antisym x y). destruct (x ?= y); cbn; [apply IH|reflexivity|reflexivity].
Qed.
Lemma zl_eq : forall a b, zl_cmp a b = Eq -> a = b.
Proof.
  induction a as [|x a IH]; intros [|y b]; cbn; try discriminate; [reflexivity|].
  destruct (x ?= y) eqn:E; try discriminate. apply Z.compare_eq in E. subst. intros H. f_equal. apply IH, H.
Qed.
Lemma zl_trans : forall a b c o, zl_cmp a b = o -> zl_cmp b c = o -> zl_cmp a c = o.
Proof.
  induction a as [|x a IH]; intros [|y b] [|z c] o; cbn; try congruence.
  destruct (x ?= y) eqn:E1.
  - apply Z.compare_eq in E1. subst y. destruct (x ?= z) eqn:E2; intros H1 H2; [eapply IH; eassumption|exact H2|exact H2].
  - intros <- H2. destruct (y ?= z) eqn:E2.
    + apply Z.compare_eq in E2. subst. rewrite E1. reflexivity.
    + rewrite (Zc_trans x y z Lt E1 E2). reflexivity.
    + discriminate.
  - intros <- H2. destruct (y ?= z) eqn:E2.
    + apply Z.compare_eq in E2. subst. rewrite E1. reflexivity.
    + discriminate.
    + rewrite (Zc_trans x y z Gt E1 E2). reflexivity.
Qed.

(** a triple compared lexicographically = a list of three *)
Lemma lex3_as_list m d s m' d' s' : lex3 (m ?= m') (d ?= d') (s ?= s') = zl_cmp [m; d; s] [m'; d'; s'].
Proof. cbn. destruct (m ?= m'), (d ?= d'), (s ?= s'); reflexivity. Qed.

(** ** the order on values *)
(** every value as (tag, payload list) compared lexicographically: one proof for all types *)
Definition payload (v : xv) : list Z :=
  match v with
  | XNull => []
  | XBool b => [if b then 1 else 0]
  | XI16 z | XI32 z | XI64 z | XDate z | XTs z | XTsTz z => [z]
  | XF64 bits => [f64_key bits]
  | XStr s | XBlob s => s
  | XIv m d s => [m; d; s]
  end.
Lemma xcmp_as_list a b : xcmp a b = zl_cmp (xtag a :: payload a) (xtag b :: payload b).
Proof.
  destruct a as [|[]| | | | | | | | | |], b as [|[]| | | | | | | | | |]; cbn [xcmp xtag payload zl_cmp Z.compare];
    try reflexivity; try rewrite lex3_as_list; cbn [zl_cmp];
    repeat match goal with |- context[match ?x ?= ?y with _ => _ end] => destruct (x ?= y) end; reflexivity.
Qed.

Theorem xcmp_refl a : xcmp a a = Eq.
Proof. rewrite xcmp_as_list. apply zl_refl. Qed.
Theorem xcmp_antisym a b : xcmp b a = CompOpp (xcmp a b).
Proof. rewrite !xcmp_as_list. apply zl_antisym. Qed.
Theorem xcmp_trans a b c o : xcmp a b = o -> xcmp b c = o -> xcmp a c = o.
Proof. rewrite !xcmp_as_list. apply zl_trans. Qed.

(** equality (= order says Eq) is an equivalence relation *)
Theorem xeq_refl a : xeqb a a = true.
Proof. unfold xeqb. rewrite xcmp_refl. reflexivity. Qed.
Theorem xeq_sym a b : xeqb a b = xeqb b a.
Proof. unfold xeqb. rewrite (xcmp_antisym a b). destruct (xcmp a b); reflexivity. Qed.
Theorem xeq_trans a b c : xeqb a b = true -> xeqb b c = true -> xeqb a c = true.
Proof.
  unfold xeqb. destruct (xcmp a b) eqn:E1; try discriminate. destruct (xcmp b c) eqn:E2; try discriminate.
  rewrite (xcmp_trans a b c Eq E1 E2). reflexivity.
Qed.
(** the order is total: exactly one of <, =, > (by construction of [comparison]) and
    a < b iff b > a *)
Theorem xlt_gt a b : xcmp a b = Lt <-> xcmp b a = Gt.
Proof. rewrite (xcmp_antisym a b). destruct (xcmp a b); cbn; split; congruence. Qed.
(** SQL `<` on two values of one type is the order used by ORDER BY, MIN/MAX and the storage sort *)
Theorem sql_lt_iff_cmp a b : sql_lt a b = true <-> xcmp a b = Lt.
Proof. unfold sql_lt. destruct (xcmp a b); split; congruence. Qed.

(** ** equal values hash alike *)
Definition f64_valid (bits : Z) : Prop := 0 <= bits < 2 ^ 64.
Definition xvalid (v : xv) : Prop := match v with XF64 b => f64_valid b | _ => True end.

Lemma f64_key_inj x y : f64_valid x -> f64_valid y -> f64_is_nan x = false -> f64_is_nan y = false ->
  f64_key x = f64_key y -> f64_key x <> 0 -> x = y.
Proof.
  unfold f64_valid, f64_key. intros Hx Hy Nx Ny. rewrite Nx, Ny.
  assert (H64 : 2 ^ 64 = 2 * 2 ^ 63) by reflexivity.
  pose proof (Z.div_mod x (2 ^ 63) ltac:(lia)) as Dx. pose proof (Z.div_mod y (2 ^ 63) ltac:(lia)) as Dy.
  pose proof (Z.mod_pos_bound x (2 ^ 63) ltac:(lia)). pose proof (Z.mod_pos_bound y (2 ^ 63) ltac:(lia)).
  assert (0 <= x / 2 ^ 63 < 2) by (split; [apply Z.div_pos; lia|apply Z.div_lt_upper_bound; lia]).
  assert (0 <= y / 2 ^ 63 < 2) by (split; [apply Z.div_pos; lia|apply Z.div_lt_upper_bound; lia]).
  destruct (Z.eqb_spec (x / 2 ^ 63) 1), (Z.eqb_spec (y / 2 ^ 63) 1); intros E Hn; lia.
Qed.

Theorem eq_implies_same_hash a b : xvalid a -> xvalid b -> xeqb a b = true -> xhash_key a = xhash_key b.
Proof.
  intros Va Vb. unfold xeqb. destruct (xcmp a b) eqn:E; try discriminate. intros _.
  destruct a as [|[]| | | | | | | | | |], b as [|[]| | | | | | | | | |]; cbn in E; try discriminate; try reflexivity;
    try (apply Z.compare_eq in E; subst; reflexivity); try (apply zl_eq in E; subst; reflexivity).
  - (* doubles *)
    apply Z.compare_eq in E. cbn [xhash_key]. cbn in Va, Vb.
    destruct (f64_is_nan bits) eqn:N1, (f64_is_nan bits0) eqn:N2; try reflexivity.
    + exfalso. unfold f64_key in E. rewrite N1, N2 in E.
      pose proof (Z.mod_pos_bound bits0 (2 ^ 63) ltac:(lia)). destruct (bits0 / 2 ^ 63 =? 1); lia.
    + exfalso. unfold f64_key in E. rewrite N1, N2 in E.
      pose proof (Z.mod_pos_bound bits (2 ^ 63) ltac:(lia)). destruct (bits / 2 ^ 63 =? 1); lia.
    + rewrite <- E. destruct (Z.eqb_spec (f64_key bits) 0) as [Z0|Z0]; [reflexivity|].
      f_equal. apply f64_key_inj; assumption.
  - (* intervals *)
    rewrite lex3_as_list in E. apply zl_eq in E. inversion E; subst. reflexivity.
Qed.

(** ** integers and booleans print and parse back *)
Theorem int_print_parse z : parse_int (print_int z) = Some z.
Proof.
  unfold parse_int, print_int. rewrite NilZero.isi.
  - cbn [option_map]. rewrite DecimalZ.of_to. reflexivity.
  - destruct z; cbn; try discriminate. intros H. inversion H as [E]. revert E. apply DecimalPos.Unsigned.to_uint_nonnil.
  - destruct z; cbn; try discriminate. intros H. inversion H as [E]. revert E. apply DecimalPos.Unsigned.to_uint_nonnil.
Qed.
Theorem bool_print_parse b : parse_bool (print_bool b) = Some b.
Proof. destruct b; reflexivity. Qed.
