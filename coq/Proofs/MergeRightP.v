(** * C11 — the RIGHT OUTER merge join over sorted inputs returns the rows of the RIGHT OUTER hash join (as bags):
    every right row with its matches, or padded with NULLs on the left when it has none. *)
From RL Require Import Model.Exec Proofs.ValP Proofs.ExecP Proofs.MergeJoinP Proofs.MergeLeftP.
From Coq Require Import Lia Permutation Sorted.
Open Scope Z_scope.

Definition rpads (nl : nat) (rc : list row) : list row := map (fun r => nulls nl ++ r) rc.
Definition walk_spec_right (nl : nat) (lg rg : list (row * list row)) : list row :=
  flat_map (fun kg => if has_null (fst kg) then rpads nl (snd kg)
                      else match gfind (fst kg) lg with [] => rpads nl (snd kg) | lc => cross lc (snd kg) end) rg.

Lemma walk_spec_right_skip nl lk lc lg rg :
  (forall kg, In kg rg -> has_null (fst kg) = true \/ fst kg <> lk) ->
  walk_spec_right nl ((lk, lc) :: lg) rg = walk_spec_right nl lg rg.
Proof.
  intros H. unfold walk_spec_right. apply flat_map_ext_in. intros kg Hin.
  destruct (has_null (fst kg)) eqn:En; [reflexivity|].
  destruct (H kg Hin) as [E|E]; [congruence|].
  rewrite gfind_skip; [reflexivity|]. intros E'. apply E. symmetry. exact E'.
Qed.

Lemma merge_walk_right nl nr : forall fuel lg rg, gkeys_inc lg -> gkeys_inc rg ->
  Forall (fun kg => snd kg <> []) lg -> (length lg + length rg < fuel)%nat ->
  merge_walk fuel JRight nl nr lg rg = walk_spec_right nl lg rg.
Proof.
  induction fuel as [|f IH]; intros lg rg Hl Hr Hne Hf; [lia|]. cbn [merge_walk pads_left pads_right].
  destruct lg as [|[lk lc] lg'].
  - destruct rg as [|[rk rc] rg']; [reflexivity|]. inversion Hr; subst.
    rewrite IH by (try assumption; cbn in *; lia).
    unfold walk_spec_right. cbn [flat_map fst snd]. unfold gfind at 1. cbn [find]. destruct (has_null rk); reflexivity.
  - inversion Hl as [|? ? Hl' Hlall]; subst. inversion Hne as [|? ? Hlc Hne']; subst. cbn [snd] in Hlc.
    destruct rg as [|[rk rc] rg'].
    + cbn [app]. rewrite IH by (try assumption; cbn in *; lia). reflexivity.
    + inversion Hr as [|? ? Hr' Hrall]; subst. rewrite Forall_forall in Hlall, Hrall.
      destruct (row_eqb lk rk && negb (has_null lk)) eqn:Em.
      * apply andb_prop in Em as [Ek En]. apply row_eqb_eq in Ek. subst rk. apply negb_true_iff in En.
        rewrite IH by (try assumption; cbn in *; lia).
        unfold walk_spec_right at 2. cbn [flat_map fst snd]. rewrite En. unfold gfind at 1. cbn [find fst snd]. rewrite row_eqb_refl. cbn [snd].
        destruct lc as [|l0 lc]; [contradiction|]. f_equal. symmetry. apply walk_spec_right_skip.
        intros kg Hin. right. specialize (Hrall kg Hin). cbn in Hrall. intros E. rewrite E, row_cmp_refl in Hrall. discriminate.
      * destruct (row_cmp lk rk) eqn:Ec.
        -- apply row_cmp_eq in Ec. subst rk. rewrite row_eqb_refl in Em. cbn in Em. apply negb_false_iff in Em.
           cbn [app]. rewrite IH by (try assumption; try (constructor; [assumption|apply Forall_forall; assumption]); cbn in *; lia).
           symmetry. apply walk_spec_right_skip. intros kg [<-|Hin]; cbn [fst]; [left; exact Em|].
           right. specialize (Hrall kg Hin). cbn in Hrall. intros E. rewrite E, row_cmp_refl in Hrall. discriminate.
        -- cbn [app]. rewrite IH by (try assumption; try (constructor; [assumption|apply Forall_forall; assumption]); cbn in *; lia).
           symmetry. apply walk_spec_right_skip. intros kg [<-|Hin]; cbn [fst]; right.
           ++ apply not_eq_sym, row_lt_ne, Ec.
           ++ specialize (Hrall kg Hin). cbn in Hrall. intros E. rewrite E in Hrall.
              rewrite (row_cmp_antisym lk rk), Ec in Hrall. discriminate.
        -- rewrite IH by (try assumption; try (constructor; [assumption|apply Forall_forall; assumption]); cbn in *; lia).
           unfold walk_spec_right at 2. cbn [flat_map fst snd].
           rewrite (gfind_none rk ((lk, lc) :: lg')).
           ++ destruct (has_null rk); reflexivity.
           ++ intros kg [<-|Hin]; cbn [fst].
              ** apply row_gt_ne, Ec.
              ** specialize (Hlall kg Hin). cbn in Hlall. intros E. rewrite E in Hlall. rewrite Hlall in Ec. discriminate.
Qed.

(** the rows of the right outer equi-join, right-major *)
Definition right_rows_spec (lk rk : list sx) (nl : nat) (Ls Rs : list row) : list row :=
  flat_map (fun r => match filter (fun l => key_match lk rk l r) Ls with [] => [nulls nl ++ r] | m => map (fun l => l ++ r) m end) Rs.

Lemma perm_of_eq {A} (a b : list A) : a = b -> Permutation a b.
Proof. intros ->. apply Permutation_refl. Qed.
Lemma flat_map_perm_in {A B} (f g : A -> list B) l :
  (forall x, In x l -> Permutation (f x) (g x)) -> Permutation (flat_map f l) (flat_map g l).
Proof.
  induction l as [|x l IH]; intros H; [constructor|]. cbn [flat_map].
  apply Permutation_app; [apply H; left; reflexivity|apply IH; intros y Hy; apply H; right; exact Hy].
Qed.
Lemma cross_swap_perm (lc rc : list row) :
  Permutation (cross lc rc) (flat_map (fun r => map (fun l => l ++ r) lc) rc).
Proof.
  unfold cross.
  rewrite (flat_map_ext (fun l => map (fun r => l ++ r) rc) (fun l => flat_map (fun r => [l ++ r]) rc)) by (intros l; apply map_as_flat_map).
  rewrite (flat_map_ext (fun r => map (fun l => l ++ r) lc) (fun r => flat_map (fun l => [l ++ r]) lc)) by (intros r; apply map_as_flat_map).
  apply (flat_map_swap_perm (fun l r => [l ++ r]) lc rc).
Qed.

Lemma hashjoin_right_rows lk rk nl nr L R :
  x_hashjoin JRight lk rk nl nr L R = right_rows_spec lk rk nl (concat L) (concat R).
Proof.
  unfold x_hashjoin, right_rows_spec. cbn [pads_left pads_right]. rewrite app_nil_r.
  apply flat_map_ext. intros r. rewrite filter_filter.
  rewrite (filter_ext _ (fun l => key_match lk rk l r)); [reflexivity|].
  intros l. unfold key_match. apply andb_comm.
Qed.

Lemma walk_spec_right_rows lk rk nl Ls Rs : sorted_on lk Ls ->
  Permutation (walk_spec_right nl (group_runs lk Ls) (group_runs rk Rs)) (right_rows_spec lk rk nl Ls Rs).
Proof.
  intros HL.
  unfold right_rows_spec. rewrite <- (group_runs_concat rk Rs) at 2. rewrite flat_map_concat, flat_map_map.
  unfold walk_spec_right. apply flat_map_perm_in. intros [k g] Hin. cbn [fst snd].
  pose proof (group_runs_keys rk Rs) as F. rewrite Forall_forall in F. destruct (F _ Hin) as [_ Hk]. cbn [fst snd] in Hk.
  rewrite <- (filter_by_key lk k Ls HL).
  destruct (has_null k) eqn:En.
  - apply perm_of_eq. unfold rpads. rewrite map_as_flat_map. apply flat_map_ext_in. intros r Hr.
    rewrite (filter_ext _ (fun _ => false)); [rewrite filter_none; reflexivity|].
    intros l. unfold key_match. rewrite (Hk r Hr).
    destruct (row_eqb (keys_of lk l) k) eqn:E; [|reflexivity]. apply row_eqb_eq in E. rewrite E, En. reflexivity.
  - assert (Hf : forall r, In r g -> filter (fun l => key_match lk rk l r) Ls = filter (fun l => row_eqb k (keys_of lk l)) Ls).
    { intros r Hr. apply filter_ext. intros l. unfold key_match. rewrite (Hk r Hr).
      destruct (row_eqb (keys_of lk l) k) eqn:E.
      - apply row_eqb_eq in E. rewrite E, En, row_eqb_refl. reflexivity.
      - cbn [andb]. symmetry. apply row_eqb_false. intros E'. rewrite <- E', row_eqb_refl in E. discriminate. }
    destruct (filter (fun l => row_eqb k (keys_of lk l)) Ls) as [|l0 lc] eqn:Ef.
    + apply perm_of_eq. unfold rpads. rewrite map_as_flat_map. apply flat_map_ext_in. intros r Hr. rewrite (Hf r Hr). reflexivity.
    + eapply Permutation_trans; [apply cross_swap_perm|]. apply perm_of_eq. apply flat_map_ext_in. intros r Hr. rewrite (Hf r Hr). reflexivity.
Qed.

Theorem mergejoin_right_eq_hashjoin lk rk nl nr L R : sorted_on lk (concat L) -> sorted_on rk (concat R) ->
  Permutation (x_mergejoin JRight lk rk nl nr L R) (x_hashjoin JRight lk rk nl nr L R).
Proof.
  intros HL HR. rewrite hashjoin_right_rows. unfold x_mergejoin.
  rewrite merge_walk_right; try (apply group_runs_inc; assumption); try lia.
  2:{ eapply Forall_impl; [|apply group_runs_keys]. intros kg [H _]. exact H. }
  apply walk_spec_right_rows. exact HL.
Qed.

(** non-vacuity *)
Example mergejoin_right_example :
  let L := [[ [DNull; DI32 9]; [DI32 1; DI32 5] ]; [ [DI32 1; DI32 6]; [DI32 3; DI32 7] ]] in
  let R := [[ [DNull; DI32 0]; [DI32 1; DI32 8]; [DI32 2; DI32 8] ]] in
  x_mergejoin JRight [SCol 0] [SCol 0] 2 2 L R =
    [[DNull; DNull; DNull; DI32 0]; [DI32 1; DI32 5; DI32 1; DI32 8]; [DI32 1; DI32 6; DI32 1; DI32 8]; [DNull; DNull; DI32 2; DI32 8]].
Proof. reflexivity. Qed.
