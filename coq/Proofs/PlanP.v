(** * Proofs about the plan model (C17): a few plan rewrites keep plans buildable and keep their schema *)
From RL Require Import Model.Plan.
Local Open Scope list_scope.

Lemma resolvable_N sch o args : resolvable sch (N o args) = mem (N o args) sch || forallb (resolvable sch) args.
Proof.
  cbn [resolvable]. destruct (mem (N o args) sch); [reflexivity|]. cbn [orb].
  induction args as [|x r IH]; [reflexivity|]. cbn [forallb]. rewrite IH. reflexivity.
Qed.
Lemma schema_filter c p : schema (filter_ c p) = schema p.
Proof. reflexivity. Qed.
Lemma schema_join t on l r : schema (join_ t on l r) = if semi_or_anti t then schema l else schema l ++ schema r.
Proof. reflexivity. Qed.
Lemma build_ok_filter c p : build_ok (filter_ c p) = build_ok p && resolvable (schema p) c.
Proof. reflexivity. Qed.
Lemma build_ok_join t on l r :
  build_ok (join_ t on l r) = (four_types t || semi_or_anti t) && build_ok l && build_ok r && resolvable (schema l ++ schema r) on.
Proof. reflexivity. Qed.

(** "pushdown-filter-join-left/right": when the condition only needs the columns of one side *)
Theorem push_filter_left_ok t on l r c :
  build_ok (filter_ c (join_ t on l r)) = true -> resolvable (schema l) c = true ->
  build_ok (push_filter_left t on l r c) = true /\ schema (push_filter_left t on l r c) = schema (filter_ c (join_ t on l r)).
Proof.
  intros H Hc. rewrite build_ok_filter, build_ok_join in H. unfold push_filter_left.
  rewrite build_ok_join, build_ok_filter, !schema_filter, !schema_join, !schema_filter.
  repeat (apply andb_prop in H as [H ?]). split; [|reflexivity].
  repeat (apply andb_true_intro; split); assumption.
Qed.
Theorem push_filter_right_ok t on l r c :
  build_ok (filter_ c (join_ t on l r)) = true -> resolvable (schema r) c = true ->
  build_ok (push_filter_right t on l r c) = true /\ schema (push_filter_right t on l r c) = schema (filter_ c (join_ t on l r)).
Proof.
  intros H Hc. rewrite build_ok_filter, build_ok_join in H. unfold push_filter_right.
  rewrite build_ok_join, build_ok_filter, !schema_filter, !schema_join, !schema_filter.
  repeat (apply andb_prop in H as [H ?]). split; [|reflexivity].
  repeat (apply andb_true_intro; split); assumption.
Qed.
(** "filter-merge" *)
Theorem filter_merge_ok a b p :
  build_ok (filter_ a (filter_ b p)) = true ->
  build_ok (filter_merge a b p) = true /\ schema (filter_merge a b p) = schema (filter_ a (filter_ b p)).
Proof.
  intros H. rewrite !build_ok_filter, schema_filter in H. unfold filter_merge. rewrite build_ok_filter.
  apply andb_prop in H as [H Ha]. apply andb_prop in H as [Hp Hb]. split; [|reflexivity].
  rewrite Hp. cbn [andb]. unfold and_. rewrite resolvable_N. cbn [forallb]. rewrite Ha, Hb. apply orb_true_r.
Qed.
(** the conversion of an equi-join into a hash join *)
Theorem to_hashjoin_ok t lk rk l r :
  build_ok l = true -> build_ok r = true -> four_types t = true ->
  resolvable (schema l) lk = true -> resolvable (schema r) rk = true ->
  build_ok (to_hashjoin t lk rk l r) = true /\ schema (to_hashjoin t lk rk l r) = schema (join_ t (N "=" [lk; rk]) l r).
Proof.
  intros Hl Hr Ht Hlk Hrk. unfold to_hashjoin. split.
  - cbn -[resolvable schema build_ok four_types semi_or_anti is_true]. cbn [build_ok]. cbn -[resolvable schema build_ok four_types semi_or_anti is_true].
    fold (build_ok l) (build_ok r). rewrite Hl, Hr, Ht. rewrite !resolvable_N. cbn [forallb]. rewrite Hlk, Hrk. cbn. rewrite !orb_true_r. reflexivity.
  - reflexivity.
Qed.
(** "limit-order-topn" *)
Theorem to_topn_ok n o keys p :
  build_ok (N "limit" [n; o; N "order" [keys; p]]) = true ->
  build_ok (to_topn n o keys p) = true /\ schema (to_topn n o keys p) = schema (N "limit" [n; o; N "order" [keys; p]]).
Proof. intros H. split; [exact H|reflexivity]. Qed.

(** a plan that still contains an [apply], or an expression with a column its input does not
    produce, is not buildable *)
Theorem apply_is_not_buildable t l r : build_ok (N "apply" [t; l; r]) = false.
Proof. reflexivity. Qed.
Theorem dangling_column_is_not_resolvable c sch : is_column c = true -> mem (A c) sch = false -> resolvable sch (A c) = false.
Proof. intros Hc Hm. cbn [resolvable]. rewrite Hm, Hc. reflexivity. Qed.
