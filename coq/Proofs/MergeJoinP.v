(** * C11 — the merge join over inputs sorted on their keys returns the rows of the hash join
    (hence of the nested-loop join on the SQL equality of the keys), as a bag. *)
From RL Require Import Model.Exec Proofs.ValP Proofs.ExecP.
From Coq Require Import Lia Permutation Sorted.
Open Scope Z_scope.

Lemma row_cmp_antisym : forall a b, row_cmp b a = CompOpp (row_cmp a b).
Proof.
  induction a as [|x a IH]; intros [|y b]; cbn; try reflexivity.
  rewrite (dv_cmp_antisym x y). destruct (dv_cmp x y); cbn; [apply IH|reflexivity|reflexivity].
Qed.
Lemma row_lt_ne a b : row_cmp a b = Lt -> a <> b.
Proof. intros H ->. rewrite row_cmp_refl in H. discriminate. Qed.
Lemma row_gt_ne a b : row_cmp a b = Gt -> a <> b.
Proof. intros H ->. rewrite row_cmp_refl in H. discriminate. Qed.
Lemma row_le_ne_lt a b : row_cmp a b <> Gt -> a <> b -> row_cmp a b = Lt.
Proof. intros H Hne. destruct (row_cmp a b) eqn:E; [apply row_cmp_eq in E; contradiction|reflexivity|contradiction]. Qed.
Lemma row_eqb_false a b : a <> b -> row_eqb a b = false.
Proof. intros H. destruct (row_eqb a b) eqn:E; [apply row_eqb_eq in E; contradiction|reflexivity]. Qed.
Lemma row_eqb_refl a : row_eqb a a = true.
Proof. apply row_eqb_eq. reflexivity. Qed.

Definition sorted_on (ks : list sx) (rows : list row) : Prop :=
  StronglySorted (fun a b => row_cmp (keys_of ks a) (keys_of ks b) <> Gt) rows.
Definition gkeys_inc (g : list (row * list row)) : Prop := StronglySorted (fun a b => row_cmp (fst a) (fst b) = Lt) g.

(** ** the runs *)
Lemma group_runs_concat ks rows : concat (map snd (group_runs ks rows)) = rows.
Proof.
  induction rows as [|r rows IH]; [reflexivity|]. cbn [group_runs].
  destruct (group_runs ks rows) as [|[k g] gs]; [cbn in *; rewrite <- IH; reflexivity|].
  destruct (row_eqb (keys_of ks r) k); cbn [map snd concat] in *; rewrite <- IH; reflexivity.
Qed.
Lemma group_runs_keys ks rows : Forall (fun kg => snd kg <> [] /\ forall r, In r (snd kg) -> keys_of ks r = fst kg) (group_runs ks rows).
Proof.
  induction rows as [|r rows IH]; [constructor|]. cbn [group_runs].
  destruct (group_runs ks rows) as [|[k g] gs].
  - constructor; [|constructor]. cbn. split; [discriminate|]. intros x [<-|[]]. reflexivity.
  - inversion IH as [|? ? [Hne Hk] Hr]; subst. destruct (row_eqb (keys_of ks r) k) eqn:E.
    + constructor; [|exact Hr]. cbn [fst snd] in *. split; [discriminate|]. intros x [<-|Hx]; [apply row_eqb_eq, E|apply Hk, Hx].
    + constructor; [|exact IH]. cbn. split; [discriminate|]. intros x [<-|[]]. reflexivity.
Qed.
Lemma group_key_in ks rows k g : In (k, g) (group_runs ks rows) -> exists r, In r rows /\ keys_of ks r = k.
Proof.
  intros H. pose proof (group_runs_keys ks rows) as F. rewrite Forall_forall in F. destruct (F _ H) as [Hne Hk]. cbn in *.
  destruct g as [|r g]; [contradiction|]. exists r. split; [|apply Hk; left; reflexivity].
  rewrite <- (group_runs_concat ks rows). apply in_concat. exists (r :: g). split; [|left; reflexivity].
  apply in_map_iff. exists (k, r :: g). split; [reflexivity|exact H].
Qed.
Lemma group_runs_inc ks rows : sorted_on ks rows -> gkeys_inc (group_runs ks rows).
Proof.
  unfold sorted_on, gkeys_inc. induction rows as [|r rows IH]; intros Hs; [constructor|]. cbn [group_runs].
  inversion Hs as [|? ? Hs' Hall]; subst. specialize (IH Hs').
  assert (Hle : forall k g, In (k, g) (group_runs ks rows) -> row_cmp (keys_of ks r) k <> Gt).
  { intros k g Hin. destruct (group_key_in ks rows k g Hin) as (x & Hx & <-). rewrite Forall_forall in Hall. apply Hall, Hx. }
  destruct (group_runs ks rows) as [|[k g] gs] eqn:Eg; [constructor; constructor|].
  inversion IH as [|? ? IHs IHall]; subst. destruct (row_eqb (keys_of ks r) k) eqn:E.
  - constructor; [exact IHs|exact IHall].
  - constructor; [exact IH|]. constructor.
    + cbn. apply row_le_ne_lt; [apply (Hle k g); left; reflexivity|]. intros Heq. rewrite Heq, row_eqb_refl in E. discriminate.
    + rewrite Forall_forall in IHall |- *. intros [k2 g2] Hin. cbn. apply row_le_ne_lt; [apply (Hle k2 g2); right; exact Hin|].
      intros Heq. specialize (IHall _ Hin). cbn in IHall.
      assert (Hk : row_cmp (keys_of ks r) k <> Gt) by (apply (Hle k g); left; reflexivity).
      rewrite Heq in Hk. rewrite (row_cmp_antisym k k2), IHall in Hk. apply Hk. reflexivity.
Qed.

(** ** the walk over strictly increasing runs (inner join) *)
Definition gfind (k : row) (g : list (row * list row)) : list row :=
  match find (fun kg => row_eqb k (fst kg)) g with Some kg => snd kg | None => [] end.
Definition walk_spec (lg rg : list (row * list row)) : list row :=
  flat_map (fun kg => if has_null (fst kg) then [] else cross (snd kg) (gfind (fst kg) rg)) lg.

Lemma gfind_none k g : (forall kg, In kg g -> fst kg <> k) -> gfind k g = [].
Proof.
  intros H. unfold gfind. destruct (find _ g) as [kg|] eqn:E; [|reflexivity].
  apply find_some in E as [Hin He]. apply row_eqb_eq in He. exfalso. apply (H kg Hin). symmetry. exact He.
Qed.
Lemma gfind_skip k k' c g : k' <> k -> gfind k ((k', c) :: g) = gfind k g.
Proof. intros H. unfold gfind. cbn [find fst]. rewrite (row_eqb_false k k') by (intros E; apply H; symmetry; exact E). reflexivity. Qed.
Lemma walk_spec_skip lg k' c rg : (forall kg, In kg lg -> fst kg <> k') -> walk_spec lg ((k', c) :: rg) = walk_spec lg rg.
Proof.
  intros H. unfold walk_spec. apply flat_map_ext_in. intros kg Hin. rewrite gfind_skip; [reflexivity|]. intros E. apply (H kg Hin). symmetry. exact E.
Qed.

Lemma cross_nil_r lc : cross lc [] = [].
Proof. unfold cross. induction lc as [|l lc IH]; [reflexivity|exact IH]. Qed.
Lemma walk_spec_nil lg : walk_spec lg [] = [].
Proof.
  unfold walk_spec. induction lg as [|kg lg IH]; [reflexivity|]. cbn [flat_map]. rewrite IH.
  unfold gfind. cbn [find]. rewrite cross_nil_r. destruct (has_null (fst kg)); reflexivity.
Qed.

Lemma merge_walk_inner nl nr : forall fuel lg rg, gkeys_inc lg -> gkeys_inc rg -> (length lg + length rg < fuel)%nat ->
  merge_walk fuel JInner nl nr lg rg = walk_spec lg rg.
Proof.
  induction fuel as [|f IH]; intros lg rg Hl Hr Hf; [lia|]. cbn [merge_walk pads_left pads_right].
  destruct lg as [|[lk lc] lg'].
  - destruct rg as [|[rk rc] rg']; [reflexivity|]. cbn [app]. inversion Hr; subst.
    rewrite IH by (try assumption; cbn in *; lia). reflexivity.
  - inversion Hl as [|? ? Hl' Hlall]; subst. destruct rg as [|[rk rc] rg'].
    + cbn [app]. rewrite IH by (try assumption; cbn in *; lia). rewrite !walk_spec_nil. reflexivity.
    + inversion Hr as [|? ? Hr' Hrall]; subst. rewrite Forall_forall in Hlall, Hrall.
      destruct (row_eqb lk rk && negb (has_null lk)) eqn:Em.
      * apply andb_prop in Em as [Ek En]. apply row_eqb_eq in Ek. subst rk. apply negb_true_iff in En.
        rewrite IH by (try assumption; cbn in *; lia).
        unfold walk_spec at 2. cbn [flat_map fst snd]. rewrite En. unfold gfind at 1. cbn [find fst snd]. rewrite row_eqb_refl. cbn [snd].
        f_equal. fold (walk_spec lg' ((lk, rc) :: rg')). symmetry. apply walk_spec_skip.
        intros kg Hin. specialize (Hlall kg Hin). cbn in Hlall. intros E. rewrite E, row_cmp_refl in Hlall. discriminate.
      * destruct (row_cmp lk rk) eqn:Ec.
        -- (* equal keys containing a NULL: the left run matches nothing *)
           apply row_cmp_eq in Ec. subst rk. rewrite row_eqb_refl in Em. cbn in Em. apply negb_false_iff in Em.
           cbn [app]. rewrite IH by (try assumption; cbn in *; lia).
           unfold walk_spec at 2. cbn [flat_map fst snd]. rewrite Em. reflexivity.
        -- cbn [app]. rewrite IH by (try assumption; cbn in *; lia).
           unfold walk_spec at 2. cbn [flat_map fst snd].
           rewrite (gfind_none lk ((rk, rc) :: rg')).
           ++ rewrite cross_nil_r. destruct (has_null lk); reflexivity.
           ++ intros kg [<-|Hin]; cbn [fst].
              ** apply not_eq_sym, row_lt_ne, Ec.
              ** specialize (Hrall kg Hin). cbn in Hrall. intros E. rewrite E in Hrall.
                 rewrite (row_cmp_antisym lk rk), Ec in Hrall. discriminate.
        -- cbn [app]. rewrite IH by (try assumption; try (constructor; [exact Hl'|apply Forall_forall; exact Hlall]); cbn in *; lia).
           symmetry. apply walk_spec_skip. intros kg [<-|Hin]; cbn [fst].
           ++ apply row_gt_ne, Ec.
           ++ specialize (Hlall kg Hin). cbn in Hlall. intros E. rewrite E in Hlall. rewrite Hlall in Ec. discriminate.
Qed.

(** ** from runs back to rows *)
Lemma filter_group_eq ks k g : (forall r, In r g -> keys_of ks r = k) -> filter (fun r => row_eqb k (keys_of ks r)) g = g.
Proof.
  intros H. induction g as [|r g IH]; [reflexivity|]. cbn [filter]. rewrite (H r (or_introl eq_refl)), row_eqb_refl.
  f_equal. apply IH. intros x Hx. apply H. right. exact Hx.
Qed.
Lemma filter_group_ne ks k k' g : k <> k' -> (forall r, In r g -> keys_of ks r = k') -> filter (fun r => row_eqb k (keys_of ks r)) g = [].
Proof.
  intros Hne H. induction g as [|r g IH]; [reflexivity|]. cbn [filter]. rewrite (H r (or_introl eq_refl)), (row_eqb_false k k' Hne).
  apply IH. intros x Hx. apply H. right. exact Hx.
Qed.
Lemma filter_by_key_groups ks k : forall rg, gkeys_inc rg ->
  Forall (fun kg => forall r, In r (snd kg) -> keys_of ks r = fst kg) rg ->
  filter (fun r => row_eqb k (keys_of ks r)) (concat (map snd rg)) = gfind k rg.
Proof.
  induction rg as [|[k' g] rg IH]; intros Hinc HF; [reflexivity|]. cbn [map snd concat]. rewrite filter_app.
  inversion Hinc as [|? ? Hinc' Hall]; subst. inversion HF as [|? ? Hg HF']; subst. cbn [fst snd] in *.
  destruct (row_eqb k k') eqn:E.
  - apply row_eqb_eq in E. subst k'. rewrite (filter_group_eq ks k g Hg), (IH Hinc' HF').
    rewrite (gfind_none k rg).
    + unfold gfind. cbn [find fst]. rewrite row_eqb_refl. cbn [snd]. apply app_nil_r.
    + rewrite Forall_forall in Hall. intros kg Hin. specialize (Hall kg Hin). cbn in Hall. apply not_eq_sym, row_lt_ne, Hall.
  - assert (Hne : k <> k') by (intros ->; rewrite row_eqb_refl in E; discriminate).
    rewrite (filter_group_ne ks k k' g Hne Hg), (IH Hinc' HF'). cbn [app]. symmetry. apply gfind_skip. apply not_eq_sym, Hne.
Qed.
Lemma filter_by_key ks k rows : sorted_on ks rows -> filter (fun r => row_eqb k (keys_of ks r)) rows = gfind k (group_runs ks rows).
Proof.
  intros Hs. rewrite <- (group_runs_concat ks rows) at 1. apply filter_by_key_groups; [apply group_runs_inc, Hs|].
  eapply Forall_impl; [|apply group_runs_keys]. intros kg [_ H]. exact H.
Qed.

Lemma flat_map_concat {A B} (f : A -> list B) ll : flat_map f (concat ll) = flat_map (flat_map f) ll.
Proof. induction ll as [|l ll IH]; [reflexivity|]. cbn [concat flat_map]. rewrite flat_map_app, IH. reflexivity. Qed.
Lemma flat_map_map {A B C} (f : B -> list C) (g : A -> B) l : flat_map f (map g l) = flat_map (fun a => f (g a)) l.
Proof. induction l as [|a l IH]; [reflexivity|]. cbn. rewrite IH. reflexivity. Qed.
Lemma map_filter_flat {A B} (p : A -> bool) (g : A -> B) l : map g (filter p l) = flat_map (fun a => if p a then [g a] else []) l.
Proof. induction l as [|a l IH]; [reflexivity|]. cbn [filter flat_map]. destruct (p a); cbn [map app]; rewrite IH; reflexivity. Qed.
Lemma flat_map_app_perm {A B} (u v : A -> list B) l :
  Permutation (flat_map (fun a => u a ++ v a) l) (flat_map u l ++ flat_map v l).
Proof.
  induction l as [|a l IH]; [constructor|]. cbn [flat_map].
  rewrite <- !app_assoc. apply Permutation_app_head.
  eapply Permutation_trans; [apply Permutation_app_head, IH|].
  rewrite !app_assoc. apply Permutation_app_tail. apply Permutation_app_comm.
Qed.
Lemma flat_map_swap_perm {A B C} (f : A -> B -> list C) (la : list A) (lb : list B) :
  Permutation (flat_map (fun a => flat_map (f a) lb) la) (flat_map (fun b => flat_map (fun a => f a b) la) lb).
Proof.
  induction la as [|a la IH]; cbn [flat_map].
  - induction lb as [|b lb IHb]; [constructor|exact IHb].
  - eapply Permutation_trans; [apply Permutation_app_head, IH|].
    apply Permutation_sym. apply (flat_map_app_perm (f a) (fun b => flat_map (fun a0 => f a0 b) la)).
Qed.

Lemma flat_map_nil {A B} (l : list A) : flat_map (fun _ : A => @nil B) l = [].
Proof. induction l as [|a l IH]; [reflexivity|exact IH]. Qed.
Lemma filter_none {A} (l : list A) : filter (fun _ => false) l = [].
Proof. induction l as [|a l IH]; [reflexivity|exact IH]. Qed.

(** the rows of the inner equi-join, left-major *)
Definition key_match (lk rk : list sx) (l r : row) : bool := row_eqb (keys_of lk l) (keys_of rk r) && negb (has_null (keys_of lk l)).
Definition equi_rows (lk rk : list sx) (Ls Rs : list row) : list row :=
  flat_map (fun l => map (fun r => l ++ r) (filter (key_match lk rk l) Rs)) Ls.

Lemma mergejoin_inner_rows lk rk nl nr L R : sorted_on lk (concat L) -> sorted_on rk (concat R) ->
  x_mergejoin JInner lk rk nl nr L R = equi_rows lk rk (concat L) (concat R).
Proof.
  intros HL HR. unfold x_mergejoin.
  rewrite merge_walk_inner by (try (apply group_runs_inc; assumption); lia).
  unfold equi_rows. rewrite <- (group_runs_concat lk (concat L)) at 2. rewrite flat_map_concat, flat_map_map.
  unfold walk_spec. apply flat_map_ext_in. intros [k g] Hin. cbn [fst snd].
  pose proof (group_runs_keys lk (concat L)) as F. rewrite Forall_forall in F. destruct (F _ Hin) as [_ Hk]. cbn [fst snd] in Hk.
  rewrite <- (filter_by_key rk k (concat R) HR).
  destruct (has_null k) eqn:En.
  - symmetry. rewrite (flat_map_ext_in _ (fun _ => [])); [apply flat_map_nil|].
    intros l Hl. unfold key_match. rewrite (Hk l Hl), En, (filter_ext _ (fun _ => false)) by (intros; apply andb_false_r).
    rewrite filter_none. reflexivity.
  - unfold cross. apply flat_map_ext_in. intros l Hl. f_equal. apply filter_ext. intros r. unfold key_match.
    rewrite (Hk l Hl), En. cbn. rewrite andb_true_r. reflexivity.
Qed.

Lemma hashjoin_inner_rows lk rk nl nr L R :
  Permutation (equi_rows lk rk (concat L) (concat R)) (x_hashjoin JInner lk rk nl nr L R).
Proof.
  unfold x_hashjoin, equi_rows. cbn [pads_left pads_right]. rewrite app_nil_r.
  set (Ls := concat L). set (Rs := concat R).
  rewrite (flat_map_ext _ (fun l => flat_map (fun r => if key_match lk rk l r then [l ++ r] else []) Rs)) by (intros l; apply map_filter_flat).
  eapply Permutation_trans; [apply flat_map_swap_perm|]. apply Permutation_refl'.
  apply flat_map_ext. intros r.
  transitivity (map (fun l => l ++ r) (filter (fun l => row_eqb (keys_of lk l) (keys_of rk r)) (filter (fun l => negb (has_null (keys_of lk l))) Ls))).
  - rewrite filter_filter, map_filter_flat. apply flat_map_ext. intros l. unfold key_match. rewrite andb_comm. reflexivity.
  - destruct (filter _ (filter _ Ls)); reflexivity.
Qed.

(** the merge join over sorted inputs = the hash join = (when the condition is the SQL equality of the
    keys) the nested-loop join, as bags *)
Theorem mergejoin_inner_eq_hashjoin lk rk nl nr L R : sorted_on lk (concat L) -> sorted_on rk (concat R) ->
  Permutation (x_mergejoin JInner lk rk nl nr L R) (x_hashjoin JInner lk rk nl nr L R).
Proof. intros HL HR. rewrite (mergejoin_inner_rows lk rk nl nr L R HL HR). apply hashjoin_inner_rows. Qed.
Corollary mergejoin_inner_eq_nljoin cond lk rk nl nr L R : sorted_on lk (concat L) -> sorted_on rk (concat R) ->
  equi_cond cond lk rk (concat L) (concat R) ->
  exists out, x_nljoin JInner cond nr L R = Some out /\ Permutation (x_mergejoin JInner lk rk nl nr L R) out.
Proof.
  intros HL HR Hc. exists (x_hashjoin JInner lk rk nl nr L R). split; [symmetry; apply hashjoin_inner_eq_nljoin, Hc|].
  apply mergejoin_inner_eq_hashjoin; assumption.
Qed.

(** non-vacuity: sorted inputs with duplicate and NULL keys *)
Example mergejoin_example :
  let L := [[ [DNull; DI32 9]; [DI32 1; DI32 5] ]; [ [DI32 1; DI32 6]; [DI32 3; DI32 7] ]] in
  let R := [[ [DNull; DI32 0]; [DI32 1; DI32 8]; [DI32 2; DI32 8]; [DI32 3; DI32 8]; [DI32 3; DI32 9] ]] in
  sorted_on [SCol 0] (concat L) /\ sorted_on [SCol 0] (concat R) /\
  x_mergejoin JInner [SCol 0] [SCol 0] 2 2 L R =
    [[DI32 1; DI32 5; DI32 1; DI32 8]; [DI32 1; DI32 6; DI32 1; DI32 8]; [DI32 3; DI32 7; DI32 3; DI32 8]; [DI32 3; DI32 7; DI32 3; DI32 9]].
Proof.
  cbv zeta. split; [|split; [|reflexivity]]; unfold sorted_on; cbn [concat app];
    repeat (constructor; [|repeat (constructor; [cbn; discriminate|]); constructor]); constructor.
Qed.
