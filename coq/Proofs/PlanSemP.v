(** * C01 — facts about the plan semantics (Model/PlanSem.v) from which the obligations of the
    plan rewrite rules are discharged. *)
From RL Require Import Model.PlanSem Proofs.ValP Proofs.ExecP.
From Coq Require Import Lia Sorted.
Open Scope string_scope.
Open Scope list_scope.

(** ** lookups, scoping *)
Lemma memb_In c l : memb c l = true <-> In c l.
Proof.
  unfold memb. rewrite existsb_exists. split.
  - intros (x & Hx & E). apply Nat.eqb_eq in E. subst. exact Hx.
  - intros H. exists c. split; [exact H|apply Nat.eqb_refl].
Qed.
Lemma memb_false c l : memb c l = false <-> ~ In c l.
Proof. rewrite <- memb_In. destruct (memb c l); split; congruence. Qed.
Lemma inclb_spec a b : inclb a b = true <-> (forall c, In c a -> In c b).
Proof. unfold inclb. rewrite forallb_forall. split; intros H c Hc; [apply memb_In|apply memb_In]; auto. Qed.
Lemma disjb_spec a b : disjb a b = true <-> (forall c, In c a -> ~ In c b).
Proof.
  unfold disjb. rewrite forallb_forall. split; intros H c Hc.
  - apply memb_false. specialize (H c Hc). destruct (memb c b); [discriminate|reflexivity].
  - specialize (H c Hc). apply memb_false in H. rewrite H. reflexivity.
Qed.
Lemma inclb_app a b c : inclb (a ++ b) c = inclb a c && inclb b c.
Proof. unfold inclb. apply forallb_app. Qed.
Lemma inclb_app_disj s lc rc : inclb s (lc ++ rc) = true -> disjb s rc = true -> inclb s lc = true.
Proof.
  rewrite !inclb_spec, disjb_spec. intros H D c Hc. specialize (H c Hc). apply in_app_or in H as [H|H]; [exact H|].
  exfalso. exact (D c Hc H).
Qed.
Lemma inclb_app_disj_l s lc rc : inclb s (lc ++ rc) = true -> disjb s lc = true -> inclb s rc = true.
Proof.
  rewrite !inclb_spec, disjb_spec. intros H D c Hc. specialize (H c Hc). apply in_app_or in H as [H|H]; [|exact H].
  exfalso. exact (D c Hc H).
Qed.
Lemma inclb_weaken_l s lc rc : inclb s lc = true -> inclb s (lc ++ rc) = true.
Proof. rewrite !inclb_spec. intros H c Hc. apply in_or_app. left. auto. Qed.
Lemma inclb_weaken_r s lc rc : inclb s rc = true -> inclb s (lc ++ rc) = true.
Proof. rewrite !inclb_spec. intros H c Hc. apply in_or_app. right. auto. Qed.
Lemma disjb_incl s a b : inclb s a = true -> disjb a b = true -> disjb s b = true.
Proof. rewrite inclb_spec, !disjb_spec. intros H D c Hc. apply D, H, Hc. Qed.
Lemma disjb_sym a b : disjb a b = true -> disjb b a = true.
Proof. rewrite !disjb_spec. intros D c Hc Ha. exact (D c Ha Hc). Qed.

Lemma lookup_app c l r : lookup c (l ++ r) = if memb c (map fst l) then lookup c l else lookup c r.
Proof.
  induction l as [|[k v] l IH]; [reflexivity|]. cbn [app lookup map fst memb existsb].
  rewrite (Nat.eqb_sym c k). destruct (Nat.eqb k c); [reflexivity|]. cbn [orb]. exact IH.
Qed.
Lemma expr_left s f lc l r : reads_only s f -> inclb s lc = true -> map fst l = lc -> f (l ++ r) = f l.
Proof.
  intros Hf Hs Hl. apply Hf. intros c Hc. rewrite lookup_app, Hl.
  rewrite inclb_spec in Hs. apply Hs, memb_In in Hc. rewrite Hc. reflexivity.
Qed.
Lemma expr_right s f lc l r : reads_only s f -> disjb s lc = true -> map fst l = lc -> f (l ++ r) = f r.
Proof.
  intros Hf Hs Hl. apply Hf. intros c Hc. rewrite lookup_app, Hl.
  rewrite disjb_spec in Hs. apply Hs, memb_false in Hc. rewrite Hc. reflexivity.
Qed.
Lemma reads_only_app_l s t f g : reads_only s f -> reads_only t g -> reads_only (s ++ t) (and3f f g).
Proof.
  intros Hf Hg r r' H. unfold and3f.
  rewrite (Hf r r') by (intros c Hc; apply H, in_or_app; left; exact Hc).
  rewrite (Hg r r') by (intros c Hc; apply H, in_or_app; right; exact Hc). reflexivity.
Qed.

(** ** conditions *)
Lemma reads_only_eq3f s t f g : reads_only s f -> reads_only t g -> reads_only (s ++ t) (eq3f f g).
Proof.
  intros Hf Hg r r' H. unfold eq3f.
  rewrite (Hf r r') by (intros c Hc; apply H, in_or_app; left; exact Hc).
  rewrite (Hg r r') by (intros c Hc; apply H, in_or_app; right; exact Hc). reflexivity.
Qed.
Lemma holdsf_and3f f g r : holdsf (and3f f g) r = holdsf f r && holdsf g r.
Proof. unfold holdsf, and3f. destruct (f r) as [| [] | | | |]; destruct (g r) as [| [] | | | |]; reflexivity. Qed.
Lemma filter_true {A} (l : list A) : filter (fun _ => true) l = l.
Proof. induction l; cbn; congruence. Qed.
Lemma filter_false {A} (l : list A) : filter (fun _ => false) l = [].
Proof. induction l; cbn; congruence. Qed.
Lemma filter_and f g (rows : list arow) :
  filter (holdsf f) (filter (holdsf g) rows) = filter (holdsf (and3f f g)) rows.
Proof.
  rewrite filter_filter. apply filter_ext_in. intros x _. rewrite holdsf_and3f. apply andb_comm.
Qed.
Lemma filter_and' f g (rows : list arow) :
  filter (holdsf g) (filter (holdsf f) rows) = filter (holdsf (and3f f g)) rows.
Proof. rewrite filter_filter. apply filter_ext_in. intros x _. rewrite holdsf_and3f. reflexivity. Qed.

(** ** LIMIT *)
Lemma as_count_null : as_count (fun _ => DNull) = Some None.
Proof. reflexivity. Qed.
Lemma limit_none_zero {A} (l : list A) : limit_rows None 0 l = l.
Proof. reflexivity. Qed.

(** ** ORDER BY *)
Lemma insert_by_head {A} (le : A -> A -> bool) x l : (forall z, In z l -> le x z = true) -> insert_by le x l = x :: l.
Proof. destruct l as [|y l]; [reflexivity|]. intros H. cbn. rewrite (H y) by (left; reflexivity). reflexivity. Qed.
Lemma sort_by_no_keys (rows : list arow) : sort_by (key_le []) rows = rows.
Proof.
  induction rows as [|r rows IH]; [reflexivity|]. cbn [sort_by fold_right]. fold (sort_by (key_le []) rows). rewrite IH.
  apply insert_by_head. intros z _. reflexivity.
Qed.

Section Sorting.
  Context {A : Type} (le : A -> A -> bool).
  Hypothesis le_trans : forall a b c, le a b = true -> le b c = true -> le a c = true.
  Hypothesis le_total : forall a b, le a b = false -> le b a = true.
  Let sorted := StronglySorted (fun a b => le a b = true).

  Lemma insert_by_perm x l : Permutation (x :: l) (insert_by le x l).
  Proof.
    induction l as [|y l IH]; cbn; [apply Permutation_refl|].
    destruct (le x y); [apply Permutation_refl|]. eapply Permutation_trans; [apply perm_swap|]. apply perm_skip, IH.
  Qed.
  Lemma insert_by_sorted x l : sorted l -> sorted (insert_by le x l).
  Proof.
    induction l as [|y l IH]; intros H; cbn.
    - constructor; constructor.
    - inversion H as [|? ? Hs Hall]; subst. destruct (le x y) eqn:E.
      + constructor; [exact H|]. constructor; [exact E|].
        eapply Forall_impl; [|exact Hall]. intros z Hz. eapply le_trans; eassumption.
      + constructor; [apply IH, Hs|].
        apply (Permutation_Forall (insert_by_perm x l)). constructor; [apply le_total, E|exact Hall].
  Qed.
  Lemma sort_by_sorted l : sorted (sort_by le l).
  Proof. induction l as [|x l IH]; cbn; [constructor|]. apply insert_by_sorted, IH. Qed.

  Lemma filter_insert_by (p : A -> bool) x l : sorted l ->
    filter p (insert_by le x l) = if p x then insert_by le x (filter p l) else filter p l.
  Proof.
    induction l as [|y l IH]; intros H.
    - cbn. destruct (p x); reflexivity.
    - inversion H as [|? ? Hs Hall]; subst. cbn [insert_by]. destruct (le x y) eqn:E.
      + cbn [filter]. destruct (p x) eqn:Px; [|reflexivity]. destruct (p y) eqn:Py.
        * cbn [insert_by]. rewrite E. reflexivity.
        * symmetry. apply insert_by_head. intros z Hz. apply filter_In in Hz as [Hz _].
          rewrite Forall_forall in Hall. eapply le_trans; [exact E|apply Hall, Hz].
      + cbn [filter]. rewrite (IH Hs). destruct (p y) eqn:Py; destruct (p x) eqn:Px; try reflexivity.
        cbn [insert_by]. rewrite E. reflexivity.
  Qed.
  Lemma filter_sort_by (p : A -> bool) l : filter p (sort_by le l) = sort_by le (filter p l).
  Proof.
    induction l as [|x l IH]; [reflexivity|]. cbn [sort_by fold_right]. fold (sort_by le l).
    rewrite filter_insert_by by apply sort_by_sorted. cbn [filter]. destruct (p x); rewrite IH; reflexivity.
  Qed.
End Sorting.

Lemma key_le_total ks a b : key_le ks a b = false -> key_le ks b a = true.
Proof.
  unfold key_le. rewrite (ord_cmp_antisym (map snd ks) (map (fun k => snd (fst k) a) ks) (map (fun k => snd (fst k) b) ks)).
  destruct (ord_cmp (map snd ks) (map (fun k => snd (fst k) a) ks) (map (fun k => snd (fst k) b) ks)); cbn; congruence.
Qed.
Lemma key_le_trans ks a b c : key_le ks a b = true -> key_le ks b c = true -> key_le ks a c = true.
Proof.
  unfold key_le. intros H1 H2.
  pose proof (ord_cmp_le_trans (map snd ks) (map (fun k => snd (fst k) a) ks) (map (fun k => snd (fst k) b) ks)
                (map (fun k => snd (fst k) c) ks)) as T.
  rewrite !map_length in T. specialize (T eq_refl eq_refl eq_refl).
  destruct (ord_cmp (map snd ks) (map (fun k => snd (fst k) a) ks) (map (fun k => snd (fst k) b) ks)) eqn:E1; try discriminate;
  destruct (ord_cmp (map snd ks) (map (fun k => snd (fst k) b) ks) (map (fun k => snd (fst k) c) ks)) eqn:E2; try discriminate;
  destruct (ord_cmp (map snd ks) (map (fun k => snd (fst k) a) ks) (map (fun k => snd (fst k) c) ks)) eqn:E3; try reflexivity;
  exfalso; apply T; congruence.
Qed.
Lemma filter_order ks f (rows : list arow) :
  filter (holdsf f) (sort_by (key_le ks) rows) = sort_by (key_le ks) (filter (holdsf f) rows).
Proof. apply filter_sort_by; [apply key_le_trans|apply key_le_total]. Qed.

(** ** joins *)
Lemma matches_and on c l R : filter (holdsf c) (matches on l R) = matches (and3f on c) l R.
Proof. unfold matches. apply filter_and'. Qed.
Lemma filter_inner_join on c L R :
  filter (holdsf c) (flat_map (fun l => matches on l R) L) = flat_map (fun l => matches (and3f on c) l R) L.
Proof. rewrite filter_flat_map. apply flat_map_ext_in. intros l _. apply matches_and. Qed.

(** a condition over the left columns only, above / inside a join *)
Lemma existsb_and_left s c on lc L R l : reads_only s c -> inclb s lc = true -> wf_rel lc L -> In l L ->
  existsb (fun r => holdsf (and3f on c) (l ++ r)) R = holdsf c l && existsb (fun r => holdsf on (l ++ r)) R.
Proof.
  intros Hc Hs Hw Hl. unfold wf_rel in Hw. rewrite Forall_forall in Hw. specialize (Hw l Hl).
  induction R as [|r R IH]; cbn [existsb]; [rewrite andb_false_r; reflexivity|].
  rewrite IH, holdsf_and3f. unfold holdsf at 2. rewrite (expr_left s c lc l r Hc Hs Hw). fold (holdsf c l).
  destruct (holdsf c l); destruct (holdsf on (l ++ r)); reflexivity.
Qed.
Lemma filter_semi_join s c on lc L R : reads_only s c -> inclb s lc = true -> wf_rel lc L ->
  filter (holdsf c) (filter (fun l => existsb (fun r => holdsf on (l ++ r)) R) L) =
  filter (fun l => existsb (fun r => holdsf (and3f on c) (l ++ r)) R) L.
Proof.
  intros Hc Hs Hw. rewrite filter_filter. apply filter_ext_in. intros l Hl.
  rewrite (existsb_and_left s c on lc L R l Hc Hs Hw Hl). apply andb_comm.
Qed.
Lemma filter_anti_join c on (L R : list arow) :
  filter (holdsf c) (filter (fun l => negb (existsb (fun r => holdsf on (l ++ r)) R)) L) =
  filter (fun l => negb (existsb (fun r => holdsf on (l ++ r)) R)) (filter (holdsf c) L).
Proof. rewrite !filter_filter. apply filter_ext_in. intros l _. apply andb_comm. Qed.

Lemma matches_keys lc rc on l R x : map fst l = lc -> wf_rel rc R -> In x (matches on l R) -> exists r, x = l ++ r /\ map fst r = rc.
Proof.
  intros Hl Hw Hx. unfold matches in Hx. apply filter_In in Hx as [Hx _]. apply in_map_iff in Hx as (r & <- & Hr).
  exists r. split; [reflexivity|]. unfold wf_rel in Hw. rewrite Forall_forall in Hw. exact (Hw r Hr).
Qed.
Lemma filter_flat_map_sel {A B} (p : B -> bool) (q : A -> bool) (g : A -> list B) L :
  (forall l, In l L -> filter p (g l) = if q l then g l else []) -> filter p (flat_map g L) = flat_map g (filter q L).
Proof.
  induction L as [|l L IH]; intros H; [reflexivity|]. cbn [flat_map filter]. rewrite filter_app.
  rewrite (H l (or_introl eq_refl)), IH by (intros x Hx; apply H; right; exact Hx).
  destruct (q l); reflexivity.
Qed.
Lemma filter_all_left s c lc l m : reads_only s c -> inclb s lc = true -> map fst l = lc ->
  (forall x, In x m -> exists r, x = l ++ r) -> filter (holdsf c) m = if holdsf c l then m else [].
Proof.
  intros Hc Hs Hl. induction m as [|x m IHm]; intros Hm; [destruct (holdsf c l); reflexivity|].
  cbn [filter]. destruct (Hm x (or_introl eq_refl)) as (r & ->).
  unfold holdsf at 1. rewrite (expr_left s c lc l r Hc Hs Hl). fold (holdsf c l).
  rewrite IHm by (intros y Hy; apply Hm; right; exact Hy). destruct (holdsf c l); reflexivity.
Qed.
Lemma filter_left_rows s c on lc rc L R : reads_only s c -> inclb s lc = true -> wf_rel lc L ->
  filter (holdsf c) (left_rows on rc L R) = left_rows on rc (filter (holdsf c) L) R.
Proof.
  intros Hc Hs Hw. unfold left_rows. apply filter_flat_map_sel. intros l Hl.
  unfold wf_rel in Hw. rewrite Forall_forall in Hw. specialize (Hw l Hl).
  apply (filter_all_left s c lc l _ Hc Hs Hw). intros x Hx.
  destruct (matches on l R) as [|m0 ms] eqn:Em.
  - destruct Hx as [<-|[]]. eexists; reflexivity.
  - rewrite <- Em in Hx. unfold matches in Hx. apply filter_In in Hx as [Hx _]. apply in_map_iff in Hx as (r & <- & _).
    eexists; reflexivity.
Qed.

(** ** well-formedness is preserved by every operator: the meaning of a pattern under a well-formed
       binding is well formed *)
Lemma wf_filter c (p : arow -> bool) rows : wf_rel c rows -> wf_rel c (filter p rows).
Proof. unfold wf_rel. rewrite !Forall_forall. intros H x Hx. apply filter_In in Hx as [Hx _]. auto. Qed.
Lemma wf_perm c rows rows' : Permutation rows rows' -> wf_rel c rows -> wf_rel c rows'.
Proof. unfold wf_rel. intros P H. exact (Permutation_Forall P H). Qed.
Lemma sort_by_perm {A} (le : A -> A -> bool) l : Permutation l (sort_by le l).
Proof.
  induction l as [|x l IH]; cbn; [constructor|]. eapply Permutation_trans; [apply perm_skip, IH|]. apply insert_by_perm.
Qed.
Lemma wf_firstn c n rows : wf_rel c rows -> wf_rel c (firstn n rows).
Proof. unfold wf_rel. intros H. rewrite <- (firstn_skipn n rows) in H. apply Forall_app in H as [H _]. exact H. Qed.
Lemma wf_skipn c n rows : wf_rel c rows -> wf_rel c (skipn n rows).
Proof. unfold wf_rel. intros H. rewrite <- (firstn_skipn n rows) in H. apply Forall_app in H as [_ H]. exact H. Qed.
Lemma wf_limit c l o rows : wf_rel c rows -> wf_rel c (limit_rows l o rows).
Proof. intros H. unfold limit_rows. destruct l; [apply wf_firstn|]; apply wf_skipn, H. Qed.
Lemma nulls_for_keys c : map fst (nulls_for c) = c.
Proof. unfold nulls_for. rewrite map_map. cbn. apply map_id. Qed.

Lemma wf_matches lc rc on l R : map fst l = lc -> wf_rel rc R -> wf_rel (lc ++ rc) (matches on l R).
Proof.
  intros Hl Hw. unfold wf_rel. rewrite Forall_forall. intros x Hx.
  destruct (matches_keys lc rc on l R x Hl Hw Hx) as (r & -> & Hr). rewrite map_app, Hl, Hr. reflexivity.
Qed.
Lemma wf_rmatches lc rc on L r : wf_rel lc L -> map fst r = rc -> wf_rel (lc ++ rc) (rmatches on L r).
Proof.
  intros Hw Hr. unfold wf_rel, rmatches. rewrite Forall_forall. intros x Hx.
  apply filter_In in Hx as [Hx _]. apply in_map_iff in Hx as (l & <- & Hl).
  unfold wf_rel in Hw. rewrite Forall_forall in Hw. rewrite map_app, (Hw l Hl), Hr. reflexivity.
Qed.
Lemma wf_flat_map {A} c (g : A -> list arow) L : (forall l, In l L -> wf_rel c (g l)) -> wf_rel c (flat_map g L).
Proof.
  unfold wf_rel. intros H. rewrite Forall_forall. intros x Hx. apply in_flat_map in Hx as (l & Hl & Hx).
  specialize (H l Hl). rewrite Forall_forall in H. exact (H x Hx).
Qed.
Lemma wf_left_rows lc rc on L R : wf_rel lc L -> wf_rel rc R -> wf_rel (lc ++ rc) (left_rows on rc L R).
Proof.
  intros HL HR. unfold left_rows. apply wf_flat_map. intros l Hl.
  unfold wf_rel in HL. rewrite Forall_forall in HL. specialize (HL l Hl).
  pose proof (wf_matches lc rc on l R HL HR) as Hm. destruct (matches on l R) as [|m0 ms]; [|exact Hm].
  constructor; [|constructor]. rewrite map_app, HL, nulls_for_keys. reflexivity.
Qed.
Lemma wf_join ty on lc rc L R s : wf_rel lc L -> wf_rel rc R -> join_sem ty on lc rc L R = Some s -> wf_sem s.
Proof.
  intros HL HR H. unfold join_sem in H.
  destruct (String.eqb ty "inner"); [inversion H; subst; cbn|].
  { apply wf_flat_map. intros l Hl. apply wf_matches; [|exact HR]. unfold wf_rel in HL. rewrite Forall_forall in HL. exact (HL l Hl). }
  destruct (String.eqb ty "left_outer"); [inversion H; subst; cbn; apply wf_left_rows; assumption|].
  assert (HRR : forall r, In r R -> wf_rel (lc ++ rc) (match rmatches on L r with [] => [nulls_for lc ++ r] | m => m end)).
  { intros r Hr. unfold wf_rel in HR. rewrite Forall_forall in HR. specialize (HR r Hr).
    pose proof (wf_rmatches lc rc on L r HL HR) as Hm. destruct (rmatches on L r); [|exact Hm].
    constructor; [|constructor]. rewrite map_app, HR, nulls_for_keys. reflexivity. }
  destruct (String.eqb ty "right_outer"); [inversion H; subst; cbn; apply wf_flat_map; exact HRR|].
  destruct (String.eqb ty "full_outer"); [inversion H; subst; cbn|].
  { unfold wf_rel. apply Forall_app. split; [apply wf_left_rows; assumption|].
    apply wf_flat_map. intros r Hr. specialize (HRR r Hr). destruct (rmatches on L r); [exact HRR|constructor]. }
  destruct (String.eqb ty "semi"); [inversion H; subst; cbn; apply wf_filter; exact HL|].
  destruct (String.eqb ty "anti"); [inversion H; subst; cbn; apply wf_filter; exact HL|discriminate].
Qed.

Lemma wf_list vs : Forall wf_sem vs -> wf_sem (MList vs).
Proof.
  intros H. cbn. induction H as [|x l Hx _ IH]; [exact I|]. destruct x; try exact IH. split; [exact Hx|exact IH].
Qed.
Lemma map_fst_combine {A B} (a : list A) (b : list B) : List.length a = List.length b -> map fst (combine a b) = a.
Proof.
  revert b. induction a as [|x a IH]; intros [|y b] E; try discriminate; [reflexivity|]. cbn. f_equal. apply IH. cbn in E. lia.
Qed.
Lemma wf_proj fs rows : wf_rel (seq 0 (List.length fs)) (map (proj_row fs) rows).
Proof.
  unfold wf_rel. rewrite Forall_forall. intros x Hx. apply in_map_iff in Hx as (r & <- & _).
  unfold proj_row. apply map_fst_combine. rewrite seq_length, map_length. reflexivity.
Qed.
Lemma op_sem_wf op vs s : Forall wf_sem vs -> op_sem op vs = Some s -> wf_sem s.
Proof.
  intros Hv H. unfold op_sem in H. destruct (String.eqb op "list"); [inversion H; subst; apply wf_list; exact Hv|].
  destruct (String.eqb op "proj").
  { repeat match type of H with
           | match ?t with _ => _ end = _ => destruct t; try discriminate
           end.
    inversion H; subst. apply wf_proj. }
  destruct (String.eqb op "hashjoin").
  { repeat match type of H with
           | match ?t with _ => _ end = _ => destruct t; try discriminate
           end.
    repeat match goal with
           | Hf : Forall _ (_ :: _) |- _ => let a := fresh "W" in let b := fresh "Ws" in inversion Hf as [|? ? a b]; subst; clear Hf
           end.
    cbn [wf_sem] in *. eapply wf_join; [| |eassumption]; assumption. }
  repeat match type of H with
         | match ?t with _ => _ end = _ => destruct t; try discriminate
         end;
  repeat match goal with
         | Hf : Forall _ (_ :: _) |- _ => let a := fresh "W" in let b := fresh "Ws" in inversion Hf as [|? ? a b]; subst; clear Hf
         | Hf : Forall _ [] |- _ => clear Hf
         end;
  cbn [wf_sem] in *;
  try (inversion H; subst; cbn [wf_sem];
       first [ apply reads_only_app_l; assumption
             | apply reads_only_eq3f; assumption
             | constructor
             | apply wf_filter; assumption
             | eapply wf_perm; [apply sort_by_perm|assumption]
             | apply wf_limit; assumption
             | apply wf_limit; eapply wf_perm; [apply sort_by_perm|assumption]
             | assumption ]; fail).
  all: try (eapply wf_join; [| |eassumption]; assumption).
Qed.

(** induction over pattern terms, covering the argument lists *)
Section SxInd.
  Variable P : Plan.sx -> Prop.
  Hypothesis HA : forall s, P (Plan.A s).
  Hypothesis HN : forall op args, Forall P args -> P (Plan.N op args).
  Fixpoint sx_ind' (e : Plan.sx) : P e :=
    match e with
    | Plan.A s => HA s
    | Plan.N op args =>
        HN op args ((fix go (l : list Plan.sx) : Forall P l :=
                       match l with [] => Forall_nil P | x :: r => Forall_cons x (sx_ind' x) (go r) end) args)
    end.
End SxInd.

Lemma all_some_forall {A} (P : A -> Prop) (l : list (option A)) vs :
  all_some l = Some vs -> Forall (fun o => forall v, o = Some v -> P v) l -> Forall P vs.
Proof.
  revert vs. induction l as [|[x|] l IH]; intros vs H HF; cbn in H; try discriminate.
  - inversion H. constructor.
  - destruct (all_some l) as [t|] eqn:E; [|discriminate]. inversion H; subst.
    inversion HF as [|? ? Hx Hl]; subst. constructor; [apply Hx; reflexivity|apply IH; [reflexivity|exact Hl]].
Qed.

Theorem ppev_wf env : env_ok env -> forall e s, ppev env e = Some s -> wf_sem s.
Proof.
  intros Hok. induction e as [a|op args IH] using sx_ind'; intros s H.
  - cbn [ppev] in H. destruct (is_pvar a); [inversion H; subst; apply Hok|].
    unfold atom_sem in H.
    repeat match type of H with
           | (if ?c then _ else _) = _ => destruct c
           end; try discriminate;
    try match type of H with match ?d with _ => _ end = _ => destruct d; [|discriminate] end;
    inversion H; subst; cbn; try exact I; unfold reads_only; intros ? ? ?; reflexivity.
  - cbn [ppev] in H.
    set (l := (fix go (l : list Plan.sx) : list (option sem) := match l with [] => [] | x :: r => ppev env x :: go r end) args) in H.
    destruct (all_some l) as [vs|] eqn:E; [|discriminate].
    eapply op_sem_wf; [|exact H]. eapply all_some_forall; [exact E|].
    subst l. clear E H. induction args as [|x args IHa]; [constructor|].
    inversion IH as [|? ? Hx Hr]; subst. constructor; [exact Hx|apply IHa, Hr].
Qed.

(** ** join conditions pushed into an input (inner and semi joins; for the outer joins see the
       refutations) *)
Lemma flat_map_sel {A B} (q : A -> bool) (g g' : A -> list B) L :
  (forall l, In l L -> g' l = if q l then g l else []) -> flat_map g' L = flat_map g (filter q L).
Proof.
  induction L as [|l L IH]; intros H; [reflexivity|]. cbn [flat_map filter].
  rewrite (H l (or_introl eq_refl)), IH by (intros x Hx; apply H; right; exact Hx).
  destruct (q l); reflexivity.
Qed.
Lemma matches_left_cond s c1 c2 lc l R : reads_only s c1 -> inclb s lc = true -> map fst l = lc ->
  matches (and3f c1 c2) l R = if holdsf c1 l then matches c2 l R else [].
Proof.
  intros Hc Hs Hl. unfold matches. rewrite <- filter_and.
  rewrite (filter_all_left s c1 lc l (filter (holdsf c2) (map (fun r => l ++ r) R)) Hc Hs Hl); [reflexivity|].
  intros x Hx. apply filter_In in Hx as [Hx _]. apply in_map_iff in Hx as (r & <- & _). eexists; reflexivity.
Qed.
Lemma inner_join_cond_left s c1 c2 lc L R : reads_only s c1 -> inclb s lc = true -> wf_rel lc L ->
  flat_map (fun l => matches (and3f c1 c2) l R) L = flat_map (fun l => matches c2 l R) (filter (holdsf c1) L).
Proof.
  intros Hc Hs Hw. apply flat_map_sel. intros l Hl. unfold wf_rel in Hw. rewrite Forall_forall in Hw.
  apply (matches_left_cond s c1 c2 lc l R Hc Hs (Hw l Hl)).
Qed.
Lemma matches_true l R : matches (fun _ => DBool true) l R = map (fun r => l ++ r) R.
Proof. unfold matches. apply filter_true. Qed.
Lemma matches_left_only s c1 lc l R : reads_only s c1 -> inclb s lc = true -> map fst l = lc ->
  matches c1 l R = if holdsf c1 l then matches (fun _ => DBool true) l R else [].
Proof.
  intros Hc Hs Hl. rewrite matches_true. unfold matches.
  apply (filter_all_left s c1 lc l _ Hc Hs Hl). intros x Hx. apply in_map_iff in Hx as (r & <- & _). eexists; reflexivity.
Qed.
Lemma inner_join_cond_left_1 s c1 lc L R : reads_only s c1 -> inclb s lc = true -> wf_rel lc L ->
  flat_map (fun l => matches c1 l R) L = flat_map (fun l => matches (fun _ => DBool true) l R) (filter (holdsf c1) L).
Proof.
  intros Hc Hs Hw. apply flat_map_sel. intros l Hl. unfold wf_rel in Hw. rewrite Forall_forall in Hw.
  apply (matches_left_only s c1 lc l R Hc Hs (Hw l Hl)).
Qed.
Lemma semi_join_cond_left s c1 c2 lc L R : reads_only s c1 -> inclb s lc = true -> wf_rel lc L ->
  filter (fun l => existsb (fun r => holdsf (and3f c1 c2) (l ++ r)) R) L =
  filter (fun l => existsb (fun r => holdsf c2 (l ++ r)) R) (filter (holdsf c1) L).
Proof.
  intros Hc Hs Hw. rewrite filter_filter. apply filter_ext_in. intros l Hl.
  unfold wf_rel in Hw. rewrite Forall_forall in Hw. specialize (Hw l Hl).
  induction R as [|r R IH]; cbn [existsb]; [rewrite andb_false_r; reflexivity|].
  rewrite IH, holdsf_and3f. unfold holdsf at 1. rewrite (expr_left s c1 lc l r Hc Hs Hw). fold (holdsf c1 l).
  destruct (holdsf c1 l); destruct (holdsf c2 (l ++ r)); reflexivity.
Qed.

(** a condition over the right columns only *)
Lemma matches_right_cond s c1 c2 lc l R : reads_only s c1 -> disjb s lc = true -> map fst l = lc ->
  matches (and3f c1 c2) l R = matches c2 l (filter (holdsf c1) R).
Proof.
  intros Hc Hs Hl. unfold matches. rewrite <- filter_and.
  induction R as [|r R IH]; [reflexivity|].
  assert (E : holdsf c1 r = holdsf c1 (l ++ r)) by (unfold holdsf; rewrite (expr_right s c1 lc l r Hc Hs Hl); reflexivity).
  cbn [map filter]. rewrite E.
  destruct (holdsf c2 (l ++ r)) eqn:E2; destruct (holdsf c1 (l ++ r)) eqn:E1; cbn [map filter]; rewrite ?E1, ?E2; rewrite IH; reflexivity.
Qed.
Lemma inner_join_cond_right s c1 c2 lc L R : reads_only s c1 -> disjb s lc = true -> wf_rel lc L ->
  flat_map (fun l => matches (and3f c1 c2) l R) L = flat_map (fun l => matches c2 l (filter (holdsf c1) R)) L.
Proof.
  intros Hc Hs Hw. apply flat_map_ext_in. intros l Hl. unfold wf_rel in Hw. rewrite Forall_forall in Hw.
  apply (matches_right_cond s c1 c2 lc l R Hc Hs (Hw l Hl)).
Qed.
Lemma left_join_cond_right s c1 c2 lc rc L R : reads_only s c1 -> disjb s lc = true -> wf_rel lc L ->
  left_rows (and3f c1 c2) rc L R = left_rows c2 rc L (filter (holdsf c1) R).
Proof.
  intros Hc Hs Hw. unfold left_rows. apply flat_map_ext_in. intros l Hl. unfold wf_rel in Hw. rewrite Forall_forall in Hw.
  rewrite (matches_right_cond s c1 c2 lc l R Hc Hs (Hw l Hl)). reflexivity.
Qed.
Lemma existsb_right_cond s c1 c2 lc l R : reads_only s c1 -> disjb s lc = true -> map fst l = lc ->
  existsb (fun r => holdsf (and3f c1 c2) (l ++ r)) R = existsb (fun r => holdsf c2 (l ++ r)) (filter (holdsf c1) R).
Proof.
  intros Hc Hs Hl. induction R as [|r R IH]; [reflexivity|].
  assert (E : holdsf c1 r = holdsf c1 (l ++ r)) by (unfold holdsf; rewrite (expr_right s c1 lc l r Hc Hs Hl); reflexivity).
  cbn [existsb filter]. rewrite holdsf_and3f, E.
  destruct (holdsf c1 (l ++ r)); cbn [existsb andb]; rewrite IH; reflexivity.
Qed.
Lemma semi_join_cond_right s c1 c2 lc L R : reads_only s c1 -> disjb s lc = true -> wf_rel lc L ->
  filter (fun l => existsb (fun r => holdsf (and3f c1 c2) (l ++ r)) R) L =
  filter (fun l => existsb (fun r => holdsf c2 (l ++ r)) (filter (holdsf c1) R)) L.
Proof.
  intros Hc Hs Hw. apply filter_ext_in. intros l Hl. unfold wf_rel in Hw. rewrite Forall_forall in Hw.
  apply (existsb_right_cond s c1 c2 lc l R Hc Hs (Hw l Hl)).
Qed.
Lemma anti_join_cond_right s c1 c2 lc L R : reads_only s c1 -> disjb s lc = true -> wf_rel lc L ->
  filter (fun l => negb (existsb (fun r => holdsf (and3f c1 c2) (l ++ r)) R)) L =
  filter (fun l => negb (existsb (fun r => holdsf c2 (l ++ r)) (filter (holdsf c1) R))) L.
Proof.
  intros Hc Hs Hw. apply filter_ext_in. intros l Hl. unfold wf_rel in Hw. rewrite Forall_forall in Hw.
  rewrite (existsb_right_cond s c1 c2 lc l R Hc Hs (Hw l Hl)). reflexivity.
Qed.

(** ** rotation of two inner joins *)
Lemma flat_map_flat_map {A B C} (f : A -> list B) (g : B -> list C) l :
  flat_map g (flat_map f l) = flat_map (fun x => flat_map g (f x)) l.
Proof. induction l as [|x l IH]; [reflexivity|]. cbn [flat_map]. rewrite flat_map_app, IH. reflexivity. Qed.
Lemma flat_map_filter_map {A B C} (p : B -> bool) (f : A -> B) (g : B -> list C) l :
  flat_map g (filter p (map f l)) = flat_map (fun a => if p (f a) then g (f a) else []) l.
Proof. induction l as [|a l IH]; [reflexivity|]. cbn [map filter flat_map]. destruct (p (f a)); cbn [flat_map]; rewrite IH; reflexivity. Qed.
Lemma filter_map_flat_map {A B C} (p : C -> bool) (h : B -> C) (f : A -> list B) l :
  filter p (map h (flat_map f l)) = flat_map (fun a => filter p (map h (f a))) l.
Proof. induction l as [|a l IH]; [reflexivity|]. cbn [flat_map]. rewrite map_app, filter_app, IH. reflexivity. Qed.
Lemma matches_left_cond' s c1 c2 lc x R : reads_only s c2 -> inclb s lc = true -> map fst x = lc ->
  matches (and3f c1 c2) x R = if holdsf c2 x then matches c1 x R else [].
Proof.
  intros Hc Hs Hl. unfold matches. rewrite <- filter_and'.
  rewrite (filter_all_left s c2 lc x (filter (holdsf c1) (map (fun r => x ++ r) R)) Hc Hs Hl); [reflexivity|].
  intros y Hy. apply filter_In in Hy as [Hy _]. apply in_map_iff in Hy as (r & <- & _). eexists; reflexivity.
Qed.
Lemma inner_join_rotate s2 c1 c2 lc mc (L M R : list arow) :
  reads_only s2 c2 -> inclb s2 (lc ++ mc) = true -> wf_rel lc L -> wf_rel mc M ->
  flat_map (fun x => matches c1 x R) (flat_map (fun l => matches c2 l M) L) =
  flat_map (fun l => matches (and3f c1 c2) l (flat_map (fun m => matches (fun _ => DBool true) m R) M)) L.
Proof.
  intros Hc Hs HL HM. rewrite flat_map_flat_map. apply flat_map_ext_in. intros l Hl.
  unfold wf_rel in HL, HM. rewrite Forall_forall in HL, HM. specialize (HL l Hl).
  unfold matches at 2. rewrite flat_map_filter_map.
  unfold matches at 2. rewrite filter_map_flat_map. apply flat_map_ext_in. intros m Hm. specialize (HM m Hm).
  rewrite matches_true, map_map.
  symmetry. transitivity (matches (and3f c1 c2) (l ++ m) R).
  { unfold matches. f_equal. apply map_ext. intros r. apply app_assoc. }
  rewrite (matches_left_cond' s2 c1 c2 (lc ++ mc) (l ++ m) R Hc Hs) by (rewrite map_app, HL, HM; reflexivity).
  reflexivity.
Qed.

(** ** swapping the inputs of an inner join under a projection *)
Lemma lookup_notin c l : ~ In c (map fst l) -> lookup c l = DNull.
Proof.
  induction l as [|[k v] l IH]; intros H; [reflexivity|]. cbn [lookup]. cbn [map fst] in H.
  destruct (Nat.eqb k c) eqn:E; [apply Nat.eqb_eq in E; subst; exfalso; apply H; left; reflexivity|].
  apply IH. intros Hc. apply H. right. exact Hc.
Qed.
Lemma lookup_swap c l r lc rc : map fst l = lc -> map fst r = rc -> disjb lc rc = true -> lookup c (l ++ r) = lookup c (r ++ l).
Proof.
  intros Hl Hr D. rewrite !lookup_app, Hl, Hr. rewrite disjb_spec in D.
  destruct (memb c lc) eqn:E1; destruct (memb c rc) eqn:E2; try reflexivity.
  - exfalso. apply memb_In in E1, E2. exact (D c E1 E2).
  - apply memb_false in E1, E2. rewrite (lookup_notin c l), (lookup_notin c r) by (rewrite ?Hl, ?Hr; assumption). reflexivity.
Qed.
Lemma expr_swap s f l r lc rc : reads_only s f -> map fst l = lc -> map fst r = rc -> disjb lc rc = true -> f (l ++ r) = f (r ++ l).
Proof. intros Hf Hl Hr D. apply Hf. intros c _. apply (lookup_swap c l r lc rc Hl Hr D). Qed.

Lemma flat_map_app_perm {A B} (u v : A -> list B) l :
  Permutation (flat_map (fun a => u a ++ v a) l) (flat_map u l ++ flat_map v l).
Proof.
  induction l as [|a l IH]; [constructor|]. cbn [flat_map].
  rewrite <- !app_assoc. apply Permutation_app_head.
  eapply Permutation_trans; [apply Permutation_app_head, IH|].
  rewrite !app_assoc. apply Permutation_app_tail. apply Permutation_app_comm.
Qed.
Lemma flat_map_swap_perm {A B C} (f : A -> B -> list C) (la : list A) (lb : list B) :
  Permutation (flat_map (fun a => flat_map (f a) lb) la) (flat_map (fun b => flat_map (fun a => f a b) la) lb).
Proof.
  induction la as [|a la IH]; cbn [flat_map].
  - induction lb as [|b lb IHb]; [constructor|exact IHb].
  - eapply Permutation_trans; [apply Permutation_app_head, IH|].
    apply Permutation_sym. apply (flat_map_app_perm (f a) (fun b => flat_map (fun a0 => f a0 b) la)).
Qed.
Lemma map_matches {B} (g : arow -> B) on l R :
  map g (matches on l R) = flat_map (fun r => if holdsf on (l ++ r) then [g (l ++ r)] else []) R.
Proof.
  unfold matches. induction R as [|r R IH]; [reflexivity|]. cbn [map filter flat_map].
  destruct (holdsf on (l ++ r)); cbn [map app]; rewrite IH; reflexivity.
Qed.
Lemma map_flat_map {A B C} (g : B -> C) (f : A -> list B) l : map g (flat_map f l) = flat_map (fun a => map g (f a)) l.
Proof. induction l as [|a l IH]; [reflexivity|]. cbn [flat_map]. rewrite map_app, IH. reflexivity. Qed.

Definition exprs_ok (fs : list (list nat * (arow -> dv))) : Prop := Forall (fun e => reads_only (fst e) (snd e)) fs.
Lemma proj_row_swap fs l r lc rc : exprs_ok fs -> map fst l = lc -> map fst r = rc -> disjb lc rc = true ->
  proj_row fs (l ++ r) = proj_row fs (r ++ l).
Proof.
  intros Hfs Hl Hr D. unfold proj_row. f_equal. apply map_ext_in. intros e He.
  unfold exprs_ok in Hfs. rewrite Forall_forall in Hfs. apply (expr_swap (fst e) (snd e) l r lc rc (Hfs e He) Hl Hr D).
Qed.
Lemma inner_join_swap s on fs lc rc L R : reads_only s on -> exprs_ok fs -> wf_rel lc L -> wf_rel rc R -> disjb lc rc = true ->
  Permutation (map (proj_row fs) (flat_map (fun l => matches on l R) L))
              (map (proj_row fs) (flat_map (fun r => matches on r L) R)).
Proof.
  intros Hon Hfs HL HR D. unfold wf_rel in HL, HR. rewrite Forall_forall in HL, HR.
  rewrite !map_flat_map.
  rewrite (flat_map_ext_in _ (fun l => flat_map (fun r => if holdsf on (l ++ r) then [proj_row fs (l ++ r)] else []) R))
    by (intros l _; apply map_matches).
  rewrite (flat_map_ext_in (fun r => map (proj_row fs) (matches on r L))
                           (fun r => flat_map (fun l => if holdsf on (l ++ r) then [proj_row fs (l ++ r)] else []) L)).
  - apply (flat_map_swap_perm (fun l r => if holdsf on (l ++ r) then [proj_row fs (l ++ r)] else []) L R).
  - intros r Hr. rewrite map_matches. apply flat_map_ext_in. intros l Hl.
    unfold holdsf. rewrite (expr_swap s on r l rc lc Hon (HR r Hr) (HL l Hl) (disjb_sym _ _ D)).
    rewrite (proj_row_swap fs r l rc lc Hfs (HR r Hr) (HL l Hl) (disjb_sym _ _ D)). reflexivity.
Qed.
Lemma exprs_of_ok es fs : wf_sem (MList es) -> exprs_of es = Some fs -> exprs_ok fs.
Proof.
  revert fs. induction es as [|x es IH]; intros fs W H; cbn in H.
  - inversion H. constructor.
  - destruct x; try discriminate. destruct (exprs_of es) as [t|] eqn:E; [|discriminate]. inversion H; subst.
    cbn in W. destruct W as [W1 W2]. constructor; [exact W1|]. apply IH; [exact W2|reflexivity].
Qed.
Lemma inclb_app_comm s a b : inclb s (a ++ b) = inclb s (b ++ a).
Proof.
  destruct (inclb s (a ++ b)) eqn:E1; destruct (inclb s (b ++ a)) eqn:E2; try reflexivity; exfalso.
  - rewrite inclb_spec in E1. assert (inclb s (b ++ a) = true); [|congruence].
    apply inclb_spec. intros c Hc. specialize (E1 c Hc). rewrite in_app_iff in *. tauto.
  - rewrite inclb_spec in E2. assert (inclb s (a ++ b) = true); [|congruence].
    apply inclb_spec. intros c Hc. specialize (E2 c Hc). rewrite in_app_iff in *. tauto.
Qed.
Lemma forallb_inclb_app_comm {E} (g : E -> list nat) fs a b :
  forallb (fun e => inclb (g e) (a ++ b)) fs = forallb (fun e => inclb (g e) (b ++ a)) fs.
Proof. induction fs as [|e fs IH]; [reflexivity|]. cbn [forallb]. rewrite IH, inclb_app_comm. reflexivity. Qed.
