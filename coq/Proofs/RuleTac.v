(** * Generic tactics for the generated rule obligations (C01) *)
From RL Require Export Model.Rule.
From Coq Require Export Lia ZifyBool.
Open Scope Z_scope.
Open Scope string_scope.

Ltac Zify.zify_post_hook ::= Z.div_mod_to_equations.

(** values of the pattern variables become ordinary variables, then case analysis + arithmetic *)
Ltac gen_env env :=
  repeat match goal with
         | |- context [env ?s] => let v := fresh "v" in set (v := env s) in *; clearbody v
         | H : context [env ?s] |- _ => let v := fresh "v" in set (v := env s) in *; clearbody v
         end.
Ltac use_conds :=
  repeat match goal with
         | H : Forall _ [] |- _ => clear H
         | H : Forall _ (_ :: _) |- _ => let a := fresh "C" in let b := fresh "Cs" in inversion H as [|? ? a b]; subst; clear H; cbn [holds] in a
         end.
Ltac solve_val :=
  try reflexivity; try congruence;
  try (f_equal; lia); try (f_equal; f_equal; lia); try (f_equal; ring); try (f_equal; f_equal; ring).
Ltac blocked_cbn := cbn -[Z.add Z.sub Z.mul Z.quot Z.rem Z.eqb Z.ltb Z.gtb Z.leb Z.geb Z.opp Z.b2z].
Ltac rule_sound :=
  match goal with |- sound ?r => unfold r end;
  unfold sound; intros env Hc; cbn [r_lhs r_rhs r_conds] in *; use_conds;
  blocked_cbn;
  gen_env env; clear env;
  repeat match goal with v : val |- _ => destruct v as [|[]|?] end;
  cbn -[Z.add Z.sub Z.mul Z.quot Z.rem Z.eqb Z.ltb Z.gtb Z.leb Z.geb Z.opp] in *;
  intros x y H1 H2; try discriminate; try contradiction;
  repeat match goal with
         | H : context [if Z.eqb ?a ?b then _ else _] |- _ => destruct (Z.eqb_spec a b)
         end;
  try discriminate;
  try (injection H1 as <-); try (injection H2 as <-); try discriminate;
  repeat match goal with
         | H : context [if ?c then _ else _] |- _ => let E := fresh "E" in destruct c eqn:E; try discriminate
         end;
  try (injection H1 as <-); try (injection H2 as <-);
  solve_val.

(** a refutation from a table of values for the variables *)
Definition env_of (l : list (string * val)) : string -> val :=
  fun s => match find (fun p => String.eqb (fst p) s) l with Some p => snd p | None => VNull end.
Ltac rule_refuted l :=
  match goal with |- refuted ?r => unfold r end; unfold refuted; cbn [r_lhs r_rhs r_conds];
  exists (env_of l); split; [repeat constructor; cbn; try congruence; try reflexivity; try discriminate|];
  eexists; eexists; split; [vm_compute; reflexivity|split; [vm_compute; reflexivity|discriminate]].

