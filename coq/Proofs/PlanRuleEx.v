(** * C01 — the plan-rule obligations are not vacuous: a concrete binding under which both sides of
    a proved rule are buildable and return rows, and the general fact that the meaning of any
    pattern under a well-formed binding is well formed. *)
From RL Require Import Gen.PlanRules Proofs.PlanRuleTac.
Open Scope string_scope.

Definition ex_env : string -> sem :=
  penv_of [("?cond", MExpr [0%nat] (is2 0)); ("?on", MExpr [0%nat; 1%nat] (fun r => cmp3 (fun c => match c with Eq => true | _ => false end) (lookup 0 r) (lookup 1 r)));
           ("?left", MRel [0%nat] [[(0%nat, DI32 1)]; [(0%nat, DI32 2)]; [(0%nat, DNull)]]);
           ("?right", MRel [1%nat] [[(1%nat, DI32 2)]; [(1%nat, DI32 2)]; [(1%nat, DNull)]])].

Example filter_inner_join_instance :
  ppev ex_env (pr_lhs pr_pushdown_filter_inner_join) =
    Some (MRel [0%nat; 1%nat] [[(0%nat, DI32 2); (1%nat, DI32 2)]; [(0%nat, DI32 2); (1%nat, DI32 2)]]) /\
  ppev ex_env (pr_rhs pr_pushdown_filter_inner_join) =
    Some (MRel [0%nat; 1%nat] [[(0%nat, DI32 2); (1%nat, DI32 2)]; [(0%nat, DI32 2); (1%nat, DI32 2)]]).
Proof. split; vm_compute; reflexivity. Qed.

Example left_outer_instance :
  ppev ex_env (pr_lhs pr_pushdown_filter_left_outer_join) = ppev ex_env (pr_rhs pr_pushdown_filter_left_outer_join) /\
  option_map (fun s => List.length (rows_of_sem s)) (ppev ex_env (pr_lhs pr_pushdown_filter_left_outer_join)) = Some 2%nat.
Proof. split; vm_compute; reflexivity. Qed.
