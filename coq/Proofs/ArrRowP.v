(** * C14 — the vectorised evaluator works row by row.
    Evaluating an expression over a batch and then looking at row [i] is the same as evaluating it
    over the one-row batch made of row [i] alone (which is how the planner folds constants:
    one-element arrays through the same kernels).  Hence the value of a row does not depend on the
    batch length nor on the neighbouring rows. *)
From RL Require Import Model.Arr Model.Expr Proofs.ArrP.
From Coq Require Import Lia.
Open Scope Z_scope.

Definition row {A} (i : nat) (l : list A) : list A :=
  match nth_error l i with Some s => [s] | None => [] end.
Definition row_of (i : nat) (a : arr) : arr := mk_arr (aty a) (row i (asl a)).

Lemma row_nil {A} i : @row A i [] = [].
Proof. unfold row. destruct i; reflexivity. Qed.
Lemma row_0 {A} (x : A) l : row 0 (x :: l) = [x].
Proof. reflexivity. Qed.
Lemma row_S {A} (x : A) l i : row (S i) (x :: l) = row i l.
Proof. reflexivity. Qed.

Lemma row_map {A B} (f : A -> B) l i : row i (map f l) = map f (row i l).
Proof. unfold row. rewrite nth_error_map. destruct (nth_error l i); reflexivity. Qed.

Lemma row_map2_opt {A B C} (f : A -> B -> option C) : forall l m r i,
  map2_opt f l m = Some r -> map2_opt f (row i l) (row i m) = Some (row i r).
Proof.
  induction l as [|x l IH]; intros m r i H.
  - cbn in H. inversion H; subst. rewrite !row_nil. reflexivity.
  - destruct m as [|y m].
    + cbn in H. inversion H; subst. rewrite !row_nil. unfold row at 1. destruct (nth_error (x :: l) i); reflexivity.
    + cbn [map2_opt] in H. destruct (f x y) as [z|] eqn:Ef; [|discriminate].
      destruct (map2_opt f l m) as [r0|] eqn:Er; [|discriminate]. inversion H; subst.
      destruct i as [|i].
      * rewrite !row_0. cbn [map2_opt]. rewrite Ef. reflexivity.
      * rewrite !row_S. apply IH. exact Er.
Qed.

Lemma row_map_opt {A C} (f : A -> option C) : forall l r i,
  map_opt f l = Some r -> map_opt f (row i l) = Some (row i r).
Proof.
  induction l as [|x l IH]; intros r i H.
  - cbn in H. inversion H; subst. rewrite !row_nil. reflexivity.
  - cbn [map_opt] in H. destruct (f x) as [z|] eqn:Ef; [|discriminate].
    destruct (map_opt f l) as [r0|] eqn:Er; [|discriminate]. inversion H; subst.
    destruct i as [|i].
    + rewrite !row_0. cbn [map_opt]. rewrite Ef. reflexivity.
    + rewrite !row_S. apply IH. reflexivity.
Qed.

Lemma row_map2 {A B C} (f : A -> B -> C) : forall l m i, map2 f (row i l) (row i m) = row i (map2 f l m).
Proof.
  induction l as [|x l IH]; intros m i.
  - rewrite row_nil. cbn. rewrite row_nil. reflexivity.
  - destruct m as [|y m].
    + rewrite row_nil. cbn [map2]. rewrite row_nil. unfold row. destruct (nth_error (x :: l) i); reflexivity.
    + destruct i as [|i]; [reflexivity|]. cbn [map2]. rewrite !row_S. apply IH.
Qed.

Lemma row_map3 {A B C D} (f : A -> B -> C -> D) : forall l m n i,
  map3 f (row i l) (row i m) (row i n) = row i (map3 f l m n).
Proof.
  induction l as [|x l IH]; intros m n i.
  - rewrite row_nil. cbn. rewrite row_nil. reflexivity.
  - destruct m as [|y m].
    + rewrite row_nil. cbn [map3]. rewrite row_nil. unfold row at 1. destruct (nth_error (x :: l) i); reflexivity.
    + destruct n as [|z n].
      * rewrite row_nil. cbn [map3]. rewrite row_nil. unfold row at 1 2.
        destruct (nth_error (x :: l) i); destruct (nth_error (y :: m) i); reflexivity.
      * destruct i as [|i]; [reflexivity|]. cbn [map3]. rewrite !row_S. apply IH.
Qed.

Lemma row_forallb {A} (p : A -> bool) l i : forallb p l = true -> forallb p (row i l) = true.
Proof.
  intros H. unfold row. destruct (nth_error l i) eqn:E; [|reflexivity].
  cbn. rewrite andb_true_r. rewrite forallb_forall in H. apply H. eapply nth_error_In. exact E.
Qed.

Lemma row_repeat {A} (x : A) n i : (i < n)%nat -> row i (repeat x n) = [x].
Proof.
  revert i. induction n as [|n IH]; intros i Hi; [lia|].
  destruct i as [|i]; [reflexivity|]. cbn [repeat]. rewrite row_S. apply IH. lia.
Qed.

(** ** every kernel commutes with taking a row *)
Definition krow1 (k : arr -> res arr) : Prop := forall a r i, k a = Ok r -> k (row_of i a) = Ok (row_of i r).
Definition krow2 (k : arr -> arr -> res arr) : Prop :=
  forall a b r i, k a b = Ok r -> k (row_of i a) (row_of i b) = Ok (row_of i r).

Lemma lift_row t o r i l' : lift t o = Ok r -> (forall l, o = Some l -> l' = Some (row i l)) -> lift t l' = Ok (row_of i r).
Proof.
  intros H Hl. apply lift_ok in H as (l & Ho & Hr). subst r. rewrite (Hl l Ho). reflexivity.
Qed.

Lemma k_arith_row op : krow2 (k_arith op).
Proof.
  intros a b r i H. unfold k_arith in *. cbn [aty asl row_of].
  destruct (promote (aty a) (aty b)) as [t|]; [|discriminate].
  eapply lift_row; [exact H|]. intros l Hl.
  destruct op; try (apply row_map2_opt; exact Hl); rewrite <- row_map; apply row_map2_opt; exact Hl.
Qed.

Lemma k_cmp_row op : krow2 (k_cmp op).
Proof.
  intros a b r i H. unfold k_cmp in *. cbn [aty asl row_of].
  destruct (match aty a, aty b with TBool, TBool => Some TBool | TStr, TStr => Some TStr | x, y => promote x y end) as [t|]; [|discriminate].
  destruct (map2_opt _ (asl a) (asl b)) as [l|] eqn:El; [|discriminate].
  inversion H; subst. rewrite (row_map2_opt _ _ _ _ i El). unfold row_of. cbn [aty asl]. rewrite row_map. reflexivity.
Qed.

Lemma k_and_row : krow2 k_and.
Proof.
  intros a b r i H. unfold k_and in *. cbn [aty asl row_of].
  destruct (aty a); try discriminate; destruct (aty b); try discriminate.
  inversion H; subst. unfold row_of. cbn [aty asl]. rewrite row_map2. reflexivity.
Qed.
Lemma k_or_row : krow2 k_or.
Proof.
  intros a b r i H. unfold k_or in *. cbn [aty asl row_of].
  destruct (aty a); try discriminate; destruct (aty b); try discriminate.
  inversion H; subst. unfold row_of. cbn [aty asl]. rewrite row_map2. reflexivity.
Qed.
Lemma k_not_row : krow1 k_not.
Proof.
  intros a r i H. unfold k_not in *. cbn [aty asl row_of].
  destruct (aty a); try discriminate. inversion H; subst. unfold row_of. cbn [aty asl]. rewrite row_map. reflexivity.
Qed.
Lemma k_neg_row : krow1 k_neg.
Proof.
  intros a r i H. unfold k_neg in *. cbn [aty asl row_of].
  destruct (match aty a with TI16 => None | t => int_bits t end) as [bits|]; [|discriminate].
  eapply lift_row; [exact H|]. intros l Hl. apply row_map_opt. exact Hl.
Qed.
Lemma k_isnull_row : krow1 k_isnull.
Proof.
  intros a r i H. unfold k_isnull in *. inversion H; subst. unfold row_of. cbn [aty asl]. rewrite row_map. reflexivity.
Qed.
Lemma k_concat_row : krow2 k_concat.
Proof.
  intros a b r i H. unfold k_concat in *. cbn [aty asl row_of].
  destruct (aty a); try discriminate; destruct (aty b); try discriminate.
  eapply lift_row; [exact H|]. intros l Hl. apply row_map2_opt. exact Hl.
Qed.
Lemma k_select_row c a b r i : k_select c a b = Ok r -> k_select (row_of i c) (row_of i a) (row_of i b) = Ok (row_of i r).
Proof.
  intros H. unfold k_select in *. cbn [aty asl row_of].
  destruct (aty c); try discriminate.
  destruct (ty_eqb (aty a) (aty b) && match int_bits (aty a) with Some _ => true | None => false end); [|discriminate].
  inversion H; subst. unfold row_of. cbn [aty asl]. rewrite row_map3. reflexivity.
Qed.
Lemma k_cast_row t : krow1 (k_cast t).
Proof.
  intros a r i H. unfold k_cast in *. cbn [aty asl row_of].
  destruct (aty a) eqn:Ea; destruct t; try discriminate; cbn [int_bits] in *;
    try (inversion H; subst; unfold row_of; cbn [aty asl]; rewrite ?row_map, ?Ea; reflexivity);
    match type of H with
    | (if ?c then _ else _) = _ =>
        destruct c; [inversion H; subst; unfold row_of; cbn [aty asl]; reflexivity|];
        match type of H with
        | (if forallb ?p ?l then _ else _) = _ =>
            destruct (forallb p l) eqn:Ef; [|discriminate];
            rewrite (row_forallb p l i Ef); inversion H; subst; unfold row_of; cbn [aty asl]; rewrite row_map; reflexivity
        end
    end.
Qed.

Lemma nth_error_row_cols cols i j :
  nth_error (map (row_of i) cols) j = option_map (row_of i) (nth_error cols j).
Proof. apply nth_error_map. Qed.

(** ** the evaluator *)
Theorem veval_row : forall e n cols r i, (i < n)%nat ->
  veval e n cols = Ok r -> veval e 1 (map (row_of i) cols) = Ok (row_of i r).
Proof.
  induction e as [j|t v|op a b IHa IHb|op a b IHa IHb|a b IHa IHb|a b IHa IHb|a IHa|a IHa|a IHa
                 |c a b IHc IHa IHb|a f rest IHa IHf X|t a IHa|a b IHa IHb] using expr_ind';
    intros n cols r i Hi H; cbn [veval] in H |- *.
  - rewrite nth_error_row_cols. destruct (nth_error cols j); [|discriminate]. inversion H; subst. reflexivity.
  - inversion H; subst. unfold const_arr, row_of. cbn [aty asl]. rewrite row_repeat by exact Hi. reflexivity.
  - apply bind_ok in H as (x & Hx & H). apply bind_ok in H as (y & Hy & H).
    rewrite (IHa _ _ _ _ Hi Hx), (IHb _ _ _ _ Hi Hy). cbn [bind]. apply k_arith_row. exact H.
  - apply bind_ok in H as (x & Hx & H). apply bind_ok in H as (y & Hy & H).
    rewrite (IHa _ _ _ _ Hi Hx), (IHb _ _ _ _ Hi Hy). cbn [bind]. apply k_cmp_row. exact H.
  - apply bind_ok in H as (x & Hx & H). apply bind_ok in H as (y & Hy & H).
    rewrite (IHa _ _ _ _ Hi Hx), (IHb _ _ _ _ Hi Hy). cbn [bind]. apply k_and_row. exact H.
  - apply bind_ok in H as (x & Hx & H). apply bind_ok in H as (y & Hy & H).
    rewrite (IHa _ _ _ _ Hi Hx), (IHb _ _ _ _ Hi Hy). cbn [bind]. apply k_or_row. exact H.
  - apply bind_ok in H as (x & Hx & H). rewrite (IHa _ _ _ _ Hi Hx). cbn [bind]. apply k_not_row. exact H.
  - apply bind_ok in H as (x & Hx & H). rewrite (IHa _ _ _ _ Hi Hx). cbn [bind]. apply k_neg_row. exact H.
  - apply bind_ok in H as (x & Hx & H). rewrite (IHa _ _ _ _ Hi Hx). cbn [bind]. apply k_isnull_row. exact H.
  - apply bind_ok in H as (z & Hz & H). apply bind_ok in H as (x & Hx & H). apply bind_ok in H as (y & Hy & H).
    rewrite (IHc _ _ _ _ Hi Hz), (IHa _ _ _ _ Hi Hx), (IHb _ _ _ _ Hi Hy). cbn [bind]. apply k_select_row. exact H.
  - apply bind_ok in H as (x & Hx & H). apply bind_ok in H as (v0 & Hv0 & H). apply bind_ok in H as (acc & Hacc & H).
    rewrite (IHa _ _ _ _ Hi Hx), (IHf _ _ _ _ Hi Hv0). cbn [bind]. rewrite (k_cmp_row _ _ _ _ i Hacc). cbn [bind].
    clear Hacc Hv0. revert acc H.
    induction rest as [|v rest IHrest]; intros acc H.
    + inversion H; subst. reflexivity.
    + apply bind_ok in H as (y & Hy & H). apply bind_ok in H as (e1 & He1 & H). apply bind_ok in H as (acc2 & Ha2 & H).
      inversion X as [|? ? Hv Hrest]; subst.
      rewrite (Hv _ _ _ _ Hi Hy). cbn [bind]. rewrite (k_cmp_row _ _ _ _ i He1). cbn [bind].
      rewrite (k_or_row _ _ _ i Ha2). cbn [bind]. apply (IHrest Hrest). exact H.
  - apply bind_ok in H as (x & Hx & H). rewrite (IHa _ _ _ _ Hi Hx). cbn [bind]. apply k_cast_row. exact H.
  - apply bind_ok in H as (x & Hx & H). apply bind_ok in H as (y & Hy & H).
    rewrite (IHa _ _ _ _ Hi Hx), (IHb _ _ _ _ Hi Hy). cbn [bind]. apply k_concat_row. exact H.
Qed.

(** the value of a row depends on that row alone: neither on the batch length nor on its neighbours *)
Corollary veval_row_alone : forall e n n' cols cols' r r' i i', (i < n)%nat -> (i' < n')%nat ->
  map (row_of i) cols = map (row_of i') cols' ->
  veval e n cols = Ok r -> veval e n' cols' = Ok r' -> row_of i r = row_of i' r'.
Proof.
  intros e n n' cols cols' r r' i i' Hi Hi' E H H'.
  apply (veval_row _ _ _ _ i Hi) in H. apply (veval_row _ _ _ _ i' Hi') in H'.
  rewrite E in H. rewrite H in H'. congruence.
Qed.

(** ** the result has the batch's length, so that "row i of the result" exists for every i < n *)
Lemma map2_opt_length {A B C} (f : A -> B -> option C) : forall l m r,
  map2_opt f l m = Some r -> length l = length m -> length r = length l.
Proof.
  induction l as [|x l IH]; intros m r H E.
  - cbn in H. inversion H. reflexivity.
  - destruct m as [|y m]; [discriminate|]. cbn [map2_opt] in H.
    destruct (f x y); [|discriminate]. destruct (map2_opt f l m) eqn:Er; [|discriminate].
    inversion H; subst. cbn. f_equal. eapply IH; [exact Er|]. cbn in E. lia.
Qed.
Lemma map_opt_length {A C} (f : A -> option C) : forall l r, map_opt f l = Some r -> length r = length l.
Proof.
  induction l as [|x l IH]; intros r H.
  - cbn in H. inversion H. reflexivity.
  - cbn [map_opt] in H. destruct (f x); [|discriminate]. destruct (map_opt f l) eqn:Er; [|discriminate].
    inversion H; subst. cbn. f_equal. apply IH. reflexivity.
Qed.
Lemma map2_length {A B C} (f : A -> B -> C) : forall l m, length l = length m -> length (map2 f l m) = length l.
Proof.
  induction l as [|x l IH]; intros m E; [reflexivity|]. destruct m as [|y m]; [discriminate|].
  cbn. f_equal. apply IH. cbn in E. lia.
Qed.
Lemma map3_length {A B C D} (f : A -> B -> C -> D) : forall l m n,
  length l = length m -> length l = length n -> length (map3 f l m n) = length l.
Proof.
  induction l as [|x l IH]; intros m n E E'; [reflexivity|]. destruct m as [|y m]; [discriminate|].
  destruct n as [|z n]; [discriminate|]. cbn. f_equal. apply IH; cbn in E, E'; lia.
Qed.

Definition alen (a : arr) : nat := length (asl a).

Lemma k_arith_len op a b r : k_arith op a b = Ok r -> alen a = alen b -> alen r = alen a.
Proof.
  unfold k_arith, alen. intros H E. destruct (promote (aty a) (aty b)); [|discriminate].
  apply lift_ok in H as (l & Hl & Hr). subst r. cbn [asl].
  destruct op; try (eapply map2_opt_length; [exact Hl|exact E]);
    (erewrite map2_opt_length; [reflexivity|exact Hl|rewrite map_length; exact E]).
Qed.
Lemma k_cmp_len op a b r : k_cmp op a b = Ok r -> alen a = alen b -> alen r = alen a.
Proof.
  unfold k_cmp, alen. intros H E.
  destruct (match aty a, aty b with TBool, TBool => Some TBool | TStr, TStr => Some TStr | x, y => promote x y end); [|discriminate].
  destruct (map2_opt _ (asl a) (asl b)) as [l|] eqn:El; [|discriminate]. inversion H; subst. cbn [asl].
  rewrite map_length. eapply map2_opt_length; [exact El|exact E].
Qed.
Lemma k_and_len a b r : k_and a b = Ok r -> alen a = alen b -> alen r = alen a.
Proof.
  unfold k_and, alen. intros H E. destruct (aty a); try discriminate; destruct (aty b); try discriminate.
  inversion H; subst. cbn [asl]. apply map2_length. exact E.
Qed.
Lemma k_or_len a b r : k_or a b = Ok r -> alen a = alen b -> alen r = alen a.
Proof.
  unfold k_or, alen. intros H E. destruct (aty a); try discriminate; destruct (aty b); try discriminate.
  inversion H; subst. cbn [asl]. apply map2_length. exact E.
Qed.
Lemma k_not_len a r : k_not a = Ok r -> alen r = alen a.
Proof. unfold k_not, alen. intros H. destruct (aty a); try discriminate. inversion H; subst. cbn [asl]. apply map_length. Qed.
Lemma k_neg_len a r : k_neg a = Ok r -> alen r = alen a.
Proof.
  unfold k_neg, alen. intros H. destruct (match aty a with TI16 => None | t => int_bits t end); [|discriminate].
  apply lift_ok in H as (l & Hl & Hr). subst r. cbn [asl]. eapply map_opt_length. exact Hl.
Qed.
Lemma k_isnull_len a r : k_isnull a = Ok r -> alen r = alen a.
Proof. unfold k_isnull, alen. intros H. inversion H; subst. cbn [asl]. apply map_length. Qed.
Lemma k_concat_len a b r : k_concat a b = Ok r -> alen a = alen b -> alen r = alen a.
Proof.
  unfold k_concat, alen. intros H E. destruct (aty a); try discriminate; destruct (aty b); try discriminate.
  apply lift_ok in H as (l & Hl & Hr). subst r. cbn [asl]. eapply map2_opt_length; [exact Hl|exact E].
Qed.
Lemma k_select_len c a b r : k_select c a b = Ok r -> alen c = alen a -> alen c = alen b -> alen r = alen c.
Proof.
  unfold k_select, alen. intros H E E'. destruct (aty c); try discriminate.
  destruct (ty_eqb (aty a) (aty b) && match int_bits (aty a) with Some _ => true | None => false end); [|discriminate].
  inversion H; subst. cbn [asl]. apply map3_length; assumption.
Qed.
Lemma k_cast_len t a r : k_cast t a = Ok r -> alen r = alen a.
Proof.
  unfold k_cast, alen. intros H.
  destruct (aty a); destruct t; try discriminate; cbn [int_bits] in H;
    try (inversion H; subst; cbn [asl]; rewrite ?map_length; reflexivity);
    match type of H with
    | (if ?c then _ else _) = _ =>
        destruct c; [inversion H; subst; reflexivity|];
        match type of H with
        | (if ?d then _ else _) = _ => destruct d; [|discriminate]; inversion H; subst; cbn [asl]; apply map_length
        end
    end.
Qed.

Theorem veval_length : forall e n cols r, Forall (fun a => alen a = n) cols -> veval e n cols = Ok r -> alen r = n.
Proof.
  induction e as [j|t v|op a b IHa IHb|op a b IHa IHb|a b IHa IHb|a b IHa IHb|a IHa|a IHa|a IHa
                 |c a b IHc IHa IHb|a f rest IHa IHf X|t a IHa|a b IHa IHb] using expr_ind';
    intros n cols r Hc H; cbn [veval] in H.
  - destruct (nth_error cols j) eqn:E; [|discriminate]. inversion H; subst.
    rewrite Forall_forall in Hc. apply Hc. eapply nth_error_In. exact E.
  - inversion H; subst. unfold alen, const_arr. cbn [asl]. apply repeat_length.
  - apply bind_ok in H as (x & Hx & H). apply bind_ok in H as (y & Hy & H).
    pose proof (IHa _ _ _ Hc Hx). pose proof (IHb _ _ _ Hc Hy). rewrite (k_arith_len _ _ _ _ H); congruence.
  - apply bind_ok in H as (x & Hx & H). apply bind_ok in H as (y & Hy & H).
    pose proof (IHa _ _ _ Hc Hx). pose proof (IHb _ _ _ Hc Hy). rewrite (k_cmp_len _ _ _ _ H); congruence.
  - apply bind_ok in H as (x & Hx & H). apply bind_ok in H as (y & Hy & H).
    pose proof (IHa _ _ _ Hc Hx). pose proof (IHb _ _ _ Hc Hy). rewrite (k_and_len _ _ _ H); congruence.
  - apply bind_ok in H as (x & Hx & H). apply bind_ok in H as (y & Hy & H).
    pose proof (IHa _ _ _ Hc Hx). pose proof (IHb _ _ _ Hc Hy). rewrite (k_or_len _ _ _ H); congruence.
  - apply bind_ok in H as (x & Hx & H). pose proof (IHa _ _ _ Hc Hx). rewrite (k_not_len _ _ H); congruence.
  - apply bind_ok in H as (x & Hx & H). pose proof (IHa _ _ _ Hc Hx). rewrite (k_neg_len _ _ H); congruence.
  - apply bind_ok in H as (x & Hx & H). pose proof (IHa _ _ _ Hc Hx). rewrite (k_isnull_len _ _ H); congruence.
  - apply bind_ok in H as (z & Hz & H). apply bind_ok in H as (x & Hx & H). apply bind_ok in H as (y & Hy & H).
    pose proof (IHc _ _ _ Hc Hz). pose proof (IHa _ _ _ Hc Hx). pose proof (IHb _ _ _ Hc Hy).
    rewrite (k_select_len _ _ _ _ H); congruence.
  - apply bind_ok in H as (x & Hx & H). apply bind_ok in H as (v0 & Hv0 & H). apply bind_ok in H as (acc & Hacc & H).
    pose proof (IHa _ _ _ Hc Hx) as Lx. pose proof (IHf _ _ _ Hc Hv0) as Lv.
    assert (Lacc : alen acc = n) by (rewrite (k_cmp_len _ _ _ _ Hacc); congruence).
    clear Hacc Hv0 Lv. revert acc Lacc H.
    induction rest as [|v rest IHrest]; intros acc Lacc H.
    + inversion H; subst. exact Lacc.
    + apply bind_ok in H as (y & Hy & H). apply bind_ok in H as (e1 & He1 & H). apply bind_ok in H as (acc2 & Ha2 & H).
      inversion X as [|? ? Hv Hrest]; subst.
      pose proof (Hv _ _ _ Hc Hy) as Ly.
      assert (Le : alen e1 = alen x) by (apply (k_cmp_len _ _ _ _ He1); congruence).
      apply (IHrest Hrest acc2); [|exact H]. rewrite (k_or_len _ _ _ Ha2); congruence.
  - apply bind_ok in H as (x & Hx & H). pose proof (IHa _ _ _ Hc Hx). rewrite (k_cast_len _ _ _ H); congruence.
  - apply bind_ok in H as (x & Hx & H). apply bind_ok in H as (y & Hy & H).
    pose proof (IHa _ _ _ Hc Hx). pose proof (IHb _ _ _ Hc Hy). rewrite (k_concat_len _ _ _ H); congruence.
Qed.

(** non-vacuity: a two-row batch with a NULL whose raw value would overflow if it were looked at alone *)
Example row_example :
  let cols := [mk_arr TI32 [mk_slot true (RI 5); mk_slot false (RI 7)]; mk_arr TI32 [mk_slot true (RI 2); mk_slot true (RI 0)]] in
  exists r, veval (EArith ADiv (ECol 0) (ECol 1)) 2 cols = Ok r /\
            veval (EArith ADiv (ECol 0) (ECol 1)) 1 (map (row_of 1) cols) = Ok (row_of 1 r) /\ logical r = [Some (RI 2); None].
Proof. cbv zeta. eexists. split; [vm_compute; reflexivity|split; vm_compute; reflexivity]. Qed.
