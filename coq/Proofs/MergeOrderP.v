(** * C12: which order a merge join passes on (the claim of the planner's order analysis, analyze_order).
    The inner merge join over a left input sorted on its keys returns its rows sorted on the RIGHT keys
    (every returned pair has equal keys, and the pairs come left-major); the left outer merge join does not:
    its unmatched left rows carry NULLs in the right columns, in between. *)
From RL Require Import Model.Exec Proofs.ValP Proofs.ExecP Proofs.MergeJoinP Proofs.MergeLeftP.
From Coq Require Import Sorted Lia.
Open Scope Z_scope.

Definition equi_pairs (lk rk : list sx) (Ls Rs : list row) : list (row * row) :=
  flat_map (fun l => map (fun r => (l, r)) (filter (key_match lk rk l) Rs)) Ls.
Lemma equi_rows_pairs lk rk Ls Rs : equi_rows lk rk Ls Rs = map (fun p => fst p ++ snd p) (equi_pairs lk rk Ls Rs).
Proof.
  unfold equi_rows, equi_pairs. induction Ls as [|l Ls IH]; [reflexivity|].
  cbn [flat_map]. rewrite map_app, IH, map_map. reflexivity.
Qed.
Definition rkey_le (rk : list sx) (p q : row * row) : Prop := row_cmp (keys_of rk (snd p)) (keys_of rk (snd q)) <> Gt.

Lemma sorted_app {A} (R : A -> A -> Prop) a b :
  StronglySorted R a -> StronglySorted R b -> (forall x y, In x a -> In y b -> R x y) -> StronglySorted R (a ++ b).
Proof.
  intros Ha Hb Hab. induction a as [|x a IH]; [exact Hb|].
  inversion Ha as [|? ? Hs Hf]; subst. cbn [app]. constructor.
  - apply IH; [exact Hs|]. intros u v Hu Hv. apply Hab; [right; exact Hu|exact Hv].
  - rewrite Forall_forall in *. intros y Hy. apply in_app_or in Hy as [Hy|Hy]; [apply Hf, Hy|apply Hab; [left; reflexivity|exact Hy]].
Qed.
Lemma sorted_all_related {A} (R : A -> A -> Prop) l : (forall x y, In x l -> In y l -> R x y) -> StronglySorted R l.
Proof.
  induction l as [|x l IH]; intros H; constructor.
  - apply IH. intros u v Hu Hv. apply H; right; assumption.
  - rewrite Forall_forall. intros y Hy. apply H; [left; reflexivity|right; exact Hy].
Qed.
Lemma pair_key lk rk l r Rs : In (l, r) (map (fun r => (l, r)) (filter (key_match lk rk l) Rs)) -> keys_of rk r = keys_of lk l.
Proof.
  intros H. apply in_map_iff in H as (r' & E & Hr). inversion E; subst r'. apply filter_In in Hr as [_ Hm].
  unfold key_match in Hm. apply andb_prop in Hm as [Hm _]. apply row_eqb_eq in Hm. symmetry. exact Hm.
Qed.
Lemma pairs_left lk rk Ls Rs p : In p (equi_pairs lk rk Ls Rs) -> In (fst p) Ls /\ keys_of rk (snd p) = keys_of lk (fst p).
Proof.
  unfold equi_pairs. intros H. apply in_flat_map in H as (l & Hl & Hp).
  pose proof Hp as Hp'. apply in_map_iff in Hp' as (r & <- & _). cbn [fst snd]. split; [exact Hl|]. eapply pair_key. exact Hp.
Qed.

Theorem inner_pairs_sorted_on_right_keys lk rk Ls Rs :
  sorted_on lk Ls -> StronglySorted (rkey_le rk) (equi_pairs lk rk Ls Rs).
Proof.
  intros HL. induction Ls as [|l Ls IH]; [constructor|].
  inversion HL as [|? ? Hs Hf]; subst.
  change (equi_pairs lk rk (l :: Ls) Rs) with (map (fun r => (l, r)) (filter (key_match lk rk l) Rs) ++ equi_pairs lk rk Ls Rs).
  apply sorted_app; [|apply IH, Hs|].
  - apply sorted_all_related. intros [l1 r1] [l2 r2] H1 H2. unfold rkey_le. cbn [snd].
    pose proof H1 as H1'. apply in_map_iff in H1' as (? & E1 & _). inversion E1; subst.
    pose proof H2 as H2'. apply in_map_iff in H2' as (? & E2 & _). inversion E2; subst.
    rewrite (pair_key _ _ _ _ _ H1), (pair_key _ _ _ _ _ H2), row_cmp_refl. discriminate.
  - intros [l1 r1] q H1 H2. unfold rkey_le. cbn [snd].
    pose proof H1 as H1'. apply in_map_iff in H1' as (? & E1 & _). inversion E1; subst.
    rewrite (pair_key _ _ _ _ _ H1).
    destruct (pairs_left _ _ _ _ _ H2) as [Hin Hk]. rewrite Hk.
    rewrite Forall_forall in Hf. apply Hf, Hin.
Qed.

(** the same on the rows the executor returns, for column keys: the right key columns of a joined row l ++ r *)
Definition rcols_keys (nl : nat) (cols : list nat) : list sx := map (fun c => SCol (nl + c)) cols.
Lemma keys_of_right nl cols l r : length l = nl -> keys_of (rcols_keys nl cols) (l ++ r) = keys_of (map SCol cols) r.
Proof.
  intros Hl. unfold keys_of, rcols_keys. rewrite !map_map. apply map_ext. intros c. cbn [sx_eval].
  rewrite app_nth2 by lia. f_equal. lia.
Qed.
Lemma sorted_pairs_rows nl cols (ps : list (row * row)) :
  (forall p, In p ps -> length (fst p) = nl) -> StronglySorted (rkey_le (map SCol cols)) ps ->
  sorted_on (rcols_keys nl cols) (map (fun p => fst p ++ snd p) ps).
Proof.
  unfold sorted_on. induction ps as [|p ps IH]; intros Hin S; [constructor|].
  inversion S as [|? ? Hs Hf]; subst. cbn [map]. constructor.
  - apply IH; [|exact Hs]. intros q Hq. apply Hin. right. exact Hq.
  - rewrite Forall_forall in *. intros y Hy. apply in_map_iff in Hy as (q & <- & Hq). cbv beta.
    pose proof (keys_of_right nl cols (fst p) (snd p) (Hin p (or_introl eq_refl))) as E1.
    pose proof (keys_of_right nl cols (fst q) (snd q) (Hin q (or_intror Hq))) as E2.
    pose proof (Hf q Hq) as Hle. unfold rkey_le in Hle.
    refine (eq_ind_r (fun a => row_cmp a _ <> Gt) _ E1). refine (eq_ind_r (fun b => row_cmp _ b <> Gt) _ E2). exact Hle.
Qed.
Theorem mergejoin_inner_sorted_on_right_keys lk cols nl nr L R :
  (forall l, In l (concat L) -> length l = nl) ->
  sorted_on lk (concat L) -> sorted_on (map SCol cols) (concat R) ->
  sorted_on (rcols_keys nl cols) (x_mergejoin JInner lk (map SCol cols) nl nr L R).
Proof.
  intros Hlen HL HR. rewrite (mergejoin_inner_rows lk (map SCol cols) nl nr L R HL HR), equi_rows_pairs.
  apply sorted_pairs_rows.
  - intros p Hp. apply Hlen. apply (pairs_left _ _ _ _ _ Hp).
  - apply inner_pairs_sorted_on_right_keys. exact HL.
Qed.

(** the LEFT OUTER merge join is not: 1, NULL, 3 in the right key column *)
Theorem mergejoin_left_not_sorted_on_right_keys :
  let L := [[ [DI32 1]; [DI32 2]; [DI32 3] ]] in let R := [[ [DI32 1]; [DI32 3] ]] in
  sorted_on [SCol 0] (concat L) /\ sorted_on [SCol 0] (concat R) /\
  x_mergejoin JLeft [SCol 0] [SCol 0] 1 1 L R = [[DI32 1; DI32 1]; [DI32 2; DNull]; [DI32 3; DI32 3]] /\
  ~ sorted_on (rcols_keys 1 [0%nat]) (x_mergejoin JLeft [SCol 0] [SCol 0] 1 1 L R).
Proof.
  cbv zeta. split; [|split; [|split]].
  - repeat constructor; cbn; discriminate.
  - repeat constructor; cbn; discriminate.
  - reflexivity.
  - intros S. change (x_mergejoin JLeft [SCol 0] [SCol 0] 1 1 [[[DI32 1]; [DI32 2]; [DI32 3]]] [[[DI32 1]; [DI32 3]]])
      with [[DI32 1; DI32 1]; [DI32 2; DNull]; [DI32 3; DI32 3]] in S.
    inversion S as [|? ? _ Hf]; subst. inversion Hf as [|? ? H1 _]; subst. apply H1. reflexivity.
Qed.
