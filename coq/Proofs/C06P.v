(** * C06: the engine's column encodings round-trip, and the column iterator reads them exactly. *)
From RL Require Import Model.Codec Model.ColIter Proofs.BytesP Proofs.CodecP Proofs.ColIterP.
From Coq Require Import Lia ZifyBool.
Open Scope Z_scope.

(** ** the fixed-width value codecs the engine instantiates (encode.rs) *)
Definition fw_list : list fw :=
  [fw_int_le 2; fw_int_le 4; fw_int_le 8; fw_bool; fw_int_be 4; fw_int_be 8; fw_interval;
   fw_bits_le 16; fw_f64].
(** all of them except DOUBLE and DECIMAL compare values exactly (1.0 = 1.00 as decimals, -0.0 = +0.0) *)
Definition fw_exact_list : list fw :=
  [fw_int_le 2; fw_int_le 4; fw_int_le 8; fw_bool; fw_int_be 4; fw_int_be 8; fw_interval].

Lemma fw_list_laws c : In c fw_list -> fw_laws c.
Proof.
  cbn [fw_list In]. intros H.
  repeat (destruct H as [<-|H]; [first [apply fw_int_le_laws; lia | apply fw_int_be_laws; lia | apply fw_bool_laws
                                       | apply fw_interval_laws | apply fw_bits_le_laws | apply fw_f64_laws]|]).
  contradiction.
Qed.
Lemma fw_exact_in c : In c fw_exact_list -> In c fw_list /\ fw_eqb c = cell_eqb.
Proof.
  cbn [fw_exact_list fw_list In]. intros H.
  repeat (destruct H as [<-|H]; [split; [tauto|reflexivity]|]). contradiction.
Qed.

Definition small (xs : list (option cell)) : Prop := Z.of_nat (length xs) < 2 ^ 28.

(** plain and nullable blocks of fixed-width values *)
Theorem fw_plain_roundtrip c : In c fw_list -> bk_rt (bk_plain (nn_plain c)) small.
Proof. intros H. apply plain_block_roundtrip, nn_rt_lift, nn_plain_laws, fw_list_laws, H. Qed.
Theorem fw_nullable_roundtrip c : In c fw_list -> bk_rt (bk_nullable (nn_plain c)) small.
Proof.
  intros H. pose proof (nn_plain_laws c (fw_list_laws c H)) as L. apply nullable_block_roundtrip.
  - apply nn_rt_lift, L.
  - apply (nnl_def _ L).
  - unfold small. intros xs Hx. assert (2 ^ 28 < 2 ^ 32) by reflexivity. lia.
Qed.

Lemma groups_small eqb xs : small xs -> small (map fst (rle_groups eqb xs)).
Proof.
  unfold small. intros H. rewrite map_length.
  assert (Hl : (length (rle_groups eqb xs) <= length xs)%nat).
  { clear. induction xs as [|y l IH]; cbn [rle_groups length]; [lia|].
    destruct (rle_groups eqb l) as [|[z n] g']; cbn [length] in *; [lia|]. destruct (oeqb eqb y z); cbn [length]; lia. }
  lia.
Qed.
Lemma dict_small eqb : forall xs d0, (length (fst (dict_build eqb d0 xs)) <= length d0 + length xs)%nat.
Proof.
  induction xs as [|[v|] xs IH]; intros d0; cbn [dict_build].
  - cbn. lia.
  - destruct (find_idx eqb v d0).
    + specialize (IH d0). destruct (dict_build eqb d0 xs). cbn [fst length] in *. lia.
    + specialize (IH (d0 ++ [v])). destruct (dict_build eqb (d0 ++ [v]) xs). rewrite app_length in IH. cbn [fst length] in *. lia.
  - specialize (IH d0). destruct (dict_build eqb d0 xs). cbn [fst length] in *. lia.
Qed.

(** run-length and dictionary blocks over exact-equality fixed-width values *)
Theorem fw_rle_roundtrip c : In c fw_exact_list ->
  bk_rt (bk_rle (bk_plain (nn_plain c))) small /\ bk_rt (bk_rle (bk_nullable (nn_plain c))) small.
Proof.
  intros H. destruct (fw_exact_in c H) as [Hin Heq].
  split; (eapply (rle_block_roundtrip _ small small);
          [first [apply fw_plain_roundtrip | apply fw_nullable_roundtrip]; exact Hin
          | cbn [bk_eqb bk_plain bk_nullable nn_plain nn_eqb]; rewrite Heq; apply eq_exact_cell
          | auto | intros xs Hx; apply groups_small, Hx ]).
Qed.
Theorem fw_dict_roundtrip c : In c fw_exact_list ->
  bk_rt (bk_dict (bk_plain (nn_plain c))) small /\ bk_rt (bk_dict (bk_nullable (nn_plain c))) small.
Proof.
  intros H. destruct (fw_exact_in c H) as [Hin Heq].
  split; (eapply (dict_block_roundtrip _ small small);
          [first [apply fw_plain_roundtrip | apply fw_nullable_roundtrip]; exact Hin
          | cbn [bk_eqb bk_plain bk_nullable nn_plain nn_eqb]; rewrite Heq; apply eq_exact_cell
          | auto
          | intros xs Hx; unfold small in *; rewrite map_length;
            pose proof (dict_small (bk_eqb (bk_plain (nn_plain c))) xs []) as Hd;
            cbn [bk_eqb bk_plain bk_nullable nn_plain nn_eqb length Nat.add] in *; lia ]).
Qed.

(** DOUBLE under run-length / dictionary encoding is refuted: -0.0 then +0.0 reads back -0.0, -0.0 *)
Definition f64_witness : list (option cell) := [Some (CInt (2 ^ 63)); Some (CInt 0)].
Theorem f64_rle_refuted :
  forallb (bk_okb (bk_rle (bk_plain (nn_plain fw_f64)))) f64_witness = true /\
  bk_dec (bk_rle (bk_plain (nn_plain fw_f64))) 2 (bk_enc (bk_rle (bk_plain (nn_plain fw_f64))) f64_witness)
    = [Some (CInt (2 ^ 63)); Some (CInt (2 ^ 63))] /\
  bk_dec (bk_dict (bk_plain (nn_plain fw_f64))) 2 (bk_enc (bk_dict (bk_plain (nn_plain fw_f64))) f64_witness)
    = [Some (CInt (2 ^ 63)); Some (CInt (2 ^ 63))].
Proof. vm_compute. repeat split; reflexivity. Qed.

(** ** variable-width values (VARCHAR, BLOB) *)
Definition blob_total (xs : list (option cell)) : nat := total_len (map (or_default (CBytes [])) xs).
Definition small_blob (xs : list (option cell)) : Prop :=
  small xs /\ Z.of_nat (blob_total xs) < 2 ^ 32.

Lemma blob_nn_rt (xs : list (option cell)) : small_blob xs ->
  forallb (nn_okb nn_blob) (map (or_default (nn_default nn_blob)) xs) = true ->
  nn_dec nn_blob (length xs) (nn_enc nn_blob (map (or_default (nn_default nn_blob)) xs))
  = map (or_default (nn_default nn_blob)) xs.
Proof.
  intros [_ Hb] Hok. rewrite <- (map_length (or_default (nn_default nn_blob)) xs).
  apply blob_roundtrip; [exact Hok|exact Hb].
Qed.
Theorem blob_plain_roundtrip : bk_rt (bk_plain nn_blob) small_blob.
Proof. apply plain_block_roundtrip. exact blob_nn_rt. Qed.
Theorem blob_nullable_roundtrip : bk_rt (bk_nullable nn_blob) small_blob.
Proof.
  apply nullable_block_roundtrip; [exact blob_nn_rt|reflexivity|].
  intros xs [Hs _]. unfold small in Hs. assert (2 ^ 28 < 2 ^ 32) by reflexivity. lia.
Qed.
(** for run-length / dictionary encoded strings the size guard is also asked of the run heads /
    dictionary entries (they are sub-sequences of the values, so this always holds in practice) *)
Definition small_blob_rle (xs : list (option cell)) : Prop :=
  small xs /\ small_blob (map fst (rle_groups cell_eqb xs)).
Definition small_blob_dict (xs : list (option cell)) : Prop :=
  small xs /\ small_blob (map Some (fst (dict_build cell_eqb [] xs))).
Theorem blob_rle_roundtrip :
  bk_rt (bk_rle (bk_plain nn_blob)) small_blob_rle /\ bk_rt (bk_rle (bk_nullable nn_blob)) small_blob_rle.
Proof.
  split; (eapply (rle_block_roundtrip _ small_blob_rle small_blob);
          [first [exact blob_plain_roundtrip | exact blob_nullable_roundtrip]
          | apply eq_exact_cell | intros xs [H _]; exact H | intros xs [_ H]; exact H ]).
Qed.
Theorem blob_dict_roundtrip :
  bk_rt (bk_dict (bk_plain nn_blob)) small_blob_dict /\ bk_rt (bk_dict (bk_nullable nn_blob)) small_blob_dict.
Proof.
  split; (eapply (dict_block_roundtrip _ small_blob_dict small_blob);
          [first [exact blob_plain_roundtrip | exact blob_nullable_roundtrip]
          | apply eq_exact_cell | intros xs [H _]; exact H | intros xs [_ H]; exact H ]).
Qed.

(** ** a whole column file: blocks laid out back to back, each with its 16-byte trailer *)
Fixpoint index_of (bk : block_codec) (blocks : list (list (option cell))) (off : nat) : list (nat * nat * nat) :=
  match blocks with
  | [] => []
  | b :: r => let len := (length (bk_enc bk b) + 16)%nat in (off, len, length b) :: index_of bk r (off + len)
  end.

Lemma trailer_length t crc body : length (trailer t crc body) = (length body + 16)%nat.
Proof. unfold trailer. rewrite !app_length, !sbe_enc_length, ube_enc_length. lia. Qed.
Lemma trailer_body t crc body rest : firstn (length body) (trailer t crc body ++ rest) = body.
Proof. unfold trailer. rewrite <- !app_assoc. apply firstn_app_exact. reflexivity. Qed.

Theorem column_roundtrip bk P t crc : bk_rt bk P -> forall blocks pre,
  Forall (fun b => P b /\ forallb (bk_okb bk) b = true) blocks ->
  column_decode bk (pre ++ column_bytes bk t crc blocks) (index_of bk blocks (length pre)) = blocks.
Proof.
  intros Hrt. induction blocks as [|b r IH]; intros pre Hall; [reflexivity|].
  inversion Hall as [|? ? [HP Hok] Hr]; subst.
  cbn [column_bytes flat_map index_of column_decode map]. f_equal.
  - unfold block_body. rewrite skipn_app_exact by reflexivity.
    replace (length (bk_enc bk b) + 16 - 16)%nat with (length (bk_enc bk b)) by lia.
    rewrite trailer_body. apply Hrt; assumption.
  - fold (column_bytes bk t crc r). fold (column_decode bk).
    specialize (IH (pre ++ trailer t crc (bk_enc bk b)) Hr).
    rewrite app_length, trailer_length in IH. rewrite <- app_assoc in IH. exact IH.
Qed.

(** ** end to end: build a column from any partition of the values, read it back from any start
       row with any requests *)
Theorem column_read_exact bk P t crc (values : list (option cell)) (sizes : list nat) start reqs :
  bk_rt bk P ->
  let blocks := split_at sizes values in
  concat blocks = values -> (0 < length blocks)%nat ->
  Forall (fun b => P b /\ forallb (bk_okb bk) b = true) blocks ->
  (start <= length values)%nat -> Forall req_ok reqs ->
  let file := column_bytes bk t crc blocks in
  let decoded := column_decode bk file (index_of bk blocks 0) in
  trace_ok _ values start reqs (col_read _ decoded start reqs).
Proof.
  intros Hrt blocks Hc Hn Hall Hs Hq file decoded.
  assert (Hd : decoded = blocks).
  { unfold decoded, file. apply (column_roundtrip bk P t crc Hrt blocks [] Hall). }
  rewrite Hd. rewrite <- Hc. apply col_read_exact; [exact Hn|rewrite Hc; exact Hs|exact Hq].
Qed.
