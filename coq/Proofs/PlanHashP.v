(** * The hash join in the plan semantics (C01): the rules that turn an equi-join into a hash join and back *)
From RL Require Import Model.PlanSem Proofs.PlanSemP Proofs.ExecP Proofs.WideKeysP.
From Coq Require Import Lia Btauto.
Open Scope string_scope.
Open Scope list_scope.

(** the part of a joined row that comes from one input *)
Lemma restrict_all cols (l : arow) : (forall kv, In kv l -> In (fst kv) cols) -> restrict cols l = l.
Proof.
  unfold restrict. induction l as [|kv l IH]; intros H; [reflexivity|]. cbn [filter].
  assert (E : memb (fst kv) cols = true) by (apply memb_In, H; left; reflexivity). rewrite E. f_equal.
  apply IH. intros kv' Hk. apply H. right. exact Hk.
Qed.
Lemma restrict_none cols (l : arow) : (forall kv, In kv l -> ~ In (fst kv) cols) -> restrict cols l = [].
Proof.
  unfold restrict. induction l as [|kv l IH]; intros H; [reflexivity|]. cbn [filter].
  assert (E : memb (fst kv) cols = false) by (apply memb_false, H; left; reflexivity). rewrite E.
  apply IH. intros kv' Hk. apply H. right. exact Hk.
Qed.
Lemma restrict_app_l l r lc rc : map fst l = lc -> map fst r = rc -> disjb lc rc = true -> restrict lc (l ++ r) = l.
Proof.
  intros Hl Hr Hd. unfold restrict. rewrite filter_app. fold (restrict lc l). fold (restrict lc r).
  rewrite restrict_all, restrict_none; [apply app_nil_r| |].
  - intros kv Hk Hin. rewrite disjb_spec in Hd. apply (Hd (fst kv) Hin). rewrite <- Hr. apply in_map. exact Hk.
  - intros kv Hk. rewrite <- Hl. apply in_map. exact Hk.
Qed.
Lemma restrict_app_r l r lc rc : map fst l = lc -> map fst r = rc -> disjb lc rc = true -> restrict rc (l ++ r) = r.
Proof.
  intros Hl Hr Hd. unfold restrict. rewrite filter_app. fold (restrict rc l). fold (restrict rc r).
  rewrite restrict_none, restrict_all; [reflexivity| |].
  - intros kv Hk. rewrite <- Hr. apply in_map. exact Hk.
  - intros kv Hk Hin. rewrite disjb_spec in Hd. apply (Hd (fst kv)); [|exact Hin]. rewrite <- Hl. apply in_map. exact Hk.
Qed.

Lemma holdsf_bool b x : holdsf (fun _ => DBool b) x = b.
Proof. unfold holdsf. destruct b; reflexivity. Qed.
Lemma holdsf_hash_on lc rc lk rk on l r : map fst l = lc -> map fst r = rc -> disjb lc rc = true ->
  holdsf (hash_on lc rc lk rk on) (l ++ r) = keys_matchb lk rk l r && holdsf on (l ++ r).
Proof.
  intros Hl Hr Hd. unfold hash_on. rewrite holdsf_and3f. f_equal.
  unfold holdsf. cbv beta. rewrite (restrict_app_l l r lc rc Hl Hr Hd), (restrict_app_r l r lc rc Hl Hr Hd).
  destruct (keys_matchb lk rk l r); reflexivity.
Qed.
(** [a = b] holds exactly when the hash join's key comparison matches *)
Lemma holdsf_eq3f f g x : holdsf (eq3f f g) x = key_match1 (f x) (g x).
Proof. unfold holdsf, eq3f, key_match1. apply sql_eq_wide. Qed.

(** the join depends on its condition only through the pairs of rows it is asked about *)
Lemma matches_ext on1 on2 l R : (forall r, In r R -> holdsf on1 (l ++ r) = holdsf on2 (l ++ r)) -> matches on1 l R = matches on2 l R.
Proof.
  intros H. unfold matches. apply filter_ext_in. intros x Hx. apply in_map_iff in Hx as (r & <- & Hr). apply H, Hr.
Qed.
Lemma rmatches_ext on1 on2 L r : (forall l, In l L -> holdsf on1 (l ++ r) = holdsf on2 (l ++ r)) -> rmatches on1 L r = rmatches on2 L r.
Proof.
  intros H. unfold rmatches. apply filter_ext_in. intros x Hx. apply in_map_iff in Hx as (l & <- & Hl). apply H, Hl.
Qed.
Lemma join_sem_on_ext ty on1 on2 lc rc L R :
  (forall l r, In l L -> In r R -> holdsf on1 (l ++ r) = holdsf on2 (l ++ r)) ->
  join_sem ty on1 lc rc L R = join_sem ty on2 lc rc L R.
Proof.
  intros H. unfold join_sem, left_rows.
  assert (HL : forall l, In l L -> matches on1 l R = matches on2 l R) by (intros l Hl; apply matches_ext; intros r Hr; apply H; assumption).
  assert (HR : forall r, In r R -> rmatches on1 L r = rmatches on2 L r) by (intros r Hr; apply rmatches_ext; intros l Hl; apply H; assumption).
  assert (HE : forall l, In l L -> existsb (fun r => holdsf on1 (l ++ r)) R = existsb (fun r => holdsf on2 (l ++ r)) R)
    by (intros l Hl; apply existsb_ext_in; intros r Hr; apply H; assumption).
  assert (E1 : flat_map (fun l => matches on1 l R) L = flat_map (fun l => matches on2 l R) L)
    by (apply flat_map_ext_in; exact HL).
  assert (E2 : flat_map (fun l => match matches on1 l R with [] => [l ++ nulls_for rc] | m => m end) L
             = flat_map (fun l => match matches on2 l R with [] => [l ++ nulls_for rc] | m => m end) L)
    by (apply flat_map_ext_in; intros l Hl; rewrite (HL l Hl); reflexivity).
  assert (E3 : flat_map (fun r => match rmatches on1 L r with [] => [nulls_for lc ++ r] | m => m end) R
             = flat_map (fun r => match rmatches on2 L r with [] => [nulls_for lc ++ r] | m => m end) R)
    by (apply flat_map_ext_in; intros r Hr; rewrite (HR r Hr); reflexivity).
  assert (E4 : flat_map (fun r => match rmatches on1 L r with [] => [nulls_for lc ++ r] | _ => [] end) R
             = flat_map (fun r => match rmatches on2 L r with [] => [nulls_for lc ++ r] | _ => [] end) R)
    by (apply flat_map_ext_in; intros r Hr; rewrite (HR r Hr); reflexivity).
  assert (E5 : filter (fun l => existsb (fun r => holdsf on1 (l ++ r)) R) L = filter (fun l => existsb (fun r => holdsf on2 (l ++ r)) R) L)
    by (apply filter_ext_in; exact HE).
  assert (E6 : filter (fun l => negb (existsb (fun r => holdsf on1 (l ++ r)) R)) L = filter (fun l => negb (existsb (fun r => holdsf on2 (l ++ r)) R)) L)
    by (apply filter_ext_in; intros l Hl; rewrite (HE l Hl); reflexivity).
  rewrite E1, E2, E3, E4, E5, E6. reflexivity.
Qed.
Lemma join_sem_is_rel ty on lc rc L R x : join_sem ty on lc rc L R = Some x -> exists c rows, x = MRel c rows.
Proof.
  unfold join_sem. repeat match goal with |- (if ?c then _ else _) = _ -> _ => destruct c end;
    intros H; inversion H; eexists; eexists; reflexivity.
Qed.
Lemma join_sem_equiv ty on1 on2 lc rc L R x y :
  (forall l r, In l L -> In r R -> holdsf on1 (l ++ r) = holdsf on2 (l ++ r)) ->
  join_sem ty on1 lc rc L R = Some x -> join_sem ty on2 lc rc L R = Some y -> sem_equiv x y.
Proof.
  intros H H1 H2. rewrite (join_sem_on_ext ty on1 on2 lc rc L R H) in H1. rewrite H1 in H2. inversion H2; subst.
  destruct (join_sem_is_rel _ _ _ _ _ _ _ H1) as (c & rows & ->). cbn. split; [reflexivity|apply Permutation_refl].
Qed.

Lemma join_sem_inner on lc rc L R : join_sem "inner" on lc rc L R = Some (MRel (lc ++ rc) (flat_map (fun l => matches on l R) L)).
Proof. reflexivity. Qed.
Lemma inner_rows_equiv on1 on2 c (L R : list arow) :
  (forall l r, In l L -> In r R -> holdsf on1 (l ++ r) = holdsf on2 (l ++ r)) ->
  sem_equiv (MRel c (flat_map (fun l => matches on1 l R) L)) (MRel c (flat_map (fun l => matches on2 l R) L)).
Proof.
  intros H. cbn. split; [reflexivity|]. replace (flat_map (fun l => matches on2 l R) L) with (flat_map (fun l => matches on1 l R) L); [apply Permutation_refl|].
  apply flat_map_ext_in. intros l Hl. apply matches_ext. intros r Hr. apply H; assumption.
Qed.
Lemma disjb_right s lc rc : inclb s rc = true -> disjb lc rc = true -> disjb s lc = true.
Proof. intros Hi Hd. apply (disjb_incl s rc lc Hi). apply disjb_sym. exact Hd. Qed.
(** whether a join has a meaning depends on its type alone *)
Lemma join_sem_defined ty on1 on2 lc rc lc' rc' L R L' R' x : join_sem ty on1 lc rc L R = Some x -> exists y, join_sem ty on2 lc' rc' L' R' = Some y.
Proof.
  unfold join_sem. repeat match goal with |- (if ?c then _ else _) = _ -> _ => destruct c end;
    intros H; try discriminate; eexists; reflexivity.
Qed.

(** ** swapping the inputs of an inner hash join under a projection *)
Lemma dv_eqb_sym a b : dv_eqb a b = dv_eqb b a.
Proof. unfold dv_eqb. rewrite (ValP.dv_cmp_antisym b a). destruct (dv_cmp b a); reflexivity. Qed.
Lemma key_match1_sym a b : key_match1 a b = key_match1 b a.
Proof. unfold key_match1. rewrite dv_eqb_sym. destruct (is_null a), (is_null b); reflexivity. Qed.
Lemma keys_matchb_sym : forall lk rk l r, keys_matchb lk rk l r = keys_matchb rk lk r l.
Proof.
  induction lk as [|a lk IH]; intros [|b rk] l r; cbn [keys_matchb]; try reflexivity.
  rewrite key_match1_sym, IH. reflexivity.
Qed.
Lemma inner_join_swap_gen on1 on2 fs lc rc (L R : list arow) :
  exprs_ok fs -> wf_rel lc L -> wf_rel rc R -> disjb lc rc = true ->
  (forall l r, In l L -> In r R -> holdsf on1 (l ++ r) = holdsf on2 (r ++ l)) ->
  Permutation (map (proj_row fs) (flat_map (fun l => matches on1 l R) L))
              (map (proj_row fs) (flat_map (fun r => matches on2 r L) R)).
Proof.
  intros Hfs HL HR D Hsw. unfold wf_rel in HL, HR. rewrite Forall_forall in HL, HR.
  rewrite !map_flat_map.
  rewrite (flat_map_ext_in _ (fun l => flat_map (fun r => if holdsf on1 (l ++ r) then [proj_row fs (l ++ r)] else []) R))
    by (intros l _; apply map_matches).
  rewrite (flat_map_ext_in (fun r => map (proj_row fs) (matches on2 r L))
                           (fun r => flat_map (fun l => if holdsf on1 (l ++ r) then [proj_row fs (l ++ r)] else []) L)).
  - apply (flat_map_swap_perm (fun l r => if holdsf on1 (l ++ r) then [proj_row fs (l ++ r)] else []) L R).
  - intros r Hr. rewrite map_matches. apply flat_map_ext_in. intros l Hl.
    rewrite <- (Hsw l r Hl Hr).
    rewrite (proj_row_swap fs r l rc lc Hfs (HR r Hr) (HL l Hl) (disjb_sym _ _ D)). reflexivity.
Qed.
Lemma hash_on_swap lc rc lk rk s on l r : map fst l = lc -> map fst r = rc -> disjb lc rc = true -> reads_only s on ->
  holdsf (hash_on lc rc lk rk on) (l ++ r) = holdsf (hash_on rc lc rk lk on) (r ++ l).
Proof.
  intros Hl Hr Hd Hon.
  rewrite (holdsf_hash_on lc rc lk rk on l r Hl Hr Hd), (holdsf_hash_on rc lc rk lk on r l Hr Hl (disjb_sym _ _ Hd)).
  rewrite keys_matchb_sym. f_equal. unfold holdsf. rewrite (expr_swap s on l r lc rc Hon Hl Hr Hd). reflexivity.
Qed.
Lemma inner_hash_join_swap s on fs lc rc lk rk (L R : list arow) :
  reads_only s on -> exprs_ok fs -> wf_rel lc L -> wf_rel rc R -> disjb lc rc = true ->
  Permutation (map (proj_row fs) (flat_map (fun l => matches (hash_on lc rc lk rk on) l R) L))
              (map (proj_row fs) (flat_map (fun r => matches (hash_on rc lc rk lk on) r L) R)).
Proof.
  intros Hon Hfs HL HR D. apply (inner_join_swap_gen _ _ fs lc rc L R Hfs HL HR D).
  intros l r Hl Hr. unfold wf_rel in HL, HR. rewrite Forall_forall in HL, HR.
  apply (hash_on_swap lc rc lk rk s on l r (HL l Hl) (HR r Hr) D Hon).
Qed.
