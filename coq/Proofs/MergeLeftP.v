(** * C11 — the LEFT OUTER merge join over sorted inputs, row level: every left row is followed by its
    matches, or padded with NULLs when it has none (left-major order). *)
From RL Require Import Model.Exec Proofs.ValP Proofs.ExecP Proofs.MergeJoinP.
From Coq Require Import Lia Permutation Sorted.
Open Scope Z_scope.

Definition lpads (nr : nat) (lc : list row) : list row := map (fun l => l ++ nulls nr) lc.
Definition walk_spec_left (nr : nat) (lg rg : list (row * list row)) : list row :=
  flat_map (fun kg => if has_null (fst kg) then lpads nr (snd kg)
                      else match gfind (fst kg) rg with [] => lpads nr (snd kg) | rc => cross (snd kg) rc end) lg.

Lemma walk_spec_left_nil nr lg : walk_spec_left nr lg [] = flat_map (fun kg => lpads nr (snd kg)) lg.
Proof.
  unfold walk_spec_left. apply flat_map_ext. intros kg. unfold gfind. cbn [find]. destruct (has_null (fst kg)); reflexivity.
Qed.
Lemma walk_spec_left_skip nr lg k' c rg : (forall kg, In kg lg -> fst kg <> k') ->
  walk_spec_left nr lg ((k', c) :: rg) = walk_spec_left nr lg rg.
Proof.
  intros H. unfold walk_spec_left. apply flat_map_ext_in. intros kg Hin. rewrite gfind_skip; [reflexivity|]. intros E. apply (H kg Hin). symmetry. exact E.
Qed.

Lemma merge_walk_left nl nr : forall fuel lg rg, gkeys_inc lg -> gkeys_inc rg ->
  Forall (fun kg => snd kg <> []) rg -> (length lg + length rg < fuel)%nat ->
  merge_walk fuel JLeft nl nr lg rg = walk_spec_left nr lg rg.
Proof.
  induction fuel as [|f IH]; intros lg rg Hl Hr Hne Hf; [lia|]. cbn [merge_walk pads_left pads_right].
  destruct lg as [|[lk lc] lg'].
  - destruct rg as [|[rk rc] rg']; [reflexivity|]. cbn [app]. inversion Hr; subst. inversion Hne; subst.
    rewrite IH by (try assumption; cbn in *; lia). reflexivity.
  - inversion Hl as [|? ? Hl' Hlall]; subst. destruct rg as [|[rk rc] rg'].
    + rewrite IH by (try assumption; cbn in *; lia). rewrite !walk_spec_left_nil. reflexivity.
    + inversion Hr as [|? ? Hr' Hrall]; subst. inversion Hne as [|? ? Hrc Hne']; subst. cbn [snd] in Hrc.
      rewrite Forall_forall in Hlall, Hrall.
      destruct (row_eqb lk rk && negb (has_null lk)) eqn:Em.
      * apply andb_prop in Em as [Ek En]. apply row_eqb_eq in Ek. subst rk. apply negb_true_iff in En.
        rewrite IH by (try assumption; cbn in *; lia).
        unfold walk_spec_left at 2. cbn [flat_map fst snd]. rewrite En. unfold gfind at 1. cbn [find fst snd]. rewrite row_eqb_refl. cbn [snd].
        destruct rc as [|r0 rc]; [contradiction|]. f_equal. fold (walk_spec_left nr lg' ((lk, r0 :: rc) :: rg')). symmetry. apply walk_spec_left_skip.
        intros kg Hin. specialize (Hlall kg Hin). cbn in Hlall. intros E. rewrite E, row_cmp_refl in Hlall. discriminate.
      * destruct (row_cmp lk rk) eqn:Ec.
        -- apply row_cmp_eq in Ec. subst rk. rewrite row_eqb_refl in Em. cbn in Em. apply negb_false_iff in Em.
           rewrite IH by (try assumption; try (constructor; assumption); cbn in *; lia).
           unfold walk_spec_left at 2. cbn [flat_map fst snd]. rewrite Em. reflexivity.
        -- rewrite IH by (try assumption; try (constructor; assumption); cbn in *; lia).
           unfold walk_spec_left at 2. cbn [flat_map fst snd].
           rewrite (gfind_none lk ((rk, rc) :: rg')).
           ++ destruct (has_null lk); reflexivity.
           ++ intros kg [<-|Hin]; cbn [fst].
              ** apply not_eq_sym, row_lt_ne, Ec.
              ** specialize (Hrall kg Hin). cbn in Hrall. intros E. rewrite E in Hrall.
                 rewrite (row_cmp_antisym lk rk), Ec in Hrall. discriminate.
        -- cbn [app]. rewrite IH by (try assumption; try (constructor; [exact Hl'|apply Forall_forall; exact Hlall]); cbn in *; lia).
           symmetry. apply walk_spec_left_skip. intros kg [<-|Hin]; cbn [fst].
           ++ apply row_gt_ne, Ec.
           ++ specialize (Hlall kg Hin). cbn in Hlall. intros E. rewrite E in Hlall. rewrite Hlall in Ec. discriminate.
Qed.

Lemma map_as_flat_map {A B} (f : A -> B) l : map f l = flat_map (fun x => [f x]) l.
Proof. induction l as [|x l IH]; [reflexivity|]. cbn. rewrite IH. reflexivity. Qed.

(** the rows of the left outer equi-join, left-major *)
Definition left_rows_spec (lk rk : list sx) (nr : nat) (Ls Rs : list row) : list row :=
  flat_map (fun l => match filter (key_match lk rk l) Rs with [] => [l ++ nulls nr] | m => map (fun r => l ++ r) m end) Ls.

Theorem mergejoin_left_rows lk rk nl nr L R : sorted_on lk (concat L) -> sorted_on rk (concat R) ->
  x_mergejoin JLeft lk rk nl nr L R = left_rows_spec lk rk nr (concat L) (concat R).
Proof.
  intros HL HR. unfold x_mergejoin.
  rewrite merge_walk_left; try (apply group_runs_inc; assumption); try lia.
  2:{ eapply Forall_impl; [|apply group_runs_keys]. intros kg [H _]. exact H. }
  unfold left_rows_spec. rewrite <- (group_runs_concat lk (concat L)) at 2. rewrite flat_map_concat, flat_map_map.
  unfold walk_spec_left. apply flat_map_ext_in. intros [k g] Hin. cbn [fst snd].
  pose proof (group_runs_keys lk (concat L)) as F. rewrite Forall_forall in F. destruct (F _ Hin) as [_ Hk]. cbn [fst snd] in Hk.
  rewrite <- (filter_by_key rk k (concat R) HR).
  destruct (has_null k) eqn:En.
  - unfold lpads. rewrite map_as_flat_map. apply flat_map_ext_in. intros l Hl. unfold key_match.
    rewrite (Hk l Hl), En, (filter_ext _ (fun _ => false)) by (intros; apply andb_false_r). rewrite filter_none. reflexivity.
  - assert (E : forall l, In l g -> filter (key_match lk rk l) (concat R) = filter (fun r => row_eqb k (keys_of rk r)) (concat R)).
    { intros l Hl. apply filter_ext. intros r. unfold key_match. rewrite (Hk l Hl), En. cbn. apply andb_true_r. }
    destruct (filter (fun r => row_eqb k (keys_of rk r)) (concat R)) as [|r0 rs] eqn:Ef.
    + unfold lpads. rewrite map_as_flat_map. apply flat_map_ext_in. intros l Hl. rewrite (E l Hl). reflexivity.
    + unfold cross. apply flat_map_ext_in. intros l Hl. rewrite (E l Hl). reflexivity.
Qed.

Example mergejoin_left_example :
  let L := [[ [DNull; DI32 9]; [DI32 1; DI32 5] ]; [ [DI32 2; DI32 6] ]] in
  let R := [[ [DNull; DI32 0]; [DI32 1; DI32 8]; [DI32 1; DI32 7]; [DI32 3; DI32 8] ]] in
  x_mergejoin JLeft [SCol 0] [SCol 0] 2 2 L R =
    [[DNull; DI32 9; DNull; DNull]; [DI32 1; DI32 5; DI32 1; DI32 8]; [DI32 1; DI32 5; DI32 1; DI32 7]; [DI32 2; DI32 6; DNull; DNull]].
Proof. reflexivity. Qed.
