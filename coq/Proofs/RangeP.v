(** * C13: a key-range scan over a key-sorted row-set returns exactly the rows in the range,
      for every block partition, every batch-size sequence and every delete vector. *)
From RL Require Import Model.RangeScan.
From Coq Require Import Lia Sorted.
Open Scope Z_scope.

Definition sorted (ks : list Z) : Prop := forall i j, (i <= j < length ks)%nat -> nth i ks 0 <= nth j ks 0.
Definition monotone (p : Z -> bool) : Prop := forall x y, x <= y -> p x = true -> p y = true.

Lemma ge_start_mono b : monotone (ge_start b).
Proof. intros x y H. destruct b; cbn; intros; lia. Qed.
Lemma gt_end_mono b : monotone (gt_end b).
Proof. intros x y H. destruct b; cbn; intros; lia. Qed.

Lemma sorted_tail x ks : sorted (x :: ks) -> sorted ks.
Proof. intros H i j Hij. apply (H (S i) (S j)). cbn. lia. Qed.

(** position of the first element satisfying a monotone predicate in a sorted list *)
Lemma first_pos_le p ks : (first_pos p ks <= length ks)%nat.
Proof. induction ks as [|x ks IH]; cbn; [lia|]. destruct (p x); lia. Qed.
Lemma first_pos_spec p : monotone p -> forall ks, sorted ks -> forall i, (i < length ks)%nat ->
  Nat.leb (first_pos p ks) i = p (nth i ks 0).
Proof.
  intros Hm. induction ks as [|x ks IH]; intros Hs i Hi; cbn in Hi; [lia|].
  cbn [first_pos]. destruct (p x) eqn:Px.
  - cbn. symmetry. apply (Hm x); [|exact Px]. apply (Hs 0%nat i). cbn. lia.
  - destruct i as [|i]; cbn [nth]; [rewrite Px; reflexivity|].
    cbn [Nat.leb]. apply IH; [eapply sorted_tail; exact Hs|lia].
Qed.

(** ** one batch *)
Lemma filter_seq_combine (a g : nat -> bool) : forall n pos (h : nat -> bool),
  (forall j, (j < n)%nat -> h j = g (pos + j)%nat) ->
  map fst (filter snd (combine (seq pos n)
            (map (fun p => fst p && snd p) (combine (map a (seq pos n)) (map h (seq 0 n))))))
  = filter (fun i => a i && g i) (seq pos n).
Proof.
  induction n as [|n IH]; intros pos h Hh; [reflexivity|].
  cbn [seq map combine]. cbn [fst snd]. rewrite <- (seq_shift n 0), (map_map S h).
  rewrite (Hh 0%nat ltac:(lia)), Nat.add_0_r.
  specialize (IH (S pos) (fun j => h (S j))).
  assert (Hh' : forall j, (j < n)%nat -> h (S j) = g (S pos + j)%nat) by (intros j Hj; rewrite Hh by lia; f_equal; lia).
  pose proof (IH Hh') as IH'. clear IH.
  cbn [filter snd]. destruct (a pos && g pos); cbn [map fst]; rewrite IH'; reflexivity.
Qed.

Lemma batch_mask_spec rg ks : sorted ks ->
  fst (batch_mask rg ks) = map (fun j => in_range rg (nth j ks 0)) (seq 0 (length ks)).
Proof.
  intros Hs. unfold batch_mask. cbn [fst]. apply map_ext_in. intros j Hj. apply in_seq in Hj.
  unfold in_range. f_equal.
  - apply first_pos_spec; [apply ge_start_mono|exact Hs|lia].
  - destruct (r_end rg) as [|k|k] eqn:E.
    + cbn. apply Nat.ltb_lt. lia.
    + rewrite <- (first_pos_spec (gt_end (BIn k)) (gt_end_mono _) ks Hs j) by lia.
      destruct (Nat.leb_spec (first_pos (gt_end (BIn k)) ks) j); [apply Nat.ltb_ge; lia|apply Nat.ltb_lt; lia].
    + rewrite <- (first_pos_spec (gt_end (BEx k)) (gt_end_mono _) ks Hs j) by lia.
      destruct (Nat.leb_spec (first_pos (gt_end (BEx k)) ks) j); [apply Nat.ltb_ge; lia|apply Nat.ltb_lt; lia].
Qed.
(** the early-end flag: the first key of the batch is already beyond the upper bound *)
Lemma batch_stop_spec rg ks : ks <> [] -> snd (batch_mask rg ks) = gt_end (r_end rg) (hd 0 ks).
Proof.
  intros Hn. unfold batch_mask. cbn [snd]. destruct ks as [|x ks]; [contradiction|]. cbn [hd length first_pos].
  destruct (r_end rg) as [|k|k]; cbn [gt_end first_pos]; [reflexivity|destruct (k <? x); reflexivity|destruct (k <=? x); reflexivity].
Qed.

Lemma nth_skipn' {A} (d : A) : forall n l i, nth i (skipn n l) d = nth (n + i) l d.
Proof. induction n as [|n IH]; intros l i; [reflexivity|]. destruct l; cbn [skipn Nat.add nth]; [destruct i; reflexivity|apply IH]. Qed.
Lemma nth_firstn' {A} (d : A) : forall n l i, (i < n)%nat -> nth i (firstn n l) d = nth i l d.
Proof. induction n as [|n IH]; intros l i H; [lia|]. destruct l; cbn [firstn nth]; [reflexivity|]. destruct i; [reflexivity|]. apply IH. lia. Qed.

Lemma sorted_skipn ks pos : sorted ks -> sorted (skipn pos ks).
Proof.
  intros Hs i j Hij. rewrite skipn_length in Hij. rewrite !nth_skipn'. apply Hs. lia.
Qed.
Lemma sorted_firstn ks n : sorted ks -> sorted (firstn n ks).
Proof.
  intros Hs i j Hij. rewrite firstn_length in Hij.
  rewrite !nth_firstn' by lia. apply Hs. lia.
Qed.

(** ** the whole scan from a position *)
Definition pred (r : option krange) (keys : list Z) (deleted : nat -> bool) (i : nat) : bool :=
  negb (deleted i) && match r with Some rg => in_range rg (nth i keys 0) | None => true end.

Lemma filter_all_false {A} (f : A -> bool) l : (forall x, In x l -> f x = false) -> filter f l = [].
Proof. induction l as [|x l IH]; intros H; [reflexivity|]. cbn. rewrite (H x (or_introl eq_refl)). apply IH. intros y Hy. apply H. right. exact Hy. Qed.

Lemma scan_go_spec r keys deleted : sorted keys -> forall sizes pos,
  (pos + fold_right Nat.add 0 sizes = length keys)%nat ->
  scan_go r keys deleted pos sizes = filter (pred r keys deleted) (seq pos (length keys - pos)).
Proof.
  intros Hs. induction sizes as [|n rest IH]; intros pos Hsum; cbn [fold_right] in Hsum.
  - replace (length keys - pos)%nat with 0%nat by lia. reflexivity.
  - cbn [scan_go].
    assert (Hlen : length (firstn n (skipn pos keys)) = n) by (rewrite firstn_length, skipn_length; lia).
    rewrite Hlen.
    replace (length keys - pos)%nat with (n + (length keys - (pos + n)))%nat by lia.
    rewrite seq_app, filter_app.
    set (ks := firstn n (skipn pos keys)).
    assert (Hks : sorted ks) by (apply sorted_firstn, sorted_skipn, Hs).
    assert (Hnth : forall j, (j < n)%nat -> nth j ks 0 = nth (pos + j) keys 0).
    { intros j Hj. unfold ks. rewrite nth_firstn' by lia. rewrite nth_skipn'. reflexivity. }
    destruct (forallb negb (map (fun i => negb (deleted i)) (seq pos n))) eqn:Eall.
    + (* every row of the batch is deleted *)
      rewrite IH by lia. rewrite (filter_all_false (pred r keys deleted) (seq pos n)); [reflexivity|].
      intros i Hi. rewrite forallb_forall in Eall. unfold pred.
      rewrite (proj1 (negb_true_iff _) (Eall _ (in_map (fun i => negb (deleted i)) _ _ Hi))). reflexivity.
    + destruct r as [rg|].
      * destruct (batch_mask rg ks) as [mask stop] eqn:Em.
        assert (Hmask : mask = map (fun j => in_range rg (nth (pos + j) keys 0)) (seq 0 n)).
        { pose proof (batch_mask_spec rg ks Hks) as H. rewrite Em in H. cbn [fst] in H. rewrite H. replace (length ks) with n by (unfold ks; symmetry; exact Hlen).
          apply map_ext_in. intros j Hj. apply in_seq in Hj. rewrite Hnth by lia. reflexivity. }
        rewrite Hmask.
        rewrite (filter_seq_combine (fun i => negb (deleted i)) (fun i => in_range rg (nth i keys 0)) n pos) by reflexivity.
        f_equal.
        destruct stop eqn:Estop.
        -- (* the batch starts beyond the upper bound: so does everything after it *)
           symmetry. apply filter_all_false. intros i Hi. apply in_seq in Hi. unfold pred.
           assert (Hn0 : n <> 0%nat).
           { intros ->. cbn in Eall. discriminate. }
           assert (Hne : ks <> []) by (intros E; apply (f_equal (@length Z)) in E; unfold ks in E; rewrite Hlen in E; cbn in E; lia).
           pose proof (batch_stop_spec rg ks Hne) as Hst. rewrite Em in Hst. cbn [snd] in Hst.
           assert (Hhd : hd 0 ks = nth pos keys 0).
           { pose proof (Hnth 0%nat ltac:(lia)) as H0. rewrite Nat.add_0_r in H0. rewrite <- H0. destruct ks; [contradiction|reflexivity]. }
           assert (Hgt : gt_end (r_end rg) (nth i keys 0) = true).
           { apply (gt_end_mono (r_end rg) (nth pos keys 0)); [apply Hs; lia|rewrite <- Hhd, <- Hst; reflexivity]. }
           unfold in_range. rewrite Hgt. cbn. rewrite !andb_false_r. reflexivity.
        -- apply IH. lia.
      * rewrite (filter_ext (pred None keys deleted) (fun i => negb (deleted i) && true)) by (intros; reflexivity).
        f_equal; [|apply IH; lia].
        clear. induction (seq pos n) as [|i l IHl]; [reflexivity|]. cbn. rewrite andb_true_r. destruct (negb (deleted i)); cbn; rewrite IHl; reflexivity.
Qed.

(** ** the start row: every row before it is below the lower bound *)
Definition blocks_ok (blocks : list (nat * Z)) (keys : list Z) : Prop :=
  Forall (fun b => (fst b < length keys)%nat /\ nth (fst b) keys 0 = snd b) blocks.

Lemma start_go_spec blocks keys k : blocks_ok blocks keys -> forall pre,
  (pre = 0%nat \/ ((pre < length keys)%nat /\ nth pre keys 0 < k)) ->
  let s := start_go blocks k pre in s = 0%nat \/ ((s < length keys)%nat /\ nth s keys 0 < k).
Proof.
  intros Hb. induction Hb as [|[fr fk] rest [H1 H2] _ IH]; intros pre Hpre; cbn [start_go]; [exact Hpre|].
  cbn [fst snd] in *. destruct (Z.leb_spec k fk); [exact Hpre|]. apply IH. right. split; [exact H1|lia].
Qed.

Theorem range_scan_exact blocks r keys deleted sizes :
  sorted keys -> blocks_ok blocks keys ->
  (start_rowid blocks r + fold_right Nat.add 0 sizes = length keys)%nat ->
  scan_rowset blocks r keys deleted sizes = spec_rowset r keys deleted.
Proof.
  intros Hs Hb Hsum. unfold scan_rowset, spec_rowset. rewrite scan_go_spec by assumption.
  fold (pred r keys deleted).
  remember (start_rowid blocks r) as s eqn:Es.
  replace (length keys) with (s + (length keys - s))%nat at 2 by lia.
  rewrite seq_app, filter_app. rewrite (filter_all_false (pred r keys deleted) (seq 0 s)); [reflexivity|].
  intros i Hi. apply in_seq in Hi. unfold pred.
  assert (Hcase : s = 0%nat \/ exists rg k, r = Some rg /\ (r_start rg = BIn k \/ r_start rg = BEx k) /\
                                              (s < length keys)%nat /\ nth s keys 0 < k).
  { subst s. unfold start_rowid. destruct r as [rg|]; [|left; reflexivity].
    destruct (r_start rg) as [|k|k] eqn:Eb; [left; reflexivity| |];
      (destruct (start_go_spec blocks keys k Hb 0%nat (or_introl eq_refl)) as [H|[H1 H2]];
       [left; exact H|right; exists rg, k; repeat split; auto]). }
  destruct Hcase as [H0|(rg & k & -> & Hb' & H1 & H2)]; [lia|].
  assert (Hle : nth i keys 0 <= nth s keys 0) by (apply Hs; lia).
  unfold in_range. destruct Hb' as [Eb|Eb]; rewrite Eb; cbn [ge_start].
  - replace (k <=? nth i keys 0) with false by (symmetry; apply Z.leb_gt; lia). cbn. apply andb_false_r.
  - replace (k <? nth i keys 0) with false by (symmetry; apply Z.ltb_ge; lia). cbn. apply andb_false_r.
Qed.
