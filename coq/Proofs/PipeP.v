(** * Error and panic propagation through the executor tasks (C15) *)
From RL Require Import Model.Pipe.
From Coq Require Import Lia.

Scheme plan_mut := Induction for plan Sort Prop
with plans_mut := Induction for plans Sort Prop.
Combined Scheme plan_plans_ind from plan_mut, plans_mut.

(** indices: an operator outside [base, base + size) is not in the plan *)
Lemma items_range :
  (forall p base idx k, items_at p base idx = Some k -> base <= idx < base + size p) /\
  (forall l base idx k, items_list l base idx = Some k -> base <= idx < base + sizes l).
Proof.
  apply plan_plans_ind.
  - intros n cs IH base idx k H. cbn [items_at size] in *. destruct (items_list cs base idx) eqn:E.
    + apply IH in E. lia.
    + destruct (Nat.eqb_spec idx (base + sizes cs)); [lia|discriminate].
  - intros base idx k H. discriminate.
  - intros p IHp r IHr base idx k H. cbn [items_list sizes] in *. destruct (items_at p base idx) eqn:E.
    + apply IHp in E. lia.
    + apply IHr in H. lia.
Qed.

(** the run, with the completion flag checked: the next index advances by the size, and the task
    ends normally exactly when the fault is not reached inside the plan *)
Lemma run_spec f :
  (forall p base, snd (run_go true f p base) = base + size p /\
                  (fst (run_go true f p base) = EndOk <-> hit_at f p base = false)) /\
  (forall l base, snd (run_list true f l base) = base + sizes l /\
                  (fst (run_list true f l base) = false <-> hit_list f l base = false)).
Proof.
  apply plan_plans_ind.
  - intros n cs IH base. specialize (IH base). destruct IH as [Hs Hh]. cbn [run_go size].
    destruct (run_list true f cs base) as [ce me] eqn:E. cbn [fst snd] in *. subst me. split; [lia|].
    unfold hit_at, hit_list in *. destruct f as [ft|]; cbn [own_ending].
    + cbn [items_at]. destruct (items_list cs base (f_op ft)) as [k|] eqn:Ei.
      * (* the target is among the children *)
        destruct ce.
        -- split; [discriminate|]. intros H. apply Hh in H. discriminate.
        -- assert (Hk : Nat.ltb (f_chunk ft) k = false) by (apply Hh; reflexivity).
           pose proof (proj2 items_range cs base (f_op ft) k Ei) as Hr.
           destruct (Nat.eqb_spec (f_op ft) (base + sizes cs)); [lia|]. cbn [andb]. rewrite Hk. tauto.
      * destruct ce; [assert (true = false) by (apply Hh; reflexivity); discriminate|].
        destruct (Nat.eqb_spec (f_op ft) (base + sizes cs)) as [Ee|Ne].
        -- cbn [andb]. destruct (Nat.ltb (f_chunk ft) n); [|tauto].
           split; [destruct (f_kind ft); discriminate|discriminate].
        -- cbn [andb]. tauto.
    + destruct ce; [assert (true = false) by (apply Hh; reflexivity); discriminate|tauto].
  - intros base. cbn. split; [lia|]. unfold hit_list. destruct f; cbn; tauto.
  - intros p IHp r IHr base. cbn [run_list sizes]. destruct (IHp base) as [Hsp Hhp].
    destruct (run_go true f p base) as [e nx] eqn:Ep. cbn [fst snd] in *. subst nx.
    destruct (IHr (base + size p)) as [Hsr Hhr]. destruct (run_list true f r (base + size p)) as [er nx'] eqn:Er. cbn [fst snd] in *. subst nx'.
    split; [lia|]. unfold hit_at, hit_list in *. destruct f as [ft|].
    + cbn [items_list]. destruct (items_at p base (f_op ft)) as [k|] eqn:Ei.
      * destruct e; cbn [subscribe].
        -- assert (Hk : Nat.ltb (f_chunk ft) k = false) by (apply Hhp; reflexivity). rewrite Hk.
           pose proof (proj1 items_range p base (f_op ft) k Ei) as Hr.
           destruct (items_list r (base + size p) (f_op ft)) as [k2|] eqn:E2.
           { apply (proj2 items_range) in E2. lia. }
           split; [reflexivity|]. intros _. apply Hhr. reflexivity.
        -- split; [discriminate|]. intros H. apply Hhp in H. discriminate.
        -- split; [discriminate|]. intros H. apply Hhp in H. discriminate.
      * assert (He : e = EndOk) by (apply Hhp; reflexivity). subst e. cbn [subscribe]. exact Hhr.
    + assert (He : e = EndOk) by (apply Hhp; reflexivity). subst e. cbn [subscribe]. exact Hhr.
Qed.

(** an error or a panic injected at ANY item of ANY operator that is reached makes the statement fail *)
Theorem fault_propagates f p : hit_at (Some f) p 0 = true -> run true (Some f) p = OErr.
Proof.
  intros H. unfold run. destruct (proj1 (run_spec (Some f)) p 0) as [_ Hh].
  destruct (fst (run_go true (Some f) p 0)) eqn:E; [|reflexivity|reflexivity].
  assert (hit_at (Some f) p 0 = false) by (apply Hh; reflexivity). congruence.
Qed.
(** and a statement whose armed fault is never reached, or with no fault, succeeds *)
Theorem no_fault_no_error f p : hit_at f p 0 = false -> run true f p = OOk.
Proof.
  intros H. unfold run. destruct (proj1 (run_spec f) p 0) as [_ Hh]. apply Hh in H. rewrite H. reflexivity.
Qed.
(** a failed INSERT / DELETE leaves the table unchanged *)
Theorem failed_dml_changes_nothing {T} f p (commit : T -> T) t :
  hit_at (Some f) p 0 = true -> apply_stmt true (Some f) p commit t = (t, OErr).
Proof. intros H. unfold apply_stmt. rewrite (fault_propagates f p H). reflexivity. Qed.
(** without the completion flag (the original code) a panic is taken for the end of the stream *)
Lemma panic_without_flag_refuted :
  run false (Some (mk_fault 0 1 FPanic)) (P 1 (PCons (P 3 PNil) PNil)) = OOk /\
  run true (Some (mk_fault 0 1 FPanic)) (P 1 (PCons (P 3 PNil) PNil)) = OErr.
Proof. split; reflexivity. Qed.
