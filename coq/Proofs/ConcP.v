(** * Compaction never loses or resurrects rows under concurrency (C09) *)
From RL Require Import Model.Store Proofs.StoreP Model.Conc.
From Coq Require Import Lia Permutation.

Definition comp_ok (s : cstate) : Prop :=
  match c_comp s with
  | Some (chosen, merged) =>
      c_lock s = Some OComp /\
      merged = concat (map (rs_visible (c_tbl s)) (filter (fun rs => memb (rs_id rs) chosen) (d_rowsets (c_tbl s)))) /\
      (forall id, memb id chosen = true -> id < d_next (c_tbl s))
  | None => True
  end.
Record J (s : cstate) : Prop := {
  J_inv : disk_inv (c_tbl s);
  J_nodup : NoDup (c_ins s);
  J_scan : Permutation (disk_scan (c_tbl s)) (expected s);
  J_comp : comp_ok s;
  J_lock : c_lock s <> Some OComp -> c_comp s = None;
  J_acked : incl (c_acked s) (c_ins s);
  J_dels : forall ds, In ds (c_dels s) -> incl (ds_targets ds) (c_ins s)
}.

Lemma memb_In x l : memb x l = true <-> In x l.
Proof.
  unfold memb. rewrite existsb_exists. split; [intros (y & Hy & E); apply Nat.eqb_eq in E; subst; exact Hy|intros H; exists x; split; [exact H|apply Nat.eqb_refl]].
Qed.
Lemma nodupb_NoDup l : nodupb l = true -> NoDup l.
Proof.
  induction l as [|x l IH]; cbn; intros H; [constructor|]. apply andb_prop in H as [H1 H2]. constructor; [|apply IH, H2].
  intros Hin. apply memb_In in Hin. rewrite Hin in H1. discriminate.
Qed.
Lemma memb_app x a b : memb x (a ++ b) = memb x a || memb x b.
Proof. unfold memb. apply existsb_app. Qed.
Lemma perm_filter {A} (f : A -> bool) l l' : Permutation l l' -> Permutation (filter f l) (filter f l').
Proof.
  induction 1; cbn; auto.
  - destruct (f x); auto.
  - destruct (f x), (f y); auto. apply perm_swap.
  - eapply Permutation_trans; eassumption.
Qed.
Lemma filter_filter {A} (f g : A -> bool) l : filter f (filter g l) = filter (fun x => g x && f x) l.
Proof. induction l as [|x l IH]; cbn; [reflexivity|]. destruct (g x); cbn; [destruct (f x); rewrite IH; reflexivity|exact IH]. Qed.
Lemma expected_incl s : incl (expected s) (c_ins s).
Proof. intros x H. apply filter_In in H. tauto. Qed.
Lemma find_del_in d l ds : find_del d l = Some ds -> In ds l.
Proof. unfold find_del. intros H. apply find_some in H. tauto. Qed.
Lemma drop_del_in d l ds : In ds (drop_del d l) -> In ds l.
Proof. unfold drop_del. intros H. apply filter_In in H. tauto. Qed.

Lemma NoDup_app' {A} (a b : list A) : NoDup a -> NoDup b -> (forall x, In x a -> In x b -> False) -> NoDup (a ++ b).
Proof.
  induction a as [|x a IH]; cbn; intros Ha Hb Hd; [exact Hb|]. inversion Ha; subst. constructor.
  - rewrite in_app_iff. intros [H|H]; [tauto|]. apply (Hd x); auto.
  - apply IH; auto. intros y Hy. apply Hd. right; exact Hy.
Qed.
Lemma filter_id' {A} (f : A -> bool) : forall l, (forall y, In y l -> f y = true) -> filter f l = l.
Proof. induction l as [|x l IH]; intros H; cbn; [reflexivity|]. rewrite (H x (or_introl eq_refl)), IH; [reflexivity|]. intros y Hy. apply H. right; exact Hy. Qed.

Lemma J_init : J c_init.
Proof.
  constructor; cbn.
  - apply empty_inv.
  - constructor.
  - constructor.
  - exact I.
  - reflexivity.
  - intros ? [].
  - intros ? [].
Qed.

(** compaction with the rows read at pin time is invisible, because what it read is still what is there *)
Lemma compact_const_scan sel merged t : disk_inv t ->
  merged = concat (map (rs_visible t) (filter (fun rs => sel (rs_id rs)) (d_rowsets t))) ->
  Permutation (disk_scan (disk_compact sel (fun _ => merged) t)) (disk_scan t).
Proof.
  intros Hi Hm.
  assert (E : disk_compact sel (fun _ => merged) t =
              disk_compact sel (fun l => if list_eq_dec Nat.eq_dec l (concat (map (rs_visible t) (filter (fun rs => sel (rs_id rs)) (d_rowsets t)))) then merged else l) t).
  { unfold disk_compact. destruct (filter (fun rs => sel (rs_id rs)) (d_rowsets t)) as [|c1 [|c2 cs]]; try reflexivity.
    destruct (list_eq_dec _ _ _) as [_|N]; [reflexivity|contradiction N; reflexivity]. }
  rewrite E. apply disk_compact_scan; [exact Hi|]. intros l. destruct (list_eq_dec _ _ _) as [->|_]; [rewrite Hm; apply Permutation_refl|apply Permutation_refl].
Qed.

Lemma step_J s e s' : J s -> step s e = Some s' -> J s'.
Proof.
  intros [Hi Hn Hs Hc Hl Ha Hd] E. destruct e as [rows|d p|d|d| |sel| |]; cbn [step] in E.
  - (* insert *)
    destruct (forallb (fun r => negb (memb r (c_ins s))) rows) eqn:Hf; [|discriminate]. cbn [andb] in E.
    destruct (nodupb rows) eqn:Hnb; [|discriminate]. apply nodupb_NoDup in Hnb. rename Hnb into Hnd. inversion E; subst; clear E.
    rewrite forallb_forall in Hf.
    assert (Hfresh : forall r, In r rows -> ~ In r (c_ins s)).
    { intros r Hr Hin. specialize (Hf r Hr). apply negb_true_iff in Hf. apply memb_In in Hin. congruence. }
    constructor; cbn [c_tbl c_lock c_comp c_dels c_acked c_ins].
    + apply disk_insert_inv, Hi.
    + apply NoDup_app'; try assumption. intros x Hx Hr. apply (Hfresh x Hr Hx).
    + rewrite disk_insert_scan by exact Hi. unfold expected. cbn [c_acked c_ins]. rewrite filter_app.
      apply Permutation_app; [exact Hs|]. rewrite filter_id'; [apply Permutation_refl|].
      intros r Hr. apply negb_true_iff. destruct (memb r (c_acked s)) eqn:Em; [|reflexivity].
      apply memb_In in Em. exfalso. apply (Hfresh r Hr), Ha, Em.
    + unfold comp_ok in *. cbn [c_comp c_lock c_tbl]. destruct (c_comp s) as [[chosen merged]|]; [|exact I].
      destruct Hc as (Hlk & Hm & Hb). split; [exact Hlk|].
      destruct rows as [|r0 rws]; [cbn [disk_insert]; auto|]. cbn [disk_insert d_rowsets d_next].
      destruct Hi as (_ & _ & Hdv).
      split.
      * rewrite filter_app. cbn [filter rs_id].
        destruct (memb (d_next (c_tbl s)) chosen) eqn:Em; [apply Hb in Em; lia|]. rewrite app_nil_r. rewrite Hm.
        reflexivity.
      * intros id Hid. apply Hb in Hid. lia.
    + exact Hl.
    + intros x Hx. apply in_or_app. left. apply Ha, Hx.
    + intros ds Hds x Hx. apply in_or_app. left. eapply Hd; eassumption.
  - (* delete begins: the scan locates its rows *)
    destruct (find_del d (c_dels s)); [discriminate|]. unfold located in E. inversion E; subst; clear E.
    constructor; cbn [c_tbl c_lock c_comp c_dels c_acked c_ins]; try assumption.
    intros ds [<-|Hds]; [|apply Hd, Hds]. cbn [ds_targets]. intros x Hx. apply filter_In in Hx as [Hx _].
    apply expected_incl. eapply Permutation_in; [exact Hs|exact Hx].
  - (* delete takes the lock *)
    destruct (c_lock s) eqn:El; [discriminate|]. destruct (find_del d (c_dels s)); [|discriminate]. inversion E; subst; clear E.
    assert (Hcn : c_comp s = None) by (apply Hl; discriminate).
    constructor; cbn [c_tbl c_lock c_comp c_dels c_acked c_ins]; try assumption.
    + unfold comp_ok in *. cbn [c_comp]. rewrite Hcn. exact I.
    + intros _. exact Hcn.
  - (* delete commits *)
    destruct (c_lock s) as [[|d']|] eqn:El; try discriminate. destruct (find_del d (c_dels s)) as [ds|] eqn:Ef; [|discriminate].
    destruct (Nat.eqb d d'); [|discriminate].
    assert (Hcn : c_comp s = None) by (apply Hl; discriminate).
    destruct (forallb _ (ds_rsids ds)); inversion E; subst; clear E.
    + constructor; cbn [c_tbl c_lock c_comp c_dels c_acked c_ins].
      * pose proof (disk_delete_inv (fun r => memb r (ds_targets ds)) (c_tbl s) Hi) as Hdi. unfold disk_delete in Hdi. cbn [fst] in Hdi. exact Hdi.
      * exact Hn.
      * pose proof (proj1 (disk_delete_scan (fun r => memb r (ds_targets ds)) (c_tbl s) Hi)) as Hds. unfold disk_delete in Hds. cbn [fst] in Hds. rewrite Hds. unfold expected. cbn [c_acked c_ins].
        eapply Permutation_trans; [apply perm_filter, Hs|]. unfold expected. rewrite filter_filter.
        erewrite filter_ext; [apply Permutation_refl|]. intros r. cbn. rewrite memb_app, negb_orb. reflexivity.
      * unfold comp_ok. cbn [c_comp]. rewrite Hcn. exact I.
      * intros _. exact Hcn.
      * intros x Hx. apply in_app_or in Hx as [Hx|Hx]; [apply Ha, Hx|]. apply (Hd ds (find_del_in _ _ _ Ef)), Hx.
      * intros ds0 Hds0. apply Hd. eapply drop_del_in, Hds0.
    + constructor; cbn [c_tbl c_lock c_comp c_dels c_acked c_ins]; try assumption.
      * unfold comp_ok. cbn [c_comp]. rewrite Hcn. exact I.
      * intros _. exact Hcn.
      * intros ds0 Hds0. apply Hd. eapply drop_del_in, Hds0.
  - (* compactor takes the lock *)
    destruct (c_lock s) eqn:El; [discriminate|]. inversion E; subst; clear E.
    constructor; cbn [c_tbl c_lock c_comp c_dels c_acked c_ins]; try assumption; [exact I|reflexivity].
  - (* compactor pins and reads, holding the lock *)
    destruct (c_lock s) as [[|]|] eqn:El; try discriminate. destruct (c_comp s) eqn:Ec; [discriminate|]. inversion E; subst; clear E.
    constructor; cbn [c_tbl c_lock c_comp c_dels c_acked c_ins]; try assumption; [|intros H; contradiction H; reflexivity].
    unfold comp_ok. cbn [c_comp c_lock c_tbl]. split; [reflexivity|].
    assert (Hfe : filter (fun rs => memb (rs_id rs) (map rs_id (filter (fun rs0 => sel (rs_id rs0)) (d_rowsets (c_tbl s))))) (d_rowsets (c_tbl s))
                  = filter (fun rs => sel (rs_id rs)) (d_rowsets (c_tbl s))).
    { apply filter_ext_in. intros rs Hrs. destruct (sel (rs_id rs)) eqn:Es.
      - apply memb_In. apply in_map_iff. exists rs. split; [reflexivity|]. apply filter_In. auto.
      - destruct (memb _ _) eqn:Em; [|reflexivity]. apply memb_In in Em. apply in_map_iff in Em as (rs' & Eid & Hin).
        apply filter_In in Hin as [_ Hsel]. rewrite Eid in Hsel. congruence. }
    split; [rewrite Hfe; reflexivity|].
    intros id Hid. apply memb_In in Hid. apply in_map_iff in Hid as (rs & <- & Hin). apply filter_In in Hin as [Hin _].
    destruct Hi as (_ & Hr & _). rewrite Forall_forall in Hr. apply Hr, Hin.
  - (* compactor commits the swap *)
    destruct (c_lock s) as [[|]|] eqn:El; try discriminate. destruct (c_comp s) as [[chosen merged]|] eqn:Ec; [|discriminate]. inversion E; subst; clear E.
    unfold comp_ok in Hc. rewrite Ec in Hc. destruct Hc as (_ & Hm & _).
    constructor; cbn [c_tbl c_lock c_comp c_dels c_acked c_ins]; try assumption.
    + apply disk_compact_inv, Hi.
    + eapply Permutation_trans; [apply compact_const_scan; [exact Hi|exact Hm]|]. exact Hs.
    + exact I.
    + intros _. reflexivity.
  - (* compactor releases the lock *)
    destruct (c_lock s) as [[|]|] eqn:El; try discriminate. destruct (c_comp s) eqn:Ec; [discriminate|]. inversion E; subst; clear E.
    constructor; cbn [c_tbl c_lock c_comp c_dels c_acked c_ins]; try assumption; [exact I|reflexivity].
Qed.

(** for EVERY interleaving of the protocol's events: the table holds exactly the acknowledged
    inserts minus the rows of the acknowledged deletes; none twice *)
Theorem compaction_never_loses_or_resurrects : forall es s, run c_init es = Some s ->
  Permutation (disk_scan (c_tbl s)) (expected s) /\ NoDup (disk_scan (c_tbl s)).
Proof.
  assert (G : forall es s0 s, J s0 -> run s0 es = Some s -> J s).
  { induction es as [|e es IH]; intros s0 s Hj E; cbn [run] in E; [inversion E; subst; exact Hj|].
    destruct (step s0 e) as [s1|] eqn:Es; [|discriminate]. eapply IH; [eapply step_J; eassumption|exact E]. }
  intros es s E. pose proof (G es c_init s J_init E) as [Hi Hn Hs _ _ _ _]. split; [exact Hs|].
  eapply Permutation_NoDup; [apply Permutation_sym, Hs|]. unfold expected. clear - Hn. induction Hn as [|x l Hx Hl IH]; cbn; [constructor|]. destruct (negb (memb x (c_acked s))); [constructor; [intros H; apply filter_In in H; tauto|exact IH]|exact IH].
Qed.
