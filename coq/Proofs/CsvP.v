(** * CSV writer / reader round trip (C20) *)
From RL Require Import Model.Csv.
From Coq Require Import Lia.

Section CsvP.
  Variables d q : Z.
  Hypothesis Hdq : d <> q.
  Hypothesis Hd : d <> 10 /\ d <> 13.
  Hypothesis Hq : q <> 10 /\ q <> 13.

  Lemma parse_unq : forall f cur fs acc rest, (forall c, In c f -> special d q c = false) ->
    parse_go d q PUnq cur fs acc (f ++ rest) = parse_go d q PUnq (cur ++ f) fs acc rest.
  Proof.
    induction f as [|c f IH]; intros cur fs acc rest H; cbn [app]; [rewrite app_nil_r; reflexivity|].
    pose proof (H c (or_introl eq_refl)) as Hc. unfold special in Hc. apply orb_false_iff in Hc as [Hc H13]. apply orb_false_iff in Hc as [Hc H10].
    apply orb_false_iff in Hc as [Hcd Hcq]. cbn [parse_go]. unfold is_nl. rewrite Hcd, H10, H13. cbn [orb].
    rewrite IH by (intros c' Hc'; apply H; right; exact Hc'). rewrite <- app_assoc. reflexivity.
  Qed.
  Lemma parse_q : forall f cur fs acc rest,
    parse_go d q PQ cur fs acc (esc q f ++ rest) = parse_go d q PQ (cur ++ f) fs acc rest.
  Proof.
    induction f as [|c f IH]; intros cur fs acc rest; cbn [esc app]; [rewrite app_nil_r; reflexivity|].
    destruct (Z.eqb_spec c q) as [->|N].
    - cbn [app parse_go]. rewrite ?Z.eqb_refl. rewrite IH, <- app_assoc. reflexivity.
    - cbn [app parse_go]. destruct (Z.eqb_spec c q); [contradiction|]. rewrite IH, <- app_assoc. reflexivity.
  Qed.
  Lemma eqb_false a b : a <> b -> Z.eqb a b = false. Proof. intros; apply Z.eqb_neq; assumption. Qed.

  (** a written field followed by the delimiter *)
  Lemma parse_field_d f fs acc rest :
    parse_go d q PStart [] fs acc (write_field d q f ++ d :: rest) = parse_go d q PStart [] (fs ++ [f]) acc rest.
  Proof.
    unfold write_field. destruct (needs_quote d q f) eqn:Nq.
    - cbn [app parse_go]. rewrite ?Z.eqb_refl. rewrite <- app_assoc, parse_q. cbn [app parse_go]. rewrite ?Z.eqb_refl.
      rewrite ?(eqb_false d q Hdq), ?Z.eqb_refl. reflexivity.
    - destruct f as [|c f].
      + cbn [app parse_go]. rewrite (eqb_false d q Hdq), Z.eqb_refl. reflexivity.
      + assert (Hall : forall c', In c' (c :: f) -> special d q c' = false).
        { intros c' Hc'. unfold needs_quote in Nq. destruct (special d q c') eqn:E; [|reflexivity].
          assert (existsb (special d q) (c :: f) = true) by (apply existsb_exists; exists c'; auto). congruence. }
        pose proof (Hall c (or_introl eq_refl)) as Hc. unfold special in Hc. apply orb_false_iff in Hc as [Hc H13]. apply orb_false_iff in Hc as [Hc H10].
        apply orb_false_iff in Hc as [Hcd Hcq]. cbn [app parse_go]. unfold is_nl. rewrite Hcq, Hcd, H10, H13. cbn [orb].
        rewrite parse_unq by (intros c' Hc'; apply Hall; right; exact Hc'). cbn [app parse_go]. rewrite Z.eqb_refl. reflexivity.
  Qed.
  (** a written field followed by the record terminator *)
  Lemma parse_field_nl f fs acc rest : fs <> [] \/ f <> [] ->
    parse_go d q PStart [] fs acc (write_field d q f ++ 10 :: rest) = parse_go d q PStart [] [] (acc ++ [fs ++ [f]]) rest.
  Proof.
    intros Hne. destruct Hd as [Hd10 Hd13], Hq as [Hq10 Hq13].
    unfold write_field. destruct (needs_quote d q f) eqn:Nq.
    - cbn [app parse_go]. rewrite ?Z.eqb_refl. rewrite <- app_assoc, parse_q. cbn [app parse_go]. rewrite ?Z.eqb_refl.
      rewrite ?(eqb_false 10 q), ?(eqb_false 10 d) by congruence. reflexivity.
    - destruct f as [|c f].
      + cbn [app parse_go]. rewrite (eqb_false 10 q), (eqb_false 10 d) by congruence. cbn [is_nl Z.eqb orb].
        destruct fs; [destruct Hne; contradiction|reflexivity].
      + assert (Hall : forall c', In c' (c :: f) -> special d q c' = false).
        { intros c' Hc'. unfold needs_quote in Nq. destruct (special d q c') eqn:E; [|reflexivity].
          assert (existsb (special d q) (c :: f) = true) by (apply existsb_exists; exists c'; auto). congruence. }
        pose proof (Hall c (or_introl eq_refl)) as Hc. unfold special in Hc. apply orb_false_iff in Hc as [Hc H13]. apply orb_false_iff in Hc as [Hc H10].
        apply orb_false_iff in Hc as [Hcd Hcq]. cbn [app parse_go]. unfold is_nl. rewrite Hcq, Hcd, H10, H13. cbn [orb].
        rewrite parse_unq by (intros c' Hc'; apply Hall; right; exact Hc'). cbn [app parse_go].
        rewrite (eqb_false 10 d) by congruence. cbn [is_nl Z.eqb orb]. reflexivity.
  Qed.

  Lemma parse_fields : forall l fs0 acc rest, l <> [] -> ~ (fs0 = [] /\ l = [[]]) ->
    parse_go d q PStart [] fs0 acc (write_fields d q l ++ rest) = parse_go d q PStart [] [] (acc ++ [fs0 ++ l]) rest.
  Proof.
    induction l as [|f l IH]; intros fs0 acc rest Hne Hs; [contradiction|].
    destruct l as [|f2 l].
    - cbn [write_fields]. rewrite <- app_assoc. cbn [app]. apply parse_field_nl.
      destruct fs0; [right; intros ->; apply Hs; auto|left; discriminate].
    - change (write_fields d q (f :: f2 :: l)) with (write_field d q f ++ d :: write_fields d q (f2 :: l)).
      rewrite <- app_assoc. cbn [app]. rewrite parse_field_d. rewrite IH; [rewrite <- app_assoc; reflexivity|discriminate|].
      intros [E _]. destruct fs0; discriminate.
  Qed.
  Lemma parse_record fs acc rest : fs <> [] ->
    parse_go d q PStart [] [] acc (write_record d q fs ++ rest) = parse_go d q PStart [] [] (acc ++ [fs]) rest.
  Proof.
    intros Hne. destruct Hq as [Hq10 Hq13].
    destruct fs as [|f fs]; [contradiction|]. destruct f as [|c f]; [destruct fs as [|f2 fs]|].
    - destruct Hd as [Hd10 _]. cbn [write_record app parse_go]. rewrite ?Z.eqb_refl.
      rewrite ?(eqb_false 10 q), ?(eqb_false 10 d) by congruence. reflexivity.
    - change (write_record d q ([] :: f2 :: fs)) with (write_fields d q ([] :: f2 :: fs)). apply parse_fields; [discriminate|intros [_ E]; discriminate].
    - change (write_record d q ((c :: f) :: fs)) with (write_fields d q ((c :: f) :: fs)). apply parse_fields; [discriminate|intros [_ E]; discriminate].
  Qed.
  (** every file of records (each with at least one field; fields are arbitrary byte strings,
      including delimiters, quotes, line breaks and the empty string) reads back as itself *)
  Theorem csv_roundtrip : forall recs acc, Forall (fun r => r <> []) recs ->
    parse_go d q PStart [] [] acc (write_file d q recs) = acc ++ recs.
  Proof.
    induction recs as [|r recs IH]; intros acc H; [cbn; rewrite app_nil_r; reflexivity|].
    inversion H; subst. unfold write_file. cbn [map concat]. rewrite parse_record by assumption.
    fold (write_file d q recs). rewrite IH by assumption. rewrite <- app_assoc. reflexivity.
  Qed.
  Corollary csv_roundtrip' recs : Forall (fun r => r <> []) recs -> parse d q (write_file d q recs) = recs.
  Proof. intros H. unfold parse. rewrite csv_roundtrip by exact H. reflexivity. Qed.

  (** ** tables of text cells: exact except for the two NULL / text confusions *)
  Definition cell_safe (c : option (list Z)) : Prop := c <> None /\ c <> Some [].
  Theorem copy_roundtrip_exact rows :
    Forall (fun r => r <> [] /\ Forall cell_safe r) rows -> copy_roundtrip d q rows = rows.
  Proof.
    intros H. unfold copy_roundtrip. rewrite csv_roundtrip'.
    - rewrite map_map. rewrite <- (map_id rows) at 2. apply map_ext_in. intros r Hr. rewrite Forall_forall in H. destruct (H r Hr) as [_ Hc].
      rewrite map_map. rewrite <- (map_id r) at 2. apply map_ext_in. intros c Hin. rewrite Forall_forall in Hc. destruct (Hc c Hin) as [H1 H2].
      destruct c as [s|]; [|contradiction]. destruct s; [contradiction H2; reflexivity|reflexivity].
    - apply Forall_forall. intros r Hr. apply in_map_iff in Hr as (r0 & <- & Hr0). rewrite Forall_forall in H. destruct (H r0 Hr0) as [Hne _].
      destruct r0; [contradiction|discriminate].
  Qed.
End CsvP.

(** known findings, as computations: a NULL comes back as the text NULL, an empty string as NULL *)
Lemma null_roundtrip_refuted : copy_roundtrip 44 34 [[None; Some [65]]] = [[Some null_text; Some [65]]].
Proof. reflexivity. Qed.
Lemma empty_string_roundtrip_refuted : copy_roundtrip 44 34 [[Some []; Some [65]]] = [[None; Some [65]]].
Proof. reflexivity. Qed.
