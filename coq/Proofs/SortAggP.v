(** * C11 — sort aggregation over input sorted on the group keys = hash aggregation (as lists: the
    groups come out in the same, first-seen order, each with the same aggregate values). *)
From RL Require Import Model.Exec Proofs.ValP Proofs.ExecP Proofs.MergeJoinP.
From Coq Require Import Lia Sorted.
Open Scope Z_scope.

Fixpoint fresh (ks : list sx) (rows : list row) (seen : list row) : list row :=
  match rows with
  | [] => []
  | r :: rest => let k := keys_of ks r in
                 if existsb (row_eqb k) seen then fresh ks rest seen else k :: fresh ks rest (k :: seen)
  end.
Lemma distinct_keys_fresh ks : forall rows seen, distinct_keys ks rows seen = rev seen ++ fresh ks rows seen.
Proof.
  induction rows as [|r rows IH]; intros seen; cbn [distinct_keys fresh]; [rewrite app_nil_r; reflexivity|].
  destruct (existsb (row_eqb (keys_of ks r)) seen); [apply IH|].
  rewrite IH. cbn [rev]. rewrite <- app_assoc. reflexivity.
Qed.
Lemma existsb_row_in k seen : existsb (row_eqb k) seen = true <-> In k seen.
Proof.
  rewrite existsb_exists. split.
  - intros (x & Hx & E). apply row_eqb_eq in E. subst. exact Hx.
  - intros H. exists k. split; [exact H|apply row_eqb_refl].
Qed.
(** a run of rows that all have key [k] *)
Lemma fresh_run_seen ks k g rest seen : (forall r, In r g -> keys_of ks r = k) -> In k seen ->
  fresh ks (g ++ rest) seen = fresh ks rest seen.
Proof.
  intros Hg Hin. induction g as [|r g IH]; [reflexivity|]. cbn [app fresh]. rewrite (Hg r (or_introl eq_refl)).
  rewrite (proj2 (existsb_row_in k seen) Hin). apply IH. intros x Hx. apply Hg. right. exact Hx.
Qed.
Lemma fresh_run_new ks k g rest seen : g <> [] -> (forall r, In r g -> keys_of ks r = k) -> ~ In k seen ->
  fresh ks (g ++ rest) seen = k :: fresh ks rest (k :: seen).
Proof.
  intros Hne Hg Hnin. destruct g as [|r g]; [contradiction|]. cbn [app fresh]. rewrite (Hg r (or_introl eq_refl)).
  destruct (existsb (row_eqb k) seen) eqn:E; [apply existsb_row_in in E; contradiction|].
  f_equal. apply (fresh_run_seen ks k g rest (k :: seen)); [intros x Hx; apply Hg; right; exact Hx|left; reflexivity].
Qed.
Lemma fresh_groups ks : forall G seen, gkeys_inc G ->
  Forall (fun kg => snd kg <> [] /\ forall r, In r (snd kg) -> keys_of ks r = fst kg) G ->
  (forall kg, In kg G -> ~ In (fst kg) seen) ->
  fresh ks (concat (map snd G)) seen = map fst G.
Proof.
  induction G as [|[k g] G IH]; intros seen Hinc HF Hs; [reflexivity|]. cbn [map snd fst concat].
  inversion Hinc as [|? ? Hinc' Hall]; subst. inversion HF as [|? ? [Hne Hg] HF']; subst. cbn [fst snd] in *.
  rewrite (fresh_run_new ks k g _ seen Hne Hg) by (apply (Hs (k, g)); left; reflexivity).
  f_equal. apply IH; try assumption. intros kg Hin [E|Hi].
  - rewrite Forall_forall in Hall. specialize (Hall kg Hin). cbn in Hall. rewrite <- E, row_cmp_refl in Hall. discriminate.
  - apply (Hs kg); [right; exact Hin|exact Hi].
Qed.
Lemma gfind_member k g G : gkeys_inc G -> In (k, g) G -> gfind k G = g.
Proof.
  induction G as [|[k' g'] G IH]; intros Hinc Hin; [destruct Hin|]. inversion Hinc as [|? ? Hinc' Hall]; subst.
  destruct Hin as [E|Hin].
  - inversion E; subst. unfold gfind. cbn [find fst]. rewrite row_eqb_refl. reflexivity.
  - rewrite gfind_skip; [apply IH; assumption|]. rewrite Forall_forall in Hall. specialize (Hall _ Hin). cbn in Hall. apply row_lt_ne, Hall.
Qed.

Theorem sortagg_eq_hashagg ks aggs c : sorted_on ks (concat c) -> x_sortagg ks aggs c = x_hashagg ks aggs c.
Proof.
  intros Hs. unfold x_sortagg, x_hashagg. set (rows := concat c) in *.
  pose proof (group_runs_inc ks rows Hs) as Hinc. pose proof (group_runs_keys ks rows) as HF.
  rewrite distinct_keys_fresh. cbn [rev app].
  rewrite <- (group_runs_concat ks rows) at 2. rewrite (fresh_groups ks _ [] Hinc HF) by (intros kg _ []).
  rewrite map_map. apply map_ext_in. intros [k g] Hin. cbn [fst snd]. f_equal. apply map_ext. intros a. f_equal.
  rewrite (filter_ext _ (fun r => row_eqb k (keys_of ks r))).
  - rewrite (filter_by_key ks k rows Hs). symmetry. apply gfind_member; assumption.
  - intros r. unfold row_eqb. rewrite (row_cmp_antisym k (keys_of ks r)). destruct (row_cmp k (keys_of ks r)); reflexivity.
Qed.

Example sortagg_example :
  let c := [[ [DNull; DI32 4]; [DI32 1; DI32 5] ]; [ [DI32 1; DNull]; [DI32 3; DI32 7] ]] in
  sorted_on [SCol 0] (concat c) /\
  x_sortagg [SCol 0] [ASum (SCol 1); ACount (SCol 1)] c = [[DNull; DI32 4; DI32 1]; [DI32 1; DI32 5; DI32 1]; [DI32 3; DI32 7; DI32 1]].
Proof.
  cbv zeta. split; [|reflexivity]. unfold sorted_on; cbn [concat app];
    repeat (constructor; [|repeat (constructor; [cbn; discriminate|]); constructor]); constructor.
Qed.
