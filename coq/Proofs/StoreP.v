(** * C07 / C05: delete vectors are applied exactly; insert, delete and compaction do to the
      visible rows of the disk engine what they do to a plain bag; both engines refine that bag. *)
From RL Require Import Model.Store.
From Coq Require Import Lia Permutation Sorted.

(** ** DeleteVector::apply_to *)
Definition increasing (l : list nat) : Prop := StronglySorted lt l.

Lemma drop_below_spec : forall deletes offset, increasing deletes ->
  increasing (drop_below deletes offset) /\
  (forall x, In x (drop_below deletes offset) <-> In x deletes /\ offset <= x).
Proof.
  induction deletes as [|d r IH]; intros offset Hs; cbn [drop_below].
  - split; [constructor|]. intros x. cbn. tauto.
  - inversion Hs as [|? ? Hr Hall]; subst. destruct (Nat.ltb_spec d offset) as [H|H].
    + destruct (IH offset Hr) as [I1 I2]. split; [exact I1|]. intros x. rewrite I2. cbn. split; [tauto|].
      intros [[->|Hx] Ho]; [lia|tauto].
    + split; [exact Hs|]. intros x. split; [|tauto]. intros Hx. split; [exact Hx|].
      destruct Hx as [<-|Hx]; [exact H|]. rewrite Forall_forall in Hall. specialize (Hall x Hx). lia.
Qed.

Lemma apply_go_spec : forall vis pending row, increasing pending -> (forall x, In x pending -> row <= x) ->
  forall i, i < length vis ->
  nth i (apply_go pending row vis) true = nth i vis true && negb (existsb (Nat.eqb (row + i)) pending).
Proof.
  induction vis as [|b vs IH]; intros pending row Hs Hlow i Hi; cbn in Hi; [lia|].
  destruct pending as [|d ps]; cbn [apply_go].
  - destruct i as [|i]; cbn [nth existsb negb]; [rewrite andb_true_r; reflexivity|].
    rewrite (IH [] (S row)) by (try constructor; try lia; intros x []). cbn. rewrite andb_true_r. reflexivity.
  - inversion Hs as [|? ? Hps Hall]; subst. rewrite Forall_forall in Hall.
    destruct (Nat.eqb_spec d row) as [->|Hne].
    + destruct i as [|i]; cbn [nth].
      * cbn [existsb]. rewrite Nat.add_0_r, Nat.eqb_refl. cbn. rewrite andb_false_r. reflexivity.
      * rewrite (IH ps (S row)); [|exact Hps|intros x Hx; specialize (Hall x Hx); lia|lia].
        cbn [existsb]. replace (S row + i) with (row + S i) by lia.
        destruct (Nat.eqb_spec (row + S i) row); [lia|]. reflexivity.
    + assert (Hd : row < d) by (specialize (Hlow d (or_introl eq_refl)); lia).
      destruct i as [|i]; cbn [nth].
      * rewrite Nat.add_0_r. cbn [existsb]. destruct (Nat.eqb_spec row d); [lia|].
        replace (existsb (Nat.eqb row) ps) with false; [cbn; rewrite andb_true_r; reflexivity|].
        symmetry. apply not_true_is_false. intros E. apply existsb_exists in E as (x & Hx & Ex). apply Nat.eqb_eq in Ex. subst x.
        specialize (Hall row Hx). lia.
      * rewrite (IH (d :: ps) (S row)); [|exact Hs|intros x [<-|Hx]; [lia|specialize (Hall x Hx); lia]|lia].
        replace (S row + i) with (row + S i) by lia. reflexivity.
Qed.

(** bit i of the visibility map is cleared iff row id offset+i is in the delete vector *)
Theorem apply_to_spec deletes offset vis i : increasing deletes -> i < length vis ->
  nth i (apply_to deletes offset vis) true = nth i vis true && negb (existsb (Nat.eqb (offset + i)) deletes).
Proof.
  intros Hs Hi. unfold apply_to. destruct (drop_below_spec deletes offset Hs) as [I1 I2].
  rewrite apply_go_spec; [|exact I1|intros x Hx; apply I2 in Hx; lia|exact Hi].
  f_equal. f_equal.
  destruct (existsb (Nat.eqb (offset + i)) deletes) eqn:E.
  - apply existsb_exists in E as (x & Hx & Ex). apply existsb_exists. exists x. split; [|exact Ex].
    apply Nat.eqb_eq in Ex. apply I2. split; [exact Hx|lia].
  - apply not_true_is_false. intros E'. apply existsb_exists in E' as (x & Hx & Ex). apply I2 in Hx.
    assert (existsb (Nat.eqb (offset + i)) deletes = true) by (apply existsb_exists; exists x; tauto). congruence.
Qed.

(** ** the disk engine *)
(** invariant: row-set ids are distinct and below the id generator, and every delete vector refers
    to an id below the generator (a fresh row-set therefore never inherits a delete vector) *)
Definition disk_inv (t : disk_table) : Prop :=
  NoDup (map rs_id (d_rowsets t)) /\
  Forall (fun rs => rs_id rs < d_next t) (d_rowsets t) /\
  Forall (fun dv => fst dv < d_next t) (d_dvs t).

Lemma rs_visible_ext t t' rs : (forall ri, rs_deleted t (rs_id rs) ri = rs_deleted t' (rs_id rs) ri) ->
  rs_visible t rs = rs_visible t' rs.
Proof.
  intros H. unfold rs_visible. f_equal. apply filter_ext. intros [ri r]. rewrite H. reflexivity.
Qed.

Lemma fresh_not_deleted t id ri : Forall (fun dv => fst dv < d_next t) (d_dvs t) -> d_next t <= id -> rs_deleted t id ri = false.
Proof.
  intros H Hid. unfold rs_deleted. apply not_true_is_false. intros E. apply existsb_exists in E as (dv & Hdv & E).
  rewrite Forall_forall in H. specialize (H dv Hdv). apply andb_prop in E as [E _]. apply Nat.eqb_eq in E. lia.
Qed.

Lemma all_visible t rs : (forall ri, rs_deleted t (rs_id rs) ri = false) -> rs_visible t rs = rs_rows rs.
Proof.
  intros H. unfold rs_visible. rewrite (filter_ext _ (fun _ => true)) by (intros [ri r]; rewrite H; reflexivity).
  assert (F : forall {A} (l : list A), filter (fun _ => true) l = l) by (intros A l; induction l; cbn; congruence).
  rewrite F. clear. generalize 0. induction (rs_rows rs) as [|x l IH]; intros n; cbn; [reflexivity|]. rewrite IH. reflexivity.
Qed.

Theorem disk_insert_scan t rows : disk_inv t -> disk_scan (disk_insert t rows) = disk_scan t ++ rows.
Proof.
  intros (Hn & Hr & Hd). unfold disk_insert. destruct rows as [|r rows]; [rewrite app_nil_r; reflexivity|].
  set (t' := {| d_rowsets := d_rowsets t ++ [{| rs_id := d_next t; rs_rows := r :: rows |}]; d_dvs := d_dvs t; d_next := S (d_next t) |}).
  unfold disk_scan. cbn [d_rowsets t']. rewrite map_app, concat_app. cbn [map concat]. rewrite app_nil_r.
  assert (H1 : map (rs_visible t') (d_rowsets t) = map (rs_visible t) (d_rowsets t)).
  { apply map_ext. intros rs. apply rs_visible_ext. reflexivity. }
  assert (H2 : rs_visible t' {| rs_id := d_next t; rs_rows := r :: rows |} = r :: rows).
  { apply all_visible. intros ri. cbn [rs_id]. apply (fresh_not_deleted t (d_next t) ri Hd). lia. }
  rewrite H1, H2. reflexivity.
Qed.

Lemma NoDup_snoc {A} (l : list A) x : NoDup l -> ~ In x l -> NoDup (l ++ [x]).
Proof.
  intros Hl Hx. induction Hl as [|y l Hy Hl IH]; cbn; [constructor; [intros []|constructor]|].
  constructor.
  - rewrite in_app_iff. intros [H|[H|[]]]; [contradiction|]. subst. apply Hx. left. reflexivity.
  - apply IH. intros H. apply Hx. right. exact H.
Qed.

Theorem disk_insert_inv t rows : disk_inv t -> disk_inv (disk_insert t rows).
Proof.
  intros (Hn & Hr & Hd). unfold disk_insert. destruct rows as [|r rows]; [repeat split; assumption|].
  unfold disk_inv. cbn [d_rowsets d_dvs d_next]. repeat split.
  - rewrite map_app. cbn [map rs_id]. apply NoDup_snoc; [exact Hn|].
    intros H. apply in_map_iff in H as (rs & E & Hrs). rewrite Forall_forall in Hr. specialize (Hr rs Hrs). lia.
  - apply Forall_app. split; [eapply Forall_impl; [|exact Hr]; cbn; intros; lia|constructor; [cbn; lia|constructor]].
  - eapply Forall_impl; [|exact Hd]. cbn. intros; lia.
Qed.

Lemma NoDup_map_inj {A B} (f : A -> B) : forall l x y, NoDup (map f l) -> In x l -> In y l -> f x = f y -> x = y.
Proof.
  induction l as [|z l IH]; intros x y Hn Hx Hy E; [contradiction|]. cbn in Hn. inversion Hn as [|? ? Hz Hn']; subst.
  destruct Hx as [<-|Hx], Hy as [<-|Hy]; try reflexivity.
  - exfalso. apply Hz. rewrite E. apply in_map. exact Hy.
  - exfalso. apply Hz. rewrite <- E. apply in_map. exact Hx.
  - apply IH; assumption.
Qed.

Lemma idx_in_filter {B} (f : nat * B -> bool) : forall l ri r, NoDup (map fst l) -> In (ri, r) l ->
  existsb (Nat.eqb ri) (map fst (filter f l)) = f (ri, r).
Proof.
  induction l as [|[i x] l IH]; intros ri r Hn Hin; [contradiction|]. cbn in Hn. inversion Hn as [|? ? Hi Hn']; subst.
  destruct Hin as [E|Hin].
  - inversion E; subst. cbn [filter]. destruct (f (ri, r)) eqn:Ef.
    + cbn. rewrite Nat.eqb_refl. reflexivity.
    + apply not_true_is_false. intros H. apply existsb_exists in H as (j & Hj & Ej). apply Nat.eqb_eq in Ej. subst j.
      apply Hi. apply in_map_iff in Hj as ([j y] & Ej & Hy). cbn in Ej. subst j. apply filter_In in Hy as [Hy _].
      apply in_map_iff. exists (ri, y). split; [reflexivity|exact Hy].
  - cbn [filter]. destruct (f (i, x)); cbn [map fst existsb].
    + destruct (Nat.eqb_spec ri i) as [->|]; [exfalso; apply Hi; apply in_map_iff; exists (i, r); split; [reflexivity|exact Hin]|].
      cbn. apply IH; assumption.
    + apply IH; assumption.
Qed.
Lemma map_fst_combine_seq {B} : forall (l : list B) a, map fst (combine (seq a (length l)) l) = seq a (length l).
Proof. induction l as [|x l IH]; intros a; [reflexivity|]. cbn. rewrite IH. reflexivity. Qed.
Lemma filter_snd_comm {B} (g : nat * B -> bool) (h : B -> bool) : forall L,
  map snd (filter (fun x => g x && h (snd x)) L) = filter h (map snd (filter g L)).
Proof.
  induction L as [|x L IH]; [reflexivity|]. cbn [filter]. destruct (g x); cbn [andb map filter]; [|exact IH].
  destruct (h (snd x)); cbn [map]; rewrite IH; reflexivity.
Qed.

(** DELETE removes exactly the visible rows that satisfy the predicate, and reports their number *)
Lemma rs_deleted_app t new id ri :
  rs_deleted {| d_rowsets := d_rowsets t; d_dvs := d_dvs t ++ new; d_next := d_next t |} id ri
  = rs_deleted t id ri || existsb (fun dv => Nat.eqb (fst dv) id && existsb (Nat.eqb ri) (snd dv)) new.
Proof. unfold rs_deleted. cbn [d_dvs]. apply existsb_app. Qed.

Theorem disk_delete_scan p t : disk_inv t ->
  disk_scan (fst (disk_delete p t)) = filter (fun r => negb (p r)) (disk_scan t) /\
  snd (disk_delete p t) = length (filter p (disk_scan t)).
Proof.
  intros (Hn & Hr & Hd). unfold disk_delete. cbn [fst snd].
  set (hits := fun rs => map fst (filter (fun '(ri, r) => p r && negb (rs_deleted t (rs_id rs) ri))
                                         (combine (seq 0 (length (rs_rows rs))) (rs_rows rs)))).
  set (new := flat_map (fun rs => match hits rs with [] => [] | h => [(rs_id rs, h)] end) (d_rowsets t)).
  set (t' := {| d_rowsets := d_rowsets t; d_dvs := d_dvs t ++ new; d_next := d_next t |}).
  (* which rows the new delete vectors hide *)
  assert (Hnew : forall rs ri, In rs (d_rowsets t) ->
            existsb (fun dv => Nat.eqb (fst dv) (rs_id rs) && existsb (Nat.eqb ri) (snd dv)) new = existsb (Nat.eqb ri) (hits rs)).
  { intros rs ri Hrs. unfold new.
    assert (G : forall l, NoDup (map rs_id l) -> (forall x, In x l -> In x (d_rowsets t)) ->
              existsb (fun dv => Nat.eqb (fst dv) (rs_id rs) && existsb (Nat.eqb ri) (snd dv))
                      (flat_map (fun rs0 => match hits rs0 with [] => [] | h => [(rs_id rs0, h)] end) l)
              = if existsb (fun x => Nat.eqb (rs_id x) (rs_id rs)) l then existsb (Nat.eqb ri) (hits rs) else false).
    { induction l as [|x l IH]; intros Hnd Hsub; [reflexivity|]. cbn [flat_map existsb map] in *.
      inversion Hnd as [|? ? Hx Hnd']; subst. rewrite existsb_app. rewrite IH by (try assumption; intros; apply Hsub; right; assumption).
      destruct (Nat.eqb_spec (rs_id x) (rs_id rs)) as [E|E].
      - assert (x = rs) by (apply (NoDup_map_inj rs_id (d_rowsets t)); [exact Hn|apply Hsub; left; reflexivity|exact Hrs|exact E]).
        subst x. cbn [orb].
        replace (existsb (fun x => Nat.eqb (rs_id x) (rs_id rs)) l) with false.
        2:{ symmetry. apply not_true_is_false. intros H. apply existsb_exists in H as (y & Hy & Ey). apply Nat.eqb_eq in Ey.
            apply Hx. rewrite <- Ey. apply in_map. exact Hy. }
        rewrite orb_false_r. destruct (hits rs) as [|h hs]; [reflexivity|]. cbn [existsb fst snd]. rewrite Nat.eqb_refl. cbn. rewrite orb_false_r. reflexivity.
      - cbn [orb]. destruct (hits x) as [|h hs]; [reflexivity|]. cbn [existsb fst snd].
        destruct (Nat.eqb_spec (rs_id x) (rs_id rs)); [contradiction|]. reflexivity. }
    rewrite (G (d_rowsets t) Hn (fun x H => H)).
    replace (existsb (fun x => Nat.eqb (rs_id x) (rs_id rs)) (d_rowsets t)) with true; [reflexivity|].
    symmetry. apply existsb_exists. exists rs. split; [exact Hrs|apply Nat.eqb_refl]. }
  (* per row-set *)
  assert (Hvis : forall rs, In rs (d_rowsets t) -> rs_visible t' rs = filter (fun r => negb (p r)) (rs_visible t rs)).
  { intros rs Hrs. unfold rs_visible.
    set (L := combine (seq 0 (length (rs_rows rs))) (rs_rows rs)).
    assert (HL : NoDup (map fst L)) by (unfold L; rewrite map_fst_combine_seq; apply seq_NoDup).
    assert (E1 : filter (fun '(ri, _) => negb (rs_deleted t (rs_id rs) ri)) L
                 = filter (fun x => negb (rs_deleted t (rs_id rs) (fst x))) L) by (apply filter_ext; intros [? ?]; reflexivity).
    rewrite E1.
    rewrite <- (filter_snd_comm (fun x => negb (rs_deleted t (rs_id rs) (fst x))) (fun r => negb (p r)) L).
    f_equal. apply filter_ext_in. intros [ri r] Hin. cbn [fst snd].
    unfold t'. rewrite rs_deleted_app, Hnew by exact Hrs. unfold hits. fold L.
    rewrite (idx_in_filter _ L ri r HL Hin).
    destruct (rs_deleted t (rs_id rs) ri), (p r); reflexivity. }
  split.
  - unfold disk_scan. cbn [d_rowsets t'].
    assert (forall l, (forall rs, In rs l -> In rs (d_rowsets t)) ->
              concat (map (rs_visible t') l) = filter (fun r => negb (p r)) (concat (map (rs_visible t) l))) as G.
    { induction l as [|rs l IH]; intros Hsub; [reflexivity|]. cbn [map concat]. rewrite filter_app, Hvis by (apply Hsub; left; reflexivity).
      rewrite IH by (intros; apply Hsub; right; assumption). reflexivity. }
    apply G. auto.
  - unfold disk_scan.
    assert (Hc : forall rs, length (hits rs) = length (filter p (rs_visible t rs))).
    { intros rs. unfold hits, rs_visible. rewrite map_length. generalize 0.
      induction (rs_rows rs) as [|x l IH]; intros n; [reflexivity|]. cbn [length seq combine filter].
      destruct (rs_deleted t (rs_id rs) n); cbn [negb]; [rewrite andb_false_r; apply IH|].
      rewrite andb_true_r. cbn [map snd filter]. destruct (p x); cbn [length]; rewrite IH; reflexivity. }
    clear - Hc. induction (d_rowsets t) as [|rs l IH]; [reflexivity|]. cbn [flat_map map concat].
    rewrite filter_app, !app_length, IH, Hc. reflexivity.
Qed.

Theorem disk_delete_inv p t : disk_inv t -> disk_inv (fst (disk_delete p t)).
Proof.
  intros (Hn & Hr & Hd). unfold disk_delete. cbn [fst]. unfold disk_inv. cbn [d_rowsets d_dvs d_next].
  repeat split; try assumption. apply Forall_app. split; [exact Hd|].
  apply Forall_forall. intros dv Hdv. apply in_flat_map in Hdv as (rs & Hrs & Hin).
  rewrite Forall_forall in Hr. specialize (Hr rs Hrs).
  destruct (map fst _) in Hin; [contradiction|]. destruct Hin as [<-|[]]. exact Hr.
Qed.

(** ** compaction is invisible *)
Lemma partition_perm {A} (f : A -> bool) (g : A -> list nat) : forall l,
  Permutation (concat (map g l)) (concat (map g (filter (fun x => negb (f x)) l)) ++ concat (map g (filter f l))).
Proof.
  induction l as [|x l IH]; [constructor|]. cbn [map concat filter]. destruct (f x); cbn [negb map concat].
  - eapply Permutation_trans; [apply Permutation_app_head, IH|].
    rewrite app_assoc. eapply Permutation_trans; [apply Permutation_app_tail, Permutation_app_comm|].
    rewrite <- app_assoc. apply Permutation_app_head. apply Permutation_refl.
  - rewrite <- app_assoc. apply Permutation_app_head, IH.
Qed.

Theorem disk_compact_scan sel reorder t : disk_inv t -> (forall l, Permutation (reorder l) l) ->
  Permutation (disk_scan (disk_compact sel reorder t)) (disk_scan t).
Proof.
  intros (Hn & Hr & Hd) Hperm. unfold disk_compact.
  remember (filter (fun rs => sel (rs_id rs)) (d_rowsets t)) as chosen eqn:Ech.
  set (rest := filter (fun rs => negb (sel (rs_id rs))) (d_rowsets t)).
  set (dvs := filter (fun dv => negb (existsb (fun rs => Nat.eqb (rs_id rs) (fst dv)) chosen)) (d_dvs t)).
  assert (Hch : forall c, In c chosen -> sel (rs_id c) = true) by (intros c Hc; rewrite Ech in Hc; apply filter_In in Hc; tauto).
  destruct chosen as [|c1 [|c2 cs]]; try apply Permutation_refl. set (chosen := c1 :: c2 :: cs) in *.
  remember (reorder (concat (map (rs_visible t) chosen))) as rows eqn:Er.
  (* delete vectors of the remaining row-sets are untouched *)
  assert (Hrest : forall t', d_dvs t' = dvs -> forall rs, In rs rest -> rs_visible t' rs = rs_visible t rs).
  { intros t' Edv rs Hrs. apply rs_visible_ext. intros ri. unfold rs_deleted. rewrite Edv. unfold dvs.
    apply filter_In in Hrs as [Hrs Hsel]. clear - Hch Hsel.
    induction (d_dvs t) as [|dv l IH]; [reflexivity|]. cbn [filter existsb].
    destruct (existsb (fun rs0 => Nat.eqb (rs_id rs0) (fst dv)) chosen) eqn:Ex; cbn [negb existsb].
    - rewrite IH. apply existsb_exists in Ex as (c & Hc & Ec). apply Nat.eqb_eq in Ec. apply Hch in Hc.
      destruct (Nat.eqb_spec (fst dv) (rs_id rs)) as [E|E]; [|reflexivity].
      rewrite <- E, <- Ec, Hc in Hsel. discriminate.
    - rewrite IH. reflexivity. }
  assert (Hfinal : Permutation (concat (map (rs_visible t) rest) ++ rows) (disk_scan t)).
  { unfold disk_scan. rewrite Er, Ech. eapply Permutation_trans; [apply Permutation_app_head, Hperm|].
    apply Permutation_sym. apply (partition_perm (fun rs => sel (rs_id rs)) (rs_visible t)). }
  clear Er. destruct rows as [|r0 rws].
  - unfold disk_scan. cbn [d_rowsets]. rewrite app_nil_r in Hfinal.
    eapply Permutation_trans; [|exact Hfinal].
    rewrite (map_ext_in _ (rs_visible t)); [apply Permutation_refl|]. intros rs Hrs. apply Hrest; [reflexivity|exact Hrs].
  - unfold disk_scan. cbn [d_rowsets]. rewrite map_app, concat_app. cbn [map concat]. rewrite app_nil_r.
    eapply Permutation_trans; [|exact Hfinal].
    rewrite (map_ext_in _ (rs_visible t) rest) by (intros rs Hrs; apply Hrest; [reflexivity|exact Hrs]).
    apply Permutation_app_head.
    rewrite all_visible; [apply Permutation_refl|]. intros ri. cbn [rs_id]. unfold rs_deleted. cbn [d_dvs].
    apply not_true_is_false. intros E. apply existsb_exists in E as (dv & Hdv & E). unfold dvs in Hdv. apply filter_In in Hdv as [Hdv _].
    rewrite Forall_forall in Hd. specialize (Hd dv Hdv). apply andb_prop in E as [E _]. apply Nat.eqb_eq in E. lia.
Qed.

Theorem disk_compact_inv sel reorder t : disk_inv t -> disk_inv (disk_compact sel reorder t).
Proof.
  intros (Hn & Hr & Hd). unfold disk_compact.
  destruct (filter (fun rs => sel (rs_id rs)) (d_rowsets t)) as [|c1 [|c2 cs]] eqn:Ec; try (repeat split; assumption).
  rewrite <- Ec.
  assert (Hn' : NoDup (map rs_id (filter (fun rs => negb (sel (rs_id rs))) (d_rowsets t)))).
  { clear - Hn. induction (d_rowsets t) as [|x l IH]; [constructor|]. cbn in Hn. inversion Hn; subst. cbn [filter].
    destruct (negb (sel (rs_id x))); [|apply IH; assumption]. cbn. constructor; [|apply IH; assumption].
    intros H. apply H1. apply in_map_iff in H as (y & E & Hy). apply filter_In in Hy as [Hy _]. rewrite <- E. apply in_map. exact Hy. }
  assert (Hr' : Forall (fun rs => rs_id rs < d_next t) (filter (fun rs => negb (sel (rs_id rs))) (d_rowsets t))).
  { apply Forall_forall. intros rs Hrs. apply filter_In in Hrs as [Hrs _]. rewrite Forall_forall in Hr. apply Hr, Hrs. }
  assert (Hd' : forall P, Forall (fun dv => fst dv < d_next t) (filter P (d_dvs t))).
  { intros P. apply Forall_forall. intros dv Hdv. apply filter_In in Hdv as [Hdv _]. rewrite Forall_forall in Hd. apply Hd, Hdv. }
  destruct (reorder _) as [|r0 rws]; unfold disk_inv; cbn [d_rowsets d_dvs d_next]; repeat split; try assumption; try apply Hd'.
  - rewrite map_app. cbn [map rs_id]. apply NoDup_snoc; [exact Hn'|].
    intros H. apply in_map_iff in H as (rs & E & Hrs). rewrite Forall_forall in Hr'. specialize (Hr' rs Hrs). lia.
  - apply Forall_app. split; [eapply Forall_impl; [|exact Hr']; cbn; intros; lia|constructor; [cbn; lia|constructor]].
  - eapply Forall_impl; [|apply Hd']. cbn. intros; lia.
Qed.

(** ** reopen *)
Lemma disk_reopen_scan n t : disk_scan (disk_reopen n t) = disk_scan t.
Proof. unfold disk_reopen. destruct (ids_below n t); reflexivity. Qed.
Lemma disk_reopen_inv n t : disk_inv t -> disk_inv (disk_reopen n t).
Proof.
  intros (Hn & Hr & Hd). unfold disk_reopen. destruct (ids_below n t) eqn:E; [|repeat split; assumption].
  apply andb_prop in E as [E1 E2]. rewrite forallb_forall in E1, E2.
  unfold disk_inv. cbn [d_rowsets d_dvs d_next]. repeat split; try assumption; apply Forall_forall; intros x Hx.
  - apply Nat.ltb_lt, E1, Hx.
  - apply Nat.ltb_lt, E2, Hx.
Qed.

(** ** histories: every table always holds exactly the rows inserted and not since deleted *)
Definition reorder_ok (o : op) : Prop :=
  match o with OCompact _ reorder => forall l, Permutation (reorder l) l | _ => True end.

Lemma disk_step_ok t b o : disk_inv t -> reorder_ok o -> Permutation (disk_scan t) b ->
  disk_inv (disk_step t o) /\ Permutation (disk_scan (disk_step t o)) (spec_step b o).
Proof.
  intros Hi Ho Hp. destruct o as [rows|p|sel reorder|n]; cbn [disk_step spec_step].
  - split; [apply disk_insert_inv, Hi|]. rewrite disk_insert_scan by exact Hi. apply Permutation_app_tail, Hp.
  - split; [apply disk_delete_inv, Hi|]. rewrite (proj1 (disk_delete_scan p t Hi)).
    clear - Hp. induction Hp; cbn; try constructor; auto.
    + destruct (negb (p x)); [constructor|]; assumption.
    + destruct (negb (p x)), (negb (p y)); try constructor; apply Permutation_refl.
    + eapply Permutation_trans; eassumption.
  - split; [apply disk_compact_inv, Hi|]. eapply Permutation_trans; [apply disk_compact_scan; assumption|exact Hp].
  - split; [apply disk_reopen_inv, Hi|]. rewrite disk_reopen_scan. exact Hp.
Qed.

Theorem history_exact : forall ops t b, disk_inv t -> Forall reorder_ok ops -> Permutation (disk_scan t) b ->
  Permutation (disk_scan (fold_left disk_step ops t)) (fold_left spec_step ops b).
Proof.
  induction ops as [|o ops IH]; intros t b Hi Ho Hp; [exact Hp|]. cbn [fold_left]. inversion Ho; subst.
  destruct (disk_step_ok t b o Hi H1 Hp) as [Hi' Hp']. apply IH; assumption.
Qed.

Lemma empty_inv : disk_inv empty_table.
Proof. repeat split; constructor. Qed.

(** C05: the two engines are observationally equivalent on every history *)
Lemma mem_step_ok t b o : disk_inv t -> Permutation (mem_scan t) b ->
  disk_inv (mem_step t o) /\ Permutation (mem_scan (mem_step t o)) (spec_step b o).
Proof.
  intros Hi Hp. destruct o as [rows|p|sel reorder|n]; cbn [mem_step spec_step]; try (split; assumption).
  - apply (disk_step_ok t b (OInsert rows) Hi I Hp).
  - apply (disk_step_ok t b (ODelete p) Hi I Hp).
Qed.
Theorem engines_equivalent : forall ops, Forall reorder_ok ops ->
  Permutation (mem_scan (fold_left mem_step ops empty_table)) (disk_scan (fold_left disk_step ops empty_table)).
Proof.
  intros ops Ho.
  assert (G : forall ops tm td b, disk_inv tm -> disk_inv td -> Forall reorder_ok ops ->
            Permutation (mem_scan tm) b -> Permutation (disk_scan td) b ->
            Permutation (mem_scan (fold_left mem_step ops tm)) (disk_scan (fold_left disk_step ops td))).
  { clear. induction ops as [|o ops IH]; intros tm td b Hm Hd Ho Pm Pd; cbn [fold_left].
    - eapply Permutation_trans; [exact Pm|apply Permutation_sym, Pd].
    - inversion Ho; subst. destruct (mem_step_ok tm b o Hm Pm) as [Hm' Pm']. destruct (disk_step_ok td b o Hd H1 Pd) as [Hd' Pd'].
      eapply IH; eassumption. }
  apply (G ops empty_table empty_table []); try apply empty_inv; try exact Ho; constructor.
Qed.

(** the invariant holds along every history (so each step of the theorems above applies) *)
Theorem history_inv : forall ops t, disk_inv t -> disk_inv (fold_left disk_step ops t).
Proof.
  induction ops as [|o ops IH]; intros t Hi; [exact Hi|]. cbn [fold_left]. apply IH.
  destruct o as [rows|p|sel reorder|n]; cbn [disk_step].
  - apply disk_insert_inv, Hi. - apply disk_delete_inv, Hi. - apply disk_compact_inv, Hi. - apply disk_reopen_inv, Hi.
Qed.

(** ** ordered scans *)
Section OrderedP.
  Variable key : row -> nat.
  Definition ksorted (l : list row) : Prop := StronglySorted (fun x y => key x <= key y) l.

  Lemma insert_sorted_perm x l : Permutation (insert_sorted key x l) (x :: l).
  Proof.
    induction l as [|y r IH]; cbn [insert_sorted]; [apply Permutation_refl|].
    destruct (key y <=? key x); [|apply Permutation_refl].
    eapply Permutation_trans; [apply perm_skip, IH|apply perm_swap].
  Qed.
  Lemma insert_sorted_sorted x l : ksorted l -> ksorted (insert_sorted key x l).
  Proof.
    induction l as [|y r IH]; intros Hs; cbn [insert_sorted]; [repeat constructor|].
    inversion Hs as [|? ? Hr Hy]; subst. destruct (Nat.leb_spec (key y) (key x)) as [L|L].
    - constructor; [apply IH, Hr|]. apply Forall_forall. intros z Hz.
      apply (Permutation_in _ (insert_sorted_perm x r)) in Hz. destruct Hz as [<-|Hz]; [exact L|].
      rewrite Forall_forall in Hy. apply Hy, Hz.
    - constructor; [exact Hs|]. constructor; [lia|]. eapply Forall_impl; [|exact Hy]. cbn. intros; lia.
  Qed.
  Theorem sort_by_key_perm l : Permutation (sort_by_key key l) l.
  Proof.
    unfold sort_by_key. eapply Permutation_trans; [|apply Permutation_sym, Permutation_rev].
    induction (rev l) as [|x r IH]; cbn [fold_right]; [constructor|].
    eapply Permutation_trans; [apply insert_sorted_perm|apply perm_skip, IH].
  Qed.
  Theorem sort_by_key_sorted l : ksorted (sort_by_key key l).
  Proof. unfold sort_by_key. induction (rev l) as [|x r IH]; cbn [fold_right]; [constructor|apply insert_sorted_sorted, IH]. Qed.

  Lemma merge2_perm : forall a b, Permutation (merge2 key a b) (a ++ b).
  Proof.
    induction a as [|x a IHa]; intros b; [destruct b; apply Permutation_refl|].
    induction b as [|y b IHb]; [cbn; rewrite app_nil_r; apply Permutation_refl|].
    cbn [merge2]. destruct (key x <=? key y).
    - cbn [app]. apply perm_skip. apply IHa.
    - eapply Permutation_trans; [apply perm_skip, IHb|]. cbn [app]. apply (Permutation_middle (x :: a) b y).
  Qed.
  Lemma merge2_sorted : forall a b, ksorted a -> ksorted b -> ksorted (merge2 key a b).
  Proof.
    induction a as [|x a IHa]; intros b Ha Hb; [destruct b; assumption|].
    induction b as [|y b IHb]; [exact Ha|].
    inversion Ha as [|? ? Ha' Hx]; subst. inversion Hb as [|? ? Hb' Hy]; subst.
    cbn [merge2]. destruct (Nat.leb_spec (key x) (key y)) as [L|L].
    - constructor; [apply IHa; assumption|]. apply Forall_forall. intros z Hz.
      apply (Permutation_in _ (merge2_perm a (y :: b))) in Hz. apply in_app_or in Hz as [Hz|[<-|Hz]].
      + rewrite Forall_forall in Hx. apply Hx, Hz. + exact L.
      + rewrite Forall_forall in Hy. specialize (Hy z Hz). lia.
    - constructor; [apply IHb; assumption|]. apply Forall_forall. intros z Hz.
      apply (Permutation_in _ (merge2_perm (x :: a) b)) in Hz. apply in_app_or in Hz as [[<-|Hz]|Hz].
      + lia. + rewrite Forall_forall in Hx. specialize (Hx z Hz). lia.
      + rewrite Forall_forall in Hy. apply Hy, Hz.
  Qed.
  Theorem kmerge_perm ls : Permutation (kmerge key ls) (concat ls).
  Proof.
    induction ls as [|l ls IH]; cbn [kmerge fold_right concat]; [constructor|].
    eapply Permutation_trans; [apply merge2_perm|apply Permutation_app_head, IH].
  Qed.
  Theorem kmerge_sorted ls : Forall ksorted ls -> ksorted (kmerge key ls).
  Proof.
    induction ls as [|l ls IH]; intros H; cbn [kmerge fold_right]; [constructor|].
    inversion H; subst. apply merge2_sorted; [assumption|apply IH; assumption].
  Qed.

  (** deleting rows keeps a row-set sorted *)
  Lemma ksorted_filter_map {B} (f : B -> bool) (g : B -> row) : forall l, ksorted (map g l) -> ksorted (map g (filter f l)).
  Proof.
    induction l as [|x l IH]; intros H; [constructor|]. cbn [map] in H. inversion H as [|? ? Hl Hx]; subst.
    cbn [filter]. destruct (f x); [|apply IH, Hl]. cbn [map]. constructor; [apply IH, Hl|].
    apply Forall_forall. intros z Hz. apply in_map_iff in Hz as (y & <- & Hy). apply filter_In in Hy as [Hy _].
    rewrite Forall_forall in Hx. apply Hx, in_map, Hy.
  Qed.
  Lemma map_snd_combine_seq {B} : forall (l : list B) a, map snd (combine (seq a (length l)) l) = l.
  Proof. induction l as [|x l IH]; intros a; cbn; [reflexivity|]. rewrite IH. reflexivity. Qed.
  Lemma rs_visible_sorted t rs : ksorted (rs_rows rs) -> ksorted (rs_visible t rs).
  Proof. intros H. unfold rs_visible. apply ksorted_filter_map. rewrite map_snd_combine_seq. exact H. Qed.

  Definition rowsets_sorted (t : disk_table) : Prop := Forall (fun rs => ksorted (rs_rows rs)) (d_rowsets t).

  (** the ordered scan returns the table's rows, in key order, whenever every row-set is sorted *)
  Theorem ordered_scan_exact t : rowsets_sorted t ->
    ksorted (ordered_scan key t) /\ Permutation (ordered_scan key t) (disk_scan t).
  Proof.
    intros H. split; [|apply kmerge_perm]. apply kmerge_sorted. apply Forall_forall. intros l Hl.
    apply in_map_iff in Hl as (rs & <- & Hrs). apply rs_visible_sorted. unfold rowsets_sorted in H. rewrite Forall_forall in H. apply H, Hrs.
  Qed.

  (** and the engine's own steps keep every row-set sorted *)
  Lemma insert_pk_sorted t rows : rowsets_sorted t -> rowsets_sorted (insert_pk key t rows).
  Proof.
    intros H. unfold insert_pk, disk_insert. destruct (sort_by_key key rows) eqn:E; [exact H|]. rewrite <- E.
    unfold rowsets_sorted. cbn [d_rowsets]. apply Forall_app. split; [exact H|]. constructor; [|constructor]. cbn [rs_rows]. apply sort_by_key_sorted.
  Qed.
  Lemma delete_sorted p t : rowsets_sorted t -> rowsets_sorted (fst (disk_delete p t)).
  Proof. intros H. exact H. Qed.
  Lemma compact_pk_sorted sel t : rowsets_sorted t -> rowsets_sorted (compact_pk key sel t).
  Proof.
    intros H. unfold compact_pk, disk_compact.
    destruct (filter (fun rs => sel (rs_id rs)) (d_rowsets t)) as [|c1 [|c2 cs]] eqn:Ec; try exact H. rewrite <- Ec.
    assert (Hrest : Forall (fun rs => ksorted (rs_rows rs)) (filter (fun rs => negb (sel (rs_id rs))) (d_rowsets t))).
    { apply Forall_forall. intros rs Hrs. apply filter_In in Hrs as [Hrs _]. unfold rowsets_sorted in H. rewrite Forall_forall in H. apply H, Hrs. }
    destruct (kmerge key _) as [|r0 rws] eqn:Ek; unfold rowsets_sorted; cbn [d_rowsets]; [exact Hrest|].
    apply Forall_app. split; [exact Hrest|]. constructor; [|constructor]. cbn [rs_rows]. rewrite <- Ek.
    apply kmerge_sorted. apply Forall_forall. intros l Hl. apply in_map_iff in Hl as (rs & <- & Hrs). apply rs_visible_sorted.
    apply filter_In in Hrs as [Hrs _]. unfold rowsets_sorted in H. rewrite Forall_forall in H. apply H, Hrs.
  Qed.
  (** the merge used by the compaction of a keyed table is a permutation of its input: compaction is invisible for it too *)
  Theorem compact_pk_scan sel t : disk_inv t -> Permutation (disk_scan (compact_pk key sel t)) (disk_scan t).
  Proof.
    intros Hi. unfold compact_pk.
    set (k := kmerge key (map (rs_visible t) (filter (fun rs => sel (rs_id rs)) (d_rowsets t)))).
    (* disk_compact only ever applies [reorder] to the concatenation of the chosen visible rows *)
    assert (E : disk_compact sel (fun _ => k) t = disk_compact sel (fun l => if list_eq_dec Nat.eq_dec l (concat (map (rs_visible t) (filter (fun rs => sel (rs_id rs)) (d_rowsets t)))) then k else l) t).
    { unfold disk_compact. destruct (filter (fun rs => sel (rs_id rs)) (d_rowsets t)) as [|c1 [|c2 cs]]; try reflexivity.
      destruct (list_eq_dec _ _ _) as [_|N]; [reflexivity|contradiction N; reflexivity]. }
    rewrite E. apply disk_compact_scan; [exact Hi|]. intros l. destruct (list_eq_dec _ _ _) as [->|_]; [apply kmerge_perm|apply Permutation_refl].
  Qed.
End OrderedP.

(** ** C05 helpers *)
Theorem mem_history_exact : forall ops t b, disk_inv t -> Permutation (mem_scan t) b ->
  Permutation (mem_scan (fold_left mem_step ops t)) (fold_left spec_step ops b).
Proof.
  induction ops as [|o ops IH]; intros t b Hi Hp; [exact Hp|]. cbn [fold_left].
  destruct (mem_step_ok t b o Hi Hp) as [Hi' Hp']. apply IH; assumption.
Qed.
Lemma filter_length_perm {A} (p : A -> bool) l l' : Permutation l l' -> length (filter p l) = length (filter p l').
Proof.
  induction 1; cbn; try reflexivity.
  - destruct (p x); cbn; congruence.
  - destruct (p x), (p y); reflexivity.
  - congruence.
Qed.
Theorem delete_counts_equal p tm td : disk_inv tm -> disk_inv td -> Permutation (mem_scan tm) (disk_scan td) ->
  snd (mem_delete p tm) = snd (disk_delete p td).
Proof.
  intros Hm Hd Hp. change (snd (disk_delete p tm) = snd (disk_delete p td)). destruct (disk_delete_scan p tm Hm) as [_ ->]. destruct (disk_delete_scan p td Hd) as [_ ->].
  apply filter_length_perm. exact Hp.
Qed.
