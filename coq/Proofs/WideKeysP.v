(** * C11: the SQL equality of join keys is the equality of the keys at full integer width.
    executor::build casts numeric key pairs of different types to the wider one; with that, the
    key comparison of the hash / merge join agrees with [=] on integers of ANY widths (and on all
    other values), so the equi-join condition the optimiser turns into join keys is an
    [equi_cond] for those keys. *)
From RL Require Import Model.Exec Proofs.ValP Proofs.ExecP.
From Coq Require Import Lia.
Open Scope Z_scope.

Definition sql_eq (a b : dv) : dv := cmp3 (fun c => match c with Eq => true | _ => false end) a b.

Lemma wide_is_null v : is_null (wide v) = is_null v.
Proof. destruct v; reflexivity. Qed.

(** [a = b] is TRUE exactly when neither is NULL and the widened values are the same DataValue *)
Lemma sql_eq_wide a b :
  match sql_eq a b with DBool true => true | _ => false end
  = negb (is_null a) && negb (is_null b) && dv_eqb (wide a) (wide b).
Proof.
  unfold sql_eq, cmp3, dv_eqb.
  destruct a as [|x|x|x|x|x], b as [|y|y|y|y|y]; cbn -[Z.compare zlist_cmp]; try reflexivity;
    try (destruct (x ?= y); reflexivity).
  - destruct x, y; reflexivity.
  - destruct (zlist_cmp x y); reflexivity.
Qed.

(** the conjunction of column equalities  l.i1 = r.j1 AND l.i2 = r.j2 AND ..  over rows l ++ r *)
Fixpoint eq_conj (nl : nat) (ps : list (nat * nat)) : sx :=
  match ps with
  | [] => SConst (DBool true)
  | (i, j) :: rest => SAnd (SEq (SCol i) (SCol (nl + j))) (eq_conj nl rest)
  end.
Definition lcols (ps : list (nat * nat)) : list sx := map (fun p => SCol (fst p)) ps.
Definition rcols (ps : list (nat * nat)) : list sx := map (fun p => SCol (snd p)) ps.

Lemma holds_and a b r : holds (SAnd a b) r = holds a r && holds b r.
Proof.
  unfold holds. cbn [sx_eval].
  destruct (sx_eval a r) as [|[|]| | | |]; destruct (sx_eval b r) as [|[|]| | | |]; reflexivity.
Qed.

Lemma keys_match_cons a b lk rk l r :
  keys_match (a :: lk) (b :: rk) l r =
  (negb (is_null (sx_eval a l)) && negb (is_null (sx_eval b r)) && dv_eqb (sx_eval a l) (sx_eval b r)) && keys_match lk rk l r.
Proof.
  unfold keys_match, keys_of, has_null, row_eqb, dv_eqb. cbn [map existsb row_cmp].
  destruct (is_null (sx_eval a l)); cbn [negb andb orb]; [reflexivity|].
  destruct (is_null (sx_eval b r)); cbn [negb andb orb]; [rewrite andb_false_r; reflexivity|].
  destruct (dv_cmp (sx_eval a l) (sx_eval b r)); cbn [andb];
    try (rewrite ?andb_false_r; reflexivity).
Qed.

Theorem eq_conj_is_equi_cond_on_wide_keys ps nl Ls Rs :
  (forall l, In l Ls -> length l = nl) -> Forall (fun p => (fst p < nl)%nat) ps ->
  equi_cond (eq_conj nl ps) (wide_keys (lcols ps)) (wide_keys (rcols ps)) Ls Rs.
Proof.
  intros Hlen Hps l r Hl Hr. specialize (Hlen l Hl). subst nl.
  induction ps as [|[i j] ps IH]; [reflexivity|].
  inversion Hps as [|? ? Hi Hrest]; subst. cbn [fst] in Hi.
  cbn [eq_conj]. rewrite holds_and, (IH Hrest).
  unfold wide_keys, lcols, rcols in *. cbn [map fst snd]. rewrite keys_match_cons. f_equal.
  change (sx_eval (SWide (SCol i)) l) with (wide (sx_eval (SCol i) l)).
  change (sx_eval (SWide (SCol j)) r) with (wide (sx_eval (SCol j) r)).
  rewrite !wide_is_null. unfold holds. cbn [sx_eval].
  rewrite app_nth1 by lia. rewrite app_nth2 by lia. replace (length l + j - length l)%nat with j by lia.
  apply sql_eq_wide.
Qed.

Theorem hashjoin_eq_nljoin_on_columns t ps nl nr L R : t <> JRight -> t <> JFull ->
  (forall l, In l (concat L) -> length l = nl) -> Forall (fun p => (fst p < nl)%nat) ps ->
  Some (x_hashjoin t (wide_keys (lcols ps)) (wide_keys (rcols ps)) nl nr L R) = x_nljoin t (eq_conj nl ps) nr L R.
Proof.
  intros H1 H2 Hlen Hps.
  pose proof (eq_conj_is_equi_cond_on_wide_keys ps nl (concat L) (concat R) Hlen Hps) as Hc.
  destruct t; try congruence.
  - apply hashjoin_inner_eq_nljoin; exact Hc.
  - apply hashjoin_left_eq_nljoin; exact Hc.
  - apply hashjoin_semi_eq_nljoin; exact Hc.
  - apply hashjoin_anti_eq_nljoin; exact Hc.
Qed.

(** ** the hash semi / anti join with a residual condition (HashSemiJoinExecutor2) = the nested-loop semi / anti join on
       the conjunction of the key equality and that condition *)
Theorem hashsemi2_eq_nljoin anti eqc cond lk rk nr L R :
  equi_cond eqc lk rk (concat L) (concat R) ->
  Some (x_hashsemi2 anti lk rk cond L R) = x_nljoin (if anti then JAnti else JSemi) (SAnd eqc cond) nr L R.
Proof.
  intros Hc. unfold x_hashsemi2.
  assert (E : forall l, In l (concat L) ->
            existsb (fun r => negb (has_null (keys_of rk r)) && row_eqb (keys_of lk l) (keys_of rk r) && holds cond (l ++ r)) (concat R)
            = existsb (fun r => holds (SAnd eqc cond) (l ++ r)) (concat R)).
  { intros l Hl. apply existsb_ext_in. intros r Hr. rewrite holds_and, (Hc l r Hl Hr). f_equal. unfold keys_match.
    destruct (row_eqb (keys_of lk l) (keys_of rk r)) eqn:Ee; [|rewrite !andb_false_r; reflexivity].
    rewrite (row_eqb_has_null _ _ Ee). destruct (has_null (keys_of rk r)); reflexivity. }
  destruct anti; unfold x_nljoin; f_equal; apply filter_ext_in; intros l Hl; rewrite (E l Hl);
    destruct (existsb (fun r => holds (SAnd eqc cond) (l ++ r)) (concat R)); reflexivity.
Qed.
