(** * C11 — the FULL OUTER merge join over sorted inputs returns the rows of the FULL OUTER hash join (as bags):
    the rows of the right outer join, plus every left row without a match padded with NULLs on the right. *)
From RL Require Import Model.Exec Proofs.ValP Proofs.ExecP Proofs.MergeJoinP Proofs.MergeLeftP Proofs.MergeRightP.
From Coq Require Import Lia Permutation Sorted.
Open Scope Z_scope.

(** the left groups that find no partner: a NULL in the key, or no right group with that key *)
Definition left_unmatched (nr : nat) (lg rg : list (row * list row)) : list row :=
  flat_map (fun kg => if has_null (fst kg) then lpads nr (snd kg)
                      else match gfind (fst kg) rg with [] => lpads nr (snd kg) | _ => [] end) lg.

Lemma left_unmatched_nil nr lg : left_unmatched nr lg [] = flat_map (fun kg => lpads nr (snd kg)) lg.
Proof. unfold left_unmatched. apply flat_map_ext. intros kg. unfold gfind. cbn [find]. destruct (has_null (fst kg)); reflexivity. Qed.
Lemma left_unmatched_skip nr lg k' c rg : (forall kg, In kg lg -> fst kg <> k') ->
  left_unmatched nr lg ((k', c) :: rg) = left_unmatched nr lg rg.
Proof.
  intros H. unfold left_unmatched. apply flat_map_ext_in. intros kg Hin. rewrite gfind_skip; [reflexivity|].
  intros E. apply (H kg Hin). symmetry. exact E.
Qed.
Lemma walk_spec_right_nil nl rg : walk_spec_right nl [] rg = flat_map (fun kg => rpads nl (snd kg)) rg.
Proof. unfold walk_spec_right. apply flat_map_ext. intros kg. unfold gfind. cbn [find]. destruct (has_null (fst kg)); reflexivity. Qed.

Lemma perm_mid {A} (a b c : list A) : Permutation (a ++ b ++ c) (b ++ a ++ c).
Proof. rewrite !app_assoc. apply Permutation_app_tail. apply Permutation_app_comm. Qed.

Lemma merge_walk_full nl nr : forall fuel lg rg, gkeys_inc lg -> gkeys_inc rg ->
  Forall (fun kg => snd kg <> []) lg -> Forall (fun kg => snd kg <> []) rg -> (length lg + length rg < fuel)%nat ->
  Permutation (merge_walk fuel JFull nl nr lg rg) (walk_spec_right nl lg rg ++ left_unmatched nr lg rg).
Proof.
  induction fuel as [|f IH]; intros lg rg Hl Hr Hnl Hnr Hf; [lia|]. cbn [merge_walk pads_left pads_right].
  destruct lg as [|[lk lc] lg'].
  - destruct rg as [|[rk rc] rg']; [constructor|]. inversion Hr; subst. inversion Hnr; subst.
    unfold left_unmatched. cbn [flat_map]. rewrite app_nil_r.
    unfold walk_spec_right. cbn [flat_map fst snd]. unfold gfind at 1. cbn [find].
    replace (if has_null rk then rpads nl rc else rpads nl rc) with (rpads nl rc) by (destruct (has_null rk); reflexivity).
    apply Permutation_app_head. fold (walk_spec_right nl [] rg').
    eapply Permutation_trans; [apply IH; try assumption; cbn in *; lia|].
    unfold left_unmatched. cbn [flat_map]. rewrite app_nil_r. apply Permutation_refl.
  - inversion Hl as [|? ? Hl' Hlall]; subst. inversion Hnl as [|? ? Hlc Hnl']; subst. cbn [snd] in Hlc.
    destruct rg as [|[rk rc] rg'].
    + unfold walk_spec_right. cbn [flat_map app]. rewrite left_unmatched_nil. cbn [flat_map snd].
      apply Permutation_app_head.
      eapply Permutation_trans; [apply IH; try assumption; try constructor; cbn in *; lia|].
      unfold walk_spec_right. cbn [flat_map app]. rewrite left_unmatched_nil. apply Permutation_refl.
    + inversion Hr as [|? ? Hr' Hrall]; subst. inversion Hnr as [|? ? Hrc Hnr']; subst. cbn [snd] in Hrc.
      rewrite Forall_forall in Hlall, Hrall.
      destruct (row_eqb lk rk && negb (has_null lk)) eqn:Em.
      * apply andb_prop in Em as [Ek En]. apply row_eqb_eq in Ek. subst rk. apply negb_true_iff in En.
        (* right part *)
        assert (E1 : walk_spec_right nl ((lk, lc) :: lg') ((lk, rc) :: rg') = cross lc rc ++ walk_spec_right nl lg' rg').
        { unfold walk_spec_right at 1. cbn [flat_map fst snd]. rewrite En. unfold gfind at 1. cbn [find fst snd]. rewrite row_eqb_refl. cbn [snd].
          destruct lc as [|l0 lc]; [contradiction|]. f_equal. apply walk_spec_right_skip.
          intros kg Hin. right. specialize (Hrall kg Hin). cbn in Hrall. intros E. rewrite E, row_cmp_refl in Hrall. discriminate. }
        assert (E2 : left_unmatched nr ((lk, lc) :: lg') ((lk, rc) :: rg') = left_unmatched nr lg' rg').
        { unfold left_unmatched at 1. cbn [flat_map fst snd]. rewrite En. unfold gfind at 1. cbn [find fst snd]. rewrite row_eqb_refl. cbn [snd].
          destruct rc as [|r0 rc]; [contradiction|]. cbn [app]. apply left_unmatched_skip.
          intros kg Hin. specialize (Hlall kg Hin). cbn in Hlall. intros E. rewrite E, row_cmp_refl in Hlall. discriminate. }
        rewrite E1, E2, <- app_assoc. apply Permutation_app_head. apply IH; try assumption; cbn in *; lia.
      * destruct (row_cmp lk rk) eqn:Ec.
        -- (* equal keys with a NULL: the left group is padded, the right group stays *)
           apply row_cmp_eq in Ec. subst rk. rewrite row_eqb_refl in Em. cbn in Em. apply negb_false_iff in Em.
           assert (E1 : walk_spec_right nl ((lk, lc) :: lg') ((lk, rc) :: rg') = walk_spec_right nl lg' ((lk, rc) :: rg')).
           { apply walk_spec_right_skip. intros kg [<-|Hin]; cbn [fst]; [left; exact Em|].
             right. specialize (Hrall kg Hin). cbn in Hrall. intros E. rewrite E, row_cmp_refl in Hrall. discriminate. }
           assert (E2 : left_unmatched nr ((lk, lc) :: lg') ((lk, rc) :: rg') = lpads nr lc ++ left_unmatched nr lg' ((lk, rc) :: rg')).
           { unfold left_unmatched at 1. cbn [flat_map fst snd]. rewrite Em. reflexivity. }
           rewrite E1, E2. eapply Permutation_trans; [|apply perm_mid]. apply Permutation_app_head.
           apply IH; try assumption; try (constructor; [assumption|apply Forall_forall; assumption]); try (constructor; assumption); cbn in *; lia.
        -- (* lk < rk: no right group has the key lk *)
           assert (Hno : forall kg, In kg ((rk, rc) :: rg') -> fst kg <> lk).
           { intros kg [<-|Hin]; cbn [fst].
             - apply not_eq_sym, row_lt_ne, Ec.
             - specialize (Hrall kg Hin). cbn in Hrall. intros E. rewrite E in Hrall. rewrite (row_cmp_antisym lk rk), Ec in Hrall. discriminate. }
           assert (E1 : walk_spec_right nl ((lk, lc) :: lg') ((rk, rc) :: rg') = walk_spec_right nl lg' ((rk, rc) :: rg')).
           { apply walk_spec_right_skip. intros kg Hin. right. apply Hno, Hin. }
           assert (E2 : left_unmatched nr ((lk, lc) :: lg') ((rk, rc) :: rg') = lpads nr lc ++ left_unmatched nr lg' ((rk, rc) :: rg')).
           { unfold left_unmatched at 1. cbn [flat_map fst snd]. rewrite (gfind_none lk ((rk, rc) :: rg') Hno). destruct (has_null lk); reflexivity. }
           rewrite E1, E2. eapply Permutation_trans; [|apply perm_mid]. apply Permutation_app_head.
           apply IH; try assumption; try (constructor; [assumption|apply Forall_forall; assumption]); try (constructor; assumption); cbn in *; lia.
        -- (* lk > rk: no left group has the key rk *)
           assert (Hno : forall kg, In kg ((lk, lc) :: lg') -> fst kg <> rk).
           { intros kg [<-|Hin]; cbn [fst].
             - apply row_gt_ne, Ec.
             - specialize (Hlall kg Hin). cbn in Hlall. intros E. rewrite E in Hlall. rewrite Hlall in Ec. discriminate. }
           assert (E1 : walk_spec_right nl ((lk, lc) :: lg') ((rk, rc) :: rg') = rpads nl rc ++ walk_spec_right nl ((lk, lc) :: lg') rg').
           { unfold walk_spec_right at 1. cbn [flat_map fst snd]. rewrite (gfind_none rk ((lk, lc) :: lg') Hno). destruct (has_null rk); reflexivity. }
           assert (E2 : left_unmatched nr ((lk, lc) :: lg') ((rk, rc) :: rg') = left_unmatched nr ((lk, lc) :: lg') rg').
           { apply left_unmatched_skip. exact Hno. }
           rewrite E1, E2, <- app_assoc. apply Permutation_app_head.
           apply IH; try assumption; try (constructor; [assumption|apply Forall_forall; assumption]); try (constructor; assumption); cbn in *; lia.
Qed.

Lemma existsb_filter_nil {A} (f : A -> bool) l : existsb f l = match filter f l with [] => false | _ => true end.
Proof. induction l as [|x l IH]; [reflexivity|]. cbn [existsb filter]. destruct (f x); [reflexivity|exact IH]. Qed.

Definition unmatched_left_rows (lk rk : list sx) (nr : nat) (Ls Rs : list row) : list row :=
  map (fun l => l ++ nulls nr)
      (filter (fun l => has_null (keys_of lk l) || negb (existsb (fun r => row_eqb (keys_of lk l) (keys_of rk r)) Rs)) Ls).

Lemma left_unmatched_rows lk rk nr Ls Rs : sorted_on rk Rs ->
  left_unmatched nr (group_runs lk Ls) (group_runs rk Rs) = unmatched_left_rows lk rk nr Ls Rs.
Proof.
  intros HR. unfold unmatched_left_rows. rewrite map_filter_flat.
  rewrite <- (group_runs_concat lk Ls) at 2. rewrite flat_map_concat, flat_map_map.
  unfold left_unmatched. apply flat_map_ext_in. intros [k g] Hin. cbn [fst snd].
  pose proof (group_runs_keys lk Ls) as F. rewrite Forall_forall in F. destruct (F _ Hin) as [_ Hk]. cbn [fst snd] in Hk.
  rewrite <- (filter_by_key rk k Rs HR).
  destruct (has_null k) eqn:En.
  - unfold lpads. rewrite map_as_flat_map. apply flat_map_ext_in. intros l Hl. rewrite (Hk l Hl), En. reflexivity.
  - rewrite <- (existsb_filter_nil (fun r => row_eqb k (keys_of rk r)) Rs) || idtac.
    destruct (filter (fun r => row_eqb k (keys_of rk r)) Rs) as [|r0 rc] eqn:Ef.
    + unfold lpads. rewrite map_as_flat_map. apply flat_map_ext_in. intros l Hl. rewrite (Hk l Hl), En.
      rewrite existsb_filter_nil, Ef. reflexivity.
    + symmetry. rewrite (flat_map_ext_in _ (fun _ => [])); [apply flat_map_nil|].
      intros l Hl. rewrite (Hk l Hl), En, existsb_filter_nil, Ef. reflexivity.
Qed.

Lemma hashjoin_full_rows lk rk nl nr L R :
  x_hashjoin JFull lk rk nl nr L R = right_rows_spec lk rk nl (concat L) (concat R) ++ unmatched_left_rows lk rk nr (concat L) (concat R).
Proof.
  unfold x_hashjoin, right_rows_spec, unmatched_left_rows. cbn [pads_left pads_right]. f_equal.
  apply flat_map_ext. intros r. rewrite filter_filter.
  rewrite (filter_ext _ (fun l => key_match lk rk l r)); [reflexivity|].
  intros l. unfold key_match. apply andb_comm.
Qed.

Theorem mergejoin_full_eq_hashjoin lk rk nl nr L R : sorted_on lk (concat L) -> sorted_on rk (concat R) ->
  Permutation (x_mergejoin JFull lk rk nl nr L R) (x_hashjoin JFull lk rk nl nr L R).
Proof.
  intros HL HR. rewrite hashjoin_full_rows. unfold x_mergejoin.
  eapply Permutation_trans.
  - apply merge_walk_full; try (apply group_runs_inc; assumption); try lia;
      (eapply Forall_impl; [|apply group_runs_keys]; intros kg [H _]; exact H).
  - rewrite (left_unmatched_rows lk rk nr (concat L) (concat R) HR). apply Permutation_app_tail.
    apply walk_spec_right_rows. exact HL.
Qed.

Example mergejoin_full_example :
  let L := [[ [DNull; DI32 9]; [DI32 1; DI32 5] ]; [ [DI32 1; DI32 6]; [DI32 3; DI32 7] ]] in
  let R := [[ [DNull; DI32 0]; [DI32 1; DI32 8]; [DI32 2; DI32 8] ]] in
  x_mergejoin JFull [SCol 0] [SCol 0] 2 2 L R =
    [[DNull; DI32 9; DNull; DNull]; [DNull; DNull; DNull; DI32 0]; [DI32 1; DI32 5; DI32 1; DI32 8]; [DI32 1; DI32 6; DI32 1; DI32 8];
     [DNull; DNull; DI32 2; DI32 8]; [DI32 3; DI32 7; DNull; DNull]].
Proof. reflexivity. Qed.

(** ** LEFT OUTER: the merge join's left-major rows are the hash join's rows, as bags *)
Lemma hashjoin_left_rows lk rk nl nr L R :
  x_hashjoin JLeft lk rk nl nr L R = x_hashjoin JInner lk rk nl nr L R ++ unmatched_left_rows lk rk nr (concat L) (concat R).
Proof.
  unfold x_hashjoin, unmatched_left_rows. cbn [pads_left pads_right]. rewrite app_nil_r. reflexivity.
Qed.
Lemma left_rows_split lk rk nr Ls Rs :
  Permutation (left_rows_spec lk rk nr Ls Rs) (equi_rows lk rk Ls Rs ++ unmatched_left_rows lk rk nr Ls Rs).
Proof.
  unfold left_rows_spec, equi_rows, unmatched_left_rows. rewrite map_filter_flat.
  eapply Permutation_trans; [|apply flat_map_app_perm]. apply perm_of_eq. apply flat_map_ext. intros l.
  assert (E : (has_null (keys_of lk l) || negb (existsb (fun r => row_eqb (keys_of lk l) (keys_of rk r)) Rs))
              = match filter (key_match lk rk l) Rs with [] => true | _ => false end).
  { unfold key_match. destruct (has_null (keys_of lk l)) eqn:En; cbn [orb negb andb].
    - rewrite (filter_ext _ (fun _ => false)) by (intros r; apply andb_false_r). rewrite filter_none. reflexivity.
    - rewrite (filter_ext _ (fun r => row_eqb (keys_of lk l) (keys_of rk r))) by (intros r; apply andb_true_r).
      rewrite existsb_filter_nil. destruct (filter _ Rs); reflexivity. }
  rewrite E. destruct (filter (key_match lk rk l) Rs); [reflexivity|]. rewrite app_nil_r. reflexivity.
Qed.
Theorem mergejoin_left_eq_hashjoin lk rk nl nr L R : sorted_on lk (concat L) -> sorted_on rk (concat R) ->
  Permutation (x_mergejoin JLeft lk rk nl nr L R) (x_hashjoin JLeft lk rk nl nr L R).
Proof.
  intros HL HR. rewrite (mergejoin_left_rows lk rk nl nr L R HL HR), hashjoin_left_rows.
  eapply Permutation_trans; [apply left_rows_split|]. apply Permutation_app_tail. apply hashjoin_inner_rows.
Qed.

(** the FULL OUTER hash join = the RIGHT OUTER hash join followed by the left rows without a partner *)
Lemma hashjoin_full_as_right_plus_pads lk rk nl nr L R :
  x_hashjoin JFull lk rk nl nr L R =
  x_hashjoin JRight lk rk nl nr L R ++
  map (fun l => l ++ nulls nr)
      (filter (fun l => has_null (keys_of lk l) || negb (existsb (fun r => row_eqb (keys_of lk l) (keys_of rk r)) (concat R))) (concat L)).
Proof. rewrite hashjoin_full_rows, hashjoin_right_rows. reflexivity. Qed.
