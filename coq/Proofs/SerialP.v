(** * Facts about the serial specification (C10) *)
From RL Require Import Model.Serial.
From Coq Require Import Lia.

Definition table_of (st : stmt) : nat :=
  match st with SCreate t | SDrop t | SInsert t _ | SDelete t _ | SCount t => t end.

Lemma lookup_update_same t r s : lookup t s <> None -> lookup t (update t r s) = Some r.
Proof.
  induction s as [|[t' r'] s IH]; cbn; intros H; [contradiction|].
  destruct (Nat.eqb_spec t t'); cbn; [rewrite (proj2 (Nat.eqb_eq t t')) by assumption; reflexivity|].
  destruct (Nat.eqb_spec t t'); [contradiction|]. apply IH, H.
Qed.
Lemma lookup_update_other t u r s : t <> u -> lookup t (update u r s) = lookup t s.
Proof.
  intros N. induction s as [|[t' r'] s IH]; cbn; [reflexivity|].
  destruct (Nat.eqb_spec u t') as [E|E]; cbn.
  - destruct (Nat.eqb_spec t t'); [congruence|reflexivity].
  - destruct (Nat.eqb_spec t t'); [reflexivity|apply IH].
Qed.
Lemma lookup_remove_other t u s : t <> u -> lookup t (remove u s) = lookup t s.
Proof.
  intros N. induction s as [|[t' r'] s IH]; cbn; [reflexivity|].
  destruct (Nat.eqb_spec u t') as [E|E]; cbn.
  - destruct (Nat.eqb_spec t t'); [congruence|reflexivity].
  - destruct (Nat.eqb_spec t t'); [reflexivity|apply IH].
Qed.
Lemma lookup_app_other t u s : t <> u -> lookup t (s ++ [(u, [])]) = lookup t s.
Proof.
  intros N. induction s as [|[t' r'] s IH]; cbn; [destruct (Nat.eqb_spec t u); [contradiction|reflexivity]|].
  destruct (Nat.eqb_spec t t'); [reflexivity|apply IH].
Qed.
(** a statement only reads and writes its own table *)
Lemma exec_other_table s st t : t <> table_of st -> lookup t (fst (exec s st)) = lookup t s.
Proof.
  intros N. destruct st as [u|u|u ks|u ks|u]; cbn [exec table_of] in *; destruct (lookup u s); cbn [fst];
    try reflexivity; try (apply lookup_update_other, N); try (apply lookup_remove_other, N); apply lookup_app_other, N.
Qed.
Lemma exec_result_local s s' st : lookup (table_of st) s = lookup (table_of st) s' -> snd (exec s st) = snd (exec s' st).
Proof. intros H. destruct st; cbn [exec table_of] in *; rewrite H; destruct (lookup _ s'); reflexivity. Qed.

(** statements of different tables commute: same results, same content of every table *)
Theorem independent_statements_commute s a b : table_of a <> table_of b ->
  snd (exec s a) = snd (exec (fst (exec s b)) a) /\ snd (exec s b) = snd (exec (fst (exec s a)) b).
Proof.
  intros N. split; apply exec_result_local; symmetry; apply exec_other_table; congruence.
Qed.

(** a certificate accepted by [explains] IS a serial execution: the order respects every session's
    own order (replay consumes each session front to back) and reproduces the observed results *)
Theorem explains_sound sort sessions order observed final :
  explains sort sessions order observed final = true ->
  exists s log, replay 0 [] sessions order [] = Some (s, log) /\
    (forall i, i < length sessions -> eq_lres (results_of i log) (nth i observed []) = true).
Proof.
  unfold explains. destruct (replay 0 [] sessions order []) as [[s log]|]; [|discriminate]. intros H.
  exists s, log. split; [reflexivity|]. apply andb_prop in H as [H _]. apply andb_prop in H as [H _].
  rewrite forallb_forall in H. intros i Hi. apply H. apply in_seq. lia.
Qed.
