(** * Proofs about the typing tables and the insert conversion (C16) *)
From RL Require Import Model.Types.
From Coq Require Import Lia.

(** the pairs on which the analysis accepts an expression that no kernel implements (the statement
    then FAILS at run time, it never returns a wrongly typed column): they concern C17 *)
Definition no_kernel (o : bop) (a b : dty) : bool :=
  match static_bin o a b, runtime_bin o a b with Some _, None => true | _, _ => false end.

(** on every operator and every pair of types: if the kernel returns an array at all, its variant
    is the statically derived type (finite domain: all 10 x 13 x 13 cases by computation) *)
Lemma types_agree_b :
  forallb (fun o => forallb (fun a => forallb (fun b =>
    match static_bin o a b, runtime_bin o a b with
    | Some t, Some r => dty_eqb t r
    | _, _ => true
    end) all_dty) all_dty) all_bop = true.
Proof. vm_compute. reflexivity. Qed.
Lemma all_dty_complete t : In t all_dty. Proof. destruct t; cbn; tauto. Qed.
Lemma all_bop_complete o : In o all_bop. Proof. destruct o; cbn; tauto. Qed.
Lemma dty_eqb_eq a b : dty_eqb a b = true -> a = b. Proof. destruct a, b; cbn; intros; congruence. Qed.
Theorem types_agree o a b t r : static_bin o a b = Some t -> runtime_bin o a b = Some r -> r = t.
Proof.
  intros Hs Hr. pose proof types_agree_b as H. rewrite forallb_forall in H. specialize (H o (all_bop_complete o)).
  rewrite forallb_forall in H. specialize (H a (all_dty_complete a)). rewrite forallb_forall in H. specialize (H b (all_dty_complete b)).
  rewrite Hs, Hr in H. symmetry. apply dty_eqb_eq, H.
Qed.
(** a kernel never runs on operands the analysis rejected *)
Theorem runtime_implies_static o a b r : runtime_bin o a b = Some r -> static_bin o a b <> None.
Proof. destruct o, a, b; cbn; intros; congruence. Qed.

(** INSERT: the stored value has the declared type (or is a NULL in a nullable column) and is
    the inserted value *)
Theorem insert_typed t n v w : insert_cast t n v = IOk w -> (w = VNull /\ n = true) \/ tyof w = t.
Proof.
  unfold insert_cast. destruct v as [|t0 z|s|b].
  - destruct n; intros E; inversion E; auto.
  - destruct (bits t) as [wd|] eqn:Eb; [|discriminate]. destruct (fits wd z); intros E; inversion E; subst. right; reflexivity.
  - destruct t; intros E; inversion E; subst; right; reflexivity.
  - destruct t; intros E; inversion E; subst; right; reflexivity.
Qed.
Theorem insert_lossless t n v w : insert_cast t n v = IOk w ->
  match v with VNull => w = VNull | VInt _ z => num w = Some z | _ => w = v end.
Proof.
  unfold insert_cast. destruct v as [|t0 z|s|b].
  - destruct n; intros E; inversion E; reflexivity.
  - destruct (bits t) as [wd|]; [|discriminate]. destruct (fits wd z); intros E; inversion E; reflexivity.
  - destruct t; intros E; inversion E; reflexivity.
  - destruct t; intros E; inversion E; reflexivity.
Qed.
Theorem not_null_respected t v w : insert_cast t false v = IOk w -> w <> VNull.
Proof.
  unfold insert_cast. destruct v as [|t0 z|s|b]; [discriminate| | |].
  - destruct (bits t) as [wd|]; [|discriminate]. destruct (fits wd z); intros E; inversion E; discriminate.
  - destruct t; intros E; inversion E; discriminate.
  - destruct t; intros E; inversion E; discriminate.
Qed.
Theorem insert_in_range t n t0 z w : insert_cast t n (VInt t0 z) = IOk w ->
  exists wd, bits t = Some wd /\ - 2 ^ (wd - 1) <= z < 2 ^ (wd - 1).
Proof.
  unfold insert_cast. destruct (bits t) as [wd|]; [|discriminate]. destruct (fits wd z) eqn:F; [|discriminate]. intros _. exists wd. split; [reflexivity|].
  unfold fits in F. apply andb_prop in F as [F1 F2]. apply Z.leb_le in F1. apply Z.ltb_lt in F2. lia.
Qed.
