(** * C11 — simple (ungrouped) aggregation, which updates its state chunk by chunk with array-level
    functions, returns what the row-by-row aggregation over the concatenated input returns:
    for COUNT-star, COUNT, COUNT(DISTINCT) on any values and SUM / MIN / MAX on a column of one integer
    type (with NULLs). *)
From RL Require Import Model.Exec Proofs.ValP Proofs.ExecP.
From Coq Require Import Lia.
Open Scope Z_scope.

Inductive ity := I16 | I32 | I64.
Definition mk (t : ity) (z : Z) : dv := match t with I16 => DI16 z | I32 => DI32 z | I64 => DI64 z end.
Definition typed (t : ity) (v : dv) : Prop := v = DNull \/ exists z, v = mk t z.
Definition row_fold (a : agg) (s : astate) (rows : list row) : astate := fold_left (fun s r => agg_append a s (agg_arg a r)) rows s.

Lemma fold_left_map' {A B C} (f : C -> B -> C) (g : A -> B) l s : fold_left f (map g l) s = fold_left (fun s x => f s (g x)) l s.
Proof. revert s. induction l as [|x l IH]; intros s; [reflexivity|]. cbn. apply IH. Qed.

(** COUNT-star and COUNT *)
Lemma rowcount_chunk chunk n : agg_chunk ARowCount (AV (DI32 n)) chunk = row_fold ARowCount (AV (DI32 n)) chunk.
Proof.
  unfold row_fold, agg_chunk. revert n. induction chunk as [|r chunk IH]; intros n; cbn [map length fold_left agg_append dv_add].
  - f_equal. f_equal. lia.
  - rewrite <- IH. cbn [dv_add]. f_equal. f_equal. lia.
Qed.
Lemma count_chunk e chunk n : agg_chunk (ACount e) (AV (DI32 n)) chunk = row_fold (ACount e) (AV (DI32 n)) chunk.
Proof.
  unfold row_fold, agg_chunk. revert n. induction chunk as [|r chunk IH]; intros n; cbn [map filter length fold_left agg_append agg_arg dv_add].
  - f_equal. f_equal. lia.
  - rewrite <- IH. cbn [dv_add agg_arg]. destruct (is_null (sx_eval e r)); cbn [negb length dv_add]; f_equal; f_equal; lia.
Qed.
Lemma rowcount_state chunk n : exists m, row_fold ARowCount (AV (DI32 n)) chunk = AV (DI32 m).
Proof. revert n. induction chunk as [|r chunk IH]; intros n; [eexists; reflexivity|]. unfold row_fold. cbn [fold_left agg_append dv_add]. apply IH. Qed.
Lemma count_state e chunk n : exists m, row_fold (ACount e) (AV (DI32 n)) chunk = AV (DI32 m).
Proof. revert n. induction chunk as [|r chunk IH]; intros n; [eexists; reflexivity|]. unfold row_fold. cbn [fold_left agg_append dv_add]. apply IH. Qed.

(** COUNT(DISTINCT): the set of seen values is updated value by value in both *)
Lemma distinct_chunk e chunk seen : agg_chunk (ACountDistinct e) (AD seen) chunk = row_fold (ACountDistinct e) (AD seen) chunk.
Proof. unfold agg_chunk, row_fold. apply fold_left_map'. Qed.
Lemma distinct_state e chunk seen : exists seen', row_fold (ACountDistinct e) (AD seen) chunk = AD seen'.
Proof. revert seen. induction chunk as [|r chunk IH]; intros seen; [eexists; reflexivity|]. unfold row_fold. cbn [fold_left agg_append]. apply IH. Qed.

(** SUM / MIN / MAX over one integer type *)
Lemma typed_add t a b : typed t a -> typed t b -> typed t (dv_add a b).
Proof. intros [->|(x & ->)] [->|(y & ->)]; destruct t; cbn; try (left; reflexivity); right; eexists; reflexivity. Qed.
Lemma dv_add_assoc t a b c : typed t a -> typed t b -> typed t c -> dv_add (dv_add a b) c = dv_add a (dv_add b c).
Proof. intros [->|(x & ->)] [->|(y & ->)] [->|(z & ->)]; destruct t; cbn; try reflexivity; f_equal; lia. Qed.
Lemma dv_add_null_r a : dv_add a DNull = a.
Proof. destruct a; reflexivity. Qed.
Lemma mk_cmp t x y : dv_cmp (mk t x) (mk t y) = (x ?= y).
Proof. destruct t; reflexivity. Qed.
Lemma typed_min t a b : typed t a -> typed t b -> typed t (dv_min a b).
Proof.
  intros [->|(x & ->)] [->|(y & ->)]; try (destruct t; cbn; (left; reflexivity) || (right; eexists; reflexivity)).
  unfold dv_min. destruct t; cbn; destruct (x ?= y); right; eexists; reflexivity.
Qed.
Lemma typed_max t a b : typed t a -> typed t b -> typed t (dv_max a b).
Proof.
  intros [->|(x & ->)] [->|(y & ->)]; try (destruct t; cbn; (left; reflexivity) || (right; eexists; reflexivity)).
  unfold dv_max. destruct t; cbn; destruct (x ?= y); right; eexists; reflexivity.
Qed.
Lemma dv_min_mk t x y : dv_min (mk t x) (mk t y) = mk t (Z.min x y).
Proof. unfold dv_min. destruct t; cbn; destruct (Z.compare_spec x y); f_equal; lia. Qed.
Lemma dv_max_mk t x y : dv_max (mk t x) (mk t y) = mk t (Z.max x y).
Proof. unfold dv_max. destruct t; cbn; destruct (Z.compare_spec x y); f_equal; lia. Qed.
Lemma dv_min_null_l a : dv_min DNull a = a. Proof. destruct a; reflexivity. Qed.
Lemma dv_min_null_r a : dv_min a DNull = a. Proof. destruct a; reflexivity. Qed.
Lemma dv_max_null_l a : dv_max DNull a = a. Proof. destruct a; reflexivity. Qed.
Lemma dv_max_null_r a : dv_max a DNull = a. Proof. destruct a; reflexivity. Qed.
Lemma dv_min_assoc t a b c : typed t a -> typed t b -> typed t c -> dv_min (dv_min a b) c = dv_min a (dv_min b c).
Proof.
  intros [->|(x & ->)] [->|(y & ->)] [->|(z & ->)]; rewrite ?dv_min_null_l, ?dv_min_null_r, ?dv_min_mk, ?dv_min_null_l, ?dv_min_null_r; try reflexivity.
  f_equal. lia.
Qed.
Lemma dv_max_assoc t a b c : typed t a -> typed t b -> typed t c -> dv_max (dv_max a b) c = dv_max a (dv_max b c).
Proof.
  intros [->|(x & ->)] [->|(y & ->)] [->|(z & ->)]; rewrite ?dv_max_null_l, ?dv_max_null_r, ?dv_max_mk, ?dv_max_null_l, ?dv_max_null_r; try reflexivity.
  f_equal. lia.
Qed.

(** a monoid-like fold: combining the state with the fold of the non-NULL values = folding value by value *)
Section Monoid.
  Variable t : ity.
  Variable op : dv -> dv -> dv.
  Hypothesis op_typed : forall a b, typed t a -> typed t b -> typed t (op a b).
  Hypothesis op_assoc : forall a b c, typed t a -> typed t b -> typed t c -> op (op a b) c = op a (op b c).
  Hypothesis op_null_l : forall a, op DNull a = a.
  Hypothesis op_null_r : forall a, op a DNull = a.

  Lemma fold_typed vals s : typed t s -> Forall (typed t) vals -> typed t (fold_left op vals s).
  Proof. revert s. induction vals as [|v vals IH]; intros s Hs Hv; [exact Hs|]. inversion Hv; subst. cbn. apply IH; [apply op_typed; assumption|assumption]. Qed.
  Lemma fold_shift vals s : typed t s -> Forall (typed t) vals -> fold_left op vals s = op s (fold_left op vals DNull).
  Proof.
    revert s. induction vals as [|v vals IH]; intros s Hs Hv; cbn [fold_left]; [rewrite op_null_r; reflexivity|].
    inversion Hv as [|? ? Hv1 Hv2]; subst. rewrite (IH (op s v)) by (try apply op_typed; assumption).
    rewrite op_null_l. rewrite (IH v Hv1 Hv2). apply op_assoc; [assumption|assumption|]. apply fold_typed; [left; reflexivity|assumption].
  Qed.
  Lemma fold_skip_null vals s : fold_left op (filter (fun v => negb (is_null v)) vals) s = fold_left op vals s.
  Proof.
    revert s. induction vals as [|v vals IH]; intros s; [reflexivity|]. cbn [filter fold_left].
    destruct v; cbn [is_null negb fold_left]; rewrite ?op_null_r; apply IH.
  Qed.
  Lemma monoid_chunk vals s : typed t s -> Forall (typed t) vals ->
    op s (fold_left op (filter (fun v => negb (is_null v)) vals) DNull) = fold_left op vals s.
  Proof. intros Hs Hv. rewrite fold_skip_null. symmetry. apply fold_shift; assumption. Qed.
End Monoid.

Definition arg_typed (t : ity) (a : agg) (rows : list row) : Prop := Forall (typed t) (map (agg_arg a) rows).

Lemma sum_chunk t e chunk st : typed t st -> arg_typed t (ASum e) chunk ->
  agg_chunk (ASum e) (AV st) chunk = row_fold (ASum e) (AV st) chunk /\ exists st', row_fold (ASum e) (AV st) chunk = AV st' /\ typed t st'.
Proof.
  intros Hs Hv. unfold agg_chunk, row_fold, arg_typed in *.
  rewrite (monoid_chunk t dv_add (typed_add t) (dv_add_assoc t) (fun a => eq_refl) dv_add_null_r _ _ Hs Hv).
  assert (G : forall rows s, Forall (typed t) (map (agg_arg (ASum e)) rows) -> typed t s ->
              fold_left (fun s r => agg_append (ASum e) s (agg_arg (ASum e) r)) rows (AV s) = AV (fold_left dv_add (map (agg_arg (ASum e)) rows) s)).
  { induction rows as [|r rows IH]; intros s Hr Hs'; [reflexivity|]. cbn [map fold_left agg_append]. inversion Hr; subst. apply IH; [assumption|apply typed_add; assumption]. }
  rewrite (G chunk st Hv Hs). split; [reflexivity|]. eexists. split; [reflexivity|]. apply (fold_typed t dv_add (typed_add t)); assumption.
Qed.
Lemma min_chunk t e chunk st : typed t st -> arg_typed t (AMin e) chunk ->
  agg_chunk (AMin e) (AV st) chunk = row_fold (AMin e) (AV st) chunk /\ exists st', row_fold (AMin e) (AV st) chunk = AV st' /\ typed t st'.
Proof.
  intros Hs Hv. unfold agg_chunk, row_fold, arg_typed in *.
  rewrite (monoid_chunk t dv_min (typed_min t) (dv_min_assoc t) dv_min_null_l dv_min_null_r _ _ Hs Hv).
  assert (G : forall rows s, Forall (typed t) (map (agg_arg (AMin e)) rows) -> typed t s ->
              fold_left (fun s r => agg_append (AMin e) s (agg_arg (AMin e) r)) rows (AV s) = AV (fold_left dv_min (map (agg_arg (AMin e)) rows) s)).
  { induction rows as [|r rows IH]; intros s Hr Hs'; [reflexivity|]. cbn [map fold_left agg_append]. inversion Hr; subst. apply IH; [assumption|apply typed_min; assumption]. }
  rewrite (G chunk st Hv Hs). split; [reflexivity|]. eexists. split; [reflexivity|]. apply (fold_typed t dv_min (typed_min t)); assumption.
Qed.
Lemma max_chunk t e chunk st : typed t st -> arg_typed t (AMax e) chunk ->
  agg_chunk (AMax e) (AV st) chunk = row_fold (AMax e) (AV st) chunk /\ exists st', row_fold (AMax e) (AV st) chunk = AV st' /\ typed t st'.
Proof.
  intros Hs Hv. unfold agg_chunk, row_fold, arg_typed in *.
  rewrite (monoid_chunk t dv_max (typed_max t) (dv_max_assoc t) dv_max_null_l dv_max_null_r _ _ Hs Hv).
  assert (G : forall rows s, Forall (typed t) (map (agg_arg (AMax e)) rows) -> typed t s ->
              fold_left (fun s r => agg_append (AMax e) s (agg_arg (AMax e) r)) rows (AV s) = AV (fold_left dv_max (map (agg_arg (AMax e)) rows) s)).
  { induction rows as [|r rows IH]; intros s Hr Hs'; [reflexivity|]. cbn [map fold_left agg_append]. inversion Hr; subst. apply IH; [assumption|apply typed_max; assumption]. }
  rewrite (G chunk st Hv Hs). split; [reflexivity|]. eexists. split; [reflexivity|]. apply (fold_typed t dv_max (typed_max t)); assumption.
Qed.

(** ** whole inputs *)
(** the states an aggregate goes through, and when its arguments are acceptable *)
Definition good_state (t : ity) (a : agg) (s : astate) : Prop :=
  match a, s with
  | (ARowCount | ACount _), AV (DI32 _) => True
  | ACountDistinct _, AD _ => True
  | (ASum _ | AMin _ | AMax _), AV st => typed t st
  | _, _ => False
  end.
Definition supported (t : ity) (a : agg) (rows : list row) : Prop :=
  match a with
  | ARowCount | ACount _ | ACountDistinct _ => True
  | ASum _ | AMin _ | AMax _ => arg_typed t a rows
  | _ => False
  end.
Lemma chunk_step t a s chunk : good_state t a s -> supported t a chunk ->
  agg_chunk a s chunk = row_fold a s chunk /\ good_state t a (row_fold a s chunk).
Proof.
  intros Hg Hs. destruct a; cbn [supported] in Hs; try contradiction; destruct s as [st|seen]; cbn [good_state] in Hg; try contradiction.
  - destruct st; try contradiction. split; [apply count_chunk|]. destruct (count_state e chunk z) as (m & ->). exact I.
  - destruct (sum_chunk t e chunk st Hg Hs) as (H1 & st' & H2 & H3). split; [exact H1|]. rewrite H2. exact H3.
  - destruct (min_chunk t e chunk st Hg Hs) as (H1 & st' & H2 & H3). split; [exact H1|]. rewrite H2. exact H3.
  - destruct (max_chunk t e chunk st Hg Hs) as (H1 & st' & H2 & H3). split; [exact H1|]. rewrite H2. exact H3.
  - split; [apply distinct_chunk|]. destruct (distinct_state e chunk seen) as (s' & ->). exact I.
  - destruct st; try contradiction. split; [apply rowcount_chunk|]. destruct (rowcount_state chunk z) as (m & ->). exact I.
Qed.
Lemma supported_app t a x y : supported t a (x ++ y) -> supported t a x /\ supported t a y.
Proof.
  destruct a; cbn [supported]; try tauto; unfold arg_typed; rewrite map_app; intros H; apply Forall_app in H; exact H.
Qed.
Lemma chunks_fold t a : forall c s, good_state t a s -> supported t a (concat c) ->
  fold_left (agg_chunk a) c s = row_fold a s (concat c).
Proof.
  induction c as [|chunk c IH]; intros s Hg Hs; [reflexivity|]. cbn [fold_left concat] in *.
  apply supported_app in Hs as [H1 H2]. destruct (chunk_step t a s chunk Hg H1) as [E Hg'].
  rewrite E, (IH _ Hg' H2). unfold row_fold. rewrite fold_left_app. reflexivity.
Qed.
Lemma good_init t a : match a with AFirst _ | ALast _ => False | _ => True end -> good_state t a (agg_init a).
Proof. destruct a; cbn; try tauto; intros _; left; reflexivity. Qed.

Theorem simpleagg_eq_rowwise t aggs c :
  Forall (fun a => supported t a (concat c)) aggs ->
  x_simpleagg aggs c = [map (fun a => agg_rows a (concat c)) aggs].
Proof.
  intros H. unfold x_simpleagg, agg_rows. f_equal. apply map_ext_in. intros a Ha.
  rewrite Forall_forall in H. specialize (H a Ha). f_equal.
  apply (chunks_fold t a c (agg_init a)); [|exact H]. apply good_init. destruct a; cbn [supported] in H; tauto.
Qed.

Example simpleagg_example :
  let c := [[ [DI32 4; DI32 1]; [DNull; DI32 2] ]; []; [ [DI32 (-3); DNull] ]] in
  Forall (fun a => supported I32 a (concat c)) [ASum (SCol 0); AMin (SCol 0); ACount (SCol 1); ARowCount; ACountDistinct (SCol 1)] /\
  x_simpleagg [ASum (SCol 0); AMin (SCol 0); ACount (SCol 1); ARowCount; ACountDistinct (SCol 1)] c = [[DI32 1; DI32 (-3); DI32 2; DI32 3; DI32 2]].
Proof.
  cbv zeta. split; [|reflexivity].
  repeat (apply Forall_cons;
          [solve [cbn [supported]; try exact I; unfold arg_typed; cbn;
                  repeat (apply Forall_cons; [first [left; reflexivity|right; eexists; reflexivity]|]); apply Forall_nil]|]);
  apply Forall_nil.
Qed.
