(** * Round-trip theorems for the block encodings. *)
From RL Require Import Model.Codec Proofs.BytesP.
From Coq Require Import Lia ZifyBool.
Open Scope Z_scope.

(** ** laws of the fixed-width codecs *)
Record fw_laws (c : fw) : Prop := {
  fwl_len : forall a, length (fw_enc c a) = fw_width c;
  fwl_dec : forall a rest, fw_okb c a = true -> fw_dec c (fw_enc c a ++ rest) = a;
  fwl_def : fw_okb c (fw_default c) = true
}.

Lemma in_range_0 w : (0 < w)%nat -> in_range_b w 0 = true.
Proof.
  intros H. apply in_range_b_spec. unfold in_range.
  assert (0 < 2 ^ (bits_of w - 1)) by (apply Z.pow_pos_nonneg; unfold bits_of; lia). lia.
Qed.

Lemma fw_int_le_laws w : (0 < w)%nat -> fw_laws (fw_int_le w).
Proof.
  intros Hw. split; cbn.
  - intros a. apply sle_enc_length.
  - intros [z| |] rest H; try discriminate. cbn. f_equal. apply sle_dec_enc; [exact Hw|apply in_range_b_spec, H].
  - apply in_range_0, Hw.
Qed.
Lemma fw_int_be_laws w : (0 < w)%nat -> fw_laws (fw_int_be w).
Proof.
  intros Hw. split; cbn.
  - intros a. apply sbe_enc_length.
  - intros [z| |] rest H; try discriminate. cbn. f_equal. apply sbe_dec_enc; [exact Hw|apply in_range_b_spec, H].
  - apply in_range_0, Hw.
Qed.
Lemma fw_bits_le_laws w : fw_laws (fw_bits_le w).
Proof.
  split; cbn.
  - intros a. apply ule_enc_length.
  - intros [z| |] rest H; try discriminate. cbn. f_equal. apply ule_dec_enc_small.
    apply andb_prop in H as [H1 H2]. split; [apply Z.leb_le, H1|apply Z.ltb_lt, H2].
  - apply Z.ltb_lt, (pow_bits_pos w).
Qed.
Lemma fw_f64_laws : fw_laws fw_f64.
Proof.
  split; cbn [fw_f64 fw_width fw_enc fw_dec fw_default fw_okb cint].
  - intros a. apply ule_enc_length.
  - intros [z| |] rest H; try discriminate. cbn [cint]. f_equal.
    apply (ule_dec_enc_small 8).
    apply andb_prop in H as [H1 H2]. split; [apply Z.leb_le, H1|apply Z.ltb_lt, H2].
  - reflexivity.
Qed.
Lemma fw_bool_laws : fw_laws fw_bool.
Proof.
  split; cbn.
  - reflexivity.
  - intros [z| |] rest H; try discriminate. cbn. f_equal. destruct (Z.eqb_spec z 0); lia.
  - reflexivity.
Qed.
Lemma fw_interval_laws : fw_laws fw_interval.
Proof.
  split; cbn [fw_interval fw_width fw_enc fw_dec fw_default fw_okb].
  - intros [z|b|m d s]; rewrite !app_length, !sbe_enc_length; reflexivity.
  - intros [z|b|m d s] rest H; try discriminate.
    apply andb_prop in H as [H Hs]. apply andb_prop in H as [Hm Hd].
    apply in_range_b_spec in Hm, Hd, Hs.
    rewrite <- !app_assoc.
    rewrite sbe_dec_enc by (try lia; assumption).
    rewrite skipn_app_exact by (rewrite sbe_enc_length; reflexivity).
    rewrite sbe_dec_enc by (try lia; assumption).
    replace 8%nat with (4 + 4)%nat by reflexivity. rewrite skipn_add.
    rewrite skipn_app_exact by (rewrite sbe_enc_length; reflexivity).
    rewrite skipn_app_exact by (rewrite sbe_enc_length; reflexivity).
    rewrite sbe_dec_enc by (try lia; assumption). reflexivity.
  - reflexivity.
Qed.

(** ** plain blocks *)
Theorem plain_roundtrip c : fw_laws c -> forall xs rest,
  forallb (fw_okb c) xs = true -> plain_dec c (length xs) (plain_enc c xs ++ rest) = xs.
Proof.
  intros L. induction xs as [|x xs IH]; intros rest H; cbn [length plain_dec plain_enc flat_map]; [reflexivity|].
  cbn [forallb] in H. apply andb_prop in H as [Hx Hxs].
  rewrite <- app_assoc. rewrite (fwl_dec c L) by exact Hx.
  rewrite skipn_app_exact by (rewrite (fwl_len c L); reflexivity).
  f_equal. apply IH, Hxs.
Qed.

(** ** laws of non-nullable block bodies *)
Record nn_laws (b : nnblock) : Prop := {
  nnl_rt : forall xs, forallb (nn_okb b) xs = true -> nn_dec b (length xs) (nn_enc b xs) = xs;
  nnl_def : nn_okb b (nn_default b) = true
}.
Lemma nn_plain_laws c : fw_laws c -> nn_laws (nn_plain c).
Proof.
  intros L. split; cbn.
  - intros xs H. rewrite <- (app_nil_r (plain_enc c xs)). apply plain_roundtrip; assumption.
  - apply (fwl_def c L).
Qed.

(** ** blob / varchar blocks *)
Lemma blob_offsets_length acc xs : length (blob_offsets acc xs) = length xs.
Proof. revert acc; induction xs as [|x xs IH]; intros acc; cbn; [reflexivity|]. rewrite IH. reflexivity. Qed.
Lemma flat_map_ule_length (l : list Z) : length (flat_map (ule_enc 4) l) = (4 * length l)%nat.
Proof. induction l as [|a l IH]; cbn [flat_map length]; [reflexivity|]. rewrite app_length, ule_enc_length, IH. lia. Qed.

Definition total_len (xs : list cell) : nat := length (flat_map cbytes xs).

Lemma blob_off_spec : forall xs acc i rest,
  (i <= length xs)%nat -> Z.of_nat (acc + total_len xs) < 2 ^ 32 ->
  blob_off (flat_map (ule_enc 4) (blob_offsets acc xs) ++ rest) i
  = match i with O => O | _ => (acc + total_len (firstn i xs))%nat end.
Proof.
  induction xs as [|x xs IH]; intros acc i rest Hi Hb.
  - cbn in Hi. assert (i = O) by lia. subst. reflexivity.
  - destruct i as [|i]; [reflexivity|].
    cbn [blob_offsets flat_map]. destruct i as [|i].
    + cbn [blob_off Nat.mul Nat.add skipn]. rewrite <- app_assoc.
      rewrite ule_dec_enc_small.
      * cbn [firstn]. unfold total_len. cbn [flat_map]. rewrite app_nil_r. lia.
      * change (bits_of 4) with 32. unfold total_len in Hb. cbn [flat_map] in Hb. rewrite app_length in Hb. lia.
    + cbn [length] in Hi.
      assert (Hb' : Z.of_nat (acc + length (cbytes x) + total_len xs) < 2 ^ 32).
      { unfold total_len in *. cbn [flat_map] in Hb. rewrite app_length in Hb. lia. }
      specialize (IH (acc + length (cbytes x))%nat (S i) rest ltac:(lia) Hb').
      cbn [blob_off] in IH |- *.
      replace (4 * S i)%nat with (4 + 4 * i)%nat by lia.
      rewrite skipn_add. rewrite <- app_assoc.
      rewrite skipn_app_exact by (rewrite ule_enc_length; reflexivity).
      rewrite IH. unfold total_len. cbn [firstn flat_map]. rewrite app_length. lia.
Qed.

Lemma firstn_skipn_flat_map : forall (xs : list cell) i,
  (i < length xs)%nat ->
  firstn (total_len (firstn (S i) xs) - total_len (firstn i xs))
         (skipn (total_len (firstn i xs)) (flat_map cbytes xs)) = cbytes (nth i xs (CBytes [])).
Proof.
  unfold total_len. induction xs as [|x xs IH]; intros i Hi; cbn in Hi; [lia|].
  destruct i as [|i].
  - cbn [firstn flat_map nth length skipn]. rewrite app_nil_r, Nat.sub_0_r. apply firstn_app_exact. reflexivity.
  - rewrite !firstn_cons. cbn [flat_map nth]. rewrite !app_length.
    replace (length (cbytes x) + length (flat_map cbytes (firstn (S i) xs))
             - (length (cbytes x) + length (flat_map cbytes (firstn i xs))))%nat
      with (length (flat_map cbytes (firstn (S i) xs)) - length (flat_map cbytes (firstn i xs)))%nat by lia.
    rewrite skipn_app. rewrite (skipn_all2 (cbytes x)) by lia. cbn [app].
    replace (length (cbytes x) + length (flat_map cbytes (firstn i xs)) - length (cbytes x))%nat
      with (length (flat_map cbytes (firstn i xs))) by lia.
    apply IH. lia.
Qed.

Lemma total_len_mono xs i : (total_len (firstn i xs) <= total_len (firstn (S i) xs))%nat.
Proof.
  unfold total_len. revert i. induction xs as [|x xs IH]; intros i; [destruct i; cbn; lia|].
  destruct i as [|i]; cbn [firstn flat_map]; rewrite ?app_length; [cbn; lia|]. specialize (IH i). cbn [firstn] in IH. lia.
Qed.

Theorem blob_roundtrip xs :
  forallb (nn_okb nn_blob) xs = true -> Z.of_nat (total_len xs) < 2 ^ 32 ->
  blob_dec (length xs) (blob_enc xs) = xs.
Proof.
  intros Hok Hb. unfold blob_dec.
  apply nth_ext with (d := CBytes []) (d' := CBytes []).
  - rewrite map_length, seq_length. reflexivity.
  - intros i Hi. rewrite map_length, seq_length in Hi.
    rewrite (nth_indep _ (CBytes []) (blob_get (length xs) (blob_enc xs) 0)) by (rewrite map_length, seq_length; exact Hi).
    rewrite map_nth, seq_nth by exact Hi. cbn [Nat.add].
    unfold blob_get, blob_enc.
    rewrite !(blob_off_spec xs 0 _ (flat_map cbytes xs)) by (cbn [Nat.add]; try lia; exact Hb).
    rewrite skipn_app_exact by (rewrite flat_map_ule_length, blob_offsets_length; reflexivity).
    cbn [Nat.add].
    assert (Hnth : exists b, nth i xs (CBytes []) = CBytes b).
    { rewrite forallb_forall in Hok. specialize (Hok (nth i xs (CBytes [])) (nth_In _ _ Hi)).
      destruct (nth i xs (CBytes [])); cbn in Hok; try discriminate. eexists; reflexivity. }
    destruct Hnth as [b Eb].
    destruct i as [|i].
    + replace (total_len (firstn 1 xs) - 0)%nat with (total_len (firstn 1 xs) - total_len (firstn 0 xs))%nat
        by (unfold total_len; cbn; lia).
      change (skipn 0 (flat_map cbytes xs)) with (skipn (total_len (firstn 0 xs)) (flat_map cbytes xs)).
      rewrite firstn_skipn_flat_map by exact Hi. rewrite Eb. reflexivity.
    + rewrite firstn_skipn_flat_map by exact Hi. rewrite Eb. reflexivity.
Qed.

Lemma nn_blob_laws_rt xs : forallb (nn_okb nn_blob) xs = true -> Z.of_nat (total_len xs) < 2 ^ 32 ->
  nn_dec nn_blob (length xs) (nn_enc nn_blob xs) = xs.
Proof. apply blob_roundtrip. Qed.

(** ** blocks over nullable values: the round-trip predicate *)
(** [bk_rt k P]: for every value list satisfying the size guard [P] and made of valid values,
    decoding the encoding gives the list back *)
Definition bk_rt (k : block_codec) (P : list (option cell) -> Prop) : Prop :=
  forall xs, P xs -> forallb (bk_okb k) xs = true -> bk_dec k (length xs) (bk_enc k xs) = xs.

Lemma map_or_default_some d (xs : list (option cell)) :
  forallb (fun o => match o with Some _ => true | None => false end) xs = true ->
  map Some (map (or_default d) xs) = xs.
Proof.
  induction xs as [|[x|] xs IH]; intros H; cbn in *; try discriminate; [reflexivity|]. rewrite IH by exact H. reflexivity.
Qed.

Theorem plain_block_roundtrip b (P : list (option cell) -> Prop) :
  (forall xs, P xs -> forallb (nn_okb b) (map (or_default (nn_default b)) xs) = true ->
              nn_dec b (length xs) (nn_enc b (map (or_default (nn_default b)) xs)) = map (or_default (nn_default b)) xs) ->
  bk_rt (bk_plain b) P.
Proof.
  intros Hrt xs HP Hok. cbn [bk_plain bk_dec bk_enc].
  assert (Hall : forallb (fun o => match o with Some _ => true | None => false end) xs = true).
  { rewrite forallb_forall in *. intros x Hx. specialize (Hok x Hx). destruct x; [reflexivity|discriminate]. }
  assert (Hin : forallb (nn_okb b) (map (or_default (nn_default b)) xs) = true).
  { rewrite forallb_forall in *. intros x Hx. apply in_map_iff in Hx as (o & <- & Ho).
    specialize (Hok o Ho). destruct o; [exact Hok|discriminate]. }
  rewrite Hrt by assumption. apply map_or_default_some, Hall.
Qed.

(** nullable *)
Lemma zip_valid_spec d : forall xs : list (option cell),
  zip_valid (map is_some xs) (map (or_default d) xs) = xs.
Proof. induction xs as [|[x|] xs IH]; cbn; [reflexivity| |]; rewrite IH; reflexivity. Qed.

Lemma pack_bits_length_le bs : (length (pack_bits bs) <= length bs)%nat.
Proof.
  remember (length bs) as n eqn:E. revert bs E. induction n as [n IH] using lt_wf_ind. intros bs E.
  destruct bs as [|b0 [|b1 [|b2 [|b3 [|b4 [|b5 [|b6 [|b7 r]]]]]]]]; cbn [pack_bits length] in *; try lia.
  specialize (IH (length r) ltac:(lia) r eq_refl). lia.
Qed.

Lemma nullable_split_enc inner bm :
  Z.of_nat (length bm) < 2 ^ 32 ->
  nullable_split (inner ++ bm ++ ule_enc 4 (Z.of_nat (length bm))) = (inner, bm).
Proof.
  intros Hb. unfold nullable_split.
  rewrite !app_length, ule_enc_length.
  replace (length inner + (length bm + 4) - 4)%nat with (length (inner ++ bm)) by (rewrite app_length; lia).
  rewrite app_assoc, skipn_app_exact by reflexivity.
  rewrite ule_dec_enc, Z.mod_small by (change (bits_of 4) with 32; lia).
  rewrite Nat2Z.id.
  replace (length (inner ++ bm) - length bm)%nat with (length inner) by (rewrite app_length; lia).
  rewrite <- app_assoc. rewrite firstn_app_exact by reflexivity.
  rewrite skipn_app_exact by reflexivity. rewrite firstn_app_exact by reflexivity. reflexivity.
Qed.

Theorem nullable_block_roundtrip b (P : list (option cell) -> Prop) :
  (forall xs, P xs -> forallb (nn_okb b) (map (or_default (nn_default b)) xs) = true ->
              nn_dec b (length xs) (nn_enc b (map (or_default (nn_default b)) xs)) = map (or_default (nn_default b)) xs) ->
  nn_okb b (nn_default b) = true ->
  (forall xs, P xs -> Z.of_nat (length xs) < 2 ^ 32) ->
  bk_rt (bk_nullable b) P.
Proof.
  intros Hrt Hdef Hsz xs HP Hok. cbn [bk_nullable bk_dec bk_enc]. unfold nullable_dec, nullable_enc.
  rewrite nullable_split_enc.
  2:{ pose proof (pack_bits_length_le (map is_some xs)) as H. rewrite map_length in H. specialize (Hsz xs HP). lia. }
  rewrite unpack_pack by (rewrite map_length; reflexivity).
  assert (Hin : forallb (nn_okb b) (map (or_default (nn_default b)) xs) = true).
  { rewrite forallb_forall in *. intros x Hx. apply in_map_iff in Hx as (o & <- & Ho).
    specialize (Hok o Ho). destruct o; [exact Hok|exact Hdef]. }
  rewrite Hrt by assumption. apply zip_valid_spec.
Qed.

(** ** run-length blocks *)
Definition eq_exact (eqb : cell -> cell -> bool) (okb : option cell -> bool) : Prop :=
  forall a b, okb (Some a) = true -> okb (Some b) = true -> eqb a b = true -> a = b.

Lemma expand_groups eqb okb : eq_exact eqb okb -> forall xs,
  forallb okb xs = true ->
  let g := rle_groups eqb xs in
  expand_runs (map fst g) (map snd g) = xs /\
  Forall (fun p => 1 <= snd p <= Z.of_nat (length xs)) g /\
  (forall h, In h (map fst g) -> In h xs) /\ (length g <= length xs)%nat.
Proof.
  intros Hex. induction xs as [|x xs IH]; intros Hok; cbn [rle_groups].
  - cbn. repeat split; auto; try lia; try (intros h []).
  - cbn [forallb] in Hok. apply andb_prop in Hok as [Hx Hxs]. specialize (IH Hxs). cbv zeta in IH.
    destruct IH as (He & Hc & Hin & Hl).
    destruct (rle_groups eqb xs) as [|[y n] g] eqn:Eg.
    + cbn in He. subst xs. cbn. repeat split; auto; try lia.
      all: try (constructor; [cbn; lia|constructor]); try (intros h [<-|[]]; left; reflexivity).
    + cbn [map fst snd expand_runs] in He.
      pose proof (Forall_inv Hc) as Hn. pose proof (Forall_inv_tail Hc) as Hc'. cbn [snd] in Hn.
      destruct (oeqb eqb x y) eqn:Exy.
      * (* same run *)
        assert (Eq : x = y).
        { destruct x as [a|], y as [b|]; cbn in Exy; try discriminate; [|reflexivity].
          f_equal. apply Hex; [exact Hx| |exact Exy].
          rewrite forallb_forall in Hxs. apply Hxs. apply Hin. left. reflexivity. }
        subst y. cbv zeta. cbn [map fst snd expand_runs length].
        repeat split.
        -- replace (Z.to_nat (n + 1)) with (S (Z.to_nat n)) by lia. cbn [repeat app]. f_equal. exact He.
        -- constructor; [cbn [snd]; lia|]. eapply Forall_impl; [|exact Hc']. cbn. intros; lia.
        -- intros h [<-|Hh]; [left; reflexivity|]. right. apply Hin. right. exact Hh.
        -- cbn [length] in Hl. lia.
      * cbv zeta. cbn [map fst snd expand_runs length].
        repeat split.
        -- change (Z.to_nat 1) with 1%nat. cbn [repeat app]. f_equal. exact He.
        -- constructor; [cbn [snd]; lia|]. constructor; [cbn [snd]; lia|].
           eapply Forall_impl; [|exact Hc']. cbn. intros; lia.
        -- intros h [<-|Hh]; [left; reflexivity|]. right. apply Hin. exact Hh.
        -- cbn [length] in Hl. lia.
Qed.

Lemma varint_enc_length_le v : (length (varint_enc v) <= 5)%nat.
Proof. unfold varint_enc. cbn. repeat (destruct (_ <? 128); cbn; try lia). Qed.

Lemma flat_map_varint_length (g : list (option cell * Z)) :
  (length (flat_map (fun p => varint_enc (snd p)) g) <= 5 * length g)%nat.
Proof.
  induction g as [|p g IH]; cbn [flat_map length]; [lia|]. rewrite app_length.
  pose proof (varint_enc_length_le (snd p)). lia.
Qed.

Lemma flat_map_map_snd (g : list (option cell * Z)) :
  flat_map (fun p => varint_enc (snd p)) g = flat_map varint_enc (map snd g).
Proof. induction g as [|p g IH]; cbn [flat_map map]; [reflexivity|]. rewrite IH. reflexivity. Qed.

Theorem rle_block_roundtrip inner (P Q : list (option cell) -> Prop) :
  bk_rt inner Q ->
  eq_exact (bk_eqb inner) (bk_okb inner) ->
  (forall xs, P xs -> Z.of_nat (length xs) < 2 ^ 28) ->
  (forall xs, P xs -> Q (map fst (rle_groups (bk_eqb inner) xs))) ->
  bk_rt (bk_rle inner) P.
Proof.
  intros Hin Hex Hsz HQ xs HP Hok. pose proof (HQ xs HP) as HQx. cbn [bk_rle bk_dec bk_enc bk_okb] in *. unfold rle_dec, rle_enc.
  destruct xs as [|x0 xs0] eqn:Exs; [cbn; destruct (bk_dec inner _ _); reflexivity|]. rewrite <- Exs in *. clear Exs x0 xs0.
  pose proof (expand_groups (bk_eqb inner) (bk_okb inner) Hex xs Hok) as Hg. cbv zeta in Hg.
  set (g := rle_groups (bk_eqb inner) xs) in *. destruct Hg as (He & Hc & Hh & Hl).
  specialize (Hsz xs HP).
  set (counts := flat_map (fun p => varint_enc (snd p)) g).
  pose proof (flat_map_varint_length g) as Hcl. fold counts in Hcl.
  assert (H28 : 2 ^ 28 = 268435456) by reflexivity. assert (H32 : 2 ^ 32 = 4294967296) by reflexivity.
  rewrite firstn_app_exact by (rewrite ule_enc_length; reflexivity).
  rewrite ule_dec_enc, Z.mod_small by (change (bits_of 4) with 32; lia). rewrite Nat2Z.id.
  rewrite skipn_app_exact by (rewrite ule_enc_length; reflexivity).
  rewrite firstn_app_exact by (rewrite ule_enc_length; reflexivity).
  rewrite ule_dec_enc, Z.mod_small by (change (bits_of 4) with 32; lia). rewrite Nat2Z.id.
  replace 8%nat with (4 + 4)%nat by reflexivity.
  rewrite skipn_add, skipn_app_exact by (rewrite ule_enc_length; reflexivity).
  rewrite skipn_app_exact by (rewrite ule_enc_length; reflexivity).
  rewrite firstn_app_exact by reflexivity.
  replace (skipn (4 + 4 + length counts)
             (ule_enc 4 (Z.of_nat (length g)) ++ ule_enc 4 (Z.of_nat (length counts)) ++ counts ++ bk_enc inner (map fst g)))
    with (bk_enc inner (map fst g)).
  2:{ rewrite skipn_add, skipn_add.
      rewrite skipn_app_exact by (rewrite ule_enc_length; reflexivity).
      rewrite skipn_app_exact by (rewrite ule_enc_length; reflexivity).
      rewrite skipn_app_exact by reflexivity. reflexivity. }
  unfold counts. rewrite flat_map_map_snd.
  rewrite varints_dec_enc; [| |lia].
  2:{ apply Forall_forall. intros v Hv. apply in_map_iff in Hv as (p & <- & Hp).
      rewrite Forall_forall in Hc. specialize (Hc p Hp). lia. }
  replace (length g) with (length (map fst g)) by apply map_length.
  rewrite Hin; [exact He| exact HQx |].
  rewrite forallb_forall in *. intros h Hh'. apply Hok, Hh, Hh'.
Qed.

(** ** dictionary blocks *)
Lemma cell_eqb_refl a : cell_eqb a a = true.
Proof.
  destruct a as [z|b|m d s]; cbn; [apply Z.eqb_refl| |rewrite !Z.eqb_refl; reflexivity].
  induction b as [|x b IH]; cbn; [reflexivity|]. rewrite Z.eqb_refl, IH. reflexivity.
Qed.
Lemma list_eqb_Z_eq : forall a b, list_eqb Z.eqb a b = true -> a = b.
Proof.
  induction a as [|x a IH]; intros [|y b] H; cbn in H; try discriminate; [reflexivity|].
  apply andb_prop in H as [H1 H2]. apply Z.eqb_eq in H1. subst. f_equal. apply IH, H2.
Qed.
Lemma cell_eqb_eq a b : cell_eqb a b = true -> a = b.
Proof.
  destruct a as [z|x|m d s], b as [z'|y|m' d' s']; cbn; intros H; try discriminate.
  - apply Z.eqb_eq in H. subst. reflexivity.
  - f_equal. apply list_eqb_Z_eq, H.
  - apply andb_prop in H as [H H3]. apply andb_prop in H as [H1 H2].
    apply Z.eqb_eq in H1, H2, H3. subst. reflexivity.
Qed.
Lemma eq_exact_cell okb : eq_exact cell_eqb okb.
Proof. intros a b _ _ H. apply cell_eqb_eq, H. Qed.

Lemma find_idx_spec eqb : forall d v i, find_idx eqb v d = Some i ->
  (i < length d)%nat /\ eqb (nth i d v) v = true.
Proof.
  induction d as [|x d IH]; intros v i H; cbn in H; [discriminate|].
  destruct (eqb x v) eqn:E.
  - inversion H; subst. cbn. split; [lia|exact E].
  - destruct (find_idx eqb v d) as [j|] eqn:Ej; cbn in H; [|discriminate]. inversion H; subst.
    destruct (IH v j Ej) as [H1 H2]. cbn. split; [lia|exact H2].
Qed.

Opaque dict_null_key.
Definition dict_lookup (d : list cell) (k : Z) : option cell :=
  if k =? dict_null_key then None else nth (Z.to_nat (k - dict_null_key - 1)) (map Some d) None.

Lemma dict_lookup_idx d i v : (i < length d)%nat -> nth i d v = v ->
  dict_lookup d (dict_null_key + 1 + Z.of_nat i) = Some v.
Proof.
  intros Hi Hn. unfold dict_lookup.
  destruct (Z.eqb_spec (dict_null_key + 1 + Z.of_nat i) dict_null_key); [lia|].
  replace (Z.to_nat (dict_null_key + 1 + Z.of_nat i - dict_null_key - 1)) with i by lia.
  rewrite (nth_indep _ None (Some v)) by (rewrite map_length; exact Hi).
  rewrite map_nth. rewrite Hn. reflexivity.
Qed.

Lemma dict_build_spec eqb okb : eq_exact eqb okb -> forall xs d0,
  forallb okb xs = true -> forallb okb (map Some d0) = true ->
  let '(d, ks) := dict_build eqb d0 xs in
  exists ext, d = d0 ++ ext /\ (length ext <= length xs)%nat /\
              forallb okb (map Some d) = true /\
              length ks = length xs /\
              Forall (fun k => dict_null_key <= k <= dict_null_key + Z.of_nat (length d)) ks /\
              map (dict_lookup d) ks = xs.
Proof.
  intros Hex. induction xs as [|[v|] xs IH]; intros d0 Hok Hd0; cbn [dict_build].
  - exists []. rewrite app_nil_r. repeat split; auto.
  - cbn [forallb] in Hok. apply andb_prop in Hok as [Hv Hxs].
    destruct (find_idx eqb v d0) as [i|] eqn:Ef.
    + specialize (IH d0 Hxs Hd0). destruct (dict_build eqb d0 xs) as [d ks].
      destruct IH as (ext & -> & Hl & Hdk & Hlen & Hr & Hm).
      destruct (find_idx_spec eqb d0 v i Ef) as [Hi Heq].
      assert (Env : nth i d0 v = v).
      { apply Hex; [|exact Hv|exact Heq].
        rewrite forallb_forall in Hd0. apply Hd0. apply in_map. apply nth_In. exact Hi. }
      exists ext. repeat split; auto; cbn [length]; try lia.
      * constructor; [rewrite app_length; lia|exact Hr].
      * cbn [map]. f_equal; try exact Hm.
        apply dict_lookup_idx; [rewrite app_length; lia|]. rewrite app_nth1 by exact Hi. exact Env.
    + assert (Hd1 : forallb okb (map Some (d0 ++ [v])) = true).
      { rewrite map_app, forallb_app, Hd0. cbn. rewrite Hv. reflexivity. }
      specialize (IH (d0 ++ [v]) Hxs Hd1). destruct (dict_build eqb (d0 ++ [v]) xs) as [d ks].
      destruct IH as (ext & -> & Hl & Hdk & Hlen & Hr & Hm).
      exists (v :: ext). rewrite <- app_assoc. cbn [app]. repeat split; auto; cbn [length]; try lia.
      * rewrite <- app_assoc in Hdk. exact Hdk.
      * constructor; [rewrite app_length; cbn [length]; lia|].
        eapply Forall_impl; [|exact Hr]. cbv beta. intros k Hk. rewrite <- app_assoc in Hk. exact Hk.
      * cbn [map]. f_equal.
        -- apply dict_lookup_idx; [rewrite app_length; cbn [length]; lia|].
           rewrite app_nth2 by lia. rewrite Nat.sub_diag. reflexivity.
        -- rewrite <- app_assoc in Hm. exact Hm.
  - cbn [forallb] in Hok. apply andb_prop in Hok as [_ Hxs].
    specialize (IH d0 Hxs Hd0). destruct (dict_build eqb d0 xs) as [d ks].
    destruct IH as (ext & -> & Hl & Hdk & Hlen & Hr & Hm).
    exists ext. repeat split; auto; cbn [length]; try lia.
    + constructor; [lia|exact Hr].
    + cbn [map]. f_equal; try exact Hm; unfold dict_lookup; rewrite Z.eqb_refl; reflexivity.
Qed.

Lemma nn_rt_lift b : nn_laws b -> forall (P : list (option cell) -> Prop) xs, P xs ->
  forallb (nn_okb b) (map (or_default (nn_default b)) xs) = true ->
  nn_dec b (length xs) (nn_enc b (map (or_default (nn_default b)) xs)) = map (or_default (nn_default b)) xs.
Proof. intros L P xs _ H. rewrite <- (map_length (or_default (nn_default b)) xs). apply (nnl_rt b L), H. Qed.

(** the key column: RLE over a plain i32 block *)
Lemma key_codec_rt : bk_rt key_codec (fun xs => Z.of_nat (length xs) < 2 ^ 28).
Proof.
  unfold key_codec. apply (rle_block_roundtrip _ _ (fun _ => True)).
  - apply plain_block_roundtrip. apply nn_rt_lift, nn_plain_laws, fw_int_le_laws. lia.
  - apply eq_exact_cell.
  - auto.
  - auto.
Qed.

Lemma plain_enc_length c : fw_laws c -> forall xs, length (plain_enc c xs) = (fw_width c * length xs)%nat.
Proof.
  intros L. induction xs as [|x xs IH]; cbn [plain_enc flat_map length]; [lia|].
  rewrite app_length, (fwl_len c L). fold (plain_enc c xs). rewrite IH. lia.
Qed.

Lemma key_enc_length_le xs : (length (bk_enc key_codec xs) <= 8 + 9 * length xs)%nat.
Proof.
  cbn [key_codec bk_rle bk_enc]. unfold rle_enc. destruct xs as [|x xs]; [cbn; lia|].
  set (g := rle_groups _ _).
  assert (Hg : (length g <= length (x :: xs))%nat).
  { clear. unfold g. generalize (x :: xs). intros l. induction l as [|y l IH]; cbn [rle_groups length]; [lia|].
    destruct (rle_groups _ l) as [|[z n] g']; cbn [length] in *; [lia|]. destruct (oeqb _ y z); cbn [length]; lia. }
  rewrite !app_length, !ule_enc_length.
  pose proof (flat_map_varint_length g) as Hc.
  cbn [bk_plain bk_enc nn_plain nn_enc]. rewrite (plain_enc_length _ (fw_int_le_laws 4 ltac:(lia))).
  rewrite !map_length. cbn [fw_int_le fw_width]. lia.
Qed.

Theorem dict_block_roundtrip inner (P Q : list (option cell) -> Prop) :
  bk_rt inner Q ->
  eq_exact (bk_eqb inner) (bk_okb inner) ->
  (forall xs, P xs -> Z.of_nat (length xs) < 2 ^ 28) ->
  (forall xs, P xs -> Q (map Some (fst (dict_build (bk_eqb inner) [] xs)))) ->
  bk_rt (bk_dict inner) P.
Proof.
  intros Hin Hex Hsz HQ xs HP Hok. pose proof (HQ xs HP) as HQx. cbn [bk_dict bk_dec bk_enc bk_okb] in *. unfold dict_dec, dict_enc.
  specialize (Hsz xs HP).
  pose proof (dict_build_spec (bk_eqb inner) (bk_okb inner) Hex xs [] Hok eq_refl) as Hb.
  destruct (dict_build (bk_eqb inner) [] xs) as [d ks]. cbn [fst] in HQx.
  destruct Hb as (ext & Hd & Hl & Hdk & Hlen & Hr & Hm). cbn [app] in Hd. subst ext.
  set (keys := map (fun k => Some (CInt k)) ks).
  set (rle := bk_enc key_codec keys).
  assert (H28 : 2 ^ 28 = 268435456) by reflexivity.
  assert (Hrl : (length rle <= 8 + 9 * length xs)%nat).
  { unfold rle. pose proof (key_enc_length_le keys) as H. unfold keys in H at 2. rewrite map_length, Hlen in H. exact H. }
  rewrite ube_dec_enc by (change (2 ^ bits_of 8) with 18446744073709551616; lia). rewrite Nat2Z.id.
  rewrite skipn_app_exact by (rewrite ube_enc_length; reflexivity).
  rewrite ube_dec_enc by (change (2 ^ bits_of 4) with 4294967296; lia). rewrite Nat2Z.id.
  replace 12%nat with (8 + 4)%nat by reflexivity.
  replace (skipn (8 + 4) (ube_enc 8 (Z.of_nat (length rle)) ++ ube_enc 4 (Z.of_nat (length d)) ++ rle ++ bk_enc inner (map Some d)))
    with (rle ++ bk_enc inner (map Some d)).
  2:{ rewrite skipn_add, skipn_app_exact by (rewrite ube_enc_length; reflexivity).
      rewrite skipn_app_exact by (rewrite ube_enc_length; reflexivity). reflexivity. }
  rewrite firstn_app_exact by reflexivity.
  replace (skipn (8 + 4 + length rle) (ube_enc 8 (Z.of_nat (length rle)) ++ ube_enc 4 (Z.of_nat (length d)) ++ rle ++ bk_enc inner (map Some d)))
    with (bk_enc inner (map Some d)).
  2:{ rewrite skipn_add, skipn_add, skipn_app_exact by (rewrite ube_enc_length; reflexivity).
      rewrite skipn_app_exact by (rewrite ube_enc_length; reflexivity).
      rewrite skipn_app_exact by reflexivity. reflexivity. }
  replace (length d) with (length (map Some d)) by apply map_length.
  rewrite Hin by (try exact Hdk; exact HQx).
  replace (length xs) with (length keys) by (unfold keys; rewrite map_length; exact Hlen).
  unfold rle. rewrite key_codec_rt.
  - unfold keys. rewrite map_map. rewrite <- Hm. apply map_ext. intros k. reflexivity.
  - unfold keys. rewrite map_length, Hlen. exact Hsz.
  - unfold keys. rewrite forallb_forall. intros o Ho. apply in_map_iff in Ho as (k & <- & Hk).
    rewrite Forall_forall in Hr. specialize (Hr k Hk).
    cbn [bk_okb bk_plain nn_plain nn_okb fw_int_le fw_okb]. apply in_range_b_spec.
    Transparent dict_null_key. unfold in_range, dict_null_key in *. change (bits_of 4 - 1) with 31. lia.
Qed.
