(** * C13 — the key range the planner pushes into the scan denotes exactly the rows on which the
    condition is TRUE (INT key, INT bounds). *)
From RL Require Import Model.RangeAnalysis Proofs.ValP.
From Coq Require Import Lia.
Open Scope Z_scope.

Lemma rex_true_and a b row : rex_true (XAnd a b) row = rex_true a row && rex_true b row.
Proof.
  unfold rex_true. cbn [rex_eval]. destruct (rex_eval a row) as [|[]| | | |]; destruct (rex_eval b row) as [|[]| | | |]; reflexivity.
Qed.
Lemma int_bnd_merge a b s : merge_bnd a b = Some s -> forall t, int_bnd s = Some t ->
  exists ta tb, int_bnd a = Some ta /\ int_bnd b = Some tb /\
    (forall z, ge_start t z = ge_start ta z && ge_start tb z) /\ (forall z, gt_end t z = gt_end ta z || gt_end tb z).
Proof.
  intros Hm t Ht. destruct a as [|va|va]; destruct b as [|vb|vb]; cbn in Hm; inversion Hm; subst; clear Hm.
  - cbn in Ht. inversion Ht; subst. exists BUnb, BUnb. repeat split; reflexivity.
  - exists BUnb, t. repeat split; try assumption; intros z; cbn; reflexivity.
  - exists BUnb, t. repeat split; try assumption; intros z; cbn; reflexivity.
  - exists t, BUnb. repeat split; try assumption; intros z; cbn; rewrite ?andb_true_r, ?orb_false_r; reflexivity.
  - exists t, BUnb. repeat split; try assumption; intros z; cbn; rewrite ?andb_true_r, ?orb_false_r; reflexivity.
Qed.

Lemma cmp_int op c z : cmp_dv op (DI32 z) (DI32 c) =
  DBool (match op with OEq => z =? c | OGt => c <? z | OGe => c <=? z | OLt => z <? c | OLe => z <=? c end).
Proof.
  unfold cmp_dv, cmp3. cbn [dv_int]. f_equal.
  destruct op; destruct (Z.compare_spec z c); cbn;
    repeat match goal with |- context [?a =? ?b] => destruct (Z.eqb_spec a b) | |- context [?a <? ?b] => destruct (Z.ltb_spec a b)
                      | |- context [?a <=? ?b] => destruct (Z.leb_spec a b) end; try reflexivity; lia.
Qed.
Lemma cmp_int_flip op c z : cmp_dv op (DI32 c) (DI32 z) = cmp_dv (flip op) (DI32 z) (DI32 c).
Proof.
  rewrite !cmp_int. f_equal. destruct op; cbn [flip]; try reflexivity. apply Z.eqb_sym.
Qed.
Lemma cmp_range_int op v s t : int_bnd (v_start (cmp_range op v)) = Some s -> int_bnd (v_end (cmp_range op v)) = Some t -> exists c, v = DI32 c.
Proof.
  destruct op; cbn; intros Hs Ht; destruct v; try discriminate; eexists; reflexivity.
Qed.
Lemma cmp_range_exact op c z s t : int_bnd (v_start (cmp_range op (DI32 c))) = Some s -> int_bnd (v_end (cmp_range op (DI32 c))) = Some t ->
  (match cmp_dv op (DI32 z) (DI32 c) with DBool true => true | _ => false end) = in_range (mk_range s t) z.
Proof.
  rewrite cmp_int. destruct op; cbn; intros Hs Ht; inversion Hs; inversion Ht; subst; unfold in_range; cbn;
    repeat match goal with |- context [?a =? ?b] => destruct (Z.eqb_spec a b) | |- context [?a <? ?b] => destruct (Z.ltb_spec a b)
                      | |- context [?a <=? ?b] => destruct (Z.leb_spec a b) end; cbn; try reflexivity; lia.
Qed.

Theorem pushed_range_is_exact : forall e k r, pushed e = Some (k, r) ->
  forall row z, row k = DI32 z -> rex_true e row = in_range r z.
Proof.
  induction e as [c|v|op a IHa b IHb|a IHa b IHb|]; intros k r H row z Hk; unfold pushed in H; cbn [arange] in H; try discriminate.
  - (* comparison *)
    destruct a as [ca|va| | |]; try discriminate; destruct b as [cb|vb| | |]; try discriminate.
    + (* column op constant *)
      destruct (int_bnd (v_start (cmp_range op vb))) as [s|] eqn:Es; [|discriminate].
      destruct (int_bnd (v_end (cmp_range op vb))) as [t|] eqn:Et; [|discriminate]. inversion H; subst; clear H.
      destruct (cmp_range_int op vb s t Es Et) as (c & ->).
      unfold rex_true. cbn [rex_eval]. rewrite Hk. apply cmp_range_exact; assumption.
    + (* constant op column *)
      destruct (int_bnd (v_start (cmp_range (flip op) va))) as [s|] eqn:Es; [|discriminate].
      destruct (int_bnd (v_end (cmp_range (flip op) va))) as [t|] eqn:Et; [|discriminate]. inversion H; subst; clear H.
      destruct (cmp_range_int (flip op) va s t Es Et) as (c & ->).
      unfold rex_true. cbn [rex_eval]. rewrite Hk, cmp_int_flip. apply cmp_range_exact; assumption.
  - (* conjunction *)
    destruct (arange a) as [[ka ra]|] eqn:Ea; [|discriminate]. destruct (arange b) as [[kb rb]|] eqn:Eb; [|discriminate].
    destruct (Nat.eqb ka kb) eqn:Ek; [|discriminate]. apply Nat.eqb_eq in Ek. subst kb.
    destruct (merge_bnd (v_start ra) (v_start rb)) as [s|] eqn:Ms; [|discriminate].
    destruct (merge_bnd (v_end ra) (v_end rb)) as [t|] eqn:Mt; [|discriminate]. cbn [v_start v_end] in H.
    destruct (int_bnd s) as [s'|] eqn:Is; [|discriminate]. destruct (int_bnd t) as [t'|] eqn:It; [|discriminate].
    inversion H; subst; clear H.
    destruct (int_bnd_merge _ _ _ Ms _ Is) as (sa & sb & Hsa & Hsb & Hge & _).
    destruct (int_bnd_merge _ _ _ Mt _ It) as (ta & tb & Hta & Htb & _ & Hgt).
    rewrite rex_true_and.
    rewrite (IHa k (mk_range sa ta)) with (z := z) by (try assumption; unfold pushed; rewrite Ea, Hsa, Hta; reflexivity).
    rewrite (IHb k (mk_range sb tb)) with (z := z) by (try assumption; unfold pushed; rewrite Eb, Hsb, Htb; reflexivity).
    unfold in_range. cbn [r_start r_end]. rewrite Hge, Hgt.
    destruct (ge_start sa z); destruct (ge_start sb z); destruct (gt_end ta z); destruct (gt_end tb z); reflexivity.
Qed.

(** two bounds on the same end in one conjunction are NOT combined: the analysis gives up (and the
    filter stays) — e.g. `k = 5 and k > 2`, the shape a seeded change mis-handled *)
Example two_lower_bounds_are_not_pushed :
  pushed (XAnd (XCmp OEq (XCol 0) (XConst (DI32 5))) (XCmp OGt (XCol 0) (XConst (DI32 2)))) = None /\
  pushed (XAnd (XCmp OGe (XCol 0) (XConst (DI32 2))) (XCmp OLt (XCol 0) (XConst (DI32 9)))) = Some (0%nat, mk_range (BIn 2) (BEx 9)) /\
  pushed (XCmp OGt (XConst (DI32 7)) (XCol 0)) = Some (0%nat, mk_range BUnb (BEx 7)) /\
  pushed (XCmp OGt (XCol 0) (XConst (DI64 1))) = None /\ pushed (XCmp OGt (XCol 0) (XConst DNull)) = None.
Proof. repeat split; reflexivity. Qed.
