(** * C14: the vectorised kernels compute SQL three-valued semantics slot by slot, whatever raw
      bits lie under NULL slots. *)
From RL Require Import Model.Arr Model.Expr.
From Coq Require Import Lia ZifyBool.
Open Scope Z_scope.

(** ** three-valued logic on optional booleans: the SQL truth tables *)
Definition and3 (a b : option bool) : option bool :=
  match a, b with
  | Some false, _ | _, Some false => Some false
  | Some true, Some true => Some true
  | _, _ => None
  end.
Definition or3 (a b : option bool) : option bool :=
  match a, b with
  | Some true, _ | _, Some true => Some true
  | Some false, Some false => Some false
  | _, _ => None
  end.
Definition not3 (a : option bool) : option bool := option_map negb a.

(** what SQL sees of a boolean slot *)
Definition lb (s : slot) : option bool := if sv s then Some (rb (sr s)) else None.
Definition lz (s : slot) : option Z := if sv s then Some (rz (sr s)) else None.
Definition lr (s : slot) : option raw := if sv s then Some (sr s) else None.

Theorem and_3vl a b : lb (and_slot a b) = and3 (lb a) (lb b).
Proof. unfold lb, and_slot. cbn [sv sr rb]. destruct (sv a), (rb (sr a)), (sv b), (rb (sr b)); reflexivity. Qed.
Theorem or_3vl a b : lb (or_slot a b) = or3 (lb a) (lb b).
Proof. unfold lb, or_slot, clear_null. cbn [sv sr rb]. destruct (sv a), (rb (sr a)), (sv b), (rb (sr b)); reflexivity. Qed.
Theorem not_3vl a : lb (not_slot a) = not3 (lb a).
Proof. unfold lb, not_slot, clear_null. cbn [sv sr rb]. destruct (sv a), (rb (sr a)); reflexivity. Qed.
(** the raw bit of an OR / NOT / comparison result under NULL is cleared *)
Theorem or_raw_cleared a b : sv (or_slot a b) = false -> sr (or_slot a b) = RB false.
Proof. unfold or_slot, clear_null. cbn [sv sr rb]. destruct (sv a), (rb (sr a)), (sv b), (rb (sr b)); cbn; intros; try discriminate; reflexivity. Qed.

(** comparison: NULL if an operand is NULL, else the comparison of the two values *)
Theorem cmp_3vl t op a b s : bin_slot (fun x y => Some (cmp_raw t op x y)) a b = Some s ->
  lr (clear_null s) = match lr a, lr b with
                      | Some x, Some y => Some (cmp_raw t op x y)
                      | _, _ => None
                      end.
Proof.
  unfold bin_slot. intros H. inversion H; subst. unfold lr, clear_null. cbn [sv sr].
  destruct (sv a), (sv b); reflexivity.
Qed.

(** arithmetic: NULL if an operand is NULL, else the exact integer result (no overflow) *)
Theorem arith_3vl op bits a b s :
  bin_slot (fun x y => arith_raw op bits (rz x) (rz y)) a b = Some s ->
  lr s = match lz a, lz b with
         | Some x, Some y => arith_raw op bits x y
         | _, _ => None
         end.
Proof.
  unfold bin_slot. destruct (arith_raw op bits (rz (sr a)) (rz (sr b))) as [r|] eqn:E; intros H; inversion H; subst.
  unfold lr, lz. cbn [sv sr]. destruct (sv a), (sv b); cbn; congruence.
Qed.
(** division and modulo by a zero (or NULL) divisor yield NULL, never a panic on that account *)
Theorem div_zero_null b : rz (sr b) = 0 -> sv (safen b) = false /\ rz (sr (safen b)) = 1.
Proof. intros H. unfold safen. rewrite H. cbn. split; reflexivity. Qed.
Theorem safen_nonzero b : rz (sr (safen b)) <> 0.
Proof. unfold safen. destruct (Z.eqb_spec (rz (sr b)) 0); cbn; [lia|assumption]. Qed.
Theorem safen_valid b : lz (safen b) = match lz b with Some 0 => None | o => o end.
Proof. unfold safen, lz. destruct (Z.eqb_spec (rz (sr b)) 0) as [E|E]; cbn [sv sr rz]; destruct (sv b); try rewrite E; try reflexivity.
  destruct (rz (sr b)); try reflexivity; contradiction. Qed.

(** CASE / IF: the branch the condition selects, value and validity; NULL condition = ELSE *)
Theorem select_3vl c a b : lr (select_slot c a b) = if match lb c with Some true => true | _ => false end then lr a else lr b.
Proof. unfold lr, lb, select_slot. cbn [sv sr]. destruct (sv c), (rb (sr c)), (sv a), (sv b); reflexivity. Qed.

(** ** independence from the raw content under NULL slots *)
Definition slot_eq (s s' : slot) : Prop := sv s = sv s' /\ (sv s = true -> sr s = sr s').
Definition arr_eq (a a' : arr) : Prop := aty a = aty a' /\ Forall2 slot_eq (asl a) (asl a').

Lemma slot_eq_refl s : slot_eq s s. Proof. split; auto. Qed.
Lemma logical_of_eq a a' : arr_eq a a' -> logical a = logical a'.
Proof.
  intros [_ H]. unfold logical. induction H as [|s s' l l' [Hv Hr] _ IH]; [reflexivity|].
  cbn [map]. rewrite IH. f_equal. rewrite <- Hv. destruct (sv s); [rewrite Hr; reflexivity|reflexivity].
Qed.

(** slot functions that respect [slot_eq] *)
Definition resp2 (f : slot -> slot -> option slot) : Prop :=
  forall a a' b b' r r', slot_eq a a' -> slot_eq b b' -> f a b = Some r -> f a' b' = Some r' -> slot_eq r r'.
Definition resp1 (f : slot -> option slot) : Prop :=
  forall a a' r r', slot_eq a a' -> f a = Some r -> f a' = Some r' -> slot_eq r r'.

Lemma map2_opt_resp f : resp2 f -> forall l l', Forall2 slot_eq l l' -> forall m m' r r',
  Forall2 slot_eq m m' ->
  map2_opt f l m = Some r -> map2_opt f l' m' = Some r' -> Forall2 slot_eq r r'.
Proof.
  intros Hf l l' Hl. induction Hl as [|x x' l l' Hx Hl IH]; intros m m' r r' Hm H H'.
  - cbn in H, H'. inversion H; inversion H'; constructor.
  - destruct Hm as [|y y' m m' Hy Hm].
    + cbn in H, H'. inversion H; inversion H'; constructor.
    + cbn [map2_opt] in H, H'.
      destruct (f x y) as [z|] eqn:E1; [|discriminate]. destruct (map2_opt f l m) as [rr|] eqn:E2; [|discriminate].
      destruct (f x' y') as [z'|] eqn:E1'; [|discriminate]. destruct (map2_opt f l' m') as [rr'|] eqn:E2'; [|discriminate].
      inversion H; inversion H'; subst. constructor.
      * exact (Hf x x' y y' z z' Hx Hy E1 E1').
      * exact (IH m m' rr rr' Hm E2 E2').
Qed.
Lemma map_opt_resp f : resp1 f -> forall l l', Forall2 slot_eq l l' -> forall r r',
  map_opt f l = Some r -> map_opt f l' = Some r' -> Forall2 slot_eq r r'.
Proof.
  intros Hf l l' Hl. induction Hl as [|x x' l l' Hx Hl IH]; intros r r' H H'.
  - cbn in H, H'. inversion H; inversion H'; constructor.
  - cbn [map_opt] in H, H'.
    destruct (f x) as [z|] eqn:E1; [|discriminate]. destruct (map_opt f l) as [rr|] eqn:E2; [|discriminate].
    destruct (f x') as [z'|] eqn:E1'; [|discriminate]. destruct (map_opt f l') as [rr'|] eqn:E2'; [|discriminate].
    inversion H; inversion H'; subst. constructor.
    + exact (Hf x x' z z' Hx E1 E1').
    + exact (IH rr rr' eq_refl eq_refl).
Qed.
Lemma map2_resp (f : slot -> slot -> slot) :
  (forall a a' b b', slot_eq a a' -> slot_eq b b' -> slot_eq (f a b) (f a' b')) ->
  forall l l' m m', Forall2 slot_eq l l' -> Forall2 slot_eq m m' -> Forall2 slot_eq (map2 f l m) (map2 f l' m').
Proof.
  intros Hf. induction l as [|x l IH]; intros l' m m' Hl Hm; inversion Hl; subst; [constructor|].
  destruct m; inversion Hm; subst; cbn [map2]; constructor; auto.
Qed.
Lemma map_resp (f : slot -> slot) : (forall a a', slot_eq a a' -> slot_eq (f a) (f a')) ->
  forall l l', Forall2 slot_eq l l' -> Forall2 slot_eq (map f l) (map f l').
Proof. intros Hf l l' H. induction H; cbn; constructor; auto. Qed.
Lemma map3_resp (f : slot -> slot -> slot -> slot) :
  (forall a a' b b' c c', slot_eq a a' -> slot_eq b b' -> slot_eq c c' -> slot_eq (f a b c) (f a' b' c')) ->
  forall l l' m m' n n', Forall2 slot_eq l l' -> Forall2 slot_eq m m' -> Forall2 slot_eq n n' ->
  Forall2 slot_eq (map3 f l m n) (map3 f l' m' n').
Proof.
  intros Hf. induction l as [|x l IH]; intros l' m m' n n' Hl Hm Hn; inversion Hl; subst; [constructor|].
  destruct m; inversion Hm; subst; [constructor|]. destruct n; inversion Hn; subst; cbn [map3]; constructor; auto.
Qed.

Ltac slots :=
  repeat match goal with
         | H : slot_eq ?a ?b |- _ => destruct H as [? ?]
         end.

Lemma and_slot_resp a a' b b' : slot_eq a a' -> slot_eq b b' -> slot_eq (and_slot a b) (and_slot a' b').
Proof.
  intros [Ha Hra] [Hb Hrb]. unfold slot_eq, and_slot. cbn [sv sr]. rewrite <- Ha, <- Hb.
  destruct (sv a) eqn:Ea, (sv b) eqn:Eb; try rewrite <- (Hra eq_refl); try rewrite <- (Hrb eq_refl); cbn;
    repeat match goal with |- context[rb ?x] => destruct (rb x) end; cbn; split; intros; try discriminate; reflexivity.
Qed.
Lemma or_slot_resp a a' b b' : slot_eq a a' -> slot_eq b b' -> slot_eq (or_slot a b) (or_slot a' b').
Proof.
  intros [Ha Hra] [Hb Hrb]. unfold slot_eq, or_slot, clear_null. cbn [sv sr]. rewrite <- Ha, <- Hb.
  destruct (sv a) eqn:Ea, (sv b) eqn:Eb; try rewrite <- (Hra eq_refl); try rewrite <- (Hrb eq_refl); cbn;
    repeat match goal with |- context[rb ?x] => destruct (rb x) end; cbn; split; intros; try discriminate; reflexivity.
Qed.
Lemma not_slot_resp a a' : slot_eq a a' -> slot_eq (not_slot a) (not_slot a').
Proof.
  intros [Ha Hra]. unfold slot_eq, not_slot, clear_null. cbn [sv sr]. rewrite <- Ha.
  destruct (sv a) eqn:Ea; try rewrite <- (Hra eq_refl); cbn; split; intros; try discriminate; reflexivity.
Qed.
Lemma clear_null_resp a a' : slot_eq a a' -> slot_eq (clear_null a) (clear_null a').
Proof. intros [Ha Hra]. unfold slot_eq, clear_null. rewrite <- Ha. destruct (sv a) eqn:Ea; cbn; rewrite ?Ea; split; auto; intros; discriminate. Qed.
Lemma select_slot_resp c c' a a' b b' : slot_eq c c' -> slot_eq a a' -> slot_eq b b' ->
  slot_eq (select_slot c a b) (select_slot c' a' b').
Proof.
  intros [Hc Hrc] [Ha Hra] [Hb Hrb]. unfold slot_eq, select_slot. cbn [sv sr]. rewrite <- Hc, <- Ha, <- Hb.
  destruct (sv c) eqn:Ec; try rewrite <- (Hrc eq_refl); cbn.
  - destruct (rb (sr c)); cbn; [destruct (sv a) eqn:Ea|destruct (sv b) eqn:Eb]; cbn; split; auto; intros; try discriminate.
  - rewrite !andb_false_r. cbn. destruct (sv b) eqn:Eb; split; auto; intros; discriminate.
Qed.
Lemma bin_slot_resp f : resp2 (bin_slot f).
Proof.
  intros a a' b b' r r' [Ha Hra] [Hb Hrb] H H'. unfold bin_slot in *.
  destruct (f (sr a) (sr b)) eqn:E; [|discriminate]. destruct (f (sr a') (sr b')) eqn:E'; [|discriminate].
  inversion H; inversion H'; subst. unfold slot_eq. cbn [sv sr]. rewrite <- Ha, <- Hb. split; [reflexivity|].
  intros Hv. apply andb_prop in Hv as [Hva Hvb]. rewrite (Hra Hva), (Hrb Hvb) in E. congruence.
Qed.
Lemma un_slot_resp f : resp1 (un_slot f).
Proof.
  intros a a' r r' [Ha Hra] H H'. unfold un_slot in *.
  destruct (f (sr a)) eqn:E; [|discriminate]. destruct (f (sr a')) eqn:E'; [|discriminate].
  inversion H; inversion H'; subst. unfold slot_eq. cbn [sv sr]. split; [exact Ha|].
  intros Hv. rewrite (Hra Hv) in E. congruence.
Qed.
Lemma safen_resp a a' : slot_eq a a' -> slot_eq (safen a) (safen a') \/ (sv (safen a) = false /\ sv (safen a') = false).
Proof.
  intros [Ha Hra]. unfold safen.
  destruct (sv a) eqn:Ea.
  - rewrite <- (Hra eq_refl). left. destruct (rz (sr a) =? 0); split; cbn [sv sr]; auto; congruence.
  - right. destruct (rz (sr a) =? 0), (rz (sr a') =? 0); cbn; rewrite <- ?Ha, ?Ea; auto.
Qed.
Lemma safen_list_resp l l' : Forall2 slot_eq l l' -> Forall2 slot_eq (map safen l) (map safen l').
Proof.
  intros H. induction H as [|a a' l l' Ha _ IH]; cbn; constructor; auto.
  destruct (safen_resp a a' Ha) as [E|[E1 E2]]; [exact E|]. split; [congruence|]. rewrite E1. discriminate.
Qed.

(** ** kernels respect logical equality of their inputs *)
Lemma lift_ok t o r : lift t o = Ok r -> exists l, o = Some l /\ r = mk_arr t l.
Proof. unfold lift. destruct o; intros H; inversion H; eauto. Qed.

Definition kresp1 (k : arr -> res arr) : Prop :=
  forall a a' r r', arr_eq a a' -> k a = Ok r -> k a' = Ok r' -> arr_eq r r'.
Definition kresp2 (k : arr -> arr -> res arr) : Prop :=
  forall a a' b b' r r', arr_eq a a' -> arr_eq b b' -> k a b = Ok r -> k a' b' = Ok r' -> arr_eq r r'.

Lemma k_arith_resp op : kresp2 (k_arith op).
Proof.
  intros a a' b b' r r' [Ta Ha] [Tb Hb] H H'. unfold k_arith in *. rewrite <- Ta, <- Tb in H'.
  destruct (promote (aty a) (aty b)) as [t|]; [|discriminate].
  apply lift_ok in H as (l & E & ->). apply lift_ok in H' as (l' & E' & ->).
  split; [reflexivity|]. cbn [asl].
  refine (map2_opt_resp _ (bin_slot_resp _) _ _ Ha _ _ _ _ _ E E').
  destruct op; try exact Hb; apply safen_list_resp, Hb.
Qed.
Lemma k_cmp_resp op : kresp2 (k_cmp op).
Proof.
  intros a a' b b' r r' [Ta Ha] [Tb Hb] H H'. unfold k_cmp in *. rewrite <- Ta, <- Tb in H'.
  destruct (match aty a with TBool => _ | _ => _ end) as [t|]; [|discriminate].
  destruct (map2_opt _ (asl a) (asl b)) as [l|] eqn:E; [|discriminate].
  destruct (map2_opt _ (asl a') (asl b')) as [l'|] eqn:E'; [|discriminate].
  inversion H; inversion H'; subst. split; [reflexivity|]. cbn [asl].
  apply (map_resp _ clear_null_resp).
  exact (map2_opt_resp _ (bin_slot_resp _) _ _ Ha _ _ _ _ Hb E E').
Qed.
Lemma k_and_resp : kresp2 k_and.
Proof.
  intros a a' b b' r r' [Ta Ha] [Tb Hb] H H'. unfold k_and in *. rewrite <- Ta, <- Tb in H'.
  destruct (aty a), (aty b); try discriminate. inversion H; inversion H'; subst.
  split; [reflexivity|]. apply map2_resp; [exact and_slot_resp|assumption|assumption].
Qed.
Lemma k_or_resp : kresp2 k_or.
Proof.
  intros a a' b b' r r' [Ta Ha] [Tb Hb] H H'. unfold k_or in *. rewrite <- Ta, <- Tb in H'.
  destruct (aty a), (aty b); try discriminate. inversion H; inversion H'; subst.
  split; [reflexivity|]. apply map2_resp; [exact or_slot_resp|assumption|assumption].
Qed.
Lemma k_not_resp : kresp1 k_not.
Proof.
  intros a a' r r' [Ta Ha] H H'. unfold k_not in *. rewrite <- Ta in H'.
  destruct (aty a); try discriminate. inversion H; inversion H'; subst.
  split; [reflexivity|]. apply map_resp; [exact not_slot_resp|assumption].
Qed.
Lemma k_neg_resp : kresp1 k_neg.
Proof.
  intros a a' r r' [Ta Ha] H H'. unfold k_neg in *. rewrite <- Ta in H'.
  destruct (match aty a with TI16 => None | t => int_bits t end) as [bits|]; [|discriminate].
  apply lift_ok in H as (l & E & ->). apply lift_ok in H' as (l' & E' & ->).
  split; [reflexivity|]. cbn [asl]. exact (map_opt_resp _ (un_slot_resp _) _ _ Ha _ _ E E').
Qed.
Lemma k_isnull_resp : kresp1 k_isnull.
Proof.
  intros a a' r r' [Ta Ha] H H'. unfold k_isnull in *. inversion H; inversion H'; subst.
  split; [reflexivity|]. cbn [asl]. apply map_resp; [|exact Ha].
  intros s s' [Hv _]. rewrite Hv. apply slot_eq_refl.
Qed.
Lemma k_concat_resp : kresp2 k_concat.
Proof.
  intros a a' b b' r r' [Ta Ha] [Tb Hb] H H'. unfold k_concat in *. rewrite <- Ta, <- Tb in H'.
  destruct (aty a), (aty b); try discriminate.
  apply lift_ok in H as (l & E & ->). apply lift_ok in H' as (l' & E' & ->).
  split; [reflexivity|]. cbn [asl]. exact (map2_opt_resp _ (bin_slot_resp _) _ _ Ha _ _ _ _ Hb E E').
Qed.
Lemma k_select_resp c c' a a' b b' r r' : arr_eq c c' -> arr_eq a a' -> arr_eq b b' ->
  k_select c a b = Ok r -> k_select c' a' b' = Ok r' -> arr_eq r r'.
Proof.
  intros [Tc Hc] [Ta Ha] [Tb Hb] H H'. unfold k_select in *. rewrite <- Tc, <- Ta, <- Tb in H'.
  destruct (aty c); try discriminate.
  destruct (ty_eqb (aty a) (aty b) && _); [|discriminate].
  inversion H; inversion H'; subst. split; [reflexivity|]. cbn [asl].
  apply map3_resp; [exact select_slot_resp|assumption|assumption|assumption].
Qed.

Lemma forallb_resp (p : slot -> bool) : (forall s s', slot_eq s s' -> p s = p s') ->
  forall l l', Forall2 slot_eq l l' -> forallb p l = forallb p l'.
Proof. intros Hp l l' H. induction H; cbn; [reflexivity|]. rewrite IHForall2. f_equal. apply Hp. assumption. Qed.

Lemma narrow_resp to t l l' r r' : Forall2 slot_eq l l' ->
  (if forallb (fun s => negb (sv s) || fits to (rz (sr s))) l
   then Ok (mk_arr t (map (fun s => if sv s then s else mk_slot false (RI 0)) l)) else Err) = Ok r ->
  (if forallb (fun s => negb (sv s) || fits to (rz (sr s))) l'
   then Ok (mk_arr t (map (fun s => if sv s then s else mk_slot false (RI 0)) l')) else Err) = Ok r' ->
  arr_eq r r'.
Proof.
  intros Hl H H'.
  destruct (forallb _ l); [|discriminate]. destruct (forallb _ l'); [|discriminate].
  inversion H; inversion H'; subst. split; [reflexivity|]. cbn [asl]. apply map_resp; [|exact Hl].
  intros s s' [Hv Hr]. rewrite <- Hv. destruct (sv s) eqn:Es; [split; [congruence|intros _; apply Hr; reflexivity]|apply slot_eq_refl].
Qed.

Lemma k_cast_resp t : kresp1 (k_cast t).
Proof.
  intros a a' r r' [Ta Ha] H H'. unfold k_cast in *. rewrite <- Ta in H'.
  destruct (aty a) eqn:Et, t; try discriminate;
    try (inversion H; inversion H'; subst; split; [try reflexivity; cbn [aty]; congruence|]; cbn [asl];
         first [ exact Ha
               | apply map_resp; [|exact Ha]; intros s s' [Hv Hr]; unfold slot_eq; cbn [sv sr]; split; [exact Hv|];
                 intros Hs; rewrite (Hr Hs); reflexivity
               | apply map_resp; [|exact Ha]; intros s s' _; apply slot_eq_refl ]).
  all: cbn [int_bits] in *; cbn in H, H'.
  all: try (inversion H; inversion H'; subst; split; [reflexivity|exact Ha]).
  all: eapply narrow_resp; eassumption.
Qed.

(** ** the whole evaluator *)
Lemma bind_ok {A B} (x : res A) (f : A -> res B) r : bind x f = Ok r -> exists a, x = Ok a /\ f a = Ok r.
Proof. destruct x; cbn; intros H; try discriminate. eauto. Qed.

Lemma arr_eq_refl a : arr_eq a a.
Proof. split; [reflexivity|]. induction (asl a); constructor; auto using slot_eq_refl. Qed.

Definition cols_eq (c c' : list arr) : Prop := Forall2 arr_eq c c'.

Lemma nth_error_cols c c' i a a' : cols_eq c c' -> nth_error c i = Some a -> nth_error c' i = Some a' -> arr_eq a a'.
Proof.
  intros H. revert i. induction H as [|x x' l l' Hx _ IH]; intros i Ha Ha'; destruct i; cbn in *; try discriminate.
  - inversion Ha; inversion Ha'; subst. exact Hx.
  - eapply IH; eassumption.
Qed.

(** induction principle for [expr] that also covers the expressions of an IN list *)
Section ExprInd.
  Variable P : expr -> Prop.
  Hypothesis HCol : forall i, P (ECol i).
  Hypothesis HConst : forall t v, P (EConst t v).
  Hypothesis HArith : forall op a b, P a -> P b -> P (EArith op a b).
  Hypothesis HCmp : forall op a b, P a -> P b -> P (ECmp op a b).
  Hypothesis HAnd : forall a b, P a -> P b -> P (EAnd a b).
  Hypothesis HOr : forall a b, P a -> P b -> P (EOr a b).
  Hypothesis HNot : forall a, P a -> P (ENot a).
  Hypothesis HNeg : forall a, P a -> P (ENeg a).
  Hypothesis HIsNull : forall a, P a -> P (EIsNull a).
  Hypothesis HIf : forall c a b, P c -> P a -> P b -> P (EIf c a b).
  Hypothesis HIn : forall a f rest, P a -> P f -> Forall P rest -> P (EIn a f rest).
  Hypothesis HCast : forall t a, P a -> P (ECast t a).
  Hypothesis HConcat : forall a b, P a -> P b -> P (EConcat a b).
  Fixpoint expr_ind' (e : expr) : P e :=
    match e with
    | ECol i => HCol i
    | EConst t v => HConst t v
    | EArith op a b => HArith op a b (expr_ind' a) (expr_ind' b)
    | ECmp op a b => HCmp op a b (expr_ind' a) (expr_ind' b)
    | EAnd a b => HAnd a b (expr_ind' a) (expr_ind' b)
    | EOr a b => HOr a b (expr_ind' a) (expr_ind' b)
    | ENot a => HNot a (expr_ind' a)
    | ENeg a => HNeg a (expr_ind' a)
    | EIsNull a => HIsNull a (expr_ind' a)
    | EIf c a b => HIf c a b (expr_ind' c) (expr_ind' a) (expr_ind' b)
    | EIn a f rest =>
        HIn a f rest (expr_ind' a) (expr_ind' f)
            ((fix go (l : list expr) : Forall P l :=
                match l with
                | [] => Forall_nil P
                | x :: l' => Forall_cons x (expr_ind' x) (go l')
                end) rest)
    | ECast t a => HCast t a (expr_ind' a)
    | EConcat a b => HConcat a b (expr_ind' a) (expr_ind' b)
    end.
End ExprInd.

(** the result of an expression over a batch depends only on the LOGICAL content of the batch:
    whatever raw bits lie under NULL slots, two evaluations that both succeed agree on every
    value SQL can see *)
Theorem veval_respects : forall e n cols cols' r r', cols_eq cols cols' ->
  veval e n cols = Ok r -> veval e n cols' = Ok r' -> arr_eq r r'.
Proof.
  induction e as [i|t v|op a b IHa IHb|op a b IHa IHb|a b IHa IHb|a b IHa IHb|a IHa|a IHa|a IHa
                 |c a b IHc IHa IHb|a f rest IHa IHf X|t a IHa|a b IHa IHb] using expr_ind';
    intros n cols cols' r r' Hc H H'; cbn [veval] in H, H'.
  - destruct (nth_error cols i) eqn:E; [|discriminate]. destruct (nth_error cols' i) eqn:E'; [|discriminate].
    inversion H; inversion H'; subst. eapply nth_error_cols; eassumption.
  - inversion H; inversion H'; subst. apply arr_eq_refl.
  - apply bind_ok in H as (x & Hx & H). apply bind_ok in H as (y & Hy & H).
    apply bind_ok in H' as (x' & Hx' & H'). apply bind_ok in H' as (y' & Hy' & H').
    eapply k_arith_resp; [eapply IHa|eapply IHb| |]; eassumption.
  - apply bind_ok in H as (x & Hx & H). apply bind_ok in H as (y & Hy & H).
    apply bind_ok in H' as (x' & Hx' & H'). apply bind_ok in H' as (y' & Hy' & H').
    eapply k_cmp_resp; [eapply IHa|eapply IHb| |]; eassumption.
  - apply bind_ok in H as (x & Hx & H). apply bind_ok in H as (y & Hy & H).
    apply bind_ok in H' as (x' & Hx' & H'). apply bind_ok in H' as (y' & Hy' & H').
    eapply k_and_resp; [eapply IHa|eapply IHb| |]; eassumption.
  - apply bind_ok in H as (x & Hx & H). apply bind_ok in H as (y & Hy & H).
    apply bind_ok in H' as (x' & Hx' & H'). apply bind_ok in H' as (y' & Hy' & H').
    eapply k_or_resp; [eapply IHa|eapply IHb| |]; eassumption.
  - apply bind_ok in H as (x & Hx & H). apply bind_ok in H' as (x' & Hx' & H').
    eapply k_not_resp; [eapply IHa| |]; eassumption.
  - apply bind_ok in H as (x & Hx & H). apply bind_ok in H' as (x' & Hx' & H').
    eapply k_neg_resp; [eapply IHa| |]; eassumption.
  - apply bind_ok in H as (x & Hx & H). apply bind_ok in H' as (x' & Hx' & H').
    eapply k_isnull_resp; [eapply IHa| |]; eassumption.
  - apply bind_ok in H as (z & Hz & H). apply bind_ok in H as (x & Hx & H). apply bind_ok in H as (y & Hy & H).
    apply bind_ok in H' as (z' & Hz' & H'). apply bind_ok in H' as (x' & Hx' & H'). apply bind_ok in H' as (y' & Hy' & H').
    eapply k_select_resp; [eapply IHc|eapply IHa|eapply IHb| |]; eassumption.
  - (* IN list: eq, then a chain of OR *)
    apply bind_ok in H as (x & Hx & H). apply bind_ok in H as (v0 & Hv0 & H). apply bind_ok in H as (acc & Hacc & H).
    apply bind_ok in H' as (x' & Hx' & H'). apply bind_ok in H' as (v0' & Hv0' & H'). apply bind_ok in H' as (acc' & Hacc' & H').
    assert (Ex : arr_eq x x') by (eapply IHa; eassumption).
    assert (Eacc : arr_eq acc acc') by (eapply k_cmp_resp; [exact Ex|eapply IHf; eassumption| |]; eassumption).
    clear Hacc Hacc' Hv0 Hv0'. revert acc acc' Eacc H H'.
    induction rest as [|v rest IHrest]; intros acc acc' Eacc H H'.
    + inversion H; inversion H'; subst. exact Eacc.
    + apply bind_ok in H as (y & Hy & H). apply bind_ok in H as (e1 & He1 & H). apply bind_ok in H as (acc2 & Ha2 & H).
      apply bind_ok in H' as (y' & Hy' & H'). apply bind_ok in H' as (e1' & He1' & H'). apply bind_ok in H' as (acc2' & Ha2' & H').
      inversion X as [|? ? Hv Hrest]; subst.
      eapply (IHrest Hrest acc2 acc2'); [|exact H|exact H'].
      eapply k_or_resp; [exact Eacc| |exact Ha2|exact Ha2'].
      eapply k_cmp_resp; [exact Ex|eapply Hv; eassumption|exact He1|exact He1'].
  - apply bind_ok in H as (x & Hx & H). apply bind_ok in H' as (x' & Hx' & H').
    eapply k_cast_resp; [eapply IHa| |]; eassumption.
  - apply bind_ok in H as (x & Hx & H). apply bind_ok in H as (y & Hy & H).
    apply bind_ok in H' as (x' & Hx' & H'). apply bind_ok in H' as (y' & Hy' & H').
    eapply k_concat_resp; [eapply IHa|eapply IHb| |]; eassumption.
Qed.
