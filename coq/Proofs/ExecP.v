(** * Theorems about the physical operators (C02, C11, C12). *)
From RL Require Import Model.Exec Proofs.ValP.
From Coq Require Import Lia Permutation Sorted.
Open Scope Z_scope.

(** ** hash join = nested-loop join, for an equality condition with SQL NULL semantics *)
(** the rows (l, r) an equi-join condition accepts: no NULL in either key, and equal keys *)
Definition keys_match (lk rk : list sx) (l r : row) : bool :=
  negb (has_null (keys_of lk l)) && negb (has_null (keys_of rk r)) && row_eqb (keys_of lk l) (keys_of rk r).
(** [cond] is such a condition on the given inputs *)
Definition equi_cond (cond : sx) (lk rk : list sx) (Ls Rs : list row) : Prop :=
  forall l r, In l Ls -> In r Rs -> holds cond (l ++ r) = keys_match lk rk l r.

Lemma dv_cmp_null_r v : dv_cmp v DNull = Eq -> v = DNull.
Proof. destruct v; cbn; intros H; try discriminate; reflexivity. Qed.
Lemma row_eqb_has_null a b : row_eqb a b = true -> has_null a = has_null b.
Proof.
  unfold row_eqb, has_null. revert b. induction a as [|x a IH]; intros [|y b]; cbn [row_cmp existsb]; try discriminate; [reflexivity|].
  destruct (dv_cmp x y) eqn:E; try discriminate. intros H. rewrite (IH b H). f_equal.
  destruct x, y; cbn in *; try reflexivity; try discriminate.
Qed.

Lemma filter_ext_in {A} (f g : A -> bool) l : (forall x, In x l -> f x = g x) -> filter f l = filter g l.
Proof.
  induction l as [|x l IH]; intros H; [reflexivity|]. cbn. rewrite (H x (or_introl eq_refl)).
  rewrite IH by (intros y Hy; apply H; right; exact Hy). reflexivity.
Qed.
Lemma filter_map_comm {A B} (f : B -> bool) (g : A -> B) l : filter f (map g l) = map g (filter (fun x => f (g x)) l).
Proof. induction l as [|x l IH]; [reflexivity|]. cbn. destruct (f (g x)); cbn; rewrite IH; reflexivity. Qed.
Lemma filter_filter {A} (f g : A -> bool) l : filter f (filter g l) = filter (fun x => g x && f x) l.
Proof. induction l as [|x l IH]; [reflexivity|]. cbn. destruct (g x); cbn; [destruct (f x); rewrite IH; reflexivity|exact IH]. Qed.
Lemma filter_flat_map {A B} (f : B -> bool) (g : A -> list B) l : filter f (flat_map g l) = flat_map (fun x => filter f (g x)) l.
Proof. induction l as [|x l IH]; [reflexivity|]. cbn. rewrite filter_app, IH. reflexivity. Qed.
Lemma flat_map_ext_in {A B} (f g : A -> list B) l : (forall x, In x l -> f x = g x) -> flat_map f l = flat_map g l.
Proof. induction l as [|x l IH]; intros H; [reflexivity|]. cbn. rewrite (H x (or_introl eq_refl)), IH; [reflexivity|]. intros y Hy. apply H. right. exact Hy. Qed.
Lemma existsb_ext_in {A} (f g : A -> bool) l : (forall x, In x l -> f x = g x) -> existsb f l = existsb g l.
Proof. induction l as [|x l IH]; intros H; [reflexivity|]. cbn. rewrite (H x (or_introl eq_refl)), IH; [reflexivity|]. intros y Hy. apply H. right. exact Hy. Qed.

(** the matches of a probe row in the hash table are the left rows the condition accepts *)
Lemma hash_matches cond lk rk Ls Rs r : equi_cond cond lk rk Ls Rs -> In r Rs ->
  filter (fun l => row_eqb (keys_of lk l) (keys_of rk r)) (filter (fun l => negb (has_null (keys_of lk l))) Ls)
  = filter (fun l => holds cond (l ++ r)) Ls.
Proof.
  intros Hc Hr. rewrite filter_filter. apply filter_ext_in. intros l Hl. rewrite (Hc l r Hl Hr). unfold keys_match.
  destruct (has_null (keys_of lk l)) eqn:El; cbn [negb andb]; [reflexivity|].
  destruct (row_eqb (keys_of lk l) (keys_of rk r)) eqn:Ee; [|rewrite andb_false_r; reflexivity].
  rewrite <- (row_eqb_has_null _ _ Ee), El. reflexivity.
Qed.

Theorem hashjoin_inner_eq_nljoin cond lk rk nl nr L R :
  equi_cond cond lk rk (concat L) (concat R) ->
  Some (x_hashjoin JInner lk rk nl nr L R) = x_nljoin JInner cond nr L R.
Proof.
  intros Hc. unfold x_hashjoin, x_nljoin, nl_pairs. cbn [pads_left pads_right]. rewrite app_nil_r. f_equal.
  rewrite filter_flat_map. apply flat_map_ext_in. intros r Hr.
  rewrite (hash_matches cond lk rk _ _ r Hc Hr). rewrite filter_map_comm.
  destruct (filter (fun l => holds cond (l ++ r)) (concat L)); reflexivity.
Qed.

Lemma left_unmatched cond lk rk Ls Rs l : equi_cond cond lk rk Ls Rs -> In l Ls ->
  (has_null (keys_of lk l) || negb (existsb (fun r => row_eqb (keys_of lk l) (keys_of rk r)) Rs))
  = negb (existsb (fun r => holds cond (l ++ r)) Rs).
Proof.
  intros Hc Hl. rewrite (existsb_ext_in (fun r => holds cond (l ++ r)) (fun r => keys_match lk rk l r)) by (intros r Hr; apply Hc; assumption).
  unfold keys_match. destruct (has_null (keys_of lk l)) eqn:El; cbn [negb andb orb].
  - clear. induction Rs as [|r Rs IH]; cbn [existsb negb andb orb]; [reflexivity|exact IH].
  - f_equal. apply existsb_ext_in. intros r Hr.
    destruct (row_eqb (keys_of lk l) (keys_of rk r)) eqn:Ee; [|rewrite andb_false_r; reflexivity].
    rewrite <- (row_eqb_has_null _ _ Ee), El. reflexivity.
Qed.

Theorem hashjoin_left_eq_nljoin cond lk rk nl nr L R :
  equi_cond cond lk rk (concat L) (concat R) ->
  Some (x_hashjoin JLeft lk rk nl nr L R) = x_nljoin JLeft cond nr L R.
Proof.
  intros Hc. unfold x_hashjoin, x_nljoin, nl_pairs. cbn [pads_left pads_right]. f_equal. f_equal.
  - rewrite filter_flat_map. apply flat_map_ext_in. intros r Hr.
    rewrite (hash_matches cond lk rk _ _ r Hc Hr). rewrite filter_map_comm.
    destruct (filter (fun l => holds cond (l ++ r)) (concat L)); reflexivity.
  - f_equal. apply filter_ext_in. intros l Hl. apply (left_unmatched cond lk rk _ _ l Hc Hl).
Qed.

Lemma semi_exists cond lk rk Ls Rs l : equi_cond cond lk rk Ls Rs -> In l Ls ->
  existsb (fun r => negb (has_null (keys_of rk r)) && row_eqb (keys_of lk l) (keys_of rk r)) Rs
  = existsb (fun r => holds cond (l ++ r)) Rs.
Proof.
  intros Hc Hl. apply existsb_ext_in. intros r Hr. rewrite (Hc l r Hl Hr). unfold keys_match.
  destruct (row_eqb (keys_of lk l) (keys_of rk r)) eqn:Ee; [|rewrite !andb_false_r; reflexivity].
  rewrite (row_eqb_has_null _ _ Ee). destruct (has_null (keys_of rk r)); reflexivity.
Qed.
Theorem hashjoin_semi_eq_nljoin cond lk rk nl nr L R :
  equi_cond cond lk rk (concat L) (concat R) ->
  Some (x_hashjoin JSemi lk rk nl nr L R) = x_nljoin JSemi cond nr L R.
Proof.
  intros Hc. unfold x_hashjoin, x_nljoin. f_equal. apply filter_ext_in. intros l Hl. apply (semi_exists cond lk rk _ _ l Hc Hl).
Qed.
Theorem hashjoin_anti_eq_nljoin cond lk rk nl nr L R :
  equi_cond cond lk rk (concat L) (concat R) ->
  Some (x_hashjoin JAnti lk rk nl nr L R) = x_nljoin JAnti cond nr L R.
Proof.
  intros Hc. unfold x_hashjoin, x_nljoin. f_equal. apply filter_ext_in. intros l Hl. f_equal. apply (semi_exists cond lk rk _ _ l Hc Hl).
Qed.

(** independence from chunking: only the concatenation of the input chunks matters *)
Theorem joins_ignore_chunking t lk rk cond nl nr L L' R R' :
  concat L = concat L' -> concat R = concat R' ->
  x_hashjoin t lk rk nl nr L R = x_hashjoin t lk rk nl nr L' R' /\
  x_nljoin t cond nr L R = x_nljoin t cond nr L' R' /\
  x_mergejoin t lk rk nl nr L R = x_mergejoin t lk rk nl nr L' R'.
Proof. intros HL HR. unfold x_hashjoin, x_nljoin, x_mergejoin. rewrite HL, HR. auto. Qed.

(** INT vs BIGINT keys compared as they are: SQL equality holds, the hash join never matches — the reason
    executor::build widens mixed key pairs ([wide_keys], Proofs/WideKeysP.v) *)
Theorem int_width_keys_refuted :
  let L := [[ [DI32 1] ]] in let R := [[ [DI64 1] ]] in
  x_nljoin JInner (SEq (SCol 0) (SCol 1)) 1 L R = Some [[DI32 1; DI64 1]] /\
  x_hashjoin JInner [SCol 0] [SCol 0] 1 1 L R = [].
Proof. cbv zeta. split; reflexivity. Qed.

(** ** LIMIT / OFFSET over any chunking *)
Lemma limit_go_spec : forall c limit offset processed,
  concat (limit_go limit offset processed c) =
  match limit with
  | Some n => firstn (offset + n - Nat.max processed offset) (skipn (offset - processed) (concat c))
  | None => skipn (offset - processed) (concat c)
  end.
Proof.
  induction c as [|batch rest IH]; intros limit offset processed.
  - cbn. destruct limit; rewrite ?skipn_nil, ?firstn_nil; reflexivity.
  - cbn [limit_go concat]. destruct limit as [[|n]|].
    + cbn. rewrite Nat.add_0_r. replace (offset - Nat.max processed offset)%nat with 0%nat by lia. reflexivity.
    + remember (length batch) as card eqn:Ecard.
      rewrite concat_app. cbn [concat].
      rewrite skipn_app. rewrite <- Ecard.
      destruct (Nat.leb_spec (Nat.min (processed + card) (offset + S n) - processed) (Nat.max processed offset - processed)) as [Hle|Hlt].
      * (* nothing of this batch *)
        cbn [app concat].
        destruct (Nat.leb_spec (offset + S n) (processed + card)) as [Hstop|Hgo].
        -- cbn [concat]. replace (offset + S n - Nat.max processed offset)%nat with 0%nat by lia. reflexivity.
        -- rewrite IH. rewrite (skipn_all2 batch) by (rewrite <- Ecard; lia). cbn [app].
           replace (offset - processed - card)%nat with (offset - (processed + card))%nat by lia.
           replace (Nat.max (processed + card) offset) with (Nat.max processed offset) by lia. reflexivity.
      * cbn [app concat]. rewrite app_nil_r.
        destruct (Nat.leb_spec (offset + S n) (processed + card)) as [Hstop|Hgo].
        -- cbn [concat]. rewrite app_nil_r.
           rewrite firstn_app. rewrite skipn_length. rewrite <- Ecard.
           replace (offset + S n - Nat.max processed offset - (card - (offset - processed)))%nat with 0%nat by lia.
           cbn [firstn]. rewrite app_nil_r.
           replace (Nat.max processed offset - processed)%nat with (offset - processed)%nat by lia.
           f_equal. lia.
        -- rewrite IH.
           rewrite firstn_app. rewrite skipn_length. rewrite <- Ecard.
           replace (Nat.max processed offset - processed)%nat with (offset - processed)%nat by lia.
           replace (Nat.min (processed + card) (offset + S n) - processed - (offset - processed))%nat with (card - (offset - processed))%nat by lia.
           rewrite (firstn_all2 (skipn (offset - processed) batch)) by (rewrite skipn_length; rewrite <- Ecard; lia).
           rewrite (firstn_all2 (skipn (offset - processed) batch)) by (rewrite skipn_length; rewrite <- Ecard; lia).
           f_equal.
           replace (offset - (processed + card))%nat with (offset - processed - card)%nat by lia.
           f_equal. lia.
    + remember (length batch) as card eqn:Ecard.
      rewrite concat_app. cbn [concat]. rewrite skipn_app. rewrite <- Ecard.
      replace (Nat.min (processed + card) (processed + card) - processed)%nat with card by lia.
      destruct (Nat.leb_spec card (Nat.max processed offset - processed)) as [Hle|Hlt].
      * cbn [concat app]. rewrite IH. rewrite (skipn_all2 batch) by (rewrite <- Ecard; lia). cbn [app].
        replace (offset - (processed + card))%nat with (offset - processed - card)%nat by lia. reflexivity.
      * cbn [concat]. rewrite app_nil_r. rewrite IH.
        replace (Nat.max processed offset - processed)%nat with (offset - processed)%nat by lia.
        rewrite firstn_all2 by (rewrite skipn_length; rewrite <- Ecard; lia).
        replace (offset - (processed + card))%nat with (offset - processed - card)%nat by lia. reflexivity.
Qed.

Theorem limit_spec limit offset c :
  concat (x_limit limit offset c) =
  match limit with
  | Some n => firstn n (skipn offset (concat c))
  | None => skipn offset (concat c)
  end.
Proof.
  unfold x_limit. rewrite limit_go_spec. rewrite Nat.sub_0_r. destruct limit; [|reflexivity].
  f_equal. lia.
Qed.

(** sort-then-limit equals top-N (on the model's deterministic sort) *)
Theorem topn_eq_limit_order limit offset ks c :
  x_topn limit offset ks c = concat (x_limit limit offset [x_order ks c]).
Proof. rewrite limit_spec. cbn [concat]. rewrite app_nil_r. unfold x_topn, x_order. destruct limit; reflexivity. Qed.

(** ** ORDER BY: a permutation of the input, sorted on the keys *)
Lemma insert_sorted_perm ks r l : Permutation (r :: l) (insert_sorted ks r l).
Proof.
  induction l as [|x l IH]; cbn; [apply Permutation_refl|].
  destruct (row_le ks r x); [apply Permutation_refl|].
  eapply Permutation_trans; [apply perm_swap|]. apply perm_skip, IH.
Qed.
Theorem sort_rows_perm ks rows : Permutation rows (sort_rows ks rows).
Proof.
  induction rows as [|r rows IH]; cbn; [constructor|].
  eapply Permutation_trans; [apply perm_skip, IH|]. apply insert_sorted_perm.
Qed.

Lemma key_row_length ks r : length (key_row ks r) = length (map snd ks).
Proof. unfold key_row. rewrite !map_length. reflexivity. Qed.
Lemma row_le_total ks a b : row_le ks a b = false -> row_le ks b a = true.
Proof.
  unfold row_le. rewrite (ord_cmp_antisym (map snd ks) (key_row ks a) (key_row ks b)).
  destruct (ord_cmp (map snd ks) (key_row ks a) (key_row ks b)); cbn; congruence.
Qed.
Lemma row_le_trans ks a b c : row_le ks a b = true -> row_le ks b c = true -> row_le ks a c = true.
Proof.
  unfold row_le. intros H1 H2.
  pose proof (ord_cmp_le_trans (map snd ks) (key_row ks a) (key_row ks b) (key_row ks c)
                (key_row_length ks a) (key_row_length ks b) (key_row_length ks c)) as T.
  destruct (ord_cmp (map snd ks) (key_row ks a) (key_row ks b)) eqn:E1; try discriminate;
  destruct (ord_cmp (map snd ks) (key_row ks b) (key_row ks c)) eqn:E2; try discriminate;
  destruct (ord_cmp (map snd ks) (key_row ks a) (key_row ks c)) eqn:E3; try reflexivity;
  exfalso; apply T; congruence.
Qed.

Lemma insert_sorted_sorted ks r l :
  StronglySorted (fun a b => row_le ks a b = true) l ->
  StronglySorted (fun a b => row_le ks a b = true) (insert_sorted ks r l).
Proof.
  induction l as [|x l IH]; intros H; cbn.
  - constructor; constructor.
  - inversion H as [|? ? Hs Hall]; subst. destruct (row_le ks r x) eqn:E.
    + constructor; [exact H|]. constructor; [exact E|].
      eapply Forall_impl; [|exact Hall]. intros y Hy. eapply row_le_trans; eassumption.
    + constructor; [apply IH, Hs|].
      assert (Hxr : row_le ks x r = true) by (apply row_le_total, E).
      apply (Permutation_Forall (insert_sorted_perm ks r l)). constructor; assumption.
Qed.
(** the result of ORDER BY is sorted on the keys (ascending or descending per key, NULL smallest) *)
Theorem sort_rows_sorted ks rows : StronglySorted (fun a b => row_le ks a b = true) (sort_rows ks rows).
Proof. induction rows as [|r rows IH]; cbn; [constructor|]. apply insert_sorted_sorted, IH. Qed.

(** ** C02: the operators compute what SQL prescribes *)
Theorem filter_spec cond c : concat (x_filter cond c) = filter (holds cond) (concat c).
Proof. unfold x_filter. induction c as [|ch c IH]; cbn; [reflexivity|]. rewrite filter_app, IH. reflexivity. Qed.

Theorem nljoin_inner_spec cond nr L R out row : x_nljoin JInner cond nr L R = Some out ->
  (In row out <-> exists l r, In l (concat L) /\ In r (concat R) /\ row = l ++ r /\ holds cond row = true).
Proof.
  unfold x_nljoin, nl_pairs. intros H. inversion H; subst. rewrite filter_In, in_flat_map. split.
  - intros [(r & Hr & Hm) Hh]. apply in_map_iff in Hm as (l & <- & Hl). exists l, r. auto.
  - intros (l & r & Hl & Hr & -> & Hh). split; [|exact Hh]. exists r. split; [exact Hr|]. apply in_map_iff. exists l. split; [reflexivity|exact Hl].
Qed.

(** LEFT OUTER JOIN: every left row either has a partner or appears padded with NULLs *)
Theorem left_join_preserves_left_rows cond nr L R out l : x_nljoin JLeft cond nr L R = Some out ->
  In l (concat L) ->
  (exists r, In r (concat R) /\ In (l ++ r) out /\ holds cond (l ++ r) = true) \/ In (l ++ nulls nr) out.
Proof.
  unfold x_nljoin, nl_pairs. intros H Hl. inversion H; subst.
  destruct (existsb (fun r => holds cond (l ++ r)) (concat R)) eqn:E.
  - left. apply existsb_exists in E as (r & Hr & Hh). exists r. split; [exact Hr|]. split; [|exact Hh].
    apply in_or_app. left. apply filter_In. split; [|exact Hh]. apply in_flat_map. exists r. split; [exact Hr|]. apply in_map_iff. exists l. split; [reflexivity|exact Hl].
  - right. apply in_or_app. right. apply in_map_iff. exists l. split; [reflexivity|]. apply filter_In. split; [exact Hl|]. rewrite E. reflexivity.
Qed.

(** NULL never equals (or compares with) anything: a comparison with a NULL operand is NULL, and a
    NULL condition does not pass a filter or a join *)
Theorem null_comparison_is_null f a b : a = DNull \/ b = DNull -> cmp3 f a b = DNull.
Proof. intros [->| ->]; [reflexivity|]. destruct a; reflexivity. Qed.
Theorem null_condition_does_not_hold e r : sx_eval e r = DNull -> holds e r = false.
Proof. unfold holds. intros ->. reflexivity. Qed.

(** aggregates skip NULLs; on empty input COUNT is 0 and SUM / MIN / MAX are NULL *)
Theorem agg_empty :
  (forall e, agg_rows (ACount e) [] = DI32 0) /\ agg_rows ARowCount [] = DI32 0 /\
  (forall e, agg_rows (ACountDistinct e) [] = DI32 0) /\
  (forall e, agg_rows (ASum e) [] = DNull) /\ (forall e, agg_rows (AMin e) [] = DNull) /\
  (forall e, agg_rows (AMax e) [] = DNull).
Proof. repeat split; reflexivity. Qed.

Lemma agg_fold_skip_null a (Ha : match a with ASum _ | AMin _ | AMax _ | ACountDistinct _ => True | _ => False end) :
  forall rows s, fold_left (fun s r => agg_append a s (agg_arg a r)) rows s
               = fold_left (fun s r => agg_append a s (agg_arg a r)) (filter (fun r => negb (is_null (agg_arg a r))) rows) s.
Proof.
  induction rows as [|r rows IH]; intros s; [reflexivity|]. cbn [fold_left filter].
  destruct (is_null (agg_arg a r)) eqn:E; cbn [negb].
  - rewrite <- IH. f_equal. destruct (agg_arg a r); try discriminate.
    destruct a; try contradiction; destruct s as [v|seen]; cbn; try reflexivity; destruct v; reflexivity.
  - cbn [fold_left]. apply IH.
Qed.
Theorem aggregates_skip_nulls a rows :
  match a with ASum _ | AMin _ | AMax _ | ACountDistinct _ => True | _ => False end ->
  agg_rows a rows = agg_rows a (filter (fun r => negb (is_null (agg_arg a r))) rows).
Proof. intros Ha. unfold agg_rows. rewrite (agg_fold_skip_null a Ha). reflexivity. Qed.

Lemma count_fold e : forall rows n, 
  fold_left (fun s r => agg_append (ACount e) s (agg_arg (ACount e) r)) rows (AV (DI32 n))
  = AV (DI32 (n + Z.of_nat (length (filter (fun r => negb (is_null (sx_eval e r))) rows)))).
Proof.
  induction rows as [|r rows IH]; intros n; cbn [fold_left filter length]; [rewrite Z.add_0_r; reflexivity|].
  cbn [agg_append agg_arg dv_add]. destruct (is_null (sx_eval e r)); cbn [negb length]; rewrite IH; f_equal; f_equal; lia.
Qed.
Theorem count_counts_non_null e rows :
  agg_rows (ACount e) rows = DI32 (Z.of_nat (length (filter (fun r => negb (is_null (sx_eval e r))) rows))).
Proof. unfold agg_rows. cbn [agg_init]. rewrite count_fold. reflexivity. Qed.

(** three-valued AND / OR / NOT on scalar expressions: the SQL truth tables *)
Theorem sx_and_3vl a b r : sx_eval (SAnd a b) r =
  match sx_eval a r, sx_eval b r with
  | DBool false, _ | _, DBool false => DBool false
  | DBool true, DBool true => DBool true
  | _, _ => DNull
  end.
Proof. reflexivity. Qed.
Theorem sx_or_3vl a b r : sx_eval (SOr a b) r =
  match sx_eval a r, sx_eval b r with
  | DBool true, _ | _, DBool true => DBool true
  | DBool false, DBool false => DBool false
  | _, _ => DNull
  end.
Proof. reflexivity. Qed.
