(** * C18: a checksummed block / index file rejects every single-bit corruption, on every read. *)
From RL Require Import Model.Codec Model.Block Proofs.BytesP Proofs.CrcP.
From Coq Require Import Lia ZifyBool.
Open Scope Z_scope.

Definition is_bytes (bs : list Z) : Prop := Forall (fun b => 0 <= b < 256) bs.

(** ** flipping a bit of a byte string, seen on its bit string *)
Lemma byte_bits_lxor b j : 0 <= b < 256 -> (j < 8)%nat ->
  byte_bits (Z.lxor b (2 ^ Z.of_nat j)) = flip j (byte_bits b).
Proof.
  intros Hb Hj. unfold byte_bits.
  assert (T : forall i, 0 <= i -> Z.testbit (Z.lxor b (2 ^ Z.of_nat j)) i = xorb (Z.testbit b i) (Z.of_nat j =? i)).
  { intros i Hi. rewrite Z.lxor_spec, Z.pow2_bits_eqb by lia. reflexivity. }
  rewrite !T by lia.
  destruct j as [|[|[|[|[|[|[|[|j]]]]]]]]; try lia; cbn [Z.of_nat Pos.of_succ_nat Pos.succ Z.eqb Pos.eqb flip xorb];
    repeat match goal with |- context[xorb ?x false] => rewrite (xorb_false_r x) end;
    repeat match goal with |- context[xorb ?x true] => rewrite (xorb_true_r x) end; reflexivity.
Qed.

Lemma flip_app_l (l r : list bool) k : (k < length l)%nat -> flip k (l ++ r) = flip k l ++ r.
Proof. revert k; induction l as [|x l IH]; intros k H; cbn in H; [lia|]. destruct k; cbn; [reflexivity|]. rewrite IH by lia. reflexivity. Qed.
Lemma flip_app_r (l r : list bool) k : (length l <= k)%nat -> flip k (l ++ r) = l ++ flip (k - length l) r.
Proof.
  revert k; induction l as [|x l IH]; intros k H; cbn [app length]; [rewrite Nat.sub_0_r; reflexivity|].
  destruct k; cbn in H; [lia|]. cbn [flip Nat.sub]. rewrite IH by lia. reflexivity.
Qed.
Lemma byte_bits_length b : length (byte_bits b) = 8%nat. Proof. reflexivity. Qed.

Lemma bytes_bits_flip : forall bs k, is_bytes bs -> (k < 8 * length bs)%nat ->
  bytes_bits (flip_bit bs k) = flip k (bytes_bits bs).
Proof.
  induction bs as [|b bs IH]; intros k Hb Hk; cbn in Hk; [lia|].
  inversion Hb as [|? ? Hb0 Hbs]; subst. cbn [flip_bit bytes_bits flat_map].
  destruct (Nat.ltb_spec k 8) as [H|H].
  - cbn [flat_map]. rewrite byte_bits_lxor by assumption. rewrite flip_app_l by (rewrite byte_bits_length; exact H). reflexivity.
  - cbn [flat_map]. rewrite flip_app_r by (rewrite byte_bits_length; exact H). rewrite byte_bits_length.
    f_equal. apply IH; [exact Hbs|lia].
Qed.
Lemma bytes_bits_length bs : length (bytes_bits bs) = (8 * length bs)%nat.
Proof. induction bs as [|b bs IH]; cbn [bytes_bits flat_map length]; [reflexivity|]. rewrite app_length. fold (bytes_bits bs). rewrite IH. cbn. lia. Qed.

(** CRC-32 of a byte string changes under every single-bit flip *)
Theorem crc32_flip bs k : is_bytes bs -> (k < 8 * length bs)%nat -> crc32 (flip_bit bs k) <> crc32 bs.
Proof.
  intros Hb Hk. unfold crc32. rewrite bytes_bits_flip by assumption. intros E.
  apply N2Z.inj in E.
  apply lxor_cancel_r in E.
  revert E. apply run_detects_single_bit; [apply crc_init_lt|rewrite bytes_bits_length; exact Hk].
Qed.

(** ** structure lemmas about flip_bit *)
Lemma flip_bit_length : forall bs k, length (flip_bit bs k) = length bs.
Proof. induction bs as [|b bs IH]; intros k; cbn [flip_bit]; [reflexivity|]. destruct (Nat.ltb k 8); cbn; [reflexivity|]. rewrite IH. reflexivity. Qed.
Lemma flip_bit_app_l : forall l r k, (k < 8 * length l)%nat -> flip_bit (l ++ r) k = flip_bit l k ++ r.
Proof.
  induction l as [|b l IH]; intros r k H; cbn in H; [lia|]. cbn [app flip_bit].
  destruct (Nat.ltb_spec k 8); [reflexivity|]. cbn [app]. rewrite IH by lia. reflexivity.
Qed.
Lemma flip_bit_app_r : forall l r k, (8 * length l <= k)%nat -> flip_bit (l ++ r) k = l ++ flip_bit r (k - 8 * length l).
Proof.
  induction l as [|b l IH]; intros r k H; cbn [app length]; [rewrite Nat.sub_0_r; reflexivity|]. cbn [flip_bit].
  change (length (b :: l)) with (S (length l)) in *. destruct (Nat.ltb_spec k 8); [lia|]. rewrite IH by lia.
  replace (k - 8 - 8 * length l)%nat with (k - 8 * S (length l))%nat by lia. reflexivity.
Qed.
Lemma lxor_byte b j : 0 <= b < 256 -> (j < 8)%nat -> 0 <= Z.lxor b (2 ^ Z.of_nat j) < 256 /\ Z.lxor b (2 ^ Z.of_nat j) <> b.
Proof.
  intros Hb Hj. split.
  - split; [apply Z.lxor_nonneg; split; intros; try lia; apply Z.pow_nonneg; lia|].
    destruct (Z.eq_dec (Z.lxor b (2 ^ Z.of_nat j)) 0) as [->|Hn]; [lia|].
    apply Z.log2_lt_cancel. change (Z.log2 256) with 8.
    assert (Hx : 0 <= Z.lxor b (2 ^ Z.of_nat j)) by (apply Z.lxor_nonneg; split; intros; try lia; apply Z.pow_nonneg; lia).
    eapply Z.le_lt_trans; [apply Z.log2_lxor; [lia|apply Z.pow_nonneg; lia]|].
    apply Z.max_lub_lt.
    + destruct (Z.eq_dec b 0) as [->|]; [cbn; lia|]. apply Z.log2_lt_pow2; lia.
    + rewrite Z.log2_pow2 by lia. lia.
  - intros E. apply (f_equal (fun x => Z.testbit x (Z.of_nat j))) in E.
    rewrite Z.lxor_spec, Z.pow2_bits_true in E by lia. destruct (Z.testbit b (Z.of_nat j)); discriminate.
Qed.
Lemma flip_bit_bytes : forall bs k, is_bytes bs -> is_bytes (flip_bit bs k).
Proof.
  induction bs as [|b bs IH]; intros k H; cbn [flip_bit]; [constructor|]. inversion H; subst.
  destruct (Nat.ltb_spec k 8); constructor; auto. apply lxor_byte; assumption. apply IH; assumption.
Qed.
Lemma flip_bit_neq : forall bs k, is_bytes bs -> (k < 8 * length bs)%nat -> flip_bit bs k <> bs.
Proof.
  induction bs as [|b bs IH]; intros k H Hk; cbn in Hk; [lia|]. inversion H; subst. cbn [flip_bit].
  destruct (Nat.ltb_spec k 8).
  - intros E. inversion E as [E1]. revert E1. apply lxor_byte; assumption.
  - intros E. inversion E as [E1]. revert E1. apply IH; [assumption|lia].
Qed.

(** unsigned little/big-endian decoding is injective on byte strings of equal length *)
Lemma ule_dec_bound bs : is_bytes bs -> 0 <= ule_dec bs < 256 ^ Z.of_nat (length bs).
Proof.
  induction bs as [|b bs IH]; intros H; [cbn; lia|]. inversion H; subst. specialize (IH H3).
  cbn [ule_dec length]. rewrite Nat2Z.inj_succ, Z.pow_succ_r by lia. lia.
Qed.
Lemma ule_dec_inj : forall a b, is_bytes a -> is_bytes b -> length a = length b -> ule_dec a = ule_dec b -> a = b.
Proof.
  induction a as [|x a IH]; intros [|y b] Ha Hb Hl E; cbn in Hl; try lia; [reflexivity|].
  inversion Ha; inversion Hb; subst. cbn [ule_dec] in E.
  assert (x = y) by lia. subst. f_equal. apply IH; try assumption; lia.
Qed.
Lemma is_bytes_rev bs : is_bytes bs -> is_bytes (rev bs).
Proof. unfold is_bytes. rewrite !Forall_forall. intros H x Hx. apply H. apply in_rev. exact Hx. Qed.
Lemma is_bytes_ule_enc w n : is_bytes (ule_enc w n).
Proof. apply Forall_forall. intros b Hb. eapply ule_enc_bytes. exact Hb. Qed.
Lemma is_bytes_app a b : is_bytes a -> is_bytes b -> is_bytes (a ++ b).
Proof. intros Ha Hb. apply Forall_app. split; assumption. Qed.

(** a field of [w] bytes read big-endian changes under every bit flip inside it *)
Lemma ube_dec_flip w bs k : is_bytes bs -> length bs = w -> (k < 8 * w)%nat ->
  ube_dec w (flip_bit bs k) <> ube_dec w bs.
Proof.
  intros Hb Hl Hk. unfold ube_dec.
  rewrite !firstn_all2 by (rewrite ?flip_bit_length; lia).
  intros E. apply ule_dec_inj in E.
  - apply (f_equal (@rev Z)) in E. rewrite !rev_involutive in E. revert E. apply flip_bit_neq; [assumption|lia].
  - apply is_bytes_rev, flip_bit_bytes, Hb.
  - apply is_bytes_rev, Hb.
  - rewrite !rev_length, flip_bit_length. reflexivity.
Qed.

(** ** blocks *)
Definition mk_block (t : Z) (body : list Z) : list Z :=
  let covered := body ++ sbe_enc 4 t in
  covered ++ sbe_enc 4 1 ++ ube_enc 8 (crc32 covered).

Lemma mk_block_trailer t body : mk_block t body = trailer t true body.
Proof. unfold mk_block, trailer. rewrite <- !app_assoc. reflexivity. Qed.

Lemma verify_parts covered ct ck : (4 <= length covered)%nat -> length ct = 4%nat -> length ck = 8%nat ->
  verify_block (covered ++ ct ++ ck) =
  valid_block_type (sbe_dec 4 (skipn (length covered - 4) covered ++ ct ++ ck)) &&
  match checksum_of (sbe_dec 4 (ct ++ ck)) covered with
  | Some c => c =? ube_dec 8 ck
  | None => false
  end.
Proof.
  intros Hc Ht Hk. unfold verify_block. rewrite !app_length, Ht, Hk.
  destruct (Nat.ltb_spec (length covered + (4 + 8)) 16) as [H|H]; [lia|].
  replace (length covered + (4 + 8) - 12)%nat with (length covered) by lia.
  replace (length covered + (4 + 8) - 16)%nat with (length covered - 4)%nat by lia.
  replace (length covered + (4 + 8) - 8)%nat with (length covered + 4)%nat by lia.
  rewrite (firstn_app_exact covered (ct ++ ck) (length covered)) by reflexivity.
  rewrite (skipn_app_exact covered (ct ++ ck) (length covered)) by reflexivity.
  rewrite (skipn_app (length covered - 4)). rewrite (proj2 (Nat.sub_0_le (length covered - 4) (length covered))) by lia. cbn [skipn].
  rewrite (app_assoc covered ct ck), (skipn_app_exact (covered ++ ct) ck) by (rewrite app_length; lia).
  reflexivity.
Qed.

Lemma crc32_range bs : 0 <= crc32 bs < 2 ^ 32.
Proof.
  unfold crc32. split; [apply N2Z.is_nonneg|].
  change (2 ^ 32) with (Z.of_N (2 ^ 32)%N). apply N2Z.inj_lt. apply lxor_lt; [|reflexivity].
  apply run_lt, crc_init_lt.
Qed.

Lemma sbe_dec_app w a rest : length a = w -> sbe_dec w (a ++ rest) = sbe_dec w a.
Proof. intros H. unfold sbe_dec. rewrite firstn_app_exact by (symmetry; exact H). rewrite firstn_all2 by lia. reflexivity. Qed.

Lemma ube_dec_app w a rest : length a = w -> ube_dec w (a ++ rest) = ube_dec w a.
Proof. intros H. unfold ube_dec. rewrite firstn_app_exact by (symmetry; exact H). rewrite firstn_all2 by lia. reflexivity. Qed.

Lemma is_bytes_sbe_enc w z : is_bytes (sbe_enc w z).
Proof. unfold sbe_enc, sle_enc. apply is_bytes_rev, is_bytes_ule_enc. Qed.
Lemma is_bytes_ube_enc w z : is_bytes (ube_enc w z).
Proof. unfold ube_enc. apply is_bytes_rev, is_bytes_ule_enc. Qed.

Theorem verify_block_ok t body : valid_block_type t = true -> verify_block (mk_block t body) = true.
Proof.
  intros Ht. unfold mk_block. cbv zeta.
  rewrite verify_parts by (rewrite ?app_length, ?sbe_enc_length, ?ube_enc_length; lia).
  rewrite app_length, sbe_enc_length.
  replace (length body + 4 - 4)%nat with (length body) by lia.
  rewrite skipn_app_exact by reflexivity.
  assert (Hr : in_range 4 t).
  { unfold valid_block_type in Ht. unfold in_range. change (bits_of 4 - 1) with 31.
    assert (2 ^ 31 = 2147483648) by reflexivity. lia. }
  rewrite sbe_dec_enc by (try lia; exact Hr). rewrite Ht. cbn [andb].
  rewrite sbe_dec_enc by (try lia; unfold in_range; change (bits_of 4 - 1) with 31; assert (2 ^ 31 = 2147483648) by reflexivity; lia).
  unfold checksum_of. cbn [Z.eqb Pos.eqb].
  rewrite <- (app_nil_r (ube_enc 8 _)). rewrite ube_dec_enc.
  - apply Z.eqb_refl.
  - pose proof (crc32_range (body ++ sbe_enc 4 t)). change (2 ^ bits_of 8) with (2 ^ 64). assert (2 ^ 32 < 2 ^ 64) by reflexivity. lia.
Qed.

(** the 32 single-bit corruptions of the checksum-type field *)
Lemma cktype_flips : forallb (fun j =>
    let ct := sbe_dec 4 (flip_bit (sbe_enc 4 1) j) in
    negb (ct =? 1) && ((negb (ct =? 0)) || Nat.eqb j 24)) (seq 0 32) = true.
Proof. vm_compute. reflexivity. Qed.

Theorem block_flip_detected t body k :
  valid_block_type t = true -> is_bytes body -> crc32 (body ++ sbe_enc 4 t) <> 0 ->
  (k < 8 * length (mk_block t body))%nat ->
  verify_block (flip_bit (mk_block t body) k) = false.
Proof.
  intros Ht Hb Hnz Hk. unfold mk_block in *. cbv zeta in *.
  set (covered := body ++ sbe_enc 4 t) in *.
  assert (Hcl : (4 <= length covered)%nat) by (unfold covered; rewrite app_length, sbe_enc_length; lia).
  assert (Hcb : is_bytes covered) by (apply is_bytes_app; [exact Hb|apply is_bytes_sbe_enc]).
  rewrite !app_length, sbe_enc_length, ube_enc_length in Hk.
  pose proof (crc32_range covered) as Hcr.
  assert (Hck : ube_dec 8 (ube_enc 8 (crc32 covered)) = crc32 covered).
  { rewrite <- (app_nil_r (ube_enc 8 _)). apply ube_dec_enc. change (2 ^ bits_of 8) with (2 ^ 64). assert (2 ^ 32 < 2 ^ 64) by reflexivity. lia. }
  destruct (Nat.lt_ge_cases k (8 * length covered)) as [R1|R1].
  - (* inside the checksummed area *)
    rewrite flip_bit_app_l by exact R1.
    rewrite verify_parts by (rewrite ?flip_bit_length, ?sbe_enc_length, ?ube_enc_length; lia).
    apply andb_false_intro2.
    rewrite sbe_dec_enc by (try lia; unfold in_range; change (bits_of 4 - 1) with 31; assert (2 ^ 31 = 2147483648) by reflexivity; lia).
    unfold checksum_of. cbn [Z.eqb Pos.eqb]. rewrite Hck.
    apply Z.eqb_neq. apply crc32_flip; assumption.
  - rewrite flip_bit_app_r by exact R1.
    destruct (Nat.lt_ge_cases (k - 8 * length covered) 32) as [R2|R2].
    + (* the checksum-type field *)
      rewrite flip_bit_app_l by (rewrite sbe_enc_length; exact R2).
      rewrite verify_parts by (rewrite ?flip_bit_length, ?sbe_enc_length, ?ube_enc_length; lia).
      apply andb_false_intro2.
      rewrite sbe_dec_app by (rewrite flip_bit_length, sbe_enc_length; reflexivity).
      pose proof cktype_flips as F. rewrite forallb_forall in F.
      specialize (F (k - 8 * length covered)%nat ltac:(apply in_seq; lia)). cbv zeta in F.
      apply andb_prop in F as [F1 F2].
      set (ct := sbe_dec 4 (flip_bit (sbe_enc 4 1) (k - 8 * length covered))) in *.
      unfold checksum_of.
      destruct (Z.eqb_spec ct 0) as [E0|E0].
      * rewrite Hck. apply Z.eqb_neq. intros E. apply Hnz. symmetry. exact E.
      * destruct (Z.eqb_spec ct 1) as [E1|E1]; [discriminate|reflexivity].
    + (* the checksum field *)
      rewrite flip_bit_app_r by (rewrite sbe_enc_length; lia). rewrite sbe_enc_length.
      rewrite verify_parts by (rewrite ?flip_bit_length, ?sbe_enc_length, ?ube_enc_length; lia).
      apply andb_false_intro2.
      rewrite sbe_dec_enc by (try lia; unfold in_range; change (bits_of 4 - 1) with 31; assert (2 ^ 31 = 2147483648) by reflexivity; lia).
      unfold checksum_of. cbn [Z.eqb Pos.eqb].
      apply Z.eqb_neq. rewrite <- Hck at 1. intros E. symmetry in E. revert E.
      apply ube_dec_flip; [apply is_bytes_ube_enc|apply ube_enc_length|lia].
Qed.

(** ** the cache never serves a block that does not verify *)
Definition cache_sound (file : list Z) (index : list (nat * nat)) (c : cache) : Prop :=
  forall id b, cache_get c id = Some b ->
    exists off len, nth_error index id = Some (off, len) /\ (off + len <= length file)%nat /\
                    b = slice file off len /\ verify_block b = true.

Lemma get_block_sound file index c id : cache_sound file index c ->
  cache_sound file index (fst (get_block file index c id)).
Proof.
  intros Hs. unfold get_block. destruct (cache_get c id) eqn:Eg; [exact Hs|].
  destruct (nth_error index id) as [[off len]|] eqn:En; [|exact Hs].
  destruct (Nat.ltb_spec (length file) (off + len)); [exact Hs|].
  destruct (verify_block (slice file off len)) eqn:Ev; [|exact Hs].
  cbn [fst]. intros id' b Hb. cbn [cache_get] in Hb. destruct (Nat.eqb_spec id' id) as [->|Hne].
  - inversion Hb; subst. exists off, len. repeat split; assumption.
  - apply Hs, Hb.
Qed.

Theorem corrupted_block_never_read file index id off len : forall n c,
  cache_sound file index c -> nth_error index id = Some (off, len) ->
  verify_block (slice file off len) = false ->
  Forall (fun r => r = RErr) (get_blocks file index c (repeat id n)).
Proof.
  induction n as [|n IH]; intros c Hs Hn Hv; cbn [repeat get_blocks]; [constructor|].
  assert (Eg : cache_get c id = None).
  { destruct (cache_get c id) as [b|] eqn:E; [|reflexivity]. exfalso.
    destruct (Hs id b E) as (off' & len' & Hn' & _ & -> & Hv'). rewrite Hn in Hn'. inversion Hn'; subst.
    rewrite Hv in Hv'. discriminate. }
  unfold get_block. rewrite Eg, Hn.
  destruct (Nat.ltb (length file) (off + len)); [constructor; [reflexivity|apply IH; assumption]|].
  rewrite Hv. constructor; [reflexivity|apply IH; assumption].
Qed.

Lemma cache_sound_nil file index : cache_sound file index [].
Proof. intros id b H. discriminate. Qed.

(** ** index files *)
Lemma frame_enc_nonempty r rest : frame_enc r ++ rest <> [].
Proof. unfold frame_enc. pose proof (varint_enc_nonempty (Z.of_nat (length r))). destruct (varint_enc _); [contradiction|discriminate]. Qed.

Definition rec_ok (r : list Z) : Prop := Z.of_nat (length r) < 15 * 2 ^ 28.

Lemma frames_step f count r rest : 0 < count -> rec_ok r ->
  frames (S f) count (frame_enc r ++ rest) =
  match frames f (count - 1) rest with Some fs => Some (r :: fs) | None => None end.
Proof.
  intros Hc Hr. cbn [frames]. destruct (Z.leb_spec count 0); [lia|].
  unfold frame_enc. rewrite <- app_assoc. rewrite varint_dec_enc by (unfold rec_ok in Hr; lia).
  rewrite skipn_app_exact by reflexivity. rewrite app_length.
  destruct (Z.ltb_spec (Z.of_nat (length r + length rest)) (Z.of_nat (length r))); [lia|].
  rewrite Nat2Z.id. rewrite skipn_app_exact, firstn_app_exact by reflexivity. reflexivity.
Qed.

Lemma frames_ok : forall records fuel, Forall rec_ok records -> (length records <= fuel)%nat ->
  frames fuel (Z.of_nat (length records)) (flat_map frame_enc records) = Some records.
Proof.
  induction records as [|r rs IH]; intros fuel Hok Hf.
  - destruct fuel; reflexivity.
  - inversion Hok; subst. cbn [length] in Hf. destruct fuel as [|fuel]; [lia|].
    cbn [flat_map]. rewrite frames_step by (try assumption; cbn [length]; lia).
    replace (Z.of_nat (length (r :: rs)) - 1) with (Z.of_nat (length rs)) by (cbn [length]; lia).
    rewrite IH by (try assumption; lia). reflexivity.
Qed.

Lemma frames_wrong_count : forall records fuel count, Forall rec_ok records ->
  0 <= count -> count <> Z.of_nat (length records) ->
  frames fuel count (flat_map frame_enc records) = None.
Proof.
  induction records as [|r rs IH]; intros fuel count Hok Hc Hne.
  - cbn [flat_map length] in *. destruct fuel as [|fuel]; cbn [frames];
      destruct (Z.leb_spec count 0); try lia; reflexivity.
  - inversion Hok; subst. cbn [flat_map].
    destruct (Z.leb_spec count 0) as [Hz|Hz].
    + destruct fuel; cbn [frames]; destruct (Z.leb_spec count 0); try lia;
        (destruct (frame_enc r ++ flat_map frame_enc rs) eqn:E; [exfalso; eapply frame_enc_nonempty; exact E|reflexivity]).
    + destruct fuel as [|fuel]; [cbn [frames]; destruct (Z.leb_spec count 0); [lia|reflexivity]|].
      rewrite frames_step by assumption.
      rewrite IH; [reflexivity|assumption|lia|cbn [length] in Hne; lia].
Qed.

Lemma parse_parts entries m c ct ck :
  length m = 4%nat -> length c = 8%nat -> length ct = 4%nat -> length ck = 8%nat ->
  parse_index (entries ++ m ++ c ++ ct ++ ck) =
  if negb (ube_dec 4 m =? index_magic) then None
  else match checksum_of (sbe_dec 4 ct) entries with
       | None => None
       | Some x => if x =? ube_dec 8 ck then frames (S (length entries)) (ube_dec 8 c) entries else None
       end.
Proof.
  intros Hm Hc Ht Hk. unfold parse_index. rewrite !app_length, Hm, Hc, Ht, Hk.
  destruct (Nat.ltb_spec (length entries + (4 + (8 + (4 + 8)))) 24); [lia|].
  replace (length entries + (4 + (8 + (4 + 8))) - 24)%nat with (length entries) by lia.
  replace (length entries + (4 + (8 + (4 + 8))) - 20)%nat with (length entries + 4)%nat by lia.
  replace (length entries + (4 + (8 + (4 + 8))) - 12)%nat with (length entries + 4 + 8)%nat by lia.
  replace (length entries + (4 + (8 + (4 + 8))) - 8)%nat with (length entries + 4 + 8 + 4)%nat by lia.
  rewrite (firstn_app_exact entries _ (length entries)) by reflexivity.
  rewrite (skipn_app_exact entries _ (length entries)) by reflexivity.
  rewrite !skipn_add.
  rewrite (skipn_app_exact entries _ (length entries)) by reflexivity.
  rewrite (skipn_app_exact m _ 4) by (symmetry; exact Hm).
  rewrite (skipn_app_exact c _ 8) by (symmetry; exact Hc).
  rewrite (skipn_app_exact ct _ 4) by (symmetry; exact Ht).
  rewrite (ube_dec_app 4 m _ Hm), (ube_dec_app 8 c _ Hc), (sbe_dec_app 4 ct ck Ht).
  reflexivity.
Qed.

Lemma index_file_shape records :
  index_file true records =
  flat_map frame_enc records ++ ube_enc 4 index_magic ++ ube_enc 8 (Z.of_nat (length records))
    ++ sbe_enc 4 1 ++ ube_enc 8 (crc32 (flat_map frame_enc records)).
Proof. reflexivity. Qed.

Theorem index_file_ok records : Forall rec_ok records -> Z.of_nat (length records) < 2 ^ 64 ->
  parse_index (index_file true records) = Some records.
Proof.
  intros Hok Hn. rewrite index_file_shape.
  rewrite parse_parts by (rewrite ?ube_enc_length, ?sbe_enc_length; reflexivity).
  rewrite <- (app_nil_r (ube_enc 4 _)), ube_dec_enc by (vm_compute; split; [discriminate|reflexivity]).
  rewrite Z.eqb_refl. cbn [negb].
  rewrite <- (app_nil_r (sbe_enc 4 1)), sbe_dec_enc by (try lia; unfold in_range; change (bits_of 4 - 1) with 31; assert (2 ^ 31 = 2147483648) by reflexivity; lia).
  unfold checksum_of. cbn [Z.eqb Pos.eqb].
  pose proof (crc32_range (flat_map frame_enc records)) as Hcr.
  rewrite <- (app_nil_r (ube_enc 8 (crc32 _))), ube_dec_enc by (change (2 ^ bits_of 8) with (2 ^ 64); assert (2 ^ 32 < 2 ^ 64) by reflexivity; lia).
  rewrite Z.eqb_refl.
  rewrite <- (app_nil_r (ube_enc 8 (Z.of_nat _))), ube_dec_enc by (change (2 ^ bits_of 8) with (2 ^ 64); lia).
  apply frames_ok; [exact Hok|].
  assert (H : forall rs, (length rs <= length (flat_map frame_enc rs))%nat).
  { induction rs as [|r rs IH]; cbn [flat_map length]; [lia|]. rewrite app_length. unfold frame_enc at 1. rewrite app_length.
    pose proof (varint_enc_nonempty (Z.of_nat (length r))). destruct (varint_enc _); [contradiction|cbn [length]; lia]. }
  specialize (H records). lia.
Qed.

Theorem index_flip_detected records k :
  Forall rec_ok records -> Z.of_nat (length records) < 2 ^ 64 ->
  is_bytes (flat_map frame_enc records) -> crc32 (flat_map frame_enc records) <> 0 ->
  (k < 8 * length (index_file true records))%nat ->
  parse_index (flip_bit (index_file true records) k) = None.
Proof.
  intros Hok Hn Hb Hnz Hk. rewrite index_file_shape in *.
  set (entries := flat_map frame_enc records) in *.
  rewrite !app_length, !ube_enc_length, sbe_enc_length in Hk.
  pose proof (crc32_range entries) as Hcr.
  assert (Hmagic : ube_dec 4 (ube_enc 4 index_magic) = index_magic).
  { rewrite <- (app_nil_r (ube_enc 4 _)). apply ube_dec_enc. vm_compute. split; [discriminate|reflexivity]. }
  assert (Hck : ube_dec 8 (ube_enc 8 (crc32 entries)) = crc32 entries).
  { rewrite <- (app_nil_r (ube_enc 8 _)). apply ube_dec_enc. change (2 ^ bits_of 8) with (2 ^ 64). assert (2 ^ 32 < 2 ^ 64) by reflexivity. lia. }
  assert (Hcnt : ube_dec 8 (ube_enc 8 (Z.of_nat (length records))) = Z.of_nat (length records)).
  { rewrite <- (app_nil_r (ube_enc 8 _)). apply ube_dec_enc. change (2 ^ bits_of 8) with (2 ^ 64). lia. }
  assert (Hct : sbe_dec 4 (sbe_enc 4 1) = 1).
  { rewrite <- (app_nil_r (sbe_enc 4 1)). apply sbe_dec_enc; [lia|]. unfold in_range. change (bits_of 4 - 1) with 31. assert (2 ^ 31 = 2147483648) by reflexivity. lia. }
  destruct (Nat.lt_ge_cases k (8 * length entries)) as [R1|R1].
  { (* the records *)
    rewrite flip_bit_app_l by exact R1.
    rewrite parse_parts by (rewrite ?ube_enc_length, ?sbe_enc_length; reflexivity).
    rewrite Hmagic, Z.eqb_refl, Hct. cbn [negb]. unfold checksum_of. cbn [Z.eqb Pos.eqb]. rewrite Hck.
    destruct (Z.eqb_spec (crc32 (flip_bit entries k)) (crc32 entries)) as [E|E]; [|reflexivity].
    exfalso. revert E. apply crc32_flip; assumption. }
  rewrite flip_bit_app_r by exact R1.
  destruct (Nat.lt_ge_cases (k - 8 * length entries) 32) as [R2|R2].
  { (* the magic number *)
    rewrite flip_bit_app_l by (rewrite ube_enc_length; exact R2).
    rewrite parse_parts by (rewrite ?flip_bit_length, ?ube_enc_length, ?sbe_enc_length; reflexivity).
    destruct (Z.eqb_spec (ube_dec 4 (flip_bit (ube_enc 4 index_magic) (k - 8 * length entries))) index_magic) as [E|E]; [|reflexivity].
    exfalso. rewrite <- Hmagic in E at 2. revert E.
    apply ube_dec_flip; [apply is_bytes_ube_enc|apply ube_enc_length|lia]. }
  rewrite flip_bit_app_r by (rewrite ube_enc_length; lia). rewrite ube_enc_length.
  destruct (Nat.lt_ge_cases (k - 8 * length entries - 8 * 4) 64) as [R3|R3].
  { (* the record count *)
    rewrite flip_bit_app_l by (rewrite ube_enc_length; exact R3).
    rewrite parse_parts by (rewrite ?flip_bit_length, ?ube_enc_length, ?sbe_enc_length; reflexivity).
    rewrite Hmagic, Z.eqb_refl, Hct. cbn [negb]. unfold checksum_of. cbn [Z.eqb Pos.eqb]. rewrite Hck, Z.eqb_refl.
    apply frames_wrong_count; [exact Hok| |].
    - unfold ube_dec. apply ule_dec_bound. apply is_bytes_rev.
      rewrite firstn_all2 by (rewrite flip_bit_length, ube_enc_length; lia).
      apply flip_bit_bytes, is_bytes_ube_enc.
    - rewrite <- Hcnt at 2. apply ube_dec_flip; [apply is_bytes_ube_enc|apply ube_enc_length|lia]. }
  rewrite flip_bit_app_r by (rewrite ube_enc_length; lia). rewrite ube_enc_length.
  destruct (Nat.lt_ge_cases (k - 8 * length entries - 8 * 4 - 8 * 8) 32) as [R4|R4].
  { (* the checksum type *)
    rewrite flip_bit_app_l by (rewrite sbe_enc_length; exact R4).
    rewrite parse_parts by (rewrite ?flip_bit_length, ?ube_enc_length, ?sbe_enc_length; reflexivity).
    rewrite Hmagic, Z.eqb_refl. cbn [negb].
    pose proof cktype_flips as F. rewrite forallb_forall in F.
    specialize (F (k - 8 * length entries - 8 * 4 - 8 * 8)%nat ltac:(apply in_seq; lia)). cbv zeta in F.
    apply andb_prop in F as [F1 F2].
    set (ct := sbe_dec 4 (flip_bit (sbe_enc 4 1) (k - 8 * length entries - 8 * 4 - 8 * 8))) in *.
    unfold checksum_of. destruct (Z.eqb_spec ct 0) as [E0|E0].
    - rewrite Hck. destruct (Z.eqb_spec 0 (crc32 entries)) as [E|E]; [exfalso; apply Hnz; symmetry; exact E|reflexivity].
    - destruct (Z.eqb_spec ct 1) as [E1|E1]; [discriminate|reflexivity]. }
  (* the checksum *)
  rewrite flip_bit_app_r by (rewrite sbe_enc_length; lia). rewrite sbe_enc_length.
  rewrite parse_parts by (rewrite ?flip_bit_length, ?ube_enc_length, ?sbe_enc_length; reflexivity).
  rewrite Hmagic, Z.eqb_refl, Hct. cbn [negb]. unfold checksum_of. cbn [Z.eqb Pos.eqb].
  destruct (Z.eqb_spec (crc32 entries) (ube_dec 8 (flip_bit (ube_enc 8 (crc32 entries)) (k - 8 * length entries - 8 * 4 - 8 * 8 - 8 * 4)))) as [E|E]; [|reflexivity].
  exfalso. rewrite <- Hck in E at 1. symmetry in E. revert E.
  apply ube_dec_flip; [apply is_bytes_ube_enc|apply ube_enc_length|lia].
Qed.

(** known finding KF_C18_forged_trailer: with the checksum type taken from the trailer itself,
    ANY data followed by "checksum type None, checksum 0" verifies *)
Theorem forged_trailer_accepted t body' : valid_block_type t = true ->
  verify_block ((body' ++ sbe_enc 4 t) ++ sbe_enc 4 0 ++ ube_enc 8 0) = true.
Proof.
  intros Ht.
  rewrite verify_parts by (rewrite ?app_length, ?sbe_enc_length, ?ube_enc_length; lia).
  rewrite app_length, sbe_enc_length. replace (length body' + 4 - 4)%nat with (length body') by lia.
  rewrite skipn_app_exact by reflexivity.
  assert (Hr : in_range 4 t).
  { unfold valid_block_type in Ht. unfold in_range. change (bits_of 4 - 1) with 31. assert (2 ^ 31 = 2147483648) by reflexivity. lia. }
  rewrite sbe_dec_enc by (try lia; exact Hr). rewrite Ht. reflexivity.
Qed.
