(** * Proofs about the manifest log and the boot procedure (C03, C04) *)
From RL Require Import Model.Manifest.
From Coq Require Import Lia Permutation.

(** ** replay of framed transactions *)
Lemma replay_go_ops : forall t l buf acc,
  replay_go (map ROp t ++ l) true buf acc = replay_go l true (buf ++ t) acc.
Proof.
  induction t as [|o t IH]; intros l buf acc; cbn [map app replay_go]; [rewrite app_nil_r; reflexivity|].
  rewrite IH, <- app_assoc. reflexivity.
Qed.
Lemma replay_go_frame t l acc : replay_go (frame t ++ l) false [] acc = replay_go l false [] (acc ++ t).
Proof.
  unfold frame. cbn [app replay_go]. rewrite <- app_assoc, replay_go_ops. cbn [app replay_go]. reflexivity.
Qed.
Lemma replay_go_frames : forall ts l acc,
  replay_go (concat (map frame ts) ++ l) false [] acc = replay_go l false [] (acc ++ concat ts).
Proof.
  induction ts as [|t ts IH]; intros l acc; cbn [map concat app]; [rewrite app_nil_r; reflexivity|].
  rewrite <- app_assoc, replay_go_frame, IH, <- app_assoc. reflexivity.
Qed.
(** the log of acknowledged transactions replays to exactly their operations, in order *)
Theorem replay_frames ts : replay (concat (map frame ts)) = concat ts.
Proof. unfold replay. rewrite <- (app_nil_r (concat (map frame ts))), replay_go_frames. reflexivity. Qed.

(** ** a crash inside Manifest::append: any proper prefix of the records of the transaction in
       flight, possibly followed by an incomplete record, is invisible *)
Definition torn_tails (t : list mop) : list (list rec) :=
  flat_map (fun k => [firstn k (frame t); firstn k (frame t) ++ [RTorn]]) (seq 0 (length (frame t))).
Lemma firstn_frame k t : k < length (frame t) ->
  firstn k (frame t) = [] \/ exists t', firstn k (frame t) = RBegin :: map ROp t'.
Proof.
  intros Hk. destruct k as [|k]; [left; reflexivity|right]. unfold frame in *. cbn [firstn length] in *.
  rewrite app_length, map_length in Hk. cbn in Hk. exists (firstn k t).
  rewrite firstn_app, map_length. replace (k - length t) with 0 by lia. cbn [firstn]. rewrite app_nil_r, firstn_map. reflexivity.
Qed.
Lemma replay_go_open_tail t' tail acc : tail = [] \/ tail = [RTorn] ->
  replay_go (RBegin :: map ROp t' ++ tail) false [] acc = acc.
Proof.
  intros H. cbn [replay_go]. rewrite replay_go_ops. destruct H as [-> | ->]; reflexivity.
Qed.
Theorem crash_in_append_is_invisible ts t p : In p (torn_tails t) ->
  replay (concat (map frame ts) ++ p) = concat ts.
Proof.
  intros Hp. unfold replay. rewrite replay_go_frames. cbn [app].
  unfold torn_tails in Hp. apply in_flat_map in Hp as (k & Hk & Hp). apply in_seq in Hk.
  destruct (firstn_frame k t ltac:(lia)) as [E | (t' & E)]; rewrite E in Hp.
  - destruct Hp as [<- | [<- | []]]; reflexivity.
  - destruct Hp as [<- | [<- | []]].
    + rewrite <- (app_nil_r (map ROp t')). apply replay_go_open_tail. left; reflexivity.
    + cbn [app]. apply replay_go_open_tail. right; reflexivity.
Qed.
(** while the complete transaction is visible as a whole *)
Theorem complete_append_is_visible ts t : replay (concat (map frame ts) ++ frame t) = concat ts ++ t.
Proof.
  unfold replay. rewrite replay_go_frames. cbn [app]. rewrite <- (app_nil_r (frame t)), replay_go_frame. reflexivity.
Qed.

(** ** the state rebuilt from the log *)
Lemma pair_eqb_spec a b : pair_eqb a b = true <-> a = b.
Proof.
  destruct a as [a1 a2], b as [b1 b2]. unfold pair_eqb. cbn [fst snd]. rewrite andb_true_iff, !Nat.eqb_eq.
  split; [intros [-> ->]; reflexivity|intros E; inversion E; auto].
Qed.
Lemma trip_eqb_spec a b : trip_eqb a b = true <-> a = b.
Proof.
  destruct a as [a1 a2], b as [b1 b2]. unfold trip_eqb. cbn [fst snd]. rewrite andb_true_iff, pair_eqb_spec, Nat.eqb_eq.
  split; [intros [-> ->]; reflexivity|intros E; inversion E; auto].
Qed.
Lemma In_remove {A} (eqb : A -> A -> bool) (Hs : forall a b, eqb a b = true <-> a = b) (a x : A) l :
  In x (filter (fun y => negb (eqb y a)) l) <-> In x l /\ x <> a.
Proof.
  rewrite filter_In, negb_true_iff. split; intros [H1 H2]; split; auto.
  - intros ->. assert (eqb a a = true) by (apply Hs; reflexivity). congruence.
  - destruct (eqb x a) eqn:E; [apply Hs in E; contradiction|reflexivity].
Qed.
Lemma NoDup_filter {A} (f : A -> bool) l : NoDup l -> NoDup (filter f l).
Proof.
  induction 1 as [|x l Hx Hl IH]; cbn; [constructor|]. destruct (f x); [constructor; [|exact IH]|exact IH].
  intros H. apply filter_In in H. tauto.
Qed.
Lemma NoDup_snoc' {A} (l : list A) x : NoDup l -> ~ In x l -> NoDup (l ++ [x]).
Proof.
  induction l as [|y l IH]; cbn; intros Hn Hx; [constructor; [tauto|constructor]|].
  inversion Hn; subst. constructor; [|apply IH; tauto]. rewrite in_app_iff. cbn. intros [H|[H|[]]]; [tauto|subst; tauto].
Qed.
Lemma NoDup_readd {A} (eqb : A -> A -> bool) (Hs : forall a b, eqb a b = true <-> a = b) (a : A) l :
  NoDup l -> NoDup (filter (fun y => negb (eqb y a)) l ++ [a]).
Proof.
  intros H. apply NoDup_snoc'; [apply NoDup_filter, H|]. rewrite (In_remove eqb Hs). tauto.
Qed.

Definition is_create o := match o with MCreate _ => true | _ => false end.
Definition is_cat o := match o with MCreate _ | MDrop _ => true | _ => false end.
Definition strip (s : mstate) : mstate :=
  {| m_tables := m_tables s; m_next_tid := m_next_tid s; m_rowsets := []; m_dvs := []; m_catlog := m_catlog s |}.
Definition RowsetsOk s := forall x, In x (m_rowsets s) -> has_table s (fst x) = true.
Definition DvsOk s := forall d, In d (m_dvs s) -> In (fst (fst d), snd d) (m_rowsets s).
Definition CatOk s := forallb is_cat (m_catlog s) = true /\ apply_ops m_init (m_catlog s) = Some (strip s).
Definition Inv s := RowsetsOk s /\ DvsOk s /\ NoDup (m_rowsets s) /\ NoDup (m_dvs s) /\ CatOk s.

Lemma apply_ops_app : forall a b s, apply_ops s (a ++ b) = match apply_ops s a with Some s' => apply_ops s' b | None => None end.
Proof. induction a as [|o a IH]; intros b s; cbn [app apply_ops]; [reflexivity|]. destruct (apply_op s o); [apply IH|reflexivity]. Qed.


(** NoDup and the catalog log are kept by every operation *)
Lemma apply_op_nodup s o s' : apply_op s o = Some s' -> NoDup (m_rowsets s) -> NoDup (m_dvs s) -> NoDup (m_rowsets s') /\ NoDup (m_dvs s').
Proof.
  intros E Hr Hd. destruct o; cbn [apply_op] in E.
  - destruct (has_name s name); inversion E; subst; cbn; auto.
  - destruct (has_table s tid); inversion E; subst; cbn; auto.
  - inversion E; subst; cbn. split; [apply (NoDup_readd pair_eqb pair_eqb_spec), Hr|exact Hd].
  - inversion E; subst; cbn. split; [apply NoDup_filter, Hr|exact Hd].
  - inversion E; subst; cbn. split; [exact Hr|apply (NoDup_readd trip_eqb trip_eqb_spec), Hd].
  - inversion E; subst; cbn. split; [exact Hr|apply NoDup_filter, Hd].
Qed.
Lemma apply_op_strip s o s' : apply_op s o = Some s' ->
  if is_cat o then apply_op (strip s) o = Some (strip s') else strip s' = strip s /\ m_catlog s' = m_catlog s.
Proof.
  intros E. destruct o; cbn [apply_op is_cat] in *.
  - change (has_name (strip s) name) with (has_name s name). destruct (has_name s name); inversion E; subst; reflexivity.
  - change (has_table (strip s) tid) with (has_table s tid). destruct (has_table s tid); inversion E; subst; reflexivity.
  - inversion E; subst; split; reflexivity. - inversion E; subst; split; reflexivity.
  - inversion E; subst; split; reflexivity. - inversion E; subst; split; reflexivity.
Qed.
Lemma apply_op_catlog s o s' : apply_op s o = Some s' -> m_catlog s' = if is_cat o then m_catlog s ++ [o] else m_catlog s.
Proof.
  intros E. destruct o; cbn [apply_op is_cat] in *; try (inversion E; subst; reflexivity).
  - destruct (has_name s name); inversion E; subst; reflexivity.
  - destruct (has_table s tid); inversion E; subst; reflexivity.
Qed.
Lemma apply_op_catok s o s' : apply_op s o = Some s' -> CatOk s -> CatOk s'.
Proof.
  intros E [Ha H]. unfold CatOk in *. pose proof (apply_op_strip s o s' E) as Hs. rewrite (apply_op_catlog s o s' E).
  destruct (is_cat o) eqn:Ec.
  - split; [rewrite forallb_app, Ha; cbn; rewrite Ec; reflexivity|]. rewrite apply_ops_app, H. cbn [apply_ops]. rewrite Hs. reflexivity.
  - destruct Hs as [-> _]. split; assumption.
Qed.
Lemma apply_op_next_tid s o s' : apply_op s o = Some s' -> is_create o = false -> m_next_tid s' = m_next_tid s.
Proof.
  intros E H. destruct o; cbn [apply_op is_create] in *; try discriminate; try (inversion E; subst; reflexivity).
  destruct (has_table s tid); inversion E; subst; reflexivity.
Qed.
Lemma apply_ops_next_tid : forall ops s s', apply_ops s ops = Some s' -> forallb (fun o => negb (is_create o)) ops = true -> m_next_tid s' = m_next_tid s.
Proof.
  induction ops as [|o ops IH]; intros s s' E H; cbn in *; [inversion E; reflexivity|].
  apply andb_prop in H as [H1 H2]. destruct (apply_op s o) as [s1|] eqn:E1; [|discriminate].
  rewrite (IH _ _ E H2). apply (apply_op_next_tid _ _ _ E1). apply negb_true_iff, H1.
Qed.
Lemma apply_ops_nodup_catok : forall ops s s', apply_ops s ops = Some s' ->
  NoDup (m_rowsets s) -> NoDup (m_dvs s) -> CatOk s -> NoDup (m_rowsets s') /\ NoDup (m_dvs s') /\ CatOk s'.
Proof.
  induction ops as [|o ops IH]; intros s s' E Hr Hd Hc; cbn in E; [inversion E; subst; auto|].
  destruct (apply_op s o) as [s1|] eqn:E1; [|discriminate].
  destruct (apply_op_nodup _ _ _ E1 Hr Hd) as [Hr1 Hd1]. apply (IH _ _ E Hr1 Hd1). apply (apply_op_catok _ _ _ E1 Hc).
Qed.

(** removing row-sets and delete vectors: what is left *)
Definition is_del o := match o with MDelRS _ _ | MDelDV _ _ _ => true | _ => false end.
Lemma apply_dels : forall dels s, forallb is_del dels = true -> exists s', apply_ops s dels = Some s' /\
  m_tables s' = m_tables s /\
  (forall x, In x (m_rowsets s') <-> In x (m_rowsets s) /\ ~ In (MDelRS (fst x) (snd x)) dels) /\
  (forall d, In d (m_dvs s') <-> In d (m_dvs s) /\ ~ In (MDelDV (fst (fst d)) (snd (fst d)) (snd d)) dels).
Proof.
  induction dels as [|o dels IH]; intros s H; cbn [apply_ops].
  - exists s. repeat split; try tauto; intros; tauto.
  - cbn in H. apply andb_prop in H as [Ho H]. destruct o; try discriminate; cbn [apply_op].
    + destruct (IH {| m_tables := m_tables s; m_next_tid := m_next_tid s;
                      m_rowsets := filter (fun x => negb (pair_eqb x (tid, rsid))) (m_rowsets s); m_dvs := m_dvs s; m_catlog := m_catlog s |} H)
        as (s' & E & Ht & Hr & Hd). exists s'. split; [exact E|]. split; [exact Ht|]. cbn [m_rowsets m_dvs] in *. split.
      * intros x. rewrite Hr, (In_remove pair_eqb pair_eqb_spec). cbn [In]. destruct x as [x1 x2]. cbn [fst snd].
        split; [intros [[H1 H2] H3]; split; [exact H1|intros [H4|H4]; [inversion H4; subst; tauto|tauto]]
               |intros [H1 H2]; split; [split; [exact H1|intros H4; inversion H4; subst; tauto]|tauto]].
      * intros d. rewrite Hd. cbn [In]. split; [intros [H1 H2]; split; [exact H1|intros [H4|H4]; [discriminate|tauto]]|intros [H1 H2]; split; tauto].
    + destruct (IH {| m_tables := m_tables s; m_next_tid := m_next_tid s; m_rowsets := m_rowsets s;
                      m_dvs := filter (fun x => negb (trip_eqb x (tid, dvid, rsid))) (m_dvs s); m_catlog := m_catlog s |} H)
        as (s' & E & Ht & Hr & Hd). exists s'. split; [exact E|]. split; [exact Ht|]. cbn [m_rowsets m_dvs] in *. split.
      * intros x. rewrite Hr. cbn [In]. split; [intros [H1 H2]; split; [exact H1|intros [H4|H4]; [discriminate|tauto]]|intros [H1 H2]; split; tauto].
      * intros d. rewrite Hd, (In_remove trip_eqb trip_eqb_spec). cbn [In]. destruct d as [[d1 d2] d3]. cbn [fst snd].
        split; [intros [[H1 H2] H3]; split; [exact H1|intros [H4|H4]; [inversion H4; subst; tauto|tauto]]
               |intros [H1 H2]; split; [split; [exact H1|intros H4; inversion H4; subst; tauto]|tauto]].
Qed.

Lemma has_table_spec s tid : has_table s tid = true <-> exists name, In (tid, name) (m_tables s).
Proof.
  unfold has_table. rewrite existsb_exists. split.
  - intros ([i n] & Hin & E). cbn in E. apply Nat.eqb_eq in E. subst. exists n. exact Hin.
  - intros (n & Hin). exists (tid, n). split; [exact Hin|cbn; apply Nat.eqb_refl].
Qed.
Lemma apply_adds_rs tid : forall rsids s, exists s', apply_ops s (map (MAddRS tid) rsids) = Some s' /\
  m_tables s' = m_tables s /\ m_dvs s' = m_dvs s /\
  (forall x, In x (m_rowsets s') <-> In x (m_rowsets s) \/ (fst x = tid /\ In (snd x) rsids)).
Proof.
  induction rsids as [|r rs IH]; intros s; cbn [map apply_ops apply_op].
  - exists s. repeat split; try tauto. intros [H|[_ []]]; exact H.
  - destruct (IH {| m_tables := m_tables s; m_next_tid := m_next_tid s;
                    m_rowsets := filter (fun x => negb (pair_eqb x (tid, r))) (m_rowsets s) ++ [(tid, r)]; m_dvs := m_dvs s; m_catlog := m_catlog s |})
      as (s' & E & Ht & Hd & Hr). exists s'. split; [exact E|]. cbn [m_tables m_dvs m_rowsets] in *. repeat split; try assumption.
    + intros H. apply Hr in H. rewrite in_app_iff, (In_remove pair_eqb pair_eqb_spec) in H. cbn [In] in *.
      destruct H as [[[H _]|[<-|[]]]|[H1 H2]]; cbn; auto.
    + intros H. apply Hr. rewrite in_app_iff, (In_remove pair_eqb pair_eqb_spec). cbn [In] in *.
      destruct x as [x1 x2]. cbn [fst snd] in *. destruct H as [H|[-> [<-|H]]]; auto.
      destruct (Nat.eq_dec x1 tid) as [->|N1], (Nat.eq_dec x2 r) as [->|N2]; auto; left; left; split; auto; intros E0; inversion E0; auto.
Qed.
Lemma apply_adds_dv tid : forall dvs s, exists s', apply_ops s (map (fun d => MAddDV tid (fst d) (snd d)) dvs) = Some s' /\
  m_tables s' = m_tables s /\ m_rowsets s' = m_rowsets s /\
  (forall d, In d (m_dvs s') <-> In d (m_dvs s) \/ (fst (fst d) = tid /\ In (snd (fst d), snd d) dvs)).
Proof.
  induction dvs as [|[dv r] dvs IH]; intros s; cbn [map apply_ops apply_op fst snd].
  - exists s. repeat split; try tauto. intros [H|[_ []]]; exact H.
  - destruct (IH {| m_tables := m_tables s; m_next_tid := m_next_tid s; m_rowsets := m_rowsets s;
                    m_dvs := filter (fun x => negb (trip_eqb x (tid, dv, r))) (m_dvs s) ++ [(tid, dv, r)]; m_catlog := m_catlog s |})
      as (s' & E & Ht & Hr & Hd). exists s'. split; [exact E|]. cbn [m_tables m_dvs m_rowsets] in *. repeat split; try assumption.
    + intros H. apply Hd in H. rewrite in_app_iff, (In_remove trip_eqb trip_eqb_spec) in H. cbn [In] in *.
      destruct H as [[[H _]|[<-|[]]]|[H1 H2]]; cbn; auto.
    + intros H. apply Hd. rewrite in_app_iff, (In_remove trip_eqb trip_eqb_spec). cbn [In] in *.
      destruct d as [[d1 d2] d3]. cbn [fst snd] in *. destruct H as [H|[-> [E0|H]]].
      * destruct (trip_eqb (d1, d2, d3) (tid, dv, r)) eqn:Eq; [apply trip_eqb_spec in Eq; inversion Eq; subst; auto|].
        left; left; split; auto. intros E'. rewrite <- trip_eqb_spec in E'. congruence.
      * inversion E0; subst; auto.
      * destruct (trip_eqb (tid, d2, d3) (tid, dv, r)) eqn:Eq; [apply trip_eqb_spec in Eq; inversion Eq; subst; auto|].
        right. auto.
Qed.

(** the delete records a DROP TABLE / compaction writes for a set of row-sets *)
Definition dels_for (s : mstate) (tid : nat) (rs : list nat) : list mop :=
  flat_map (fun r => MDelRS tid r :: dvs_of_rs s tid r) rs.
Lemma dels_for_is_del s tid rs : forallb is_del (dels_for s tid rs) = true.
Proof.
  apply forallb_forall. intros o Ho. apply in_flat_map in Ho as (r & _ & [<-|Ho]); [reflexivity|].
  unfold dvs_of_rs in Ho. apply in_map_iff in Ho as (d & <- & _). reflexivity.
Qed.
Lemma in_dels_rs s tid rs t r : In (MDelRS t r) (dels_for s tid rs) <-> t = tid /\ In r rs.
Proof.
  unfold dels_for. rewrite in_flat_map. split.
  - intros (r0 & Hr0 & [E|H]); [inversion E; subst; auto|]. unfold dvs_of_rs in H. apply in_map_iff in H as (d & E & _). discriminate.
  - intros [-> H]. exists r. split; [exact H|left; reflexivity].
Qed.
Lemma in_dels_dv s tid rs t dv r : In (MDelDV t dv r) (dels_for s tid rs) <-> t = tid /\ In r rs /\ In (tid, dv, r) (m_dvs s).
Proof.
  unfold dels_for. rewrite in_flat_map. split.
  - intros (r0 & Hr0 & [E|H]); [discriminate|]. unfold dvs_of_rs in H. apply in_map_iff in H as ([[d1 d2] d3] & E & Hd).
    apply filter_In in Hd as [Hd Hc]. cbn [fst snd] in *. apply andb_prop in Hc as [H1 H2]. apply Nat.eqb_eq in H1, H2. inversion E; subst. auto.
  - intros (-> & Hr & Hd). exists r. split; [exact Hr|right]. unfold dvs_of_rs. apply in_map_iff. exists (tid, dv, r). split; [reflexivity|].
    apply filter_In. split; [exact Hd|cbn; rewrite !Nat.eqb_refl; reflexivity].
Qed.

(** ** every statement keeps the invariant *)
Lemma step_keeps_refs s st s' : RowsetsOk s -> DvsOk s -> stmt_ok s st = true -> is_view st = false ->
  apply_ops s (txn_of s st) = Some s' -> RowsetsOk s' /\ DvsOk s'.
Proof.
  intros Hro Hdo Hok Hv E. destruct st as [name| |tid|tid rsids|tid dvs|tid chosen new]; cbn [txn_of stmt_ok is_view] in *; try discriminate.
  - (* create *) cbn [apply_ops apply_op] in E. destruct (has_name s name); [discriminate|]. inversion E; subst; clear E.
    split; [|exact Hdo]. intros x Hx. cbn [m_rowsets] in Hx. specialize (Hro x Hx). apply has_table_spec in Hro as (n & Hn).
    apply has_table_spec. exists n. cbn [m_tables]. apply in_or_app. left; exact Hn.
  - (* drop *) cbn [apply_ops apply_op] in E. rewrite Hok in E.
    set (s1 := {| m_tables := filter (fun t => negb (fst t =? tid)) (m_tables s); m_next_tid := m_next_tid s;
                  m_rowsets := m_rowsets s; m_dvs := m_dvs s; m_catlog := m_catlog s ++ [MDrop tid] |}) in *.
    fold (dels_for s tid (rs_of s tid)) in E.
    destruct (apply_dels (dels_for s tid (rs_of s tid)) s1 (dels_for_is_del _ _ _)) as (s2 & E2 & Ht & Hr & Hd).
    rewrite E2 in E. inversion E; subst s2; clear E.
    assert (Hrs : forall r, In r (rs_of s tid) <-> In (tid, r) (m_rowsets s)).
    { intros r. unfold rs_of. rewrite in_map_iff. split.
      - intros ([t r0] & <- & H). apply filter_In in H as [H H0]. cbn in H0. apply Nat.eqb_eq in H0. subst. exact H.
      - intros H. exists (tid, r). split; [reflexivity|]. apply filter_In. split; [exact H|cbn; apply Nat.eqb_refl]. }
    assert (Hleft : forall x, In x (m_rowsets s') -> In x (m_rowsets s) /\ fst x <> tid).
    { intros [x1 x2] Hx. apply Hr in Hx as [Hx Hn]. cbn [m_rowsets s1 fst snd] in *. split; [exact Hx|]. intros ->.
      apply Hn, in_dels_rs. split; [reflexivity|]. apply Hrs, Hx. }
    split.
    + intros x Hx. destruct (Hleft x Hx) as [Hx0 Hne]. specialize (Hro x Hx0). apply has_table_spec in Hro as (n & Hn).
      apply has_table_spec. exists n. rewrite Ht. cbn [m_tables s1]. apply filter_In. split; [exact Hn|]. cbn. apply negb_true_iff, Nat.eqb_neq, Hne.
    + intros [[d1 d2] d3] Hd0. apply Hd in Hd0 as [Hd0 Hn]. cbn [m_dvs s1 fst snd] in *. specialize (Hdo _ Hd0). cbn [fst snd] in Hdo.
      apply Hr. cbn [m_rowsets s1 fst snd]. split; [exact Hdo|]. rewrite in_dels_rs. intros [-> Hin]. apply Hn, in_dels_dv. auto.
  - (* insert *) destruct (apply_adds_rs tid rsids s) as (s2 & E2 & Ht & Hd & Hr). rewrite E2 in E. inversion E; subst s2; clear E. split.
    + intros x Hx. apply Hr in Hx as [Hx|[Hx _]].
      * specialize (Hro x Hx). unfold has_table in *. rewrite Ht. exact Hro.
      * rewrite Hx. unfold has_table in *. rewrite Ht. exact Hok.
    + intros d Hd0. rewrite Hd in Hd0. apply Hr. left. apply Hdo, Hd0.
  - (* delete *) apply andb_prop in Hok as [Hok Hall].
    destruct (apply_adds_dv tid dvs s) as (s2 & E2 & Ht & Hr & Hd). rewrite E2 in E. inversion E; subst s2; clear E. split.
    + intros x Hx. rewrite Hr in Hx. specialize (Hro x Hx). unfold has_table in *. rewrite Ht. exact Hro.
    + intros d Hd0. apply Hd in Hd0 as [Hd0|[Hd1 Hd2]]; rewrite Hr; [apply Hdo, Hd0|].
      rewrite forallb_forall in Hall. specialize (Hall _ Hd2). cbn [snd] in Hall. apply existsb_exists in Hall as (x & Hx & Ex).
      apply pair_eqb_spec in Ex. rewrite Hd1. subst x. exact Hx.
  - (* compact *) rewrite apply_ops_app in E.
    assert (Hadd : exists s1, apply_ops s (match new with Some n => [MAddRS tid n] | None => [] end) = Some s1 /\ m_tables s1 = m_tables s /\
              m_dvs s1 = m_dvs s /\ (forall x, In x (m_rowsets s1) <-> In x (m_rowsets s) \/ (fst x = tid /\ new = Some (snd x)))).
    { destruct new as [n|].
      - destruct (apply_adds_rs tid [n] s) as (s1 & E1 & Ht & Hd & Hr). exists s1. split; [exact E1|]. repeat split; try assumption.
        + intros H. apply Hr in H as [H|[H1 [H2|[]]]]; [auto|right; subst; auto].
        + intros H. apply Hr. destruct H as [H|[H1 H2]]; [auto|]. inversion H2; subst. right; split; [reflexivity|left; reflexivity].
      - exists s. repeat split; try tauto. intros [H|[_ H]]; [exact H|discriminate]. }
    destruct Hadd as (s1 & E1 & Ht1 & Hd1 & Hr1). rewrite E1 in E. fold (dels_for s tid chosen) in E.
    destruct (apply_dels (dels_for s tid chosen) s1 (dels_for_is_del _ _ _)) as (s2 & E2 & Ht & Hr & Hd).
    rewrite E2 in E. inversion E; subst s2; clear E. split.
    + intros x Hx. apply Hr in Hx as [Hx _]. apply Hr1 in Hx. unfold has_table in *. rewrite Ht, Ht1.
      destruct Hx as [Hx|[Hx _]]; [apply Hro, Hx|rewrite Hx; exact Hok].
    + intros [[d1 d2] d3] Hd0. apply Hd in Hd0 as [Hd0 Hn]. rewrite Hd1 in Hd0. cbn [fst snd] in *. pose proof (Hdo _ Hd0) as Hl. cbn [fst snd] in Hl.
      apply Hr. cbn [fst snd]. split; [apply Hr1; left; exact Hl|]. rewrite in_dels_rs. intros [-> Hin]. apply Hn, in_dels_dv. auto.
Qed.

(** ** the running engine against its log *)
Definition RInv (r : rstate) : Prop :=
  Inv (r_abs r) /\ r_next_id r = m_next_tid (r_abs r) /\
  exists ts, r_log r = concat (map frame ts) /\ apply_ops m_init (concat ts) = Some (r_abs r).

Lemma txn_no_create s st : is_view st = false -> (forall n, st <> SCreate n) -> forallb (fun o => negb (is_create o)) (txn_of s st) = true.
Proof.
  intros _ Hn. apply forallb_forall. intros o Ho. destruct st; cbn [txn_of] in Ho.
  - exfalso. eapply Hn; reflexivity.
  - destruct Ho.
  - destruct Ho as [<-|Ho]; [reflexivity|]. apply in_flat_map in Ho as (r & _ & [<-|Ho]); [reflexivity|].
    unfold dvs_of_rs in Ho. apply in_map_iff in Ho as (d & <- & _). reflexivity.
  - apply in_map_iff in Ho as (r & <- & _). reflexivity.
  - apply in_map_iff in Ho as (d & <- & _). reflexivity.
  - apply in_app_or in Ho as [Ho|Ho]; [destruct new; [destruct Ho as [<-|[]]; reflexivity|destruct Ho]|].
    apply in_flat_map in Ho as (r & _ & [<-|Ho]); [reflexivity|]. unfold dvs_of_rs in Ho. apply in_map_iff in Ho as (d & <- & _). reflexivity.
Qed.

(** a statement that is not CREATE VIEW / INDEX acts on the running state exactly as its logged
    transaction acts on the replayed state *)
Lemma step_as_apply r st r' : r_next_id r = m_next_tid (r_abs r) -> is_view st = false -> step r st = Some r' ->
  apply_ops (r_abs r) (txn_of (r_abs r) st) = Some (r_abs r') /\ r_log r' = r_log r ++ frame (txn_of (r_abs r) st) /\
  r_next_id r' = m_next_tid (r_abs r').
Proof.
  intros Hid Hv E. destruct st as [name| |tid|tid rsids|tid dvs|tid chosen new]; try discriminate.
  - cbn [step] in E. cbn [txn_of apply_ops apply_op]. destruct (has_name (r_abs r) name); [discriminate|]. inversion E; subst; clear E.
    cbn [r_abs r_log r_next_id]. unfold run_create. rewrite Hid. repeat split; reflexivity.
  - cbn [step] in E. destruct (apply_ops (r_abs r) (txn_of (r_abs r) (SDrop tid))) as [s'|] eqn:Ea; [|discriminate]. inversion E; subst; clear E.
    cbn [r_abs r_log r_next_id]. repeat split. rewrite Hid. symmetry. eapply apply_ops_next_tid; [exact Ea|apply txn_no_create; [reflexivity|discriminate]].
  - cbn [step] in E. destruct (apply_ops (r_abs r) (txn_of (r_abs r) (SInsert tid rsids))) as [s'|] eqn:Ea; [|discriminate]. inversion E; subst; clear E.
    cbn [r_abs r_log r_next_id]. repeat split. rewrite Hid. symmetry. eapply apply_ops_next_tid; [exact Ea|apply txn_no_create; [reflexivity|discriminate]].
  - cbn [step] in E. destruct (apply_ops (r_abs r) (txn_of (r_abs r) (SDelete tid dvs))) as [s'|] eqn:Ea; [|discriminate]. inversion E; subst; clear E.
    cbn [r_abs r_log r_next_id]. repeat split. rewrite Hid. symmetry. eapply apply_ops_next_tid; [exact Ea|apply txn_no_create; [reflexivity|discriminate]].
  - cbn [step] in E. destruct (apply_ops (r_abs r) (txn_of (r_abs r) (SCompact tid chosen new))) as [s'|] eqn:Ea; [|discriminate]. inversion E; subst; clear E.
    cbn [r_abs r_log r_next_id]. repeat split. rewrite Hid. symmetry. eapply apply_ops_next_tid; [exact Ea|apply txn_no_create; [reflexivity|discriminate]].
Qed.

Lemma step_keeps_RInv r st r' : RInv r -> stmt_ok (r_abs r) st = true -> is_view st = false -> step r st = Some r' -> RInv r'.
Proof.
  intros ((Hro & Hdo & Hnr & Hnd & Hc) & Hid & ts & Hlog & Hap) Hok Hv E.
  destruct (step_as_apply r st r' Hid Hv E) as (Ea & El & Hid').
  destruct (step_keeps_refs _ _ _ Hro Hdo Hok Hv Ea) as [Hro' Hdo'].
  destruct (apply_ops_nodup_catok _ _ _ Ea Hnr Hnd Hc) as (Hnr' & Hnd' & Hc').
  split; [split; [exact Hro'|split; [exact Hdo'|split; [exact Hnr'|split; [exact Hnd'|exact Hc']]]]|]. split; [exact Hid'|].
  exists (ts ++ [txn_of (r_abs r) st]). rewrite El, Hlog, map_app, !concat_app. cbn [map concat]. rewrite !app_nil_r.
  split; [reflexivity|]. rewrite apply_ops_app, Hap. exact Ea.
Qed.

Lemma RInv_init : RInv r_init.
Proof.
  split; [repeat split; try constructor; try reflexivity; intros ? []|]. split; [reflexivity|]. exists []. split; reflexivity.
Qed.

(** ** boot *)
Lemma refs_ok_of_inv s : RowsetsOk s -> DvsOk s -> refs_ok s = true.
Proof.
  intros Hro Hdo. unfold refs_ok. apply andb_true_intro. split; apply forallb_forall.
  - intros x Hx. apply Hro, Hx.
  - intros d Hd. apply (Hro (fst (fst d), snd d)). apply Hdo, Hd.
Qed.
Lemma bootstrap_of_RInv r : RInv r -> bootstrap (r_log r) = Some (r_abs r).
Proof.
  intros ((Hro & Hdo & _) & _ & ts & Hlog & Hap). unfold bootstrap. rewrite Hlog, replay_frames, Hap, (refs_ok_of_inv _ Hro Hdo). reflexivity.
Qed.

Lemma filter_id {A} (f : A -> bool) : forall l, (forall y, In y l -> f y = true) -> filter f l = l.
Proof. induction l as [|x l IH]; intros H; cbn; [reflexivity|]. rewrite (H x (or_introl eq_refl)), IH; [reflexivity|]. intros y Hy. apply H. right; exact Hy. Qed.

(** the compacted manifest written at boot replays to the same state *)
Lemma readd_rowsets : forall R s, NoDup R -> (forall x, In x R -> ~ In x (m_rowsets s)) ->
  apply_ops s (map (fun x => MAddRS (fst x) (snd x)) R) =
  Some {| m_tables := m_tables s; m_next_tid := m_next_tid s; m_rowsets := m_rowsets s ++ R; m_dvs := m_dvs s; m_catlog := m_catlog s |}.
Proof.
  induction R as [|[t r] R IH]; intros s Hn Hf; cbn [map apply_ops apply_op fst snd].
  - rewrite app_nil_r. destruct s; reflexivity.
  - inversion Hn; subst. rewrite IH; cbn [m_tables m_next_tid m_rowsets m_dvs m_catlog].
    + assert (Ef : filter (fun x => negb (pair_eqb x (t, r))) (m_rowsets s) = m_rowsets s).
      { apply filter_id. intros y Hy. apply negb_true_iff. destruct (pair_eqb y (t, r)) eqn:Ey; [|reflexivity].
        apply pair_eqb_spec in Ey. subst. exfalso. apply (Hf (t, r)); [left; reflexivity|exact Hy]. }
      rewrite Ef, <- app_assoc. reflexivity.
    + assumption.
    + intros x Hx Hin. apply in_app_or in Hin as [Hin|Hin].
      * apply (In_remove pair_eqb pair_eqb_spec) in Hin as [Hin _]. apply (Hf x); [right; exact Hx|exact Hin].
      * destruct Hin as [<-|[]]. contradiction.
Qed.

Lemma readd_dvs : forall D s, NoDup D -> (forall x, In x D -> ~ In x (m_dvs s)) ->
  apply_ops s (map (fun d => MAddDV (fst (fst d)) (snd (fst d)) (snd d)) D) =
  Some {| m_tables := m_tables s; m_next_tid := m_next_tid s; m_rowsets := m_rowsets s; m_dvs := m_dvs s ++ D; m_catlog := m_catlog s |}.
Proof.
  induction D as [|[[t dv] r] D IH]; intros s Hn Hf; cbn [map apply_ops apply_op fst snd].
  - rewrite app_nil_r. destruct s; reflexivity.
  - inversion Hn; subst. rewrite IH; cbn [m_tables m_next_tid m_rowsets m_dvs m_catlog].
    + assert (Ef : filter (fun x => negb (trip_eqb x (t, dv, r))) (m_dvs s) = m_dvs s).
      { apply filter_id. intros y Hy. apply negb_true_iff. destruct (trip_eqb y (t, dv, r)) eqn:Ey; [|reflexivity].
        apply trip_eqb_spec in Ey. subst. exfalso. apply (Hf (t, dv, r)); [left; reflexivity|exact Hy]. }
      rewrite Ef, <- app_assoc. reflexivity.
    + assumption.
    + intros x Hx Hin. apply in_app_or in Hin as [Hin|Hin].
      * apply (In_remove trip_eqb trip_eqb_spec) in Hin as [Hin _]. apply (Hf x); [right; exact Hx|exact Hin].
      * destruct Hin as [<-|[]]. contradiction.
Qed.
Definition with_rd (s : mstate) R D : mstate :=
  {| m_tables := m_tables s; m_next_tid := m_next_tid s; m_rowsets := R; m_dvs := D; m_catlog := m_catlog s |}.
Lemma cat_ops_with_rd R D : forall ops s s', forallb is_cat ops = true -> apply_ops s ops = Some s' ->
  apply_ops (with_rd s R D) ops = Some (with_rd s' R D).
Proof.
  induction ops as [|o ops IH]; intros s s' Hc E; cbn [apply_ops] in *; [inversion E; reflexivity|].
  cbn in Hc. apply andb_prop in Hc as [Ho Hc]. destruct (apply_op s o) as [s1|] eqn:E1; [|discriminate].
  assert (E2 : apply_op (with_rd s R D) o = Some (with_rd s1 R D)).
  { destruct o; try discriminate; cbn [apply_op] in *.
    - change (has_name (with_rd s R D) name) with (has_name s name). destruct (has_name s name); inversion E1; subst; reflexivity.
    - change (has_table (with_rd s R D) tid) with (has_table s tid). destruct (has_table s tid); inversion E1; subst; reflexivity. }
  rewrite E2. apply IH; assumption.
Qed.
Definition rewrite_txn (s : mstate) : list mop :=
  map (fun x => MAddRS (fst x) (snd x)) (m_rowsets s) ++ map (fun d => MAddDV (fst (fst d)) (snd (fst d)) (snd d)) (m_dvs s) ++ m_catlog s.
Lemma rewrite_as_frames s : rewrite s = concat (map frame [rewrite_txn s]).
Proof. unfold rewrite, rewrite_txn. cbn. rewrite app_nil_r. reflexivity. Qed.
Lemma apply_rewrite_txn s : NoDup (m_rowsets s) -> NoDup (m_dvs s) -> CatOk s -> apply_ops m_init (rewrite_txn s) = Some s.
Proof.
  intros Hr Hd [Hca Hc]. unfold rewrite_txn. rewrite apply_ops_app.
  rewrite readd_rowsets; [|exact Hr|intros ? _ []]. cbv beta iota. rewrite apply_ops_app, readd_dvs; [|exact Hd|intros ? _ []]. cbv beta iota.
  cbn [m_tables m_next_tid m_rowsets m_dvs m_catlog m_init app].
  change {| m_tables := []; m_next_tid := 0; m_rowsets := m_rowsets s; m_dvs := m_dvs s; m_catlog := [] |} with (with_rd m_init (m_rowsets s) (m_dvs s)).
  rewrite (cat_ops_with_rd _ _ _ _ _ Hca Hc). destruct s; reflexivity.
Qed.
Theorem rewrite_replays_to_same_state s : NoDup (m_rowsets s) -> NoDup (m_dvs s) -> CatOk s ->
  apply_ops m_init (replay (rewrite s)) = Some s.
Proof.
  intros Hr Hd Hc. rewrite rewrite_as_frames, replay_frames. cbn [concat]. rewrite app_nil_r. apply apply_rewrite_txn; assumption.
Qed.

(** ** histories with restarts: any number of reopen cycles *)
Inductive event := EStmt (st : stmt) | EReopen.
Fixpoint run_ev (r : rstate) (h : list event) : option rstate :=
  match h with
  | [] => Some r
  | EStmt st :: h' => if stmt_ok (r_abs r) st then match step r st with Some r1 => run_ev r1 h' | None => None end else None
  | EReopen :: h' => match reopen r with Some r1 => run_ev r1 h' | None => None end
  end.
Definition no_views (h : list event) : bool := forallb (fun e => match e with EStmt st => negb (is_view st) | EReopen => true end) h.

Lemma reopen_of_RInv r : RInv r -> exists r1, reopen r = Some r1 /\ r_abs r1 = r_abs r /\ RInv r1.
Proof.
  intros H. pose proof (bootstrap_of_RInv r H) as Hb. destruct H as ((Hro & Hdo & Hnr & Hnd & Hc) & Hid & _).
  unfold reopen. rewrite Hb. eexists. split; [reflexivity|]. cbn [r_abs]. split; [reflexivity|].
  split; [split; [exact Hro|split; [exact Hdo|split; [exact Hnr|split; [exact Hnd|exact Hc]]]]|]. split; [reflexivity|]. cbn [r_log].
  exists [rewrite_txn (r_abs r)]. split; [apply rewrite_as_frames|]. cbn [concat]. rewrite app_nil_r. apply apply_rewrite_txn; assumption.
Qed.

Theorem histories_keep_RInv : forall h r r1, RInv r -> no_views h = true -> run_ev r h = Some r1 -> RInv r1.
Proof.
  induction h as [|e h IH]; intros r r1 Hi Hv E; cbn [run_ev] in E; [inversion E; subst; exact Hi|].
  cbn [no_views forallb] in Hv. apply andb_prop in Hv as [He Hv]. destruct e as [st|].
  - destruct (stmt_ok (r_abs r) st) eqn:Hok; [|discriminate]. destruct (step r st) as [r2|] eqn:Es; [|discriminate].
    apply (IH r2 r1); [|exact Hv|exact E]. apply (step_keeps_RInv r st r2 Hi Hok); [apply negb_true_iff, He|exact Es].
  - destruct (reopen_of_RInv r Hi) as (r2 & Er & _ & Hi2). rewrite Er in E. apply (IH r2 r1); assumption.
Qed.

(** C03: after any history of acknowledged statements and reopen cycles (without CREATE VIEW /
    INDEX, the known finding), one more reopen succeeds and rebuilds exactly the same tables,
    row-sets and delete vectors; and it can be repeated *)
Theorem reopen_preserves h r : no_views h = true -> run_ev r_init h = Some r ->
  exists r1, reopen r = Some r1 /\ r_abs r1 = r_abs r /\
  exists r2, reopen r1 = Some r2 /\ r_abs r2 = r_abs r.
Proof.
  intros Hv E. pose proof (histories_keep_RInv h r_init r RInv_init Hv E) as Hi.
  destruct (reopen_of_RInv r Hi) as (r1 & E1 & A1 & Hi1). exists r1. split; [exact E1|]. split; [exact A1|].
  destruct (reopen_of_RInv r1 Hi1) as (r2 & E2 & A2 & _). exists r2. split; [exact E2|]. congruence.
Qed.

(** ** C04: crashes *)
Lemma bootstrap_torn r t p : RInv r -> In p (torn_tails t) -> bootstrap (r_log r ++ p) = Some (r_abs r).
Proof.
  intros ((Hro & Hdo & _) & _ & ts & Hlog & Hap) Hp. unfold bootstrap.
  rewrite Hlog, (crash_in_append_is_invisible ts t p Hp), Hap, (refs_ok_of_inv _ Hro Hdo). reflexivity.
Qed.
Lemma complete_mono d fs f : complete d f = true -> complete (add_files d fs) f = true.
Proof. unfold complete, add_files. cbn [dk_files]. rewrite existsb_app. intros ->. reflexivity. Qed.
Lemma forallb_complete_mono d fs l : forallb (complete d) l = true -> forallb (complete (add_files d fs)) l = true.
Proof. rewrite !forallb_forall. intros H f Hf. apply complete_mono, H, Hf. Qed.

(** a crash at any point of a commit recovers to the state before the statement *)
Theorem crash_recovers_to_before r d t c : RInv r -> dk_log d = r_log r -> recover d = Some (r_abs r) ->
  In c (crash_states d t) -> recover c = Some (r_abs r).
Proof.
  intros Hi Hlog Hrec Hc. unfold recover in Hrec. rewrite Hlog, (bootstrap_of_RInv r Hi) in Hrec.
  destruct (forallb (complete d) (refs_of (r_abs r))) eqn:Hall; [|discriminate].
  unfold crash_states in Hc. apply in_app_or in Hc as [Hc|Hc].
  - apply in_flat_map in Hc as (k & _ & [<-|[<-|[]]]); unfold recover; cbn [dk_log add_files];
      rewrite Hlog, (bootstrap_of_RInv r Hi); rewrite (forallb_complete_mono d _ _ Hall); reflexivity.
  - apply in_map_iff in Hc as (p & <- & Hp). unfold recover. cbn [dk_log]. rewrite Hlog, (bootstrap_torn r t p Hi Hp).
    change {| dk_files := dk_files d ++ map (fun f => (f, true)) (files_of_txn t); dk_log := r_log r ++ p |}
      with {| dk_files := dk_files (add_files d (map (fun f => (f, true)) (files_of_txn t))); dk_log := r_log r ++ p |}.
    assert (H : forallb (complete {| dk_files := dk_files (add_files d (map (fun f => (f, true)) (files_of_txn t))); dk_log := r_log r ++ p |}) (refs_of (r_abs r)) = true).
    { pose proof (forallb_complete_mono d (map (fun f => (f, true)) (files_of_txn t)) _ Hall) as H. exact H. }
    rewrite H. reflexivity.
Qed.

(** what a transaction can add to the references *)
Lemma apply_ops_refs : forall ops s s', apply_ops s ops = Some s' ->
  (forall x, In x (m_rowsets s') -> In x (m_rowsets s) \/ In (MAddRS (fst x) (snd x)) ops) /\
  (forall d, In d (m_dvs s') -> In d (m_dvs s) \/ In (MAddDV (fst (fst d)) (snd (fst d)) (snd d)) ops).
Proof.
  induction ops as [|o ops IH]; intros s s' E; cbn [apply_ops] in E; [inversion E; subst; auto|].
  destruct (apply_op s o) as [s1|] eqn:E1; [|discriminate]. destruct (IH _ _ E) as [Hr Hd]. split.
  - intros x Hx. apply Hr in Hx as [Hx|Hx]; [|right; right; exact Hx]. destruct o; cbn [apply_op] in E1.
    + destruct (has_name s name); inversion E1; subst; auto.
    + destruct (has_table s tid); inversion E1; subst; auto.
    + inversion E1; subst. cbn [m_rowsets] in Hx. apply in_app_or in Hx as [Hx|[<-|[]]]; [apply filter_In in Hx as [Hx _]; auto|right; left; reflexivity].
    + inversion E1; subst. cbn [m_rowsets] in Hx. apply filter_In in Hx as [Hx _]; auto.
    + inversion E1; subst; auto. + inversion E1; subst; auto.
  - intros d Hd0. apply Hd in Hd0 as [Hd0|Hd0]; [|right; right; exact Hd0]. destruct o; cbn [apply_op] in E1.
    + destruct (has_name s name); inversion E1; subst; auto.
    + destruct (has_table s tid); inversion E1; subst; auto.
    + inversion E1; subst; auto. + inversion E1; subst; auto.
    + inversion E1; subst. cbn [m_dvs] in Hd0. apply in_app_or in Hd0 as [Hd0|[<-|[]]]; [apply filter_In in Hd0 as [Hd0 _]; auto|right; left; reflexivity].
    + inversion E1; subst. cbn [m_dvs] in Hd0. apply filter_In in Hd0 as [Hd0 _]; auto.
Qed.
Lemma fid_eqb_refl f : fid_eqb f f = true.
Proof. destruct f; cbn; rewrite ?Nat.eqb_refl; reflexivity. Qed.
Lemma complete_new d fs f : In f fs -> complete {| dk_files := dk_files d ++ map (fun f => (f, true)) fs; dk_log := dk_log d |} f = true.
Proof.
  intros H. unfold complete. cbn [dk_files]. rewrite existsb_app. apply orb_true_iff. right. apply existsb_exists.
  exists (f, true). split; [apply in_map_iff; exists f; split; [reflexivity|exact H]|cbn; rewrite fid_eqb_refl; reflexivity].
Qed.

(** ... and once the End record is on disk the statement is durable: recovery gives the state after it *)
Theorem committed_recovers_to_after r st r1 d : RInv r -> stmt_ok (r_abs r) st = true -> is_view st = false -> step r st = Some r1 ->
  dk_log d = r_log r -> recover d = Some (r_abs r) ->
  recover (committed_state d (txn_of (r_abs r) st)) = Some (r_abs r1).
Proof.
  intros Hi Hok Hv Es Hlog Hrec. pose proof (step_keeps_RInv r st r1 Hi Hok Hv Es) as Hi1.
  destruct (step_as_apply r st r1 (proj1 (proj2 Hi)) Hv Es) as (Ea & El & _).
  unfold recover in *. rewrite Hlog, (bootstrap_of_RInv r Hi) in Hrec.
  destruct (forallb (complete d) (refs_of (r_abs r))) eqn:Hall; [|discriminate].
  unfold committed_state. cbn [dk_log]. rewrite Hlog, <- El, (bootstrap_of_RInv r1 Hi1).
  set (t := txn_of (r_abs r) st) in *.
  assert (H : forallb (complete {| dk_files := dk_files d ++ map (fun f => (f, true)) (files_of_txn t); dk_log := r_log r1 |}) (refs_of (r_abs r1)) = true).
  { apply forallb_forall. intros f Hf. destruct (apply_ops_refs _ _ _ Ea) as [Hr Hd]. unfold refs_of in Hf. apply in_app_or in Hf as [Hf|Hf].
    - apply in_map_iff in Hf as (x & <- & Hx). apply Hr in Hx as [Hx|Hx].
      + rewrite forallb_forall in Hall. pose proof (Hall (FRs (fst x) (snd x))) as Hc.
        apply (complete_mono d (map (fun f => (f, true)) (files_of_txn t))) in Hc; [exact Hc|]. apply in_or_app. left. apply in_map_iff. exists x. auto.
      + apply (complete_new {| dk_files := dk_files d; dk_log := r_log r1 |}). unfold files_of_txn. apply in_flat_map. eexists. split; [exact Hx|left; reflexivity].
    - apply in_map_iff in Hf as (x & <- & Hx). apply Hd in Hx as [Hx|Hx].
      + rewrite forallb_forall in Hall. pose proof (Hall (FDv (fst (fst x)) (snd (fst x)) (snd x))) as Hc.
        apply (complete_mono d (map (fun f => (f, true)) (files_of_txn t))) in Hc; [exact Hc|]. apply in_or_app. right. apply in_map_iff. exists x. auto.
      + apply (complete_new {| dk_files := dk_files d; dk_log := r_log r1 |}). unfold files_of_txn. apply in_flat_map. eexists. split; [exact Hx|left; reflexivity]. }
  rewrite H. reflexivity.
Qed.

(** ids handed out after a recovery are larger than every live id: a new row-set or delete vector
    never collides with a live one (leftover unreferenced files are removed at boot) *)
Lemma next_rs_mono : forall ops m, m <= fold_left (fun m o => match o with MAddRS _ r => Nat.max m (S r) | _ => m end) ops m.
Proof. induction ops as [|o ops IH]; intros m; cbn [fold_left]; [lia|]. destruct o; try apply IH. etransitivity; [|apply IH]. lia. Qed.
Lemma next_rs_bound : forall ops m t r, In (MAddRS t r) ops -> r < fold_left (fun m o => match o with MAddRS _ r => Nat.max m (S r) | _ => m end) ops m.
Proof.
  induction ops as [|o ops IH]; intros m t r H; [destruct H|]. cbn [fold_left]. destruct H as [->|H]; [|eapply IH, H].
  pose proof (next_rs_mono ops (Nat.max m (S r))). lia.
Qed.
Theorem fresh_rowset_ids ops s : apply_ops m_init ops = Some s -> forall x, In x (m_rowsets s) -> snd x < next_rs ops.
Proof.
  intros E x Hx. destruct (apply_ops_refs _ _ _ E) as [Hr _]. apply Hr in Hx as [[]|Hx]. unfold next_rs. eapply next_rs_bound, Hx.
Qed.
Lemma next_dv_mono : forall ops m, m <= fold_left (fun m o => match o with MAddDV _ d _ => Nat.max m (S d) | _ => m end) ops m.
Proof. induction ops as [|o ops IH]; intros m; cbn [fold_left]; [lia|]. destruct o; try apply IH. etransitivity; [|apply IH]. lia. Qed.
Lemma next_dv_bound : forall ops m t d r, In (MAddDV t d r) ops -> d < fold_left (fun m o => match o with MAddDV _ d _ => Nat.max m (S d) | _ => m end) ops m.
Proof.
  induction ops as [|o ops IH]; intros m t d r H; [destruct H|]. cbn [fold_left]. destruct H as [->|H]; [|eapply IH, H].
  pose proof (next_dv_mono ops (Nat.max m (S d))). lia.
Qed.
Theorem fresh_dv_ids ops s : apply_ops m_init ops = Some s -> forall d, In d (m_dvs s) -> snd (fst d) < next_dv ops.
Proof.
  intros E d Hd. destruct (apply_ops_refs _ _ _ E) as [_ Hdv]. apply Hdv in Hd as [[]|Hd]. unfold next_dv. eapply next_dv_bound, Hd.
Qed.
