(** * The derived order on values is a total order consistent with equality (C19, used by C12). *)
From RL Require Import Model.Val Model.Exec.
From Coq Require Import Lia.
Open Scope Z_scope.

Lemma zlist_cmp_refl a : zlist_cmp a a = Eq.
Proof. induction a as [|x a IH]; cbn; [reflexivity|]. rewrite Z.compare_refl. exact IH. Qed.
Lemma zlist_cmp_antisym : forall a b, zlist_cmp b a = CompOpp (zlist_cmp a b).
Proof.
  induction a as [|x a IH]; intros [|y b]; cbn; try reflexivity.
  rewrite (Z.compare_antisym x y). destruct (x ?= y); cbn; [apply IH|reflexivity|reflexivity].
Qed.
Lemma zlist_cmp_eq : forall a b, zlist_cmp a b = Eq -> a = b.
Proof.
  induction a as [|x a IH]; intros [|y b]; cbn; try discriminate; [reflexivity|].
  destruct (x ?= y) eqn:E; try discriminate. apply Z.compare_eq in E. subst. intros H. f_equal. apply IH, H.
Qed.
Lemma Zcmp_trans x y z o : (x ?= y) = o -> (y ?= z) = o -> (x ?= z) = o.
Proof.
  destruct o; intros H1 H2.
  - apply Z.compare_eq in H1, H2. subst. apply Z.compare_refl.
  - exact (Z.lt_trans x y z H1 H2).
  - exact (Zgt_trans x y z H1 H2).
Qed.
Lemma zlist_cmp_trans : forall a b c o, zlist_cmp a b = o -> zlist_cmp b c = o -> zlist_cmp a c = o.
Proof.
  induction a as [|x a IH]; intros [|y b] [|z c] o; cbn; try congruence.
  destruct (x ?= y) eqn:E1.
  - apply Z.compare_eq in E1. subst y. destruct (x ?= z) eqn:E2; intros H1 H2; [eapply IH; eassumption|exact H2|exact H2].
  - intros <- H2. destruct (y ?= z) eqn:E2.
    + apply Z.compare_eq in E2. subst. rewrite E1. reflexivity.
    + rewrite (Zcmp_trans x y z Lt E1 E2). reflexivity.
    + discriminate.
  - intros <- H2. destruct (y ?= z) eqn:E2.
    + apply Z.compare_eq in E2. subst. rewrite E1. reflexivity.
    + discriminate.
    + rewrite (Zcmp_trans x y z Gt E1 E2). reflexivity.
Qed.

(** reflexive, antisymmetric, transitive, and [Eq] means equal *)
Theorem dv_cmp_refl v : dv_cmp v v = Eq.
Proof. destruct v as [|[]| | | |s]; cbn; try reflexivity; try apply Z.compare_refl. apply zlist_cmp_refl. Qed.
Theorem dv_cmp_antisym a b : dv_cmp b a = CompOpp (dv_cmp a b).
Proof.
  destruct a as [|[]|x|x|x|x], b as [|[]|y|y|y|y]; cbn; try reflexivity; try apply Z.compare_antisym.
  apply zlist_cmp_antisym.
Qed.
Theorem dv_cmp_eq a b : dv_cmp a b = Eq -> a = b.
Proof.
  destruct a as [|[]|x|x|x|x], b as [|[]|y|y|y|y]; cbn; intros H; try discriminate; try reflexivity;
    try (apply Z.compare_eq in H; subst; reflexivity).
  f_equal. apply zlist_cmp_eq, H.
Qed.
Theorem dv_cmp_trans a b c o : dv_cmp a b = o -> dv_cmp b c = o -> dv_cmp a c = o.
Proof.
  destruct a as [|[]|x|x|x|x], b as [|[]|y|y|y|y], c as [|[]|z|z|z|z]; cbn; intros H1 H2; subst;
    try reflexivity; try discriminate; try congruence;
    try (eapply Zcmp_trans; [reflexivity|eassumption]).
  eapply zlist_cmp_trans; [reflexivity|exact H2].
Qed.
Theorem dv_eqb_eq a b : dv_eqb a b = true <-> a = b.
Proof.
  unfold dv_eqb. split.
  - destruct (dv_cmp a b) eqn:E; try discriminate. intros _. apply dv_cmp_eq, E.
  - intros ->. rewrite dv_cmp_refl. reflexivity.
Qed.

(** rows: lexicographic *)
Theorem row_cmp_refl r : row_cmp r r = Eq.
Proof. induction r as [|x r IH]; cbn; [reflexivity|]. rewrite dv_cmp_refl. exact IH. Qed.
Theorem row_cmp_eq : forall a b, row_cmp a b = Eq -> a = b.
Proof.
  induction a as [|x a IH]; intros [|y b]; cbn; try discriminate; [reflexivity|].
  destruct (dv_cmp x y) eqn:E; try discriminate. apply dv_cmp_eq in E. subst. intros H. f_equal. apply IH, H.
Qed.
Theorem row_eqb_eq a b : row_eqb a b = true <-> a = b.
Proof.
  unfold row_eqb. split.
  - destruct (row_cmp a b) eqn:E; try discriminate. intros _. apply row_cmp_eq, E.
  - intros ->. rewrite row_cmp_refl. reflexivity.
Qed.

(** ** ORDER BY comparison with per-key direction *)
Lemma ord_cmp_antisym : forall ds a b, ord_cmp ds b a = CompOpp (ord_cmp ds a b).
Proof.
  induction ds as [|d ds IH]; intros a b; [destruct a, b; reflexivity|].
  destruct a as [|x a], b as [|y b]; cbn; try reflexivity.
  rewrite (dv_cmp_antisym x y). destruct (dv_cmp x y); cbn; [apply IH| |]; destruct d; reflexivity.
Qed.
Lemma ord_cmp_le_trans : forall ds a b c,
  length a = length ds -> length b = length ds -> length c = length ds ->
  ord_cmp ds a b <> Gt -> ord_cmp ds b c <> Gt -> ord_cmp ds a c <> Gt.
Proof.
  induction ds as [|d ds IH]; intros a b c La Lb Lc H1 H2; [destruct a, c; cbn; discriminate|].
  destruct a as [|x a], b as [|y b], c as [|z c]; cbn in La, Lb, Lc; try lia. cbn in *.
  destruct (dv_cmp x y) eqn:E1.
  - apply dv_cmp_eq in E1. subst y. destruct (dv_cmp x z) eqn:E2; [eapply IH; try eassumption; lia|exact H2|exact H2].
  - destruct (dv_cmp y z) eqn:E2.
    + apply dv_cmp_eq in E2. subst z. rewrite E1. exact H1.
    + rewrite (dv_cmp_trans x y z Lt E1 E2). exact H1.
    + destruct d; cbn in *; congruence.
  - destruct (dv_cmp y z) eqn:E2.
    + apply dv_cmp_eq in E2. subst z. rewrite E1. exact H1.
    + destruct d; cbn in *; congruence.
    + rewrite (dv_cmp_trans x y z Gt E1 E2). exact H1.
Qed.
