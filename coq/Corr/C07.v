(** * C07 correspondence: every observed step of the disk engine is a step of the model.
    The harness reads the physical state of the table after every statement / compactor pass /
    reopen through the hook Database::verif_layout (live row-sets with all stored rows, delete
    vectors with their row ids) and the logical content through SQL.  Rows are coded as small
    numbers by the harness (equal rows = equal codes); [keys] gives the primary key of a code. *)
From RL Require Import Model.Store.
From Coq Require Export List Arith Bool NArith.
Export ListNotations.

Definition ostate := (list (nat * list nat) * list (nat * list nat))%type.
(* row-sets (id, stored rows) by ascending id; delete vectors (row-set id, row ids) by ascending dv id *)

Inductive xop :=
| XInsert (parts : list (list nat))               (* the rows handed to each mem-table the statement filled (one per
                                                     new row-set), in statement order *)
| XDelete (matching : list nat) (reported : nat)  (* codes satisfying the predicate; the count DELETE reported *)
| XCompact (chosen : list nat) (written : list nat)  (* ids that disappeared; rows of the row-set that appeared *)
| XReopen
| XIdle                                           (* compactor / vacuum pass that changed nothing *)
| XSeq (a b : xop).                               (* e.g. the two compactor passes of a shutdown + reopen *)

Record step := mk_step { s_op : xop; s_next : nat; s_post : ostate; s_scan : list nat }.
Record case := mk_case { c_pk : bool; c_keys : list nat; c_steps : list step }.

Definition to_table (o : ostate) (n : nat) : disk_table :=
  {| d_rowsets := map (fun '(i, r) => {| rs_id := i; rs_rows := r |}) (fst o); d_dvs := snd o; d_next := n |}.
Fixpoint nodupb (l : list nat) : bool :=
  match l with [] => true | x :: r => negb (existsb (Nat.eqb x) r) && nodupb r end.
Definition inv_b (t : disk_table) : bool :=
  nodupb (map rs_id (d_rowsets t)) && ids_below (d_next t) t.
Fixpoint eq_ln (a b : list nat) : bool :=
  match a, b with [], [] => true | x :: a', y :: b' => Nat.eqb x y && eq_ln a' b' | _, _ => false end.
Fixpoint eq_lp (a b : list (nat * list nat)) : bool :=
  match a, b with
  | [], [] => true
  | (i, x) :: a', (j, y) :: b' => Nat.eqb i j && eq_ln x y && eq_lp a' b'
  | _, _ => false
  end.
Definition sortn (l : list nat) : list nat := sort_by_key (fun x => x) l.
(* the delete vectors of each row-set, in creation order (the order across row-sets of the DVs
   written by one DELETE comes from a hash map and carries no meaning) *)
Definition dvs_of (dvs : list (nat * list nat)) (id : nat) : list (list nat) :=
  map snd (filter (fun dv => Nat.eqb (fst dv) id) dvs).
Fixpoint eq_lln (a b : list (list nat)) : bool :=
  match a, b with [], [] => true | x :: a', y :: b' => eq_ln x y && eq_lln a' b' | _, _ => false end.
Definition eq_dvs (a b : list (nat * list nat)) : bool :=
  Nat.eqb (length a) (length b) && forallb (fun id => eq_lln (dvs_of a id) (dvs_of b id)) (map fst (a ++ b)).

Definition is_sorted_by (key : nat -> nat) (l : list nat) : bool := eq_ln (map key (sort_by_key key l)) (map key l).

(* [written] is the concatenation of the [inputs] taken in some order: the compactor of an unkeyed table
   concatenates the chosen row-sets in the order its selection produced them (a hash map's), which
   carries no meaning *)
Fixpoint is_prefix (a b : list nat) : bool :=
  match a, b with [] , _ => true | x :: a', y :: b' => Nat.eqb x y && is_prefix a' b' | _, [] => false end.
Fixpoint drop_nth {A} (k : nat) (l : list A) : list A :=
  match l, k with [], _ => [] | _ :: r, 0 => r | x :: r, S k' => x :: drop_nth k' r end.
Fixpoint concat_some_order (fuel : nat) (written : list nat) (inputs : list (list nat)) : bool :=
  match fuel with
  | 0 => false
  | S f =>
      match inputs with
      | [] => match written with [] => true | _ => false end
      | _ => existsb (fun k => let x := nth k inputs [] in
                               if is_prefix x written then concat_some_order f (skipn (length x) written) (drop_nth k inputs) else false)
                     (seq 0 (length inputs))
      end
  end.

(** one observed operation on the model; the boolean says whether what the operation reported /
    wrote is what the model says *)
Fixpoint run_op (pk : bool) (key : nat -> nat) (o : xop) (t : disk_table) : disk_table * bool :=
  match o with
  | XInsert parts => (fold_left (fun t0 rows => if pk then insert_pk key t0 rows else disk_insert t0 rows) parts t, true)
  | XDelete matching reported =>
      let '(t1, n) := disk_delete (fun r => existsb (Nat.eqb r) matching) t in (t1, Nat.eqb n reported)
  | XCompact chosen written =>
      let sel := fun id => existsb (Nat.eqb id) chosen in
      let input := map (rs_visible t) (filter (fun rs => sel (rs_id rs)) (d_rowsets t)) in
      (disk_compact sel (fun _ => written) t,
       (* the written rows are a rearrangement of the visible rows read; for a keyed table it is
          in key order, otherwise it is the concatenation of the row-sets read, in some order *)
       eq_ln (sortn written) (sortn (concat input)) &&
       (if pk then is_sorted_by key written else concat_some_order (S (length input)) written (filter (fun x => negb (Nat.eqb (length x) 0)) input)) &&
       (2 <=? length chosen))
  | XReopen => (disk_reopen (d_next t) t, true)
  | XIdle => (t, true)
  | XSeq a b => let '(t1, e1) := run_op pk key a t in let '(t2, e2) := run_op pk key b t1 in (t2, e1 && e2)
  end.

(** one observed step against the model; the failure codes say what differs *)
Definition check_step (pk : bool) (keys : list nat) (pre : ostate) (s : step) : list nat :=
  let key := fun r => nth r keys 0 in
  let t := to_table pre (s_next s) in
  let '(t', extra) := run_op pk key (s_op s) t in
  (if inv_b t then [] else [1]) ++
  (if eq_lp (map (fun rs => (rs_id rs, rs_rows rs)) (d_rowsets t')) (fst (s_post s)) then [] else [2]) ++
  (if eq_dvs (d_dvs t') (snd (s_post s)) then [] else [3]) ++
  (if extra then [] else [4]) ++
  (if eq_ln (sortn (disk_scan t')) (s_scan s) then [] else [5]).

(** the whole history: each step starts from the state observed after the previous one; a failure
    is reported as 10 * (step index) + code *)
Fixpoint check_steps (pk : bool) (keys : list nat) (pre : ostate) (i : nat) (ss : list step) : list nat :=
  match ss with
  | [] => []
  | s :: r => map (fun c => 10 * i + c) (check_step pk keys pre s) ++ check_steps pk keys (s_post s) (S i) r
  end.
Definition check_case (c : case) : list nat := check_steps (c_pk c) (c_keys c) ([], []) 0 (c_steps c).
