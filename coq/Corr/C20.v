(** * C20 correspondence: the bytes COPY TO writes for a table of text cells are the model's
    [write_file], and the table COPY FROM builds from a file is the model's [parse] + [cell_in]. *)
From RL Require Export Model.Csv.
From Coq Require Export List ZArith Bool NArith.
Export ListNotations.

Record case := mk_case {
  c_d : Z; c_q : Z;
  c_rows : list (list (option (list Z)));     (* the exported table (text columns) *)
  c_file : list Z;                            (* the bytes of the file COPY TO wrote *)
  c_back : list (list (option (list Z))) }.   (* the table COPY FROM built from that file, in file order *)
Fixpoint eq_lz (a b : list Z) : bool :=
  match a, b with [], [] => true | x :: a', y :: b' => Z.eqb x y && eq_lz a' b' | _, _ => false end.
Definition eq_cell (a b : option (list Z)) : bool :=
  match a, b with None, None => true | Some x, Some y => eq_lz x y | _, _ => false end.
Fixpoint eq_row (a b : list (option (list Z))) : bool :=
  match a, b with [], [] => true | x :: a', y :: b' => eq_cell x y && eq_row a' b' | _, _ => false end.
Fixpoint eq_rows (a b : list (list (option (list Z)))) : bool :=
  match a, b with [], [] => true | x :: a', y :: b' => eq_row x y && eq_rows a' b' | _, _ => false end.
Definition check_case (c : case) : list nat :=
  (if eq_lz (write_file (c_d c) (c_q c) (map (map cell_out) (c_rows c))) (c_file c) then [] else [1%nat]) ++
  (if eq_rows (map (map cell_in) (parse (c_d c) (c_q c) (c_file c))) (c_back c) then [] else [2%nat]).
