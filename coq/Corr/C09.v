(** * C09 correspondence: a schedule executed on the real engine (compactor held at its schedule
    points, client statements in between) replayed, per table, as the model's events: the model
    accepts the sequence, acknowledges exactly the DELETEs the engine acknowledged, and ends with
    the rows the engine returns — which are also the rows of the serial execution of the acknowledged
    statements in the order of the ghost log (C10). *)
From RL Require Export Model.Store Model.Conc Model.ConcSerial.
From Coq Require Export List Arith Bool NArith.
Export ListNotations.

Inductive xev :=
| XInsert (rows : list nat)
| XDelBegin (d : nat) (matching : list nat)
| XDelLock (d : nat)
| XDelCommit (d : nat)
| XCompLock | XCompPin (chosen : list nat) | XCompCommit | XCompUnlock.
Definition to_ev (x : xev) : ev :=
  match x with
  | XInsert r => EInsert r
  | XDelBegin d m => EDelBegin d (fun r => memb r m)
  | XDelLock d => EDelLock d
  | XDelCommit d => EDelCommit d
  | XCompLock => ECompLock
  | XCompPin c => ECompPin (fun id => memb id c)
  | XCompCommit => ECompCommit
  | XCompUnlock => ECompUnlock
  end.
Record case := mk_case { c_events : list xev; c_final : list nat (* sorted *); c_acked_obs : list nat (* sorted rows of the acknowledged deletes *) }.
Fixpoint eq_ln (a b : list nat) : bool :=
  match a, b with [], [] => true | x :: a', y :: b' => Nat.eqb x y && eq_ln a' b' | _, _ => false end.
Definition sortn (l : list nat) : list nat := sort_by_key (fun x => x) l.
Fixpoint dedup (l : list nat) : list nat :=
  match l with [] => [] | x :: r => if memb x r then dedup r else x :: dedup r end.
Definition check_case (c : case) : list nat :=
  match run c_init (map to_ev (c_events c)) with
  | None => [1%nat]                      (* the engine did something the protocol does not allow *)
  | Some s =>
      (if eq_ln (sortn (disk_scan (c_tbl s))) (c_final c) then [] else [2%nat]) ++
      (if eq_ln (sortn (dedup (c_acked s))) (c_acked_obs c) then [] else [3%nat]) ++
      (* C10: the serial execution of the acknowledged statements, in the order of the ghost log, gives the rows observed *)
      match grun g_init (map to_ev (c_events c)) with
      | Some g => if eq_ln (sortn (serial_run (g_log g))) (c_final c) then [] else [4%nat]
      | None => [4%nat]
      end
  end.
