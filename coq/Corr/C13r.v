(** * C13 correspondence for the range analysis: the condition the planner really pushed into a scan
    (third argument of the scan node of the optimised plan) must be one the model's analysis turns
    into an INT key range on the key column; [pushed_range_is_exact] then says that range is exact. *)
From RL Require Export Model.RangeAnalysis.
Record case := mk_case { c_key : nat; c_cond : rex }.
Definition check_case (c : case) : list nat :=
  match pushed (c_cond c) with
  | Some (k, _) => if Nat.eqb k (c_key c) then [] else [2%nat]
  | None => [1%nat]
  end.
