(** * C03 correspondence: the real manifest file, catalog and table layout after every statement,
    compactor pass and reopen against the model of Model/Manifest.v.
    The harness parses manifest.json into records (table names coded as numbers) and reads the
    catalog (pg_catalog.pg_tables) and the layout of every table (hook verif_layout). *)
From RL Require Export Model.Manifest.
From Coq Require Export List Arith Bool NArith.
Export ListNotations.

Inductive xev := XStmt (st : stmt) | XReopen.
Record obs := mk_obs {
  o_tables : list (nat * nat);            (* (id, name) of the user tables, by id *)
  o_rowsets : list (nat * nat);           (* live (table id, row-set id) *)
  o_dvs : list (nat * nat * nat);         (* live (table id, dv id, row-set id) *)
  o_log : list rec }.                     (* manifest.json as read from the directory *)
Record step := mk_step { s_evs : list xev; s_alt : list xev; s_obs : obs }.
(* e.g. [XReopen; compaction] in one observation; [s_alt] is the other possible order (a compactor pass runs both
   while the database shuts down and right after it is opened) *)
Record case := mk_case { c_steps : list step }.

Definition mop_eqb (a b : mop) : bool :=
  match a, b with
  | MCreate n, MCreate n' => Nat.eqb n n'
  | MDrop t, MDrop t' => Nat.eqb t t'
  | MAddRS t r, MAddRS t' r' | MDelRS t r, MDelRS t' r' => Nat.eqb t t' && Nat.eqb r r'
  | MAddDV t d r, MAddDV t' d' r' | MDelDV t d r, MDelDV t' d' r' => Nat.eqb t t' && Nat.eqb d d' && Nat.eqb r r'
  | _, _ => false
  end.
Definition rec_eqb (a b : rec) : bool :=
  match a, b with
  | RBegin, RBegin | REnd, REnd | RTorn, RTorn => true
  | ROp o, ROp o' => mop_eqb o o'
  | _, _ => false
  end.
Definition same_bag {A} (eqb : A -> A -> bool) (a b : list A) : bool :=
  Nat.eqb (length a) (length b) &&
  forallb (fun x => Nat.eqb (length (filter (eqb x) a)) (length (filter (eqb x) b))) a.
(** split a log into its transactions (the records between Begin and End) *)
Fixpoint frames_go (l : list rec) (cur : list mop) (acc : list (list mop)) : list (list mop) :=
  match l with
  | [] => acc
  | RBegin :: r => frames_go r [] acc
  | REnd :: r => frames_go r [] (acc ++ [cur])
  | ROp o :: r => frames_go r (cur ++ [o]) acc
  | RTorn :: _ => acc
  end.
Definition frames (l : list rec) : list (list mop) := frames_go l [] [].
Definition is_cat (o : mop) : bool := match o with MCreate _ | MDrop _ => true | _ => false end.
Fixpoint eq_lm (a b : list mop) : bool :=
  match a, b with [], [] => true | x :: a', y :: b' => mop_eqb x y && eq_lm a' b' | _, _ => false end.
(** two transactions are the same if their catalog operations are the same sequence and the other
    operations the same bag (their order comes from hash maps) *)
Definition same_txn (a b : list mop) : bool :=
  eq_lm (filter is_cat a) (filter is_cat b) && same_bag mop_eqb (filter (fun o => negb (is_cat o)) a) (filter (fun o => negb (is_cat o)) b).
Fixpoint same_frames (a b : list (list mop)) : bool :=
  match a, b with [], [] => true | x :: a', y :: b' => same_txn x y && same_frames a' b' | _, _ => false end.

Definition run_xev (r : rstate) (e : xev) : option rstate :=
  match e with
  | XStmt st => if stmt_ok (r_abs r) st then Manifest.step r st else None
  | XReopen => reopen r
  end.
Fixpoint run_xevs (r : rstate) (es : list xev) : option rstate :=
  match es with [] => Some r | e :: es' => match run_xev r e with Some r' => run_xevs r' es' | None => None end end.

Definition check_obs (i : nat) (r' : rstate) (o : obs) : list nat :=
  (if same_bag pair_eqb (m_tables (r_abs r')) (o_tables o) then [] else [10 * i + 2]) ++
  (if same_bag pair_eqb (m_rowsets (r_abs r')) (o_rowsets o) then [] else [10 * i + 3]) ++
  (if same_bag trip_eqb (m_dvs (r_abs r')) (o_dvs o) then [] else [10 * i + 4]) ++
  (if same_frames (frames (r_log r')) (frames (o_log o)) then [] else [10 * i + 5]) ++
  (match bootstrap (o_log o) with                      (* the REAL file boots, in the model, to the observed state *)
   | Some s' => if same_bag pair_eqb (m_tables s') (o_tables o) && same_bag pair_eqb (m_rowsets s') (o_rowsets o) then [] else [10 * i + 6]
   | None => [10 * i + 6]
   end).
Fixpoint check_steps (r : rstate) (i : nat) (ss : list step) : list nat :=
  match ss with
  | [] => []
  | s :: rest =>
      let try evs := match run_xevs r evs with Some r' => (Some r', check_obs i r' (s_obs s)) | None => (None, [10 * i + 1]) end in
      let '(r1, c1) := try (s_evs s) in
      let '(r2, c2) := match c1, s_alt s with
                       | [], _ | _, [] => (r1, c1)
                       | _, alt => match try alt with (Some r', []) => (Some r', []) | _ => (r1, c1) end
                       end in
      c2 ++ match r2 with Some r' => check_steps r' (S i) rest | None => [] end
  end.
(** the first open of an empty directory is a boot from the empty log *)
Definition check_case (c : case) : list nat :=
  match reopen r_init with Some r0 => check_steps r0 0 (c_steps c) | None => [0] end.
