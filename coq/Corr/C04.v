(** * C04 correspondence: the manifest of a crash image (the acknowledged log plus any byte prefix
    of the transaction in flight), parsed into records (an incomplete last record is [RTorn]),
    boots in the model to the state the real engine shows after recovering that image. *)
From RL Require Export Model.Manifest.
From RL Require Corr.C03.
From Coq Require Export List Arith Bool NArith.
Export ListNotations.

Record case := mk_case {
  c_log : list rec;                    (* manifest.json of the crash image *)
  c_tables : list (nat * nat);         (* observed after recovery *)
  c_rowsets : list (nat * nat);
  c_dvs : list (nat * nat * nat);
  c_relog : list rec }.                (* manifest.json after recovery: the compacted rewrite *)
(* the manifest after recovery is the compacted rewrite, possibly followed by the transaction of the
   compactor pass that runs right after the database is opened *)
Definition check_case (c : case) : list nat :=
  match bootstrap (c_log c) with
  | None => [1]
  | Some s =>
      let fs := C03.frames (c_relog c) in
      (if C03.same_frames (C03.frames (rewrite s)) (firstn 1 fs) then [] else [5]) ++
      match apply_ops s (concat (skipn 1 fs)) with
      | None => [6]
      | Some s1 =>
          (if C03.same_bag pair_eqb (m_tables s1) (c_tables c) then [] else [2]) ++
          (if C03.same_bag pair_eqb (m_rowsets s1) (c_rowsets c) then [] else [3]) ++
          (if C03.same_bag trip_eqb (m_dvs s1) (c_dvs c) then [] else [4])
      end
  end.
