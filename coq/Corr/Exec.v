(** Correspondence for the physical operators (shared by C02, C11, C12): the rows an operator of
    the implementation returned for given input chunks, compared with the model inside Coq —
    as a sequence where the implementation's order is determined, as a bag where it depends on
    hash-map iteration or on an unstable sort, on the sort keys for ORDER BY / top-N. *)
From RL Require Export Model.Exec.
Open Scope Z_scope.

Inductive op :=
| PNl (t : jty) (cond : sx)
| PHash (t : jty) (lk rk : list sx)
| PHashSemi2 (anti : bool) (lk rk : list sx) (cond : sx)
| PMerge (t : jty) (lk rk : list sx)
| PSimpleAgg (aggs : list agg)
| PHashAgg (ks : list sx) (aggs : list agg)
| PSortAgg (ks : list sx) (aggs : list agg)
| POrder (ks : okeys)
| PTopN (limit : option nat) (offset : nat) (ks : okeys)
| PLimit (limit : option nat) (offset : nat)
| PFilter (cond : sx)
| PProj (es : list sx).

Record case := mk_case {
  c_op : op;
  c_L : chunks; c_R : chunks;      (* input chunks (c_R unused by unary operators) *)
  c_nl : nat; c_nr : nat;           (* number of columns of the two inputs *)
  c_obs : option (list row)         (* flattened output, None = the statement failed *)
}.

Fixpoint rows_eqb (a b : list row) : bool :=
  match a, b with
  | [], [] => true
  | x :: a', y :: b' => row_eqb x y && rows_eqb a' b'
  | _, _ => false
  end.
Definition canon (rows : list row) : list row :=
  fold_right (fun r acc => (fix ins (l : list row) := match l with
                                                       | [] => [r]
                                                       | x :: l' => match row_cmp r x with Gt => x :: ins l' | _ => r :: l end
                                                       end) acc) [] rows.
Definition bag_eqb (a b : list row) : bool := rows_eqb (canon a) (canon b).
(** multiset inclusion of [a] in [b] *)
Fixpoint remove_one (r : row) (l : list row) : option (list row) :=
  match l with
  | [] => None
  | x :: l' => if row_eqb r x then Some l' else option_map (cons x) (remove_one r l')
  end.
Fixpoint sub_bag (a b : list row) : bool :=
  match a with
  | [] => true
  | r :: a' => match remove_one r b with Some b' => sub_bag a' b' | None => false end
  end.

Definition sorted_input (ks : list sx) (c : chunks) : chunks :=
  [sort_rows (map (fun k => (k, false)) ks) (concat c)].

Definition check_case (c : case) : list nat :=
  let L := c_L c in let R := c_R c in
  let ok (b : bool) := if b then [] else [1%nat] in
  match c_op c, c_obs c with
  | PNl t cond, obs =>
      match x_nljoin t cond (c_nr c) L R, obs with
      | Some m, Some o => ok (rows_eqb m o)
      | None, None => []
      | _, _ => [2%nat]
      end
  | _, None => [2%nat]
  | PHash t lk rk, Some o => ok (bag_eqb (x_hashjoin t (wide_keys lk) (wide_keys rk) (c_nl c) (c_nr c) L R) o)
  | PHashSemi2 anti lk rk cond, Some o => ok (rows_eqb (x_hashsemi2 anti (wide_keys lk) (wide_keys rk) cond L R) o)
  | PMerge t lk rk, Some o =>
      ok (bag_eqb (x_mergejoin t (wide_keys lk) (wide_keys rk) (c_nl c) (c_nr c) (sorted_input lk L) (sorted_input rk R)) o)
  | PSimpleAgg aggs, Some o => ok (rows_eqb (x_simpleagg aggs L) o)
  | PHashAgg ks aggs, Some o => ok (bag_eqb (x_hashagg ks aggs L) o)
  | PSortAgg ks aggs, Some o => ok (rows_eqb (x_sortagg ks aggs (sorted_input ks L)) o)
  | POrder ks, Some o =>
      ok (rows_eqb (map (key_row ks) (x_order ks L)) (map (key_row ks) o) && bag_eqb (concat L) o)
  | PTopN limit offset ks, Some o =>
      ok (rows_eqb (map (key_row ks) (x_topn limit offset ks L)) (map (key_row ks) o) && sub_bag o (concat L))
  | PLimit limit offset, Some o => ok (rows_eqb (concat (x_limit limit offset L)) o)
  | PFilter cond, Some o => ok (rows_eqb (concat (x_filter cond L)) o)
  | PProj es, Some o => ok (rows_eqb (concat (x_proj es L)) o)
  end.
