(** * C01 correspondence for the plan semantics: ground instances of the two sides of every modelled
    plan rule, built over small generated tables and executed by the real executors
    (executor::build on the hand-written plan), against [ppev] on the same pattern under the binding
    that stands for those tables and expressions. *)
From RL Require Export Model.PlanSem.
From Coq Require Export List ZArith Bool String.
Export ListNotations.
Open Scope string_scope.
Open Scope list_scope.

(** the expressions used in the instances *)
Inductive cx := CCol (c : nat) | CInt (z : Z) | CNull | CTrue | CFalse
              | CCmp (op : nat) (a b : cx)      (* 0 = , 1 <> , 2 < , 3 <= , 4 > , 5 >= *)
              | CAnd (a b : cx).
Definition cmpf (op : nat) (c : comparison) : bool :=
  match op, c with
  | 0%nat, Eq => true | 0%nat, _ => false
  | 1%nat, Eq => false | 1%nat, _ => true
  | 2%nat, Lt => true | 2%nat, _ => false
  | 3%nat, Gt => false | 3%nat, _ => true
  | 4%nat, Gt => true | 4%nat, _ => false
  | _, Lt => false | _, _ => true
  end.
Fixpoint cx_eval (e : cx) (r : arow) : dv :=
  match e with
  | CCol c => lookup c r
  | CInt z => DI32 z
  | CNull => DNull
  | CTrue => DBool true
  | CFalse => DBool false
  | CCmp op a b => cmp3 (cmpf op) (cx_eval a r) (cx_eval b r)
  | CAnd a b => and3f (cx_eval a) (cx_eval b) r
  end.
Fixpoint cx_sup (e : cx) : list nat :=
  match e with
  | CCol c => [c]
  | CCmp _ a b | CAnd a b => cx_sup a ++ cx_sup b
  | _ => []
  end.
Definition ex (e : cx) : sem := MExpr (cx_sup e) (cx_eval e).
Definition keys (l : list (cx * bool)) : sem := MKeys (map (fun k => (cx_sup (fst k), cx_eval (fst k), snd k)) l).
Definition rel (cols : list nat) (rows : list (list dv)) : sem := MRel cols (map (combine cols) rows).
Definition env_of (l : list (string * sem)) : string -> sem :=
  fun s => match find (fun p => String.eqb (fst p) s) l with Some p => snd p | None => MList [] end.

Fixpoint insert_row (r : row) (l : list row) : list row :=
  match l with [] => [r] | x :: l' => match row_cmp r x with Gt => x :: insert_row r l' | _ => r :: l end end.
Definition sort_rows' (l : list row) : list row := fold_right insert_row [] l.
Fixpoint eq_rows (a b : list row) : bool :=
  match a, b with [], [] => true | x :: a', y :: b' => row_eqb x y && eq_rows a' b' | _, _ => false end.

Record case := mk_case { k_env : list (string * sem); k_pat : Plan.sx; k_ordered : bool; k_obs : option (list row) }.
(** 1: the model builds the plan, the executor fails; 2: the executor runs a plan that has no meaning in the model;
    3: the rows differ (as sequences when the top operator fixes an order, as bags otherwise) *)
Definition check_case (c : case) : list nat :=
  match ppev (env_of (k_env c)) (k_pat c), k_obs c with
  | Some (MRel _ rows), Some o =>
      let m := map (map snd) rows in
      if (if k_ordered c then eq_rows m o else eq_rows (sort_rows' m) (sort_rows' o)) then [] else [3%nat]
  | Some _, Some _ => [3%nat]
  | Some _, None => [1%nat]
  | None, Some _ => [2%nat]
  | None, None => []
  end.
