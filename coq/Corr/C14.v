(** Correspondence for C14: the implementation's result array (validity AND raw content of every
    slot), error or panic, compared with [veval] inside Coq. *)
From RL Require Export Model.Expr.
Open Scope Z_scope.

Inductive observed := OOk (a : arr) | OErr | OPanic.
Record case := mk_case { cs_n : nat; cs_cols : list arr; cs_expr : expr; cs_obs : observed }.

Fixpoint zlist_eqb (a b : list Z) : bool :=
  match a, b with
  | [], [] => true
  | x :: a', y :: b' => (x =? y) && zlist_eqb a' b'
  | _, _ => false
  end.
Definition raw_eqb (a b : raw) : bool :=
  match a, b with
  | RB x, RB y => Bool.eqb x y
  | RI x, RI y => x =? y
  | RS x, RS y => zlist_eqb x y
  | RU, RU => true
  | _, _ => false
  end.
Definition slot_eqb (a b : slot) : bool := Bool.eqb (sv a) (sv b) && raw_eqb (sr a) (sr b).
Fixpoint slots_eqb (a b : list slot) : bool :=
  match a, b with
  | [], [] => true
  | x :: a', y :: b' => slot_eqb x y && slots_eqb a' b'
  | _, _ => false
  end.

Definition check_case (c : case) : list nat :=
  match veval (cs_expr c) (cs_n c) (cs_cols c), cs_obs c with
  | Ok a, OOk b => if ty_eqb (aty a) (aty b) && slots_eqb (asl a) (asl b) then [] else [1%nat]
  | Err, OErr => []
  | Panic, OPanic => []
  | _, _ => [2%nat]
  end.
