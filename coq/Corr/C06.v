(** Correspondence for C06: the implementation's column file, block index and read trace,
    compared with the model inside Coq. *)
From RL Require Export Model.Codec Model.ColIter.
Open Scope Z_scope.

Record case := mk_case {
  cs_codec : block_codec;
  cs_btype : Z;
  cs_crc : bool;
  cs_values : list (option cell);
  cs_index : list (nat * nat * nat * nat);   (* first_rowid, row_count, offset, length *)
  cs_data : list Z;
  cs_reads : list (nat * list req * list (resp (option cell)));
  cs_known : bool   (* the input lies in a known-finding class: the model is expected NOT to round-trip *)
}.

Definition olist_eqb := list_eqb ocell_eqb.
Definition resp_eqb (a b : resp (option cell)) : bool :=
  match a, b with
  | OBatch _ None c, OBatch _ None c' => Nat.eqb c c'
  | OBatch _ (Some (r, d)) c, OBatch _ (Some (r', d')) c' => Nat.eqb r r' && olist_eqb d d' && Nat.eqb c c'
  | OSkipped _ c, OSkipped _ c' => Nat.eqb c c'
  | OHint _ n f, OHint _ n' f' => Nat.eqb n n' && Bool.eqb f f'
  | _, _ => false
  end.

(** the index is a partition of the rows into non-empty blocks laid out back to back *)
Fixpoint index_ok (idx : list (nat * nat * nat * nat)) (row off : nat) : option (nat * nat) :=
  match idx with
  | [] => Some (row, off)
  | (fr, rc, o, l) :: r =>
      if Nat.eqb fr row && Nat.ltb 0 rc && Nat.eqb o off && Nat.leb 16 l
      then index_ok r (row + rc) (off + l) else None
  end.

Definition check_case (c : case) : list nat :=
  let sizes := map (fun '(_, rc, _, _) => rc) (cs_index c) in
  let blocks := split_at sizes (cs_values c) in
  let c1 := match index_ok (cs_index c) 0 0 with
            | Some (rows, bytes) => Nat.eqb rows (length (cs_values c)) && Nat.eqb bytes (length (cs_data c))
            | None => false
            end in
  let c2 := list_eqb Z.eqb (column_bytes (cs_codec c) (cs_btype c) (cs_crc c) blocks) (cs_data c) in
  (if c1 then [] else [1%nat]) ++
  (* the bytes are only decoded with the model's codec when they are the model's bytes *)
  (if c2 then
     let decoded := column_decode (cs_codec c) (cs_data c) (map (fun '(_, rc, o, l) => (o, l, rc)) (cs_index c)) in
     let c3 := cs_known c || list_eqb olist_eqb decoded blocks in
     let c4 := forallb (fun '(start, reqs, outs) => list_eqb resp_eqb (col_read _ decoded start reqs) outs)
                       (cs_reads c) in
     (if c3 then [] else [3%nat]) ++ (if c4 then [] else [4%nat])
   else [2%nat]).
