(** Correspondence for C19: the engine's compare / equality / hash-equality matrices over a list of
    values, and its printing of integers and booleans, compared with the model inside Coq. *)
From RL Require Export Model.ValX.
Open Scope Z_scope.

Record case := mk_case {
  c_vals : list xv;
  c_cmp : list (list Z);          (* -1 / 0 / 1 for every ordered pair *)
  c_eq : list (list bool);
  c_hasheq : list (list bool);    (* do the two SipHash values coincide? *)
  c_print : list (option string)  (* Some s for integer / boolean values, None otherwise *)
}.

Definition cmp_z (c : comparison) : Z := match c with Lt => -1 | Eq => 0 | Gt => 1 end.
Fixpoint zll_eqb (a b : list (list Z)) : bool :=
  match a, b with
  | [], [] => true
  | x :: a', y :: b' => (fix go (p q : list Z) := match p, q with
                                                   | [], [] => true
                                                   | u :: p', v :: q' => (u =? v) && go p' q'
                                                   | _, _ => false
                                                   end) x y && zll_eqb a' b'
  | _, _ => false
  end.
Fixpoint bll_eqb (a b : list (list bool)) : bool :=
  match a, b with
  | [], [] => true
  | x :: a', y :: b' => (fix go (p q : list bool) := match p, q with
                                                      | [], [] => true
                                                      | u :: p', v :: q' => Bool.eqb u v && go p' q'
                                                      | _, _ => false
                                                      end) x y && bll_eqb a' b'
  | _, _ => false
  end.
Definition print_of (v : xv) : option string :=
  match v with
  | XI16 z | XI32 z | XI64 z => Some (print_int z)
  | XBool b => Some (print_bool b)
  | _ => None
  end.
Definition ostr_eqb (a b : option string) : bool :=
  match a, b with
  | None, _ | _, None => true        (* not modelled: no claim *)
  | Some x, Some y => String.eqb x y
  end.

Definition check_case (c : case) : list nat :=
  let vs := c_vals c in
  (if zll_eqb (map (fun a => map (fun b => cmp_z (xcmp a b)) vs) vs) (c_cmp c) then [] else [1%nat]) ++
  (if bll_eqb (map (fun a => map (fun b => xeqb a b) vs) vs) (c_eq c) then [] else [2%nat]) ++
  (if bll_eqb (map (fun a => map (fun b => xeqb (xhash_key a) (xhash_key b) && Z.eqb (xtag a) (xtag b)) vs) vs) (c_hasheq c) then [] else [3%nat]) ++
  (if forallb (fun p => ostr_eqb (print_of (fst p)) (snd p)) (combine vs (c_print c)) then [] else [4%nat]).
