(** * C17 correspondence / per-run validation: every plan the real binder and optimiser produce is
    parsed into the model's terms; [build_ok] must agree with what executor::build does (runs or
    panics) and the optimised plan must have the bound plan's columns. *)
From RL Require Export Model.Plan.
From Coq Require Export List String Bool NArith.
Export ListNotations.

Record case := mk_case {
  c_bound : sx;          (* the plan the binder produced *)
  c_opt : sx;            (* the plan the optimiser returned *)
  c_built : bool }.      (* did executor::build (and the run) get through without "not found from input" / "Apply is not supported" *)
Definition check_case (c : case) : list nat :=
  (if Bool.eqb (build_ok (c_opt c)) (c_built c) then [] else [1%nat]) ++
  (if same_columns (schema (c_bound c)) (schema (c_opt c)) then [] else [2%nat]).
