(** Correspondence for C18: the implementation's verdict on corrupted column / index files compared
    with the model's (verify_block / get_block with its cache / parse_index), inside Coq. *)
From RL Require Export Model.Block.
Open Scope Z_scope.

Inductive mutation :=
| MFlip (bit : nat)
| MSet (pos : nat) (vals : list Z)
| MTrunc (len : nat).

Fixpoint set_at (bs : list Z) (pos : nat) (vals : list Z) : list Z :=
  match pos, bs with
  | O, _ => match vals, bs with
            | v :: vs, _ :: r => v :: set_at r O vs
            | _, _ => bs
            end
  | S p, b :: r => b :: set_at r p vals
  | S _, [] => []
  end.
Definition apply_mut (bs : list Z) (m : mutation) : list Z :=
  match m with
  | MFlip k => flip_bit bs k
  | MSet p vs => set_at bs p vs
  | MTrunc n => firstn n bs
  end.

Fixpoint list_eqb {A} (eqb : A -> A -> bool) (a b : list A) : bool :=
  match a, b with
  | [], [] => true
  | x :: a', y :: b' => eqb x y && list_eqb eqb a' b'
  | _, _ => false
  end.
Definition obs_eqb (a b : option (list Z)) : bool :=
  match a, b with
  | None, None => true
  | Some x, Some y => list_eqb Z.eqb x y
  | _, _ => false
  end.

Record case := mk_case {
  cs_col : list Z;
  cs_idx : list Z;
  cs_index : list (nat * nat);                       (* offset, length of every block *)
  (* (mutation on the index file?, mutation, open succeeded?, per block the two reads: None = error) *)
  cs_muts : list (bool * mutation * bool * list (list (option (list Z))))
}.

Definition body_of (r : rd (list Z)) : option (list Z) :=
  match r with ROk b => Some (firstn (length b - 16) b) | RErr => None end.

Definition check_mut (c : case) (m : bool * mutation * bool * list (list (option (list Z)))) : bool :=
  let '(on_idx, mu, opened, blocks) := m in
  if on_idx then
    let idx' := apply_mut (cs_idx c) mu in
    Bool.eqb (match parse_index idx' with Some _ => true | None => false end) opened
  else
    let col' := apply_mut (cs_col c) mu in
    opened &&
    list_eqb (list_eqb obs_eqb)
      (map (fun id => map body_of (get_blocks col' (cs_index c) [] [id; id])) (seq 0 (length (cs_index c))))
      blocks.

Definition check_case (c : case) : list nat :=
  (* 1: the unmodified index file parses into as many records as there are blocks *)
  (match parse_index (cs_idx c) with
   | Some fs => if Nat.eqb (length fs) (length (cs_index c)) then [] else [1%nat]
   | None => [1%nat]
   end) ++
  (* 2: every mutation is judged alike by model and implementation *)
  (if forallb (check_mut c) (cs_muts c) then [] else [2%nat]).
