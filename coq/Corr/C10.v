(** * C10 certificate checking: the total order found for an observed concurrent execution is
    validated against the serial specification inside Coq. *)
From RL Require Export Model.Serial.
From RL Require Import Model.Store.
From Coq Require Export List Arith Bool NArith.
Export ListNotations.

Record case := mk_case {
  c_sessions : list (list stmt);
  c_order : list nat;
  c_observed : list (list res);
  c_final : list (nat * list nat) }.
Definition check_case (c : case) : list nat :=
  if explains (sort_by_key (fun x => x)) (c_sessions c) (c_order c) (c_observed c) (c_final c) then [] else [1%nat].
