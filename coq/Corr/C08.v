(** * C08 correspondence: the version manager's bookkeeping observed after every step (hook
    verif_version_state) is the model's step applied to the bookkeeping observed before it. *)
From RL Require Export Model.Version.
From Coq Require Export List Arith Bool NArith.
Export ListNotations.

Record obs := mk_obs {
  o_epoch : nat;
  o_status : list (nat * list nat);      (* snapshots of the epochs that matter: the current one and the pinned ones *)
  o_refcnt : list (nat * nat);           (* pinned epochs *)
  o_pending : list (nat * list nat);
  o_pool : list nat;
  o_next : nat }.                        (* model ids are handed out in creation order *)
Fixpoint assoc {A} (d : A) (l : list (nat * A)) (k : nat) : A :=
  match l with [] => d | (k', v) :: r => if Nat.eqb k k' then v else assoc d r k end.
Definition to_st (o : obs) : st :=
  {| epoch := o_epoch o; status := assoc [] (o_status o); refcnt := assoc 0 (o_refcnt o);
     pending := o_pending o; pool := o_pool o; nextid := o_next o |}.

Fixpoint eq_ln (a b : list nat) : bool :=
  match a, b with [], [] => true | x :: a', y :: b' => Nat.eqb x y && eq_ln a' b' | _, _ => false end.
Definition sub_ln (a b : list nat) : bool := forallb (fun x => existsb (Nat.eqb x) b) a.
Definition same_set (a b : list nat) : bool := sub_ln a b && sub_ln b a.
Definition same_pending (a b : list (nat * list nat)) : bool :=
  (* entries with an empty deletion list carry no information *)
  let ne l := filter (fun p => match snd p with [] => false | _ => true end) l in
  Nat.eqb (length (ne a)) (length (ne b)) &&
  forallb (fun p => existsb (fun q => Nat.eqb (fst p) (fst q) && same_set (snd p) (snd q)) (ne b)) (ne a).
(** does the model state agree with an observation (on everything the observation lists) *)
Definition agrees (s : st) (o : obs) : bool :=
  Nat.eqb (epoch s) (o_epoch o) &&
  forallb (fun p => same_set (status s (fst p)) (snd p)) (o_status o) &&
  forallb (fun p => Nat.eqb (refcnt s (fst p)) (snd p)) (o_refcnt o) &&
  same_pending (pending s) (o_pending o) && same_set (pool s) (o_pool o).
(** the invariant, on an observation: every row-set of the current and of every pinned snapshot is in the pool *)
Definition inv_obs (o : obs) : bool :=
  sub_ln (assoc [] (o_status o) (o_epoch o)) (o_pool o) &&
  forallb (fun p => if Nat.ltb 0 (snd p) then sub_ln (assoc [] (o_status o) (fst p)) (o_pool o) else true) (o_refcnt o).

Record case := mk_case { c_pre : obs; c_alts : list (list op); c_post : obs }.
Definition check_case (c : case) : list nat :=
  (if existsb (fun ops => agrees (run (to_st (c_pre c)) ops) (c_post c)) (c_alts c) then [] else [1%nat]) ++
  (if inv_obs (c_post c) then [] else [2%nat]).
