(** * C16 correspondence: the typing tables against analyze_type and the kernels, exhaustively, and
    the insert conversion on the integer family *)
From RL Require Export Model.Types.
From Coq Require Export List ZArith Bool NArith.
Export ListNotations.

Inductive case :=
| CBin (o : bop) (a b : dty) (static : option dty) (ran : bool) (runtime : option dty)
    (* [static]: what the binder derived (None: rejected); [ran]: was it executed; [runtime]: variant returned (None: kernel error) *)
| CIns (t : dty) (nullable : bool) (v : val) (ok : bool) (stored : val).
Definition odty_eqb (a b : option dty) : bool :=
  match a, b with Some x, Some y => dty_eqb x y | None, None => true | _, _ => false end.
Definition val_eqb (a b : val) : bool :=
  match a, b with
  | VNull, VNull => true
  | VInt t z, VInt t' z' => dty_eqb t t' && Z.eqb z z'
  | VStr s, VStr s' => if list_eq_dec Z.eq_dec s s' then true else false
  | VBool x, VBool y => Bool.eqb x y
  | _, _ => false
  end.
Definition check_case (c : case) : list nat :=
  match c with
  | CBin o a b st ran rt =>
      (if odty_eqb (static_bin o a b) st then [] else [1%nat]) ++
      (if ran then (if odty_eqb (runtime_bin o a b) rt then [] else [2%nat]) else [])
  | CIns t n v ok stored =>
      match insert_cast t n v with
      | IOk w => if ok && val_eqb w stored then [] else [3%nat]
      | IErr => if ok then [4%nat] else []
      end
  end.
