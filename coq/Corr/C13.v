(** Correspondence for C13: start row id and visible row ids of a key-range scan of one row-set. *)
From RL Require Export Model.RangeScan.
Open Scope Z_scope.

Record case := mk_case {
  c_blocks : list (nat * Z);        (* (first_rowid, first_key) of the blocks of table column 0 *)
  c_keys : list Z;                  (* values of SCANNED column 0, in row order *)
  c_deleted : list nat;             (* row ids in some delete vector *)
  c_range : option krange;
  c_sizes : list nat;               (* the batch sizes the implementation used *)
  c_start : nat;                    (* observed start row id *)
  c_rows : list nat                 (* observed visible row ids *)
}.
Fixpoint nat_list_eqb (a b : list nat) : bool :=
  match a, b with
  | [], [] => true
  | x :: a', y :: b' => Nat.eqb x y && nat_list_eqb a' b'
  | _, _ => false
  end.
Definition check_case (c : case) : list nat :=
  let deleted i := existsb (Nat.eqb i) (c_deleted c) in
  (if Nat.eqb (start_rowid (c_blocks c) (c_range c)) (c_start c) then [] else [1%nat]) ++
  (if nat_list_eqb (scan_rowset (c_blocks c) (c_range c) (c_keys c) deleted (c_sizes c)) (c_rows c) then [] else [2%nat]).
