(** * C15 correspondence: the operator tree of the executed plan (from the plan text and the spawn
    order reported by the fault hook, with the item counts of an undisturbed run) and an armed
    fault: the model's outcome and "was the fault reached" against the real statement. *)
From RL Require Export Model.Pipe.
From Coq Require Export List Arith Bool NArith.
Export ListNotations.

Record case := mk_case { c_plan : plan; c_fault : fault; c_hit : bool; c_failed : bool }.
Definition check_case (c : case) : list nat :=
  (if Bool.eqb (hit_at (Some (c_fault c)) (c_plan c) 0) (c_hit c) then [] else [1%nat]) ++
  (if Bool.eqb (match run true (Some (c_fault c)) (c_plan c) with OErr => true | OOk => false end) (c_failed c) then [] else [2%nat]).
