(** * C05 correspondence: the memory engine is the model's [mem_step] machine (exact row order:
    insertion order minus the deleted rows), the disk engine returns the same bag. *)
From RL Require Import Model.Store.
From Coq Require Export List Arith Bool NArith.
Export ListNotations.

Inductive xop := XInsert (rows : list nat) | XDelete (matching : list nat).
(* after each statement: SELECT * on the memory engine (as returned), on the disk engine (sorted),
   and the count each engine reported for a DELETE (0 for an insert) *)
Record step := mk_step { s_op : xop; s_mem : list nat; s_disk : list nat; s_cnt_mem : nat; s_cnt_disk : nat }.
Record case := mk_case { c_steps : list step }.

Fixpoint eq_ln (a b : list nat) : bool :=
  match a, b with [], [] => true | x :: a', y :: b' => Nat.eqb x y && eq_ln a' b' | _, _ => false end.
Definition sortn (l : list nat) : list nat := sort_by_key (fun x => x) l.

Fixpoint check_steps (t : mem_table) (i : nat) (ss : list step) : list nat :=
  match ss with
  | [] => []
  | s :: r =>
      let '(t', cnt) := match s_op s with
                        | XInsert rows => (mem_insert t rows, 0)
                        | XDelete m => mem_delete (fun x => existsb (Nat.eqb x) m) t
                        end in
      (if eq_ln (mem_scan t') (s_mem s) then [] else [10 * i + 1]) ++
      (if eq_ln (sortn (mem_scan t')) (s_disk s) then [] else [10 * i + 2]) ++
      (if Nat.eqb cnt (s_cnt_mem s) && Nat.eqb cnt (s_cnt_disk s) then [] else [10 * i + 3]) ++
      check_steps t' (S i) r
  end.
Definition check_case (c : case) : list nat := check_steps empty_table 0 (c_steps c).
