(** * C17 — every accepted query is planned into an executable plan.
    Only statements, each closed by [exact], with its assumptions printed.
    (The per-run part of this property — every plan the real optimiser returns is checked by
    [build_ok] and [same_columns] inside Coq — is translation validation, see DESIGN.md.) *)
From RL Require Import Model.Plan Proofs.PlanP.
Local Open Scope list_scope.

(** plan rewrites of the optimiser keep a buildable plan buildable and keep its output schema *)
Theorem pushdown_filter_join_left : forall t on l r c,
  build_ok (filter_ c (join_ t on l r)) = true -> resolvable (schema l) c = true ->
  build_ok (push_filter_left t on l r c) = true /\ schema (push_filter_left t on l r c) = schema (filter_ c (join_ t on l r)).
Proof. exact push_filter_left_ok. Qed.
Theorem pushdown_filter_join_right : forall t on l r c,
  build_ok (filter_ c (join_ t on l r)) = true -> resolvable (schema r) c = true ->
  build_ok (push_filter_right t on l r c) = true /\ schema (push_filter_right t on l r c) = schema (filter_ c (join_ t on l r)).
Proof. exact push_filter_right_ok. Qed.
Theorem filter_merge_keeps_buildable : forall a b p,
  build_ok (filter_ a (filter_ b p)) = true ->
  build_ok (filter_merge a b p) = true /\ schema (filter_merge a b p) = schema (filter_ a (filter_ b p)).
Proof. exact filter_merge_ok. Qed.
Theorem equi_join_to_hash_join : forall t lk rk l r,
  build_ok l = true -> build_ok r = true -> four_types t = true ->
  resolvable (schema l) lk = true -> resolvable (schema r) rk = true ->
  build_ok (to_hashjoin t lk rk l r) = true /\ schema (to_hashjoin t lk rk l r) = schema (join_ t (N "=" [lk; rk]) l r).
Proof. exact to_hashjoin_ok. Qed.
Theorem limit_order_to_topn : forall n o keys p,
  build_ok (N "limit" [n; o; N "order" [keys; p]]) = true ->
  build_ok (to_topn n o keys p) = true /\ schema (to_topn n o keys p) = schema (N "limit" [n; o; N "order" [keys; p]]).
Proof. exact to_topn_ok. Qed.

(** what the executor cannot build *)
Theorem residual_apply_is_not_buildable : forall t l r, build_ok (N "apply" [t; l; r]) = false.
Proof. exact apply_is_not_buildable. Qed.
Theorem dangling_column_is_not_resolved : forall c sch, is_column c = true -> mem (A c) sch = false -> resolvable sch (A c) = false.
Proof. exact dangling_column_is_not_resolvable. Qed.

(** non-vacuity / known finding KF_C17_subquery_not_executable: a real plan of the optimiser for
    `select a from t where a < 26 and a in (select k from u)` on the disk engine with u empty *)
Example unexecutable_plan_refuted :
  build_ok (N "filter" [N "and" [N ">" [A "26"; A "$1.0"]; N "exists" [N "filter" [N "=" [A "$1.0"; A "$2.0"]; N "scan" [A "$2"; N "list" [A "$2.0"]; A "true"]]]];
                        N "scan" [A "$1"; N "list" [A "$1.0"]; A "true"]]) = false /\
  build_ok (N "hashjoin" [A "semi"; A "true"; N "list" [A "$1.0"]; N "list" [A "$2.0"];
                          N "scan" [A "$1"; N "list" [A "$1.0"]; N ">" [A "26"; A "$1.0"]]; N "scan" [A "$2"; N "list" [A "$2.0"]; A "true"]]) = true.
Proof. split; vm_compute; reflexivity. Qed.

Print Assumptions pushdown_filter_join_left.
Print Assumptions pushdown_filter_join_right.
Print Assumptions filter_merge_keeps_buildable.
Print Assumptions equi_join_to_hash_join.
Print Assumptions limit_order_to_topn.
Print Assumptions residual_apply_is_not_buildable.
Print Assumptions dangling_column_is_not_resolved.
