(** * C16 — declared types and constraints hold for every stored and returned value.
    Only statements, each closed by [exact], with its assumptions printed. *)
From RL Require Import Model.Types Proofs.TypesP.

(** for every binary operator and every pair of operand types: whenever the kernel returns an array,
    its variant is exactly the type the analysis derived (all 10 x 13 x 13 combinations) *)
Theorem returned_column_has_the_static_type : forall o a b t r,
  static_bin o a b = Some t -> runtime_bin o a b = Some r -> r = t.
Proof. exact types_agree. Qed.
Theorem no_kernel_runs_on_rejected_operands : forall o a b r, runtime_bin o a b = Some r -> static_bin o a b <> None.
Proof. exact runtime_implies_static. Qed.

(** INSERT stores a value of the declared type, equal to the inserted one, or fails; a NOT NULL
    column never comes to hold NULL; an integer outside the column's range is refused *)
Theorem insert_stores_the_declared_type : forall t n v w, insert_cast t n v = IOk w -> (w = VNull /\ n = true) \/ tyof w = t.
Proof. exact insert_typed. Qed.
Theorem insert_is_lossless : forall t n v w, insert_cast t n v = IOk w ->
  match v with VNull => w = VNull | VInt _ z => num w = Some z | _ => w = v end.
Proof. exact insert_lossless. Qed.
Theorem not_null_is_respected : forall t v w, insert_cast t false v = IOk w -> w <> VNull.
Proof. exact not_null_respected. Qed.
Theorem out_of_range_integers_are_refused : forall t n t0 z w, insert_cast t n (VInt t0 z) = IOk w ->
  exists wd, bits t = Some wd /\ (- 2 ^ (wd - 1) <= z < 2 ^ (wd - 1))%Z.
Proof. exact insert_in_range. Qed.

(** non-vacuity: both tables are defined on many pairs; 4294967297 does not fit a SMALLINT *)
Example hypotheses_hold :
  static_bin BMul DF64 DDec = Some DDec /\ runtime_bin BMul DF64 DDec = Some DDec /\
  insert_cast DI16 true (VInt DI64 4294967297) = IErr /\ insert_cast DI16 true (VInt DI64 (-32768)) = IOk (VInt DI16 (-32768)).
Proof. repeat split. Qed.

Print Assumptions returned_column_has_the_static_type.
Print Assumptions no_kernel_runs_on_rejected_operands.
Print Assumptions insert_stores_the_declared_type.
Print Assumptions insert_is_lossless.
Print Assumptions not_null_is_respected.
Print Assumptions out_of_range_integers_are_refused.
