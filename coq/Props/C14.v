(** * C14 — vectorised expression evaluation equals scalar SQL semantics.
    Only statements, each closed by [exact], with its assumptions printed. *)
From RL Require Import Model.Arr Model.Expr Proofs.ArrP Proofs.ArrRowP.
Open Scope Z_scope.

(** three-valued logic, slot by slot, for ARBITRARY raw bits under NULL slots *)
Theorem and_kernel_3vl : forall a b, lb (and_slot a b) = and3 (lb a) (lb b).
Proof. exact and_3vl. Qed.
Theorem or_kernel_3vl : forall a b, lb (or_slot a b) = or3 (lb a) (lb b).
Proof. exact or_3vl. Qed.
Theorem not_kernel_3vl : forall a, lb (not_slot a) = not3 (lb a).
Proof. exact not_3vl. Qed.
Theorem comparison_kernel_3vl : forall t op a b s,
  bin_slot (fun x y => Some (cmp_raw t op x y)) a b = Some s ->
  lr (clear_null s) = match lr a, lr b with Some x, Some y => Some (cmp_raw t op x y) | _, _ => None end.
Proof. exact cmp_3vl. Qed.
Theorem arithmetic_kernel_3vl : forall op bits a b s,
  bin_slot (fun x y => arith_raw op bits (rz x) (rz y)) a b = Some s ->
  lr s = match lz a, lz b with Some x, Some y => arith_raw op bits x y | _, _ => None end.
Proof. exact arith_3vl. Qed.
Theorem division_by_zero_is_null : forall b, lz (safen b) = match lz b with Some 0 => None | o => o end.
Proof. exact safen_valid. Qed.
Theorem divisor_never_zero_after_safen : forall b, rz (sr (safen b)) <> 0.
Proof. exact safen_nonzero. Qed.
Theorem case_kernel_3vl : forall c a b,
  lr (select_slot c a b) = if match lb c with Some true => true | _ => false end then lr a else lr b.
Proof. exact select_3vl. Qed.

(** whole expressions: the logical result does not depend on the raw content under NULL slots *)
Theorem veval_raw_independent : forall e n cols cols' r r', cols_eq cols cols' ->
  veval e n cols = Ok r -> veval e n cols' = Ok r' -> arr_eq r r'.
Proof. exact veval_respects. Qed.
Theorem equal_arrays_look_equal : forall a a', arr_eq a a' -> logical a = logical a'.
Proof. exact logical_of_eq. Qed.

(** row by row: row [i] of the batch result is what the same evaluator gives on the one-row batch made
    of row [i] alone (also how the planner folds constants: one-element arrays through the same
    kernels); hence a row's value depends neither on the batch length nor on its neighbours, and the
    result has one slot per row of the batch *)
Theorem batch_result_is_rowwise : forall e n cols r i, (i < n)%nat ->
  veval e n cols = Ok r -> veval e 1 (map (row_of i) cols) = Ok (row_of i r).
Proof. exact veval_row. Qed.
Theorem row_value_depends_on_that_row_alone : forall e n n' cols cols' r r' i i', (i < n)%nat -> (i' < n')%nat ->
  map (row_of i) cols = map (row_of i') cols' ->
  veval e n cols = Ok r -> veval e n' cols' = Ok r' -> row_of i r = row_of i' r'.
Proof. exact veval_row_alone. Qed.
Theorem result_has_the_batch_length : forall e n cols r,
  Forall (fun a => alen a = n) cols -> veval e n cols = Ok r -> alen r = n.
Proof. exact veval_length. Qed.

(** known finding KF_C14_overflow_under_null: whether the kernel PANICS does depend on raw bits *)
Theorem overflow_under_null_refuted :
  let a := mk_arr TI32 [mk_slot true (RI 3)] in
  let b := mk_arr TI32 [mk_slot false (RI 2147483647)] in
  let b' := mk_arr TI32 [mk_slot false (RI 0)] in
  arr_eq b b' /\ k_arith AAdd a b = Panic /\ k_arith AAdd a b' = Ok (mk_arr TI32 [mk_slot false (RI 3)]).
Proof. cbv zeta. split; [split; [reflexivity|repeat constructor; cbn; discriminate]|split; reflexivity]. Qed.

Print Assumptions and_kernel_3vl.
Print Assumptions or_kernel_3vl.
Print Assumptions not_kernel_3vl.
Print Assumptions comparison_kernel_3vl.
Print Assumptions arithmetic_kernel_3vl.
Print Assumptions division_by_zero_is_null.
Print Assumptions divisor_never_zero_after_safen.
Print Assumptions case_kernel_3vl.
Print Assumptions veval_raw_independent.
Print Assumptions equal_arrays_look_equal.
Print Assumptions batch_result_is_rowwise.
Print Assumptions row_value_depends_on_that_row_alone.
Print Assumptions result_has_the_batch_length.
Print Assumptions overflow_under_null_refuted.
