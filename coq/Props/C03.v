(** * C03 — acknowledged changes survive a clean shutdown and reopen.
    Only statements, each closed by [exact], with its assumptions printed. *)
From RL Require Import Model.Manifest Proofs.ManifestP.

(** after ANY history of acknowledged statements (CREATE / DROP TABLE, INSERT into any number of
    new row-sets, DELETE writing delete vectors, compactions) interleaved with reopen cycles —
    without CREATE VIEW / INDEX, the known finding below — a reopen succeeds and rebuilds exactly
    the same state: the same tables with the same ids and names, the same live row-sets and delete
    vectors (whose immutable files determine every table's rows, Model/Store.v), the same catalog
    counter; and reopening once more gives the same state again *)
Theorem reopen_rebuilds_the_same_state : forall h r, no_views h = true -> run_ev r_init h = Some r ->
  exists r1, reopen r = Some r1 /\ r_abs r1 = r_abs r /\
  exists r2, reopen r1 = Some r2 /\ r_abs r2 = r_abs r.
Proof. exact reopen_preserves. Qed.

(** the invariant behind it: the log is a sequence of complete transactions that replays to the
    running state, every live row-set belongs to a live table, every live delete vector to a live
    row-set, and the reopened engine continues from a state with the same invariant (so it accepts
    the same further statements) *)
Theorem histories_keep_the_invariant : forall h r r1, RInv r -> no_views h = true -> run_ev r h = Some r1 -> RInv r1.
Proof. exact histories_keep_RInv. Qed.

(** the log of acknowledged transactions replays to exactly their operations *)
Theorem replay_returns_the_acknowledged_operations : forall ts, replay (concat (map frame ts)) = concat ts.
Proof. exact replay_frames. Qed.

(** the compacted manifest written at boot replays to the state it was written from *)
Theorem compacted_manifest_is_equivalent : forall s, NoDup (m_rowsets s) -> NoDup (m_dvs s) -> CatOk s ->
  apply_ops m_init (replay (rewrite s)) = Some s.
Proof. exact rewrite_replays_to_same_state. Qed.

(** known finding KF_C03_view_shifts_table_ids: the running catalog numbers tables, views and
    indexes from one counter but only tables are logged: a view created between two tables makes
    the replay give the second table another id, and the row-set logged for it refers to a table
    that does not exist: the reopen fails *)
Theorem view_between_tables_refuted :
  exists r, run_ev r_init [EStmt (SCreate 1); EStmt SCreateView; EStmt (SCreate 2); EStmt (SInsert 2 [0])] = Some r /\ reopen r = None.
Proof. eexists. split; [vm_compute; reflexivity|vm_compute; reflexivity]. Qed.

(** non-vacuity: a history with a drop-and-recreate, a delete, a compaction and a reopen in the middle *)
Example hypotheses_hold :
  let h := [EStmt (SCreate 1); EStmt (SInsert 0 [0; 1]); EStmt (SDelete 0 [(0, 0)]); EStmt (SCreate 2); EReopen;
            EStmt (SCompact 0 [0; 1] (Some 2)); EStmt (SDrop 1); EStmt (SCreate 2); EStmt (SInsert 2 [3]); EReopen] in
  no_views h = true /\ exists r, run_ev r_init h = Some r /\ m_tables (r_abs r) = [(0, 1); (2, 2)] /\ m_rowsets (r_abs r) = [(0, 2); (2, 3)].
Proof. cbn zeta. split; [reflexivity|]. eexists. split; [vm_compute; reflexivity|split; reflexivity]. Qed.

Print Assumptions reopen_rebuilds_the_same_state.
Print Assumptions histories_keep_the_invariant.
Print Assumptions replay_returns_the_acknowledged_operations.
Print Assumptions compacted_manifest_is_equivalent.
Print Assumptions view_between_tables_refuted.
