(** * C07 — deletes are exact and permanent; compaction is invisible.
    Only statements, each closed by [exact], with its assumptions printed. *)
From RL Require Import Model.Store Proofs.StoreP.
From Coq Require Import Permutation Sorted.

(** for EVERY history of inserts, predicate deletes, compactions of any selection of row-sets
    (writing the rows read in any order), and reopens that restart the id generator anywhere
    above the live ids, from any state satisfying the bookkeeping invariant: the table holds
    exactly the bag obtained by applying the inserts and deletes to a plain list *)
Theorem table_is_exactly_inserted_minus_deleted : forall ops t b,
  disk_inv t -> Forall reorder_ok ops -> Permutation (disk_scan t) b ->
  Permutation (disk_scan (fold_left disk_step ops t)) (fold_left spec_step ops b).
Proof. exact history_exact. Qed.

(** the invariant is established by the empty table and kept by every step *)
Theorem bookkeeping_invariant : disk_inv empty_table /\ forall ops t, disk_inv t -> disk_inv (fold_left disk_step ops t).
Proof. exact (conj empty_inv history_inv). Qed.

(** DELETE removes exactly the matching rows (as a list, not only as a bag: no surviving row
    moves) and reports their number *)
Theorem delete_is_exact_and_counts : forall p t, disk_inv t ->
  disk_scan (fst (disk_delete p t)) = filter (fun r => negb (p r)) (disk_scan t) /\
  snd (disk_delete p t) = length (filter p (disk_scan t)).
Proof. exact disk_delete_scan. Qed.

(** a compaction at any point changes no query result *)
Theorem compaction_is_invisible : forall sel reorder t, disk_inv t -> (forall l, Permutation (reorder l) l) ->
  Permutation (disk_scan (disk_compact sel reorder t)) (disk_scan t).
Proof. exact disk_compact_scan. Qed.

(** the visibility bitmap: DeleteVector::apply_to clears exactly the bits of the deleted row ids,
    for every starting offset of the batch *)
Theorem delete_vector_bitmap : forall deletes offset vis i, increasing deletes -> i < length vis ->
  nth i (apply_to deletes offset vis) true = nth i vis true && negb (existsb (Nat.eqb (offset + i)) deletes).
Proof. exact apply_to_spec. Qed.

(** a keyed table: inserts store sorted row-sets, deletes and merge-compactions keep them sorted,
    and then the ordered (merge) scan returns the table's rows in key order *)
Theorem keyed_rowsets_stay_sorted : forall key,
  (forall t rows, rowsets_sorted key t -> rowsets_sorted key (insert_pk key t rows)) /\
  (forall p t, rowsets_sorted key t -> rowsets_sorted key (fst (disk_delete p t))) /\
  (forall sel t, rowsets_sorted key t -> rowsets_sorted key (compact_pk key sel t)) /\
  (forall sel t, disk_inv t -> Permutation (disk_scan (compact_pk key sel t)) (disk_scan t)).
Proof. exact (fun key => conj (insert_pk_sorted key) (conj (delete_sorted key) (conj (compact_pk_sorted key) (compact_pk_scan key)))). Qed.
Theorem ordered_scan_in_key_order : forall key t, rowsets_sorted key t ->
  ksorted key (ordered_scan key t) /\ Permutation (ordered_scan key t) (disk_scan t).
Proof. exact ordered_scan_exact. Qed.

(** non-vacuity: a reachable state with two row-sets and a delete vector meets the hypotheses,
    and a compaction of both followed by another delete behaves as the bag says *)
Example hypotheses_hold :
  let t := fst (disk_delete (Nat.eqb 2) (disk_insert (disk_insert empty_table [1; 2; 3]) [2; 4])) in
  disk_inv t /\ disk_scan t = [1; 3; 4] /\
  disk_scan (disk_compact (fun _ => true) (fun l => rev l) t) = [4; 3; 1] /\
  reorder_ok (OCompact (fun _ => true) (fun l => rev l)).
Proof.
  cbn zeta. split; [apply disk_delete_inv, disk_insert_inv, disk_insert_inv, empty_inv|].
  split; [reflexivity|]. split; [reflexivity|]. cbn. intros l. apply Permutation_sym, Permutation_rev.
Qed.

Print Assumptions table_is_exactly_inserted_minus_deleted.
Print Assumptions bookkeeping_invariant.
Print Assumptions delete_is_exact_and_counts.
Print Assumptions compaction_is_invisible.
Print Assumptions delete_vector_bitmap.
Print Assumptions keyed_rowsets_stay_sorted.
Print Assumptions ordered_scan_in_key_order.
