(** * C11 — all physical implementations of an operator agree.
    Only statements, each closed by [exact], with its assumptions printed. *)
From RL Require Import Model.Exec Proofs.ExecP Proofs.MergeJoinP Proofs.MergeLeftP Proofs.SortAggP Proofs.SimpleAggP Proofs.WideKeysP Proofs.MergeRightP Proofs.MergeFullP.
From Coq Require Import Permutation.
Open Scope Z_scope.

(** hash join = nested-loop join (as LISTS, in the model's first-seen iteration order) for every
    input chunking, NULL and duplicate keys, empty sides — whenever the join condition is the
    SQL equality of the keys *)
Theorem hash_inner_eq_nested_loop : forall cond lk rk nl nr L R,
  equi_cond cond lk rk (concat L) (concat R) ->
  Some (x_hashjoin JInner lk rk nl nr L R) = x_nljoin JInner cond nr L R.
Proof. exact hashjoin_inner_eq_nljoin. Qed.
Theorem hash_left_eq_nested_loop : forall cond lk rk nl nr L R,
  equi_cond cond lk rk (concat L) (concat R) ->
  Some (x_hashjoin JLeft lk rk nl nr L R) = x_nljoin JLeft cond nr L R.
Proof. exact hashjoin_left_eq_nljoin. Qed.
Theorem hash_semi_eq_nested_loop : forall cond lk rk nl nr L R,
  equi_cond cond lk rk (concat L) (concat R) ->
  Some (x_hashjoin JSemi lk rk nl nr L R) = x_nljoin JSemi cond nr L R.
Proof. exact hashjoin_semi_eq_nljoin. Qed.
Theorem hash_anti_eq_nested_loop : forall cond lk rk nl nr L R,
  equi_cond cond lk rk (concat L) (concat R) ->
  Some (x_hashjoin JAnti lk rk nl nr L R) = x_nljoin JAnti cond nr L R.
Proof. exact hashjoin_anti_eq_nljoin. Qed.
(** the hash semi / anti join with a residual condition = the nested-loop one on (key equality AND condition) *)
Theorem hash_semi_anti_with_residual_eq_nested_loop : forall anti eqc cond lk rk nr L R,
  equi_cond eqc lk rk (concat L) (concat R) ->
  Some (x_hashsemi2 anti lk rk cond L R) = x_nljoin (if anti then JAnti else JSemi) (SAnd eqc cond) nr L R.
Proof. exact hashsemi2_eq_nljoin. Qed.
Theorem joins_independent_of_chunking : forall t lk rk cond nl nr L L' R R',
  concat L = concat L' -> concat R = concat R' ->
  x_hashjoin t lk rk nl nr L R = x_hashjoin t lk rk nl nr L' R' /\
  x_nljoin t cond nr L R = x_nljoin t cond nr L' R' /\
  x_mergejoin t lk rk nl nr L R = x_mergejoin t lk rk nl nr L' R'.
Proof. exact joins_ignore_chunking. Qed.

(** merge join (runs of equal keys on both sides, three-way walk) over inputs sorted on their keys
    = hash join, as bags, for every input with duplicate and NULL keys; hence = the nested-loop join
    whenever the condition is the SQL equality of the keys *)
Theorem merge_inner_eq_hash : forall lk rk nl nr L R, sorted_on lk (concat L) -> sorted_on rk (concat R) ->
  Permutation (x_mergejoin JInner lk rk nl nr L R) (x_hashjoin JInner lk rk nl nr L R).
Proof. exact mergejoin_inner_eq_hashjoin. Qed.
Theorem merge_inner_eq_nested_loop : forall cond lk rk nl nr L R, sorted_on lk (concat L) -> sorted_on rk (concat R) ->
  equi_cond cond lk rk (concat L) (concat R) ->
  exists out, x_nljoin JInner cond nr L R = Some out /\ Permutation (x_mergejoin JInner lk rk nl nr L R) out.
Proof. exact mergejoin_inner_eq_nljoin. Qed.

(** the LEFT OUTER merge join over sorted inputs returns, for every left row in order, its matches on
    the key (SQL equality: a NULL key matches nothing) or the row padded with NULLs when there are none *)
Theorem merge_left_outer_rows : forall lk rk nl nr L R, sorted_on lk (concat L) -> sorted_on rk (concat R) ->
  x_mergejoin JLeft lk rk nl nr L R = left_rows_spec lk rk nr (concat L) (concat R).
Proof. exact mergejoin_left_rows. Qed.

Theorem merge_left_outer_eq_hash : forall lk rk nl nr L R, sorted_on lk (concat L) -> sorted_on rk (concat R) ->
  Permutation (x_mergejoin JLeft lk rk nl nr L R) (x_hashjoin JLeft lk rk nl nr L R).
Proof. exact mergejoin_left_eq_hashjoin. Qed.

(** the RIGHT OUTER merge join over sorted inputs returns the rows of the RIGHT OUTER hash join (every right row with its
    matches, or NULL-padded on the left), as bags *)
Theorem merge_right_outer_eq_hash : forall lk rk nl nr L R, sorted_on lk (concat L) -> sorted_on rk (concat R) ->
  Permutation (x_mergejoin JRight lk rk nl nr L R) (x_hashjoin JRight lk rk nl nr L R).
Proof. exact mergejoin_right_eq_hashjoin. Qed.

(** and the FULL OUTER merge join the rows of the FULL OUTER hash join: those of the right outer join plus every left row
    without a match (a NULL in its key, or no right row with that key) padded with NULLs on the right *)
Theorem merge_full_outer_eq_hash : forall lk rk nl nr L R, sorted_on lk (concat L) -> sorted_on rk (concat R) ->
  Permutation (x_mergejoin JFull lk rk nl nr L R) (x_hashjoin JFull lk rk nl nr L R).
Proof. exact mergejoin_full_eq_hashjoin. Qed.

(** sort aggregation (one group per run of equal consecutive keys) over input sorted on the group keys
    = hash aggregation, as LISTS: same groups in the same first-seen order, same aggregate values *)
Theorem sort_aggregation_eq_hash_aggregation : forall ks aggs c, sorted_on ks (concat c) ->
  x_sortagg ks aggs c = x_hashagg ks aggs c.
Proof. exact sortagg_eq_hashagg. Qed.

(** simple (ungrouped) aggregation keeps one state per aggregate and updates it chunk by chunk with
    array-level functions; for COUNT-star, COUNT and COUNT(DISTINCT) over any values and SUM / MIN / MAX
    over a column of one integer type (NULLs allowed) it returns what the row-by-row aggregation of
    the concatenated input returns, for every chunking (incl. empty chunks) *)
Theorem simple_aggregation_eq_rowwise : forall t aggs c,
  Forall (fun a => supported t a (concat c)) aggs ->
  x_simpleagg aggs c = [map (fun a => agg_rows a (concat c)) aggs].
Proof. exact simpleagg_eq_rowwise. Qed.

(** sort-then-limit = top-N *)
Theorem topn_eq_sort_then_limit : forall limit offset ks c,
  x_topn limit offset ks c = concat (x_limit limit offset [x_order ks c]).
Proof. exact topn_eq_limit_order. Qed.

(** keys of different integer widths (fixed: executor::build casts mixed numeric key pairs to the wider
    type, [wide_keys]): the conjunction of column equalities the optimiser turns into join keys IS the
    equality of those keys, for integers of any widths, NULLs and every other value — so the theorems
    above apply to it, and hash, merge and nested-loop joins agree on INT = BIGINT keys *)
Theorem sql_equality_is_the_equality_of_wide_keys : forall ps nl Ls Rs,
  (forall l, In l Ls -> length l = nl) -> Forall (fun p => (fst p < nl)%nat) ps ->
  equi_cond (eq_conj nl ps) (wide_keys (lcols ps)) (wide_keys (rcols ps)) Ls Rs.
Proof. exact eq_conj_is_equi_cond_on_wide_keys. Qed.
Theorem hash_eq_nested_loop_on_column_equalities : forall t ps nl nr L R, t <> JRight -> t <> JFull ->
  (forall l, In l (concat L) -> length l = nl) -> Forall (fun p => (fst p < nl)%nat) ps ->
  Some (x_hashjoin t (wide_keys (lcols ps)) (wide_keys (rcols ps)) nl nr L R) = x_nljoin t (eq_conj nl ps) nr L R.
Proof. exact hashjoin_eq_nljoin_on_columns. Qed.
Example int_and_bigint_keys_match :
  let L := [[ [DI32 1]; [DI32 2] ]] in let R := [[ [DI64 1]; [DI16 2]; [DNull] ]] in
  x_nljoin JInner (eq_conj 1 [(0, 0)%nat]) 1 L R = Some [[DI32 1; DI64 1]; [DI32 2; DI16 2]] /\
  x_hashjoin JInner (wide_keys [SCol 0]) (wide_keys [SCol 0]) 1 1 L R = [[DI32 1; DI64 1]; [DI32 2; DI16 2]].
Proof. cbv zeta. split; reflexivity. Qed.

(** non-vacuity: on INT keys the SQL equality IS an [equi_cond] *)
Example equi_cond_applies :
  equi_cond (SEq (SCol 0) (SCol 2)) [SCol 0] [SCol 0]
            [[DI32 1; DI32 5]; [DNull; DI32 6]] [[DI32 1; DI32 7]; [DNull; DI32 8]; [DI32 2; DI32 9]].
Proof.
  intros l r Hl Hr. cbn in Hl, Hr.
  destruct Hl as [<-|[<-|[]]]; destruct Hr as [<-|[<-|[<-|[]]]]; reflexivity.
Qed.

Print Assumptions hash_inner_eq_nested_loop.
Print Assumptions hash_left_eq_nested_loop.
Print Assumptions hash_semi_eq_nested_loop.
Print Assumptions hash_anti_eq_nested_loop.
Print Assumptions hash_semi_anti_with_residual_eq_nested_loop.
Print Assumptions joins_independent_of_chunking.
Print Assumptions merge_inner_eq_hash.
Print Assumptions merge_inner_eq_nested_loop.
Print Assumptions merge_left_outer_rows.
Print Assumptions merge_left_outer_eq_hash.
Print Assumptions merge_right_outer_eq_hash.
Print Assumptions merge_full_outer_eq_hash.
Print Assumptions sort_aggregation_eq_hash_aggregation.
Print Assumptions simple_aggregation_eq_rowwise.
Print Assumptions topn_eq_sort_then_limit.
Print Assumptions sql_equality_is_the_equality_of_wide_keys.
Print Assumptions hash_eq_nested_loop_on_column_equalities.
