(** * C08 — readers see a stable snapshot and their files are never removed.
    Only statements, each closed by [exact], with its assumptions printed. *)
From RL Require Import Model.Version Proofs.VersionP.

(** for EVERY interleaving of commits (adding any number of new row-sets and deleting any row-sets
    of the current snapshot: inserts, deletes, compactions, drops), pins (transactions starting),
    unpins (transactions ending) and vacuum passes: every row-set of the current snapshot and of
    every pinned snapshot is still in the pool (its files have not been removed); a deletion is
    only ever applied at epochs no pinned reader can see *)
Theorem pinned_snapshots_keep_their_files : forall os, all_ok init os -> Inv (run init os).
Proof. exact pinned_files_present. Qed.
(** the invariant is kept by every single admissible step from any state satisfying it *)
Theorem every_step_keeps_the_invariant : forall s o, Inv s -> ok s o -> Inv (step s o).
Proof. exact step_inv. Qed.
(** a reader's snapshot is a value fixed when it pinned: no later step changes the snapshot of an
    epoch that already exists *)
Theorem snapshot_of_an_epoch_never_changes : forall s o e, e <= epoch s -> status (step s o) e = status s e.
Proof. exact status_stable. Qed.

(** non-vacuity: a reader pinned before a compaction keeps its two row-sets through a vacuum *)
Example hypotheses_hold :
  let os := [Commit 2 []; Pin; Commit 1 [0; 1]; Vacuum] in
  all_ok init os /\ pool (run init os) = [0; 1; 2] /\ pool (run init (os ++ [Unpin 1; Vacuum])) = [2].
Proof. cbn zeta. split; [cbn; intuition; subst; cbn; auto|split; reflexivity]. Qed.

Print Assumptions pinned_snapshots_keep_their_files.
Print Assumptions every_step_keeps_the_invariant.
Print Assumptions snapshot_of_an_epoch_never_changes.
