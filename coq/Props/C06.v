(** C06 — placeholder while the proofs are being ported; replaced below. *)
From RL Require Import Proofs.CrcP.
From Coq Require Import NArith.
Theorem crc_single_bit : forall l k s, (s < 2^32)%N -> (k < length l)%nat -> Crc.run s (Crc.flip k l) <> Crc.run s l.
Proof. exact run_detects_single_bit. Qed.
Print Assumptions crc_single_bit.
