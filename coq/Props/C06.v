(** * C06 — column encodings round-trip every value exactly.
    Only statements, each closed by [exact] of a lemma proved in Proofs/, with its assumptions printed. *)
From RL Require Import Model.Codec Model.ColIter Proofs.BytesP Proofs.CodecP Proofs.ColIterP Proofs.C06P.
Open Scope Z_scope.

(** value codecs *)
Theorem le_roundtrip : forall w z rest, (0 < w)%nat -> in_range w z -> sle_dec w (sle_enc w z ++ rest) = z.
Proof. exact sle_dec_enc. Qed.
Theorem be_roundtrip : forall w z rest, (0 < w)%nat -> in_range w z -> sbe_dec w (sbe_enc w z ++ rest) = z.
Proof. exact sbe_dec_enc. Qed.
Theorem varint_roundtrip : forall v rest, 0 <= v < 15 * 2 ^ 28 ->
  varint_dec (varint_enc v ++ rest) = Some (v, length (varint_enc v)).
Proof. exact varint_dec_enc. Qed.
Theorem bitmap_roundtrip : forall n bs, length bs = n -> unpack_bits n (pack_bits bs) = bs.
Proof. exact unpack_pack. Qed.

(** every block kind the engine writes, for every fixed-width type and for VARCHAR / BLOB *)
Theorem block_roundtrip_plain : forall c, In c fw_list -> bk_rt (bk_plain (nn_plain c)) small.
Proof. exact fw_plain_roundtrip. Qed.
Theorem block_roundtrip_nullable : forall c, In c fw_list -> bk_rt (bk_nullable (nn_plain c)) small.
Proof. exact fw_nullable_roundtrip. Qed.
Theorem block_roundtrip_rle : forall c, In c fw_exact_list ->
  bk_rt (bk_rle (bk_plain (nn_plain c))) small /\ bk_rt (bk_rle (bk_nullable (nn_plain c))) small.
Proof. exact fw_rle_roundtrip. Qed.
Theorem block_roundtrip_dict : forall c, In c fw_exact_list ->
  bk_rt (bk_dict (bk_plain (nn_plain c))) small /\ bk_rt (bk_dict (bk_nullable (nn_plain c))) small.
Proof. exact fw_dict_roundtrip. Qed.
Theorem block_roundtrip_varchar :
  bk_rt (bk_plain nn_blob) small_blob /\ bk_rt (bk_nullable nn_blob) small_blob /\
  bk_rt (bk_rle (bk_plain nn_blob)) small_blob_rle /\ bk_rt (bk_rle (bk_nullable nn_blob)) small_blob_rle /\
  bk_rt (bk_dict (bk_plain nn_blob)) small_blob_dict /\ bk_rt (bk_dict (bk_nullable nn_blob)) small_blob_dict.
Proof.
  exact (conj blob_plain_roundtrip (conj blob_nullable_roundtrip
        (conj (proj1 blob_rle_roundtrip) (conj (proj2 blob_rle_roundtrip)
        (conj (proj1 blob_dict_roundtrip) (proj2 blob_dict_roundtrip)))))).
Qed.

(** known finding KF_C06_f64_eq_classes_rle_dict: DOUBLE under RLE / dictionary is NOT exact *)
Theorem f64_rle_dict_refuted :
  forallb (bk_okb (bk_rle (bk_plain (nn_plain fw_f64)))) f64_witness = true /\
  bk_dec (bk_rle (bk_plain (nn_plain fw_f64))) 2 (bk_enc (bk_rle (bk_plain (nn_plain fw_f64))) f64_witness)
    = [Some (CInt (2 ^ 63)); Some (CInt (2 ^ 63))] /\
  bk_dec (bk_dict (bk_plain (nn_plain fw_f64))) 2 (bk_enc (bk_dict (bk_plain (nn_plain fw_f64))) f64_witness)
    = [Some (CInt (2 ^ 63)); Some (CInt (2 ^ 63))].
Proof. exact f64_rle_refuted. Qed.

(** the iterator over ANY partition into blocks, ANY start row, ANY request list *)
Theorem column_iterator_exact : forall (A : Type) (bs : blocks A) start reqs,
  (0 < length bs)%nat -> (start <= length (concat bs))%nat -> Forall req_ok reqs ->
  trace_ok A (concat bs) start reqs (col_read A bs start reqs).
Proof. exact col_read_exact. Qed.

(** file level: blocks with trailers laid out back to back decode to the blocks *)
Theorem column_file_roundtrip : forall bk P t crc, bk_rt bk P -> forall blocks pre,
  Forall (fun b => P b /\ forallb (bk_okb bk) b = true) blocks ->
  column_decode bk (pre ++ column_bytes bk t crc blocks) (index_of bk blocks (length pre)) = blocks.
Proof. exact column_roundtrip. Qed.

(** end to end *)
Theorem column_read_exact : forall bk P t crc (values : list (option cell)) (sizes : list nat) start reqs,
  bk_rt bk P ->
  let blocks := split_at sizes values in
  concat blocks = values -> (0 < length blocks)%nat ->
  Forall (fun b => P b /\ forallb (bk_okb bk) b = true) blocks ->
  (start <= length values)%nat -> Forall req_ok reqs ->
  let file := column_bytes bk t crc blocks in
  let decoded := column_decode bk file (index_of bk blocks 0) in
  trace_ok _ values start reqs (col_read _ decoded start reqs).
Proof. exact C06P.column_read_exact. Qed.

(** non-vacuity: a concrete nullable INT column in two blocks meets every hypothesis *)
Example column_read_exact_applies :
  let values := [Some (CInt 1); None; Some (CInt (-3)); Some (CInt 4); None] in
  let blocks := split_at [3; 2]%nat values in
  concat blocks = values /\ (0 < length blocks)%nat /\
  Forall (fun b => small b /\ forallb (bk_okb (bk_nullable (nn_plain (fw_int_le 4)))) b = true) blocks.
Proof. cbv zeta. split; [reflexivity|]. split; [cbn; auto|]. repeat constructor. Qed.

Print Assumptions le_roundtrip.
Print Assumptions be_roundtrip.
Print Assumptions varint_roundtrip.
Print Assumptions bitmap_roundtrip.
Print Assumptions block_roundtrip_plain.
Print Assumptions block_roundtrip_nullable.
Print Assumptions block_roundtrip_rle.
Print Assumptions block_roundtrip_dict.
Print Assumptions block_roundtrip_varchar.
Print Assumptions f64_rle_dict_refuted.
Print Assumptions column_iterator_exact.
Print Assumptions column_file_roundtrip.
Print Assumptions column_read_exact.
