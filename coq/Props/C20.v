(** * C20 — CSV export followed by import reproduces the table.
    Only statements, each closed by [exact], with its assumptions printed. *)
From RL Require Import Model.Csv Proofs.CsvP.

(** for every delimiter and quote character (different from each other and from CR / LF) and every
    file of records with at least one field each — fields being ARBITRARY byte strings: with
    delimiters, quotes, line breaks, empty —, reading what was written gives the records back *)
Theorem csv_reader_inverts_writer : forall d q, d <> q -> d <> 10 /\ d <> 13 -> q <> 10 /\ q <> 13 ->
  forall recs, Forall (fun r => r <> []) recs -> parse d q (write_file d q recs) = recs.
Proof. exact csv_roundtrip'. Qed.

(** a table of text cells survives COPY TO + COPY FROM exactly, provided no cell is NULL or the
    empty string (the two known findings below) *)
Theorem copy_roundtrip_is_exact : forall d q, d <> q -> d <> 10 /\ d <> 13 -> q <> 10 /\ q <> 13 ->
  forall rows, Forall (fun r => r <> [] /\ Forall cell_safe r) rows -> copy_roundtrip d q rows = rows.
Proof. exact copy_roundtrip_exact. Qed.

(** known findings: NULL is exported as the text NULL; the empty string is imported as NULL *)
Theorem null_cell_refuted : copy_roundtrip 44 34 [[None; Some [65]]] = [[Some null_text; Some [65]]].
Proof. exact null_roundtrip_refuted. Qed.
Theorem empty_string_cell_refuted : copy_roundtrip 44 34 [[Some []; Some [65]]] = [[None; Some [65]]].
Proof. exact empty_string_roundtrip_refuted. Qed.

(** non-vacuity: a record with a delimiter, a quote, a line break and an empty field *)
Example hypotheses_hold :
  let r := [[ [97; 44; 98]; [34]; [10; 13]; []; [120] ]] in
  Forall (fun r => r <> []) r /\ write_file 44 34 r = [34; 97; 44; 98; 34; 44; 34; 34; 34; 34; 44; 34; 10; 13; 34; 44; 44; 120; 10] /\
  parse 44 34 (write_file 44 34 r) = r.
Proof. cbn zeta. split; [repeat constructor; discriminate|split; reflexivity]. Qed.

Print Assumptions csv_reader_inverts_writer.
Print Assumptions copy_roundtrip_is_exact.
Print Assumptions null_cell_refuted.
Print Assumptions empty_string_cell_refuted.
