(** * C04 — a crash at any instant leaves a recoverable, atomic, durable database.
    Only statements, each closed by [exact], with its assumptions printed. *)
From RL Require Import Model.Manifest Proofs.ManifestP.

(** atomicity in the log: whatever proper prefix of the records of the transaction in flight
    reached the file, with or without an incomplete record after it, replay returns exactly the
    acknowledged transactions *)
Theorem torn_append_is_invisible : forall ts t p, In p (torn_tails t) ->
  replay (concat (map frame ts) ++ p) = concat ts.
Proof. exact crash_in_append_is_invisible. Qed.
Theorem complete_append_is_durable : forall ts t, replay (concat (map frame ts) ++ frame t) = concat ts ++ t.
Proof. exact complete_append_is_visible. Qed.

(** a crash at ANY persistence step of a commit (after k of its files, inside the k+1-th, inside
    the manifest append at any record boundary or inside a record) recovers — the boot succeeds —
    to the state before the statement ... *)
Theorem crash_during_commit_recovers_to_before : forall r d t c,
  RInv r -> dk_log d = r_log r -> recover d = Some (r_abs r) -> In c (crash_states d t) -> recover c = Some (r_abs r).
Proof. exact crash_recovers_to_before. Qed.
(** ... and once the End record is written, to the state after it *)
Theorem crash_after_commit_recovers_to_after : forall r st r1 d,
  RInv r -> stmt_ok (r_abs r) st = true -> is_view st = false -> step r st = Some r1 ->
  dk_log d = r_log r -> recover d = Some (r_abs r) -> recover (committed_state d (txn_of (r_abs r) st)) = Some (r_abs r1).
Proof. exact committed_recovers_to_after. Qed.

(** recovering again (a crash during recovery before the compacted manifest is renamed into place
    leaves the old manifest; after it, the new one) gives the same state *)
Theorem recovery_is_idempotent : forall r, RInv r -> exists r1, reopen r = Some r1 /\ r_abs r1 = r_abs r /\ RInv r1.
Proof. exact reopen_of_RInv. Qed.

(** after recovery the id generators are above every live id, so new statements never collide
    with live files (unreferenced leftovers are removed at boot) *)
Theorem recovered_ids_are_fresh : forall ops s, apply_ops m_init ops = Some s ->
  (forall x, In x (m_rowsets s) -> snd x < next_rs ops) /\ (forall d, In d (m_dvs s) -> snd (fst d) < next_dv ops).
Proof. exact (fun ops s E => conj (fresh_rowset_ids ops s E) (fresh_dv_ids ops s E)). Qed.

(** non-vacuity: the crash states of an insert into two row-sets after a create *)
Example hypotheses_hold :
  let r := {| r_abs := {| m_tables := [(0, 1)]; m_next_tid := 1; m_rowsets := []; m_dvs := []; m_catlog := [MCreate 1] |};
              r_next_id := 1; r_log := frame [MCreate 1] |} in
  let d := {| dk_files := []; dk_log := r_log r |} in
  run_ev r_init [EStmt (SCreate 1)] = Some r /\ recover d = Some (r_abs r) /\
  length (crash_states d (txn_of (r_abs r) (SInsert 0 [0; 1]))) = 14 /\
  forallb (fun c => match recover c with Some s => match m_rowsets s with [] => true | _ => false end | None => false end)
          (crash_states d (txn_of (r_abs r) (SInsert 0 [0; 1]))) = true.
Proof. cbn zeta. repeat split; vm_compute; reflexivity. Qed.

Print Assumptions torn_append_is_invisible.
Print Assumptions complete_append_is_durable.
Print Assumptions crash_during_commit_recovers_to_before.
Print Assumptions crash_after_commit_recovers_to_after.
Print Assumptions recovery_is_idempotent.
Print Assumptions recovered_ids_are_fresh.
