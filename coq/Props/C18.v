(** * C18 — corrupted column data is detected, not returned.
    Only statements, each closed by [exact], with its assumptions printed. *)
From RL Require Import Model.Codec Model.Block Proofs.CrcP Proofs.BlockP.
From Coq Require Import NArith Lia.
Open Scope Z_scope.

(** the CRC register never forgets a single flipped bit, whatever follows it *)
Theorem crc_register_detects_single_bit : forall l k s, (s < 2^32)%N -> (k < length l)%nat ->
  Crc.run s (Crc.flip k l) <> Crc.run s l.
Proof. exact run_detects_single_bit. Qed.

(** CRC-32 of a byte string changes under every single-bit flip *)
Theorem crc32_detects_single_bit : forall bs k, is_bytes bs -> (k < 8 * length bs)%nat ->
  crc32 (flip_bit bs k) <> crc32 bs.
Proof. exact crc32_flip. Qed.

(** a block written by the engine verifies, and no single-bit corruption of it does — wherever the
    bit lies: data, block type, checksum type or checksum (the guard [crc32 .. <> 0] is needed only
    for the one flip that turns the checksum type into None) *)
Theorem block_accepts_itself : forall t body, valid_block_type t = true -> verify_block (mk_block t body) = true.
Proof. exact verify_block_ok. Qed.
Theorem mk_block_is_the_written_block : forall t body, mk_block t body = trailer t true body.
Proof. exact mk_block_trailer. Qed.
Theorem block_single_bit_flip_detected : forall t body k,
  valid_block_type t = true -> is_bytes body -> crc32 (body ++ sbe_enc 4 t) <> 0 ->
  (k < 8 * length (mk_block t body))%nat ->
  verify_block (flip_bit (mk_block t body) k) = false.
Proof. exact block_flip_detected. Qed.

(** first and every later read: a block that does not verify is never served, cache included *)
Theorem read_sequence_safe : forall file index id off len n c,
  cache_sound file index c -> nth_error index id = Some (off, len) ->
  verify_block (slice file off len) = false ->
  Forall (fun r => r = RErr) (get_blocks file index c (repeat id n)).
Proof. exact corrupted_block_never_read. Qed.
Theorem cache_stays_sound : forall file index c id, cache_sound file index c ->
  cache_sound file index (fst (get_block file index c id)).
Proof. exact get_block_sound. Qed.

(** index files *)
Theorem index_accepts_itself : forall records, Forall rec_ok records -> Z.of_nat (length records) < 2 ^ 64 ->
  parse_index (index_file true records) = Some records.
Proof. exact index_file_ok. Qed.
Theorem index_single_bit_flip_detected : forall records k,
  Forall rec_ok records -> Z.of_nat (length records) < 2 ^ 64 ->
  is_bytes (flat_map frame_enc records) -> crc32 (flat_map frame_enc records) <> 0 ->
  (k < 8 * length (index_file true records))%nat ->
  parse_index (flip_bit (index_file true records) k) = None.
Proof. exact index_flip_detected. Qed.

(** known finding KF_C18_forged_trailer (refutation of "any byte overwrite is detected") *)
Theorem forged_trailer_refutes_overwrite_detection : forall t body', valid_block_type t = true ->
  verify_block ((body' ++ sbe_enc 4 t) ++ sbe_enc 4 0 ++ ube_enc 8 0) = true.
Proof. exact forged_trailer_accepted. Qed.

(** non-vacuity: a concrete block meets the hypotheses *)
Example block_hypotheses_hold :
  valid_block_type 3 = true /\ is_bytes [1; 0; 0; 0; 5] /\ crc32 ([1; 0; 0; 0; 5] ++ sbe_enc 4 3) <> 0.
Proof. split; [reflexivity|]. split; [repeat constructor; cbn; lia|vm_compute; discriminate]. Qed.

Print Assumptions crc_register_detects_single_bit.
Print Assumptions crc32_detects_single_bit.
Print Assumptions block_accepts_itself.
Print Assumptions mk_block_is_the_written_block.
Print Assumptions block_single_bit_flip_detected.
Print Assumptions read_sequence_safe.
Print Assumptions cache_stays_sound.
Print Assumptions index_accepts_itself.
Print Assumptions index_single_bit_flip_detected.
Print Assumptions forged_trailer_refutes_overwrite_detection.
