(** C18 — placeholder statement while BlockP.v is being written (replaced below) *)
From RL Require Import Proofs.CrcP.
From Coq Require Import NArith.
Theorem crc_register_detects_single_bit : forall l k s, (s < 2^32)%N -> (k < length l)%nat ->
  Crc.run s (Crc.flip k l) <> Crc.run s l.
Proof. exact run_detects_single_bit. Qed.
Print Assumptions crc_register_detects_single_bit.
