(** * C05 — the in-memory and the on-disk engine are observationally equivalent.
    Only statements, each closed by [exact], with its assumptions printed. *)
From RL Require Import Model.Store Proofs.StoreP.
From Coq Require Import Permutation.

(** every history of inserts, predicate deletes, compactions (disk only: any selection of
    row-sets, any order of the written rows) and restarts (disk only) leaves the two engines with
    the same bag of rows, whatever row-sets, delete vectors and ids the disk engine went through *)
Theorem engines_hold_the_same_bag : forall ops, Forall reorder_ok ops ->
  Permutation (mem_scan (fold_left mem_step ops empty_table)) (disk_scan (fold_left disk_step ops empty_table)).
Proof. exact engines_equivalent. Qed.

(** and both are the plain-list specification of the statements *)
Theorem memory_engine_is_the_specification : forall ops t b, disk_inv t -> Permutation (mem_scan t) b ->
  Permutation (mem_scan (fold_left mem_step ops t)) (fold_left spec_step ops b).
Proof. exact mem_history_exact. Qed.
Theorem disk_engine_is_the_specification : forall ops t b,
  disk_inv t -> Forall reorder_ok ops -> Permutation (disk_scan t) b ->
  Permutation (disk_scan (fold_left disk_step ops t)) (fold_left spec_step ops b).
Proof. exact history_exact. Qed.

(** a DELETE reports the same count on both engines: the number of matching rows of the bag *)
Theorem delete_counts_agree : forall p tm td, disk_inv tm -> disk_inv td -> Permutation (mem_scan tm) (disk_scan td) ->
  snd (mem_delete p tm) = snd (disk_delete p td).
Proof. exact delete_counts_equal. Qed.

(** non-vacuity: a history with a compaction and a restart in the middle *)
Example hypotheses_hold :
  let ops := [OInsert [1; 2; 3]; OInsert [4; 2]; ODelete (Nat.eqb 2); OCompact (fun _ => true) (fun l => l); OReopen 7; OInsert [2]] in
  Forall reorder_ok ops /\ disk_scan (fold_left disk_step ops empty_table) = [1; 3; 4; 2] /\
  mem_scan (fold_left mem_step ops empty_table) = [1; 3; 4; 2].
Proof. cbn zeta. split; [repeat constructor; cbn; intros; apply Permutation_refl|split; reflexivity]. Qed.

Print Assumptions engines_hold_the_same_bag.
Print Assumptions memory_engine_is_the_specification.
Print Assumptions disk_engine_is_the_specification.
Print Assumptions delete_counts_agree.
