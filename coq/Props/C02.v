(** * C02 — query answers follow standard SQL semantics on the core relational subset.
    Only statements, each closed by [exact], with its assumptions printed.  (The reading of
    "standard SQL" is additionally cross-checked against SQLite on every run.) *)
From RL Require Import Model.Exec Proofs.ExecP Proofs.MergeJoinP Proofs.MergeRightP Proofs.MergeFullP.
Open Scope Z_scope.

(** WHERE keeps exactly the rows on which the condition is TRUE (not NULL, not FALSE), whatever the chunking *)
Theorem where_keeps_true_rows : forall cond c, concat (x_filter cond c) = filter (holds cond) (concat c).
Proof. exact filter_spec. Qed.
(** INNER JOIN = the pairs on which the condition is TRUE *)
Theorem inner_join_is_the_matching_pairs : forall cond nr L R out row, x_nljoin JInner cond nr L R = Some out ->
  (In row out <-> exists l r, In l (concat L) /\ In r (concat R) /\ row = l ++ r /\ holds cond row = true).
Proof. exact nljoin_inner_spec. Qed.
(** LEFT JOIN: an unmatched left row is padded with NULLs *)
Theorem left_join_pads_unmatched : forall cond nr L R out l, x_nljoin JLeft cond nr L R = Some out ->
  In l (concat L) ->
  (exists r, In r (concat R) /\ In (l ++ r) out /\ holds cond (l ++ r) = true) \/ In (l ++ nulls nr) out.
Proof. exact left_join_preserves_left_rows. Qed.
(** NULL is never equal to NULL in a join / IN predicate: a comparison with NULL is NULL, and NULL does not pass *)
Theorem comparison_with_null_is_null : forall f a b, a = DNull \/ b = DNull -> cmp3 f a b = DNull.
Proof. exact null_comparison_is_null. Qed.
Theorem null_condition_fails : forall e r, sx_eval e r = DNull -> holds e r = false.
Proof. exact null_condition_does_not_hold. Qed.
(** three-valued logic *)
Theorem and_truth_table : forall a b r, sx_eval (SAnd a b) r =
  match sx_eval a r, sx_eval b r with
  | DBool false, _ | _, DBool false => DBool false
  | DBool true, DBool true => DBool true
  | _, _ => DNull
  end.
Proof. exact sx_and_3vl. Qed.
Theorem or_truth_table : forall a b r, sx_eval (SOr a b) r =
  match sx_eval a r, sx_eval b r with
  | DBool true, _ | _, DBool true => DBool true
  | DBool false, DBool false => DBool false
  | _, _ => DNull
  end.
Proof. exact sx_or_3vl. Qed.
(** aggregates skip NULLs; COUNT of nothing is 0, SUM / MIN / MAX of nothing are NULL *)
Theorem aggregates_on_empty_input :
  (forall e, agg_rows (ACount e) [] = DI32 0) /\ agg_rows ARowCount [] = DI32 0 /\
  (forall e, agg_rows (ACountDistinct e) [] = DI32 0) /\
  (forall e, agg_rows (ASum e) [] = DNull) /\ (forall e, agg_rows (AMin e) [] = DNull) /\
  (forall e, agg_rows (AMax e) [] = DNull).
Proof. exact agg_empty. Qed.
Theorem sum_min_max_skip_nulls : forall a rows,
  match a with ASum _ | AMin _ | AMax _ | ACountDistinct _ => True | _ => False end ->
  agg_rows a rows = agg_rows a (filter (fun r => negb (is_null (agg_arg a r))) rows).
Proof. exact aggregates_skip_nulls. Qed.
Theorem count_counts_the_non_null_values : forall e rows,
  agg_rows (ACount e) rows = DI32 (Z.of_nat (length (filter (fun r => negb (is_null (sx_eval e r))) rows))).
Proof. exact count_counts_non_null. Qed.
(** whichever physical join is chosen: see C11 (hash = nested loop) *)
Theorem hash_join_gives_the_same_answer : forall cond lk rk nl nr L R,
  equi_cond cond lk rk (concat L) (concat R) ->
  Some (x_hashjoin JInner lk rk nl nr L R) = x_nljoin JInner cond nr L R.
Proof. exact hashjoin_inner_eq_nljoin. Qed.

(** RIGHT OUTER JOIN on key equality (the nested-loop join does not implement it; the hash join does): every right row,
    in order, with each left row whose key equals its key (no NULL in the key), or once, padded with NULLs on the left,
    when there is none *)
Theorem right_join_pads_unmatched_right_rows : forall lk rk nl nr L R,
  x_hashjoin JRight lk rk nl nr L R =
  flat_map (fun r => match filter (fun l => key_match lk rk l r) (concat L) with
                     | [] => [nulls nl ++ r]
                     | m => map (fun l => l ++ r) m
                     end) (concat R).
Proof. exact hashjoin_right_rows. Qed.
(** FULL OUTER JOIN: the rows of the right outer join, then every left row without a partner (a NULL in its key, or no
    right row with that key) padded with NULLs on the right *)
Theorem full_join_pads_both_sides : forall lk rk nl nr L R,
  x_hashjoin JFull lk rk nl nr L R =
  x_hashjoin JRight lk rk nl nr L R ++
  map (fun l => l ++ nulls nr)
      (filter (fun l => has_null (keys_of lk l) || negb (existsb (fun r => row_eqb (keys_of lk l) (keys_of rk r)) (concat R))) (concat L)).
Proof. exact hashjoin_full_as_right_plus_pads. Qed.

Print Assumptions where_keeps_true_rows.
Print Assumptions inner_join_is_the_matching_pairs.
Print Assumptions left_join_pads_unmatched.
Print Assumptions comparison_with_null_is_null.
Print Assumptions null_condition_fails.
Print Assumptions and_truth_table.
Print Assumptions or_truth_table.
Print Assumptions aggregates_on_empty_input.
Print Assumptions sum_min_max_skip_nulls.
Print Assumptions count_counts_the_non_null_values.
Print Assumptions hash_join_gives_the_same_answer.
Print Assumptions right_join_pads_unmatched_right_rows.
Print Assumptions full_join_pads_both_sides.
