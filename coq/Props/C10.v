(** * C10 — concurrent sessions behave like some serial order.
    Only statements, each closed by [exact], with its assumptions printed.
    The property is decided per run by certificate checking: for every concurrent execution the
    check searches a total order of the acknowledged statements and [explains] — evaluated inside
    Coq — validates it against the serial specification below (see DESIGN.md: this part is
    validation of each observed execution, not a proof about all schedules of the engine). *)
From RL Require Import Model.Serial Proofs.SerialP.

(** an accepted certificate is a serial execution that respects every session's order and
    reproduces every observed result *)
Theorem accepted_certificate_is_a_serial_explanation : forall sort sessions order observed final,
  explains sort sessions order observed final = true ->
  exists s log, replay 0 [] sessions order [] = Some (s, log) /\
    (forall i, i < length sessions -> eq_lres (results_of i log) (nth i observed []) = true).
Proof. exact explains_sound. Qed.
(** statements on different tables commute in the specification (same results either way), so the
    search only has to order the statements per table *)
Theorem statements_on_different_tables_commute : forall s a b, table_of a <> table_of b ->
  snd (exec s a) = snd (exec (fst (exec s b)) a) /\ snd (exec s b) = snd (exec (fst (exec s a)) b).
Proof. exact independent_statements_commute. Qed.
Theorem a_statement_touches_only_its_table : forall s st t, t <> table_of st -> lookup t (fst (exec s st)) = lookup t s.
Proof. exact exec_other_table. Qed.

(** non-vacuity: two sessions racing on one table; two different orders explain two different observations *)
Example hypotheses_hold :
  let ss := [[SCreate 1; SInsert 1 [1; 2]; SCount 1]; [SInsert 1 [3]; SDelete 1 [1; 3]]] in
  explains (fun l => l) ss [1; 0; 0; 1; 0] [[ROk 0; ROk 2; ROk 1]; [RErr; ROk 1]] [(1, [2])] = true /\
  explains (fun l => l) ss [0; 0; 1; 1; 0] [[ROk 0; ROk 2; ROk 1]; [ROk 1; ROk 2]] [(1, [2])] = true.
Proof. split; reflexivity. Qed.

Print Assumptions accepted_certificate_is_a_serial_explanation.
Print Assumptions statements_on_different_tables_commute.
Print Assumptions a_statement_touches_only_its_table.
