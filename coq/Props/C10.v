(** * C10 — concurrent sessions behave like some serial order.
    Only statements, each closed by [exact], with its assumptions printed.
    The property is decided per run by certificate checking: for every concurrent execution the
    check searches a total order of the acknowledged statements and [explains] — evaluated inside
    Coq — validates it against the serial specification below (see DESIGN.md: this part is
    validation of each observed execution, not a proof about all schedules of the engine). *)
From RL Require Import Model.Serial Proofs.SerialP.
From RL Require Import Model.Store Model.Conc Model.ConcSerial Proofs.ConcSerialP.
From Coq Require Import Permutation.

(** an accepted certificate is a serial execution that respects every session's order and
    reproduces every observed result *)
Theorem accepted_certificate_is_a_serial_explanation : forall sort sessions order observed final,
  explains sort sessions order observed final = true ->
  exists s log, replay 0 [] sessions order [] = Some (s, log) /\
    (forall i, i < length sessions -> eq_lres (results_of i log) (nth i observed []) = true).
Proof. exact explains_sound. Qed.
(** statements on different tables commute in the specification (same results either way), so the
    search only has to order the statements per table *)
Theorem statements_on_different_tables_commute : forall s a b, table_of a <> table_of b ->
  snd (exec s a) = snd (exec (fst (exec s b)) a) /\ snd (exec s b) = snd (exec (fst (exec s a)) b).
Proof. exact independent_statements_commute. Qed.
Theorem a_statement_touches_only_its_table : forall s st t, t <> table_of st -> lookup t (fst (exec s st)) = lookup t s.
Proof. exact exec_other_table. Qed.

(** ** the engine's protocol on one table (Model/Conc.v, tied to the code by C09's correspondence).
    For EVERY interleaving of its events — INSERT commits, DELETE statements pinning their snapshot,
    taking the table lock and committing or failing, compactor passes locking, pinning, committing
    and unlocking — the table ends in the state of the SERIAL execution of the acknowledged
    statements, taken in the order of the ghost log: an INSERT at its commit, a DELETE at the point
    where its scan pinned its snapshot.  That order respects real time (a statement that starts
    after another was acknowledged comes after it). *)
Theorem every_interleaving_leaves_a_serial_state : forall es g, grun g_init es = Some g ->
  Permutation (disk_scan (c_tbl (g_s g))) (serial_run (g_log g)).
Proof. exact final_state_is_serial. Qed.
(** the ghost log restricts nothing and lists exactly the statements of the run, in their order *)
Theorem ghost_log_is_faithful : forall es,
  (forall s, run c_init es = Some s -> exists g, grun g_init es = Some g /\ g_s g = s) /\
  (forall g, grun g_init es = Some g -> run c_init es = Some (g_s g) /\ map erase (g_log g) = stmts_of es []).
Proof. exact ghost_log_faithful. Qed.
(** known finding KF_C10_concurrent_delete_double_count: the COUNTS reported by two overlapping
    DELETEs of the same row are not those of that (or any) serial execution; the content is *)
Theorem delete_counts_are_not_serial_refuted :
  exists es g, grun g_init es = Some g /\
    reported_counts (g_log g) = [(1, 1); (0, 1)] /\ serial_counts (g_log g) = [(1, 0); (0, 1)] /\
    disk_scan (c_tbl (g_s g)) = [] /\ serial_run (g_log g) = [].
Proof. exact delete_counts_not_serial. Qed.

(** non-vacuity: two sessions racing on one table; two different orders explain two different observations *)
Example hypotheses_hold :
  let ss := [[SCreate 1; SInsert 1 [1; 2]; SCount 1]; [SInsert 1 [3]; SDelete 1 [1; 3]]] in
  explains (fun l => l) ss [1; 0; 0; 1; 0] [[ROk 0; ROk 2; ROk 1]; [RErr; ROk 1]] [(1, [2])] = true /\
  explains (fun l => l) ss [0; 0; 1; 1; 0] [[ROk 0; ROk 2; ROk 1]; [ROk 1; ROk 2]] [(1, [2])] = true.
Proof. split; reflexivity. Qed.

Print Assumptions accepted_certificate_is_a_serial_explanation.
Print Assumptions statements_on_different_tables_commute.
Print Assumptions a_statement_touches_only_its_table.
Print Assumptions every_interleaving_leaves_a_serial_state.
Print Assumptions ghost_log_is_faithful.
Print Assumptions delete_counts_are_not_serial_refuted.
