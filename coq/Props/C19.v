(** * C19 — values of every type compare, hash and print coherently.
    Only statements, each closed by [exact], with its assumptions printed. *)
From RL Require Import Model.ValX Proofs.ValXP.
Open Scope Z_scope.

Theorem eq_reflexive : forall a, xeqb a a = true.
Proof. exact xeq_refl. Qed.
Theorem eq_symmetric : forall a b, xeqb a b = xeqb b a.
Proof. exact xeq_sym. Qed.
Theorem eq_transitive : forall a b c, xeqb a b = true -> xeqb b c = true -> xeqb a c = true.
Proof. exact xeq_trans. Qed.
Theorem cmp_reflexive : forall a, xcmp a a = Eq.
Proof. exact xcmp_refl. Qed.
Theorem cmp_antisymmetric : forall a b, xcmp b a = CompOpp (xcmp a b).
Proof. exact xcmp_antisym. Qed.
Theorem cmp_transitive : forall a b c o, xcmp a b = o -> xcmp b c = o -> xcmp a c = o.
Proof. exact xcmp_trans. Qed.
Theorem lt_iff_gt_reversed : forall a b, xcmp a b = Lt <-> xcmp b a = Gt.
Proof. exact xlt_gt. Qed.
Theorem equal_values_hash_alike : forall a b, xvalid a -> xvalid b -> xeqb a b = true -> xhash_key a = xhash_key b.
Proof. exact eq_implies_same_hash. Qed.
Theorem sql_less_than_is_the_order : forall a b, sql_lt a b = true <-> xcmp a b = Lt.
Proof. exact sql_lt_iff_cmp. Qed.
Theorem integers_print_and_parse_back : forall z, parse_int (print_int z) = Some z.
Proof. exact int_print_parse. Qed.
Theorem booleans_print_and_parse_back : forall b, parse_bool (print_bool b) = Some b.
Proof. exact bool_print_parse. Qed.

(** doubles: -0.0 = +0.0 and NaN = NaN although the bits differ (OrderedFloat), and they hash alike *)
Example double_zero_signs_equal : xeqb (XF64 0) (XF64 (2 ^ 63)) = true /\ xhash_key (XF64 0) = xhash_key (XF64 (2 ^ 63)).
Proof. split; reflexivity. Qed.

Print Assumptions eq_reflexive.
Print Assumptions eq_symmetric.
Print Assumptions eq_transitive.
Print Assumptions cmp_reflexive.
Print Assumptions cmp_antisymmetric.
Print Assumptions cmp_transitive.
Print Assumptions lt_iff_gt_reversed.
Print Assumptions equal_values_hash_alike.
Print Assumptions sql_less_than_is_the_order.
Print Assumptions integers_print_and_parse_back.
Print Assumptions booleans_print_and_parse_back.
