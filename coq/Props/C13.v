(** * C13 — a key-range scan returns exactly the rows in the range.
    Only statements, each closed by [exact], with its assumptions printed. *)
From RL Require Import Model.RangeScan Proofs.RangeP Model.RangeAnalysis Proofs.RangeAnalysisP.
From Coq Require Import Lia.
Open Scope Z_scope.

(** for a row-set whose scanned column 0 is the key, sorted (duplicates allowed): whatever the
    partition into blocks (only "the recorded first key of a block is the key of its first row"
    is used), whatever the batch sizes, whatever rows the delete vectors remove, and for all six
    bound kinds, the pushed-down scan = full scan followed by the predicate *)
Theorem range_scan_returns_exactly_the_range : forall blocks r keys deleted sizes,
  sorted keys -> blocks_ok blocks keys ->
  (start_rowid blocks r + fold_right Nat.add 0 sizes = length keys)%nat ->
  scan_rowset blocks r keys deleted sizes = spec_rowset r keys deleted.
Proof. exact range_scan_exact. Qed.

(** the position mask of one batch is the range predicate, row by row *)
Theorem batch_mask_is_pointwise : forall rg ks, sorted ks ->
  fst (batch_mask rg ks) = map (fun j => in_range rg (nth j ks 0)) (seq 0 (length ks)).
Proof. exact batch_mask_spec. Qed.

(** known finding KF_C13_key_not_first_scanned: on an UNSORTED scanned column 0 the position mask is
    not the predicate (keys 5, 1, 7 with range >= 3: the mask keeps 1) *)
Theorem mask_on_unsorted_column_refuted :
  fst (batch_mask (mk_range (BIn 3) BUnb) [5; 1; 7]) = [true; true; true] /\
  map (in_range (mk_range (BIn 3) BUnb)) [5; 1; 7] = [true; false; true].
Proof. split; reflexivity. Qed.

(** non-vacuity: a concrete sorted row-set with duplicates, two blocks *)
Example hypotheses_hold :
  sorted [1; 2; 2; 3; 5; 5; 8] /\ blocks_ok [(0%nat, 1); (4%nat, 5)] [1; 2; 2; 3; 5; 5; 8].
Proof.
  split.
  - intros i j H. cbn in H.
    do 7 (destruct i as [|i]; [do 7 (destruct j as [|j]; [cbn; lia|]); lia|]). lia.
  - repeat constructor; cbn; lia.
Qed.

(** from the WHERE condition to the range (planner/rules/range.rs: analyze_range and the side condition of
    filter-scan, which replaces the whole filter by the scan range): whenever a condition is pushed,
    the range denotes exactly the rows with an INT key on which the condition is TRUE *)
Theorem pushed_condition_and_range_agree : forall e k r, pushed e = Some (k, r) ->
  forall row z, row k = DI32 z -> rex_true e row = in_range r z.
Proof. exact pushed_range_is_exact. Qed.

Print Assumptions range_scan_returns_exactly_the_range.
Print Assumptions batch_mask_is_pointwise.
Print Assumptions mask_on_unsorted_column_refuted.
Print Assumptions pushed_condition_and_range_agree.
