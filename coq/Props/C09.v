(** * C09 — background compaction never loses or resurrects rows under concurrency.
    Only statements, each closed by [exact], with its assumptions printed. *)
From RL Require Import Model.Store Model.Conc Proofs.ConcP.
From Coq Require Import Permutation.

(** for EVERY interleaving of the events of the protocol on a table — INSERT commits, DELETE
    statements locating their rows in the snapshot of their start, taking the table lock and
    committing (or failing when a row-set they touched is gone), the compactor taking the lock,
    pinning + reading any selection of row-sets, committing the swap and unlocking —: the table
    holds exactly the rows of the acknowledged inserts that no acknowledged delete removed, each once *)
Theorem compaction_never_loses_or_resurrects_rows : forall es s, run c_init es = Some s ->
  Permutation (disk_scan (c_tbl s)) (expected s) /\ NoDup (disk_scan (c_tbl s)).
Proof. exact compaction_never_loses_or_resurrects. Qed.
(** the invariant behind it is kept by every single event *)
Theorem every_event_keeps_the_invariant : forall s e s', J s -> step s e = Some s' -> J s'.
Proof. exact step_J. Qed.

(** the protocol before repair f760cd6 (one snapshot pinned for the whole pass, before the table
    is locked): a DELETE acknowledged between the pin and the lock is undone by the compaction *)
Theorem pin_before_lock_refuted :
  exists s, run_with step_pin_before_lock c_init
    [EInsert [1; 2]; EInsert [3]; ECompPin (fun _ => true); EDelBegin 0 (Nat.eqb 1); EDelLock 0; EDelCommit 0;
     ECompLock; ECompCommit; ECompUnlock] = Some s /\
  c_acked s = [1] /\ disk_scan (c_tbl s) = [1; 2; 3].
Proof. eexists. split; [vm_compute; reflexivity|split; reflexivity]. Qed.
(** and with the repaired protocol the same schedule is impossible: the pin needs the lock *)
Theorem pin_needs_the_lock :
  run c_init [EInsert [1; 2]; EInsert [3]; ECompPin (fun _ => true)] = None.
Proof. reflexivity. Qed.
(** a DELETE that lost the race against a compaction of its table is not acknowledged *)
Theorem stale_delete_is_not_acknowledged :
  exists s, run c_init [EInsert [1; 2]; EInsert [3]; EDelBegin 0 (Nat.eqb 1); ECompLock; ECompPin (fun _ => true); ECompCommit; ECompUnlock;
                        EDelLock 0; EDelCommit 0] = Some s /\ c_acked s = [] /\ disk_scan (c_tbl s) = [1; 2; 3].
Proof. eexists. split; [vm_compute; reflexivity|split; reflexivity]. Qed.

Print Assumptions compaction_never_loses_or_resurrects_rows.
Print Assumptions every_event_keeps_the_invariant.
Print Assumptions pin_before_lock_refuted.
Print Assumptions stale_delete_is_not_acknowledged.
