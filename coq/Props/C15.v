(** * C15 — a failing statement reports an error, never a partial answer.
    Only statements, each closed by [exact], with its assumptions printed. *)
From RL Require Import Model.Pipe Proofs.PipeP.

(** for every plan (any tree of operator tasks, any item counts), every operator of it, every item
    index it reaches, and both fault kinds: the statement returns an error *)
Theorem injected_fault_makes_the_statement_fail : forall f p, hit_at (Some f) p 0 = true -> run true (Some f) p = OErr.
Proof. exact fault_propagates. Qed.
(** a fault that is never reached (the operator produces fewer items) changes nothing *)
Theorem unreached_fault_is_harmless : forall f p, hit_at f p 0 = false -> run true f p = OOk.
Proof. exact no_fault_no_error. Qed.
(** a failed INSERT / DELETE leaves the table unchanged: the transaction is only committed on success *)
Theorem failed_dml_leaves_the_table_unchanged : forall (T : Type) f p (commit : T -> T) t,
  hit_at (Some f) p 0 = true -> apply_stmt true (Some f) p commit t = (t, OErr).
Proof. exact @failed_dml_changes_nothing. Qed.
(** the protocol before the repair (no completion flag): a panic looked like the end of the input *)
Theorem panic_needs_the_completion_flag :
  run false (Some (mk_fault 0 1 FPanic)) (P 1 (PCons (P 3 PNil) PNil)) = OOk /\
  run true (Some (mk_fault 0 1 FPanic)) (P 1 (PCons (P 3 PNil) PNil)) = OErr.
Proof. exact panic_without_flag_refuted. Qed.

(** non-vacuity: a join plan (scan, filter, proj, scan, hashjoin, proj, order) with a fault in the second scan *)
Example hypotheses_hold :
  let p := P 1 (PCons (P 1 (PCons (P 1 (PCons (P 2 (PCons (P 2 (PCons (P 2 PNil) PNil)) PNil)) (PCons (P 1 PNil) PNil))) PNil)) PNil) in
  size p = 7 /\ hit_at (Some (mk_fault 3 0 FErr)) p 0 = true /\ hit_at (Some (mk_fault 3 1 FErr)) p 0 = false.
Proof. cbn zeta. repeat split. Qed.

Print Assumptions injected_fault_makes_the_statement_fail.
Print Assumptions unreached_fault_is_harmless.
Print Assumptions failed_dml_leaves_the_table_unchanged.
Print Assumptions panic_needs_the_completion_flag.
