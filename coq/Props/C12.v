(** * C12 — ORDER BY, LIMIT and OFFSET are honoured.
    Only statements, each closed by [exact], with its assumptions printed. *)
From RL Require Import Model.Exec Proofs.ExecP Proofs.MergeJoinP Proofs.MergeOrderP.
From RL Require Model.PlanSem Proofs.PlanOrderP.
From Coq Require Import Permutation Sorted.

(** ORDER BY returns a permutation of its input ... *)
Theorem order_is_permutation : forall ks rows, Permutation rows (sort_rows ks rows).
Proof. exact sort_rows_perm. Qed.
(** ... sorted on the keys: ascending or descending per key, NULL smallest (first ascending, last descending) *)
Theorem order_is_sorted : forall ks rows, StronglySorted (fun a b => row_le ks a b = true) (sort_rows ks rows).
Proof. exact sort_rows_sorted. Qed.
(** LIMIT n OFFSET m over ANY chunking of the input returns exactly rows m+1..m+n of the
    concatenated input (all remaining rows when LIMIT is absent) *)
Theorem limit_offset_exact : forall limit offset c,
  concat (x_limit limit offset c) =
  match limit with
  | Some n => firstn n (skipn offset (concat c))
  | None => skipn offset (concat c)
  end.
Proof. exact limit_spec. Qed.
(** top-N = the same slice of the full order *)
Theorem topn_is_slice_of_order : forall limit offset ks c,
  x_topn limit offset ks c = concat (x_limit limit offset [x_order ks c]).
Proof. exact topn_eq_limit_order. Qed.

(** which order a merge join passes on — the claim of the planner's order analysis (analyze_order), by which
    useless-order drops an ORDER BY: the INNER merge join over inputs sorted on their keys returns its rows sorted
    on the right key columns ... *)
Theorem inner_merge_join_is_sorted_on_the_right_keys : forall lk cols nl nr L R,
  (forall l, In l (concat L) -> length l = nl) ->
  sorted_on lk (concat L) -> sorted_on (map SCol cols) (concat R) ->
  sorted_on (rcols_keys nl cols) (x_mergejoin JInner lk (map SCol cols) nl nr L R).
Proof. exact mergejoin_inner_sorted_on_right_keys. Qed.
(** ... the LEFT OUTER one does not (repair 6f584fa: the analysis no longer says so): 1, NULL, 3 *)
Theorem left_outer_merge_join_is_not_sorted_on_the_right_keys :
  let L := [[ [DI32 1]; [DI32 2]; [DI32 3] ]] in let R := [[ [DI32 1]; [DI32 3] ]] in
  sorted_on [SCol 0] (concat L) /\ sorted_on [SCol 0] (concat R) /\
  x_mergejoin JLeft [SCol 0] [SCol 0] 1 1 L R = [[DI32 1; DI32 1]; [DI32 2; DNull]; [DI32 3; DI32 3]] /\
  ~ sorted_on (rcols_keys 1 [0%nat]) (x_mergejoin JLeft [SCol 0] [SCol 0] 1 1 L R).
Proof. exact mergejoin_left_not_sorted_on_right_keys. Qed.

(** the other claims of the order analysis, on the meaning of plans (Model/PlanSem.v, tied to the executors by C01's
    ground instances): (order keys c) and (topn l o keys c) are sorted on keys; filter and limit pass their child's
    order on; and useless-order — (order keys c) => c when c is ordered by keys — keeps the very sequence of rows *)
Import PlanSem PlanOrderP.
Theorem plan_order_is_sorted_on_its_keys : forall env k c cols rows ks,
  ppev env (Plan.N "order" [k; c]) = Some (MRel cols rows) -> keys_pat env k = Some ks -> sorted_by ks rows.
Proof. exact order_is_sorted_on_its_keys. Qed.
Theorem plan_topn_is_sorted_on_its_keys : forall env l o k c cols rows ks,
  ppev env (Plan.N "topn" [l; o; k; c]) = Some (MRel cols rows) -> keys_pat env k = Some ks -> sorted_by ks rows.
Proof. exact topn_is_sorted_on_its_keys. Qed.
Theorem plan_filter_keeps_the_order : forall env p c cols rows ks,
  ppev env (Plan.N "filter" [p; c]) = Some (MRel cols rows) ->
  (forall cols' rows', ppev env c = Some (MRel cols' rows') -> sorted_by ks rows') -> sorted_by ks rows.
Proof. exact filter_keeps_the_order. Qed.
Theorem plan_limit_keeps_the_order : forall env l o c cols rows ks,
  ppev env (Plan.N "limit" [l; o; c]) = Some (MRel cols rows) ->
  (forall cols' rows', ppev env c = Some (MRel cols' rows') -> sorted_by ks rows') -> sorted_by ks rows.
Proof. exact limit_keeps_the_order. Qed.
Theorem useless_order_keeps_the_sequence : forall env k c cols rows ks x,
  ppev env c = Some (MRel cols rows) -> keys_pat env k = Some ks -> sorted_by ks rows ->
  ppev env (Plan.N "order" [k; c]) = Some x -> x = MRel cols rows.
Proof. exact order_of_sorted_input_is_the_input. Qed.

Print Assumptions order_is_permutation.
Print Assumptions order_is_sorted.
Print Assumptions limit_offset_exact.
Print Assumptions topn_is_slice_of_order.
Print Assumptions inner_merge_join_is_sorted_on_the_right_keys.
Print Assumptions left_outer_merge_join_is_not_sorted_on_the_right_keys.
Print Assumptions plan_order_is_sorted_on_its_keys.
Print Assumptions plan_topn_is_sorted_on_its_keys.
Print Assumptions plan_filter_keeps_the_order.
Print Assumptions plan_limit_keeps_the_order.
Print Assumptions useless_order_keeps_the_sequence.
