(** * C12 — ORDER BY, LIMIT and OFFSET are honoured.
    Only statements, each closed by [exact], with its assumptions printed. *)
From RL Require Import Model.Exec Proofs.ExecP.
From Coq Require Import Permutation Sorted.

(** ORDER BY returns a permutation of its input ... *)
Theorem order_is_permutation : forall ks rows, Permutation rows (sort_rows ks rows).
Proof. exact sort_rows_perm. Qed.
(** ... sorted on the keys: ascending or descending per key, NULL smallest (first ascending, last descending) *)
Theorem order_is_sorted : forall ks rows, StronglySorted (fun a b => row_le ks a b = true) (sort_rows ks rows).
Proof. exact sort_rows_sorted. Qed.
(** LIMIT n OFFSET m over ANY chunking of the input returns exactly rows m+1..m+n of the
    concatenated input (all remaining rows when LIMIT is absent) *)
Theorem limit_offset_exact : forall limit offset c,
  concat (x_limit limit offset c) =
  match limit with
  | Some n => firstn n (skipn offset (concat c))
  | None => skipn offset (concat c)
  end.
Proof. exact limit_spec. Qed.
(** top-N = the same slice of the full order *)
Theorem topn_is_slice_of_order : forall limit offset ks c,
  x_topn limit offset ks c = concat (x_limit limit offset [x_order ks c]).
Proof. exact topn_eq_limit_order. Qed.

Print Assumptions order_is_permutation.
Print Assumptions order_is_sorted.
Print Assumptions limit_offset_exact.
Print Assumptions topn_is_slice_of_order.
