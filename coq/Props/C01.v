(** * C01 — optimisation never changes a query's answer.
    Only statements, each closed by [exact], with its assumptions printed.
    Gen/Rules.v, Gen/ExprObligations.v, Gen/PlanRules.v and Gen/PlanObligations.v are REGENERATED from /repo's rule sources on every run:
    a changed, added or removed expression rule changes the obligations that are re-proved here. *)
From RL Require Import Model.Rule Gen.Rules Gen.ExprObligations.
From RL Require Import Model.PlanSem Proofs.PlanSemP Gen.PlanRules Gen.PlanObligations Proofs.PlanRuleEx.

(** every expression rewrite rule of the optimiser for which the enumeration over
    {NULL, true, false, -1, 0, 1, 2} finds no counterexample is sound for ALL instantiations
    (unbounded integers, NULL, booleans), under its side conditions, modulo evaluation errors *)
Theorem unrefuted_expression_rules_are_sound : Forall sound sound_rules.
Proof. exact sound_rules_ok. Qed.
(** the others are unsound, each with a concrete instantiation (the known finding
    KF_C01_null_unsound_expr_rules lists them by name; a rule appearing here that is not listed
    there is reported as a new violation with the instantiation as replay) *)
Theorem remaining_expression_rules_are_refuted : Forall refuted refuted_rules.
Proof. exact refuted_rules_ok. Qed.

(** PLAN rules (Gen/PlanRules.v, regenerated from plan.rs on every run).  Under the bag semantics of
    Model/PlanSem.v — rows addressed by column name, an expression only reads the columns it mentions,
    a plan has a meaning only where it can be built — each of these rules (the cancel and merge
    rules, filter below ORDER BY, filters into inner / semi / anti / left outer joins, the right
    rotation of two inner joins, and the inner / semi / anti / left-outer instances of the
    join-condition pushdowns, and the swap of the inputs of an inner join under a projection) returns the same schema and the same bag of rows on both sides, for
    EVERY binding of its variables that satisfies its side conditions *)
Theorem modelled_plan_rules_are_sound : Forall psound psound_rules.
Proof. exact psound_rules_ok. Qed.
(** and each of them keeps a buildable plan buildable: whenever the left-hand side can be built (every
    expression mentions only columns of its input, join inputs have disjoint schemas), so can the
    right-hand side (C17's subject, here for the rewritten plan) *)
Theorem proved_plan_rewrites_keep_plans_buildable : Forall pbuildable psound_rules.
Proof. exact psound_rules_buildable. Qed.
(** the others are unsound, each with a concrete binding on which the two sides return different
    numbers of rows: a filter pushed below LIMIT / top-N (KF_C01_filter_below_limit) and a join
    condition pushed into the preserved side of an outer join (KF_C01_outer_join_condition_pushdown);
    a rule appearing here that no known finding lists is reported as a new violation *)
Theorem remaining_plan_rules_are_refuted : Forall prefuted prefuted_rules.
Proof. exact prefuted_rules_ok. Qed.
(** unsound as they are, these rewrites too keep a buildable plan buildable (what C17 needs of every rewrite) *)
Theorem refuted_plan_rewrites_keep_plans_buildable : Forall pbuildable prefuted_rules.
Proof. exact prefuted_rules_buildable. Qed.
(** the meaning of any pattern under a well-formed binding is a well-formed relation / expression *)
Theorem plan_meaning_is_well_formed : forall env, env_ok env -> forall e s, ppev env e = Some s -> wf_sem s.
Proof. exact ppev_wf. Qed.

Print Assumptions unrefuted_expression_rules_are_sound.
Print Assumptions remaining_expression_rules_are_refuted.
Print Assumptions modelled_plan_rules_are_sound.
Print Assumptions proved_plan_rewrites_keep_plans_buildable.
Print Assumptions remaining_plan_rules_are_refuted.
Print Assumptions refuted_plan_rewrites_keep_plans_buildable.
Print Assumptions plan_meaning_is_well_formed.
