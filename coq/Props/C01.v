(** * C01 — optimisation never changes a query's answer.
    Only statements, each closed by [exact], with its assumptions printed.
    Gen/Rules.v and Gen/ExprObligations.v are REGENERATED from /repo's rule sources on every run:
    a changed, added or removed expression rule changes the obligations that are re-proved here. *)
From RL Require Import Model.Rule Gen.Rules Gen.ExprObligations.

(** every expression rewrite rule of the optimiser for which the enumeration over
    {NULL, true, false, -1, 0, 1, 2} finds no counterexample is sound for ALL instantiations
    (unbounded integers, NULL, booleans), under its side conditions, modulo evaluation errors *)
Theorem unrefuted_expression_rules_are_sound : Forall sound sound_rules.
Proof. exact sound_rules_ok. Qed.
(** the others are unsound, each with a concrete instantiation (the known finding
    KF_C01_null_unsound_expr_rules lists them by name; a rule appearing here that is not listed
    there is reported as a new violation with the instantiation as replay) *)
Theorem remaining_expression_rules_are_refuted : Forall refuted refuted_rules.
Proof. exact refuted_rules_ok. Qed.

Print Assumptions unrefuted_expression_rules_are_sound.
Print Assumptions remaining_expression_rules_are_refuted.
