//! C19: compare / equality / hash / print / parse of DataValue, as the engine does them.
//! input : {"ty": "...", "vals": [v...]}   (values in the tagged JSON form; null allowed)
//! output: {"cmp": [[-1|0|1 ...] ...] (derived Ord), "eq": [[bool]], "hash": ["u64"...],
//!          "print": [string], "parse": [v | {"err":..}]}
use std::hash::{Hash, Hasher};

use risinglight::array::{ArrayBuilderImpl, ArrayImpl};
use risinglight::types::DataValue;
use serde_json::{Value, json};

use crate::util::*;

fn hash_of(v: &DataValue) -> u64 {
    let mut h = std::collections::hash_map::DefaultHasher::new();
    v.hash(&mut h);
    h.finish()
}

pub fn run(v: &Value) -> Value {
    let ty = parse_type(v["ty"].as_str().unwrap());
    let vals: Vec<DataValue> = v["vals"].as_array().unwrap().iter().map(json_to_val).collect();
    let n = vals.len();
    let mut cmp = vec![];
    let mut eq = vec![];
    for i in 0..n {
        let mut rc = vec![];
        let mut re = vec![];
        for j in 0..n {
            rc.push(match vals[i].cmp(&vals[j]) {
                std::cmp::Ordering::Less => -1,
                std::cmp::Ordering::Equal => 0,
                std::cmp::Ordering::Greater => 1,
            });
            re.push(vals[i] == vals[j]);
        }
        cmp.push(rc);
        eq.push(re);
    }
    let arr: ArrayImpl = {
        let mut b = ArrayBuilderImpl::with_capacity(n, &ty);
        for x in &vals {
            b.push(x);
        }
        b.finish()
    };
    let print: Vec<String> = (0..n).map(|i| arr.get_to_string(i)).collect();
    let parse: Vec<Value> = print
        .iter()
        .map(|s| {
            guard(std::panic::AssertUnwindSafe(|| {
                let mut b = ArrayBuilderImpl::with_capacity(1, &ty);
                match b.push_str(s) {
                    Ok(()) => json!({"ok": val_to_json(&b.finish().get(0))}),
                    Err(e) => json!({"err": errstr(e)}),
                }
            }))
        })
        .collect();
    json!({
        "cmp": cmp, "eq": eq,
        "hash": vals.iter().map(|x| hash_of(x).to_string()).collect::<Vec<_>>(),
        "print": print, "parse": parse
    })
}
