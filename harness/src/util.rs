use serde_json::{Value, json};

/// Run `f`, mapping a panic to `{"panic": msg}`.
pub fn guard<F: FnOnce() -> Value + std::panic::UnwindSafe>(f: F) -> Value {
    match std::panic::catch_unwind(f) {
        Ok(v) => v,
        Err(e) => {
            let msg = if let Some(s) = e.downcast_ref::<String>() {
                s.clone()
            } else if let Some(s) = e.downcast_ref::<&str>() {
                s.to_string()
            } else {
                "?".into()
            };
            json!({ "panic": msg })
        }
    }
}

pub fn rt() -> tokio::runtime::Runtime {
    tokio::runtime::Builder::new_current_thread()
        .enable_all()
        .build()
        .unwrap()
}

use risinglight::array::{ArrayBuilderImpl, ArrayImpl};
use risinglight::types::{DataType, DataValue, F64};

pub fn parse_type(s: &str) -> DataType {
    match s {
        "bool" => DataType::Bool,
        "i16" => DataType::Int16,
        "i32" => DataType::Int32,
        "i64" => DataType::Int64,
        "f64" => DataType::Float64,
        "str" => DataType::String,
        "blob" => DataType::Blob,
        "dec" => DataType::Decimal(None, None),
        "date" => DataType::Date,
        "ts" => DataType::Timestamp,
        "tstz" => DataType::TimestampTz,
        "iv" => DataType::Interval,
        "null" => DataType::Null,
        _ => panic!("type {s}"),
    }
}

/// JSON value -> DataValue: `null` or `[tag, payload]`.
pub fn json_to_val(v: &Value) -> DataValue {
    if v.is_null() {
        return DataValue::Null;
    }
    let tag = v[0].as_str().unwrap();
    let p = &v[1];
    match tag {
        "bool" => DataValue::Bool(p.as_bool().unwrap()),
        "i16" => DataValue::Int16(p.as_i64().unwrap() as i16),
        "i32" => DataValue::Int32(p.as_i64().unwrap() as i32),
        "i64" => DataValue::Int64(p.as_i64().unwrap()),
        "f64" => DataValue::Float64(F64::from(f64::from_bits(
            p.as_str().unwrap().parse::<u64>().unwrap(),
        ))),
        "str" => DataValue::String(p.as_str().unwrap().into()),
        "blob" => DataValue::Blob(
            p.as_array()
                .unwrap()
                .iter()
                .map(|b| b.as_u64().unwrap() as u8)
                .collect::<Vec<u8>>()
                .into(),
        ),
        "dec" => DataValue::Decimal(p.as_str().unwrap().parse().unwrap()),
        "date" => DataValue::Date(risinglight::types::Date::new(p.as_i64().unwrap() as i32)),
        "ts" => DataValue::Timestamp(risinglight::types::Timestamp::new(p.as_i64().unwrap())),
        "tstz" => DataValue::TimestampTz(risinglight::types::TimestampTz::new(p.as_i64().unwrap())),
        "iv" => {
            // [months, days, milliseconds]
            DataValue::Interval(risinglight::types::Interval::from_parts(
                p[0].as_i64().unwrap() as i32,
                p[1].as_i64().unwrap() as i32,
                p[2].as_i64().unwrap() as i32,
            ))
        }
        _ => panic!("tag {tag}"),
    }
}

pub fn val_to_json(v: &DataValue) -> Value {
    match v {
        DataValue::Null => Value::Null,
        DataValue::Bool(b) => json!(["bool", b]),
        DataValue::Int16(i) => json!(["i16", i]),
        DataValue::Int32(i) => json!(["i32", i]),
        DataValue::Int64(i) => json!(["i64", i]),
        DataValue::Float64(f) => json!(["f64", f.0.to_bits().to_string()]),
        DataValue::String(s) => json!(["str", s.as_ref()]),
        DataValue::Blob(b) => json!(["blob", b.as_ref().as_ref().to_vec()]),
        DataValue::Decimal(d) => json!(["dec", d.to_string()]),
        DataValue::Date(d) => json!(["date", d.get_inner()]),
        DataValue::Timestamp(d) => json!(["ts", d.get_inner()]),
        DataValue::TimestampTz(d) => json!(["tstz", d.get_inner()]),
        DataValue::Interval(i) => json!(["iv", [i.num_months(), i.days(), i.num_ms()]]),
        DataValue::Vector(_) => json!(["vec", v.to_string()]),
    }
}

pub fn json_to_array(ty: &DataType, vals: &Value) -> ArrayImpl {
    let vals = vals.as_array().unwrap();
    let mut b = ArrayBuilderImpl::with_capacity(vals.len(), ty);
    for v in vals {
        b.push(&json_to_val(v));
    }
    b.finish()
}

pub fn array_to_json(a: &ArrayImpl) -> Value {
    Value::Array((0..a.len()).map(|i| val_to_json(&a.get(i))).collect())
}

pub static LAST_PANIC_AT: std::sync::Mutex<String> = std::sync::Mutex::new(String::new());

pub fn panic_msg(e: Box<dyn std::any::Any + Send>) -> String {
    let at = LAST_PANIC_AT.lock().unwrap().clone();
    let m = panic_msg0(e);
    format!("{m} @ {at}")
}

fn panic_msg0(e: Box<dyn std::any::Any + Send>) -> String {
    if let Some(s) = e.downcast_ref::<String>() {
        s.clone()
    } else if let Some(s) = e.downcast_ref::<&str>() {
        s.to_string()
    } else {
        "?".into()
    }
}

/// first line of an error message (storage errors carry a backtrace)
pub fn errstr<E: std::fmt::Display>(e: E) -> String {
    let s = e.to_string();
    let l = s.lines().next().unwrap_or("").to_string();
    l.chars().take(160).collect()
}
