//! C18: corrupt a column / index file in memory and read it through Column::get_block
//! (same cache for repeated reads), ColumnIndex::from_bytes and the column iterator.
use risinglight::storage::verif::{self as sv, ReadOp, ReadOut};
use serde_json::{Value, json};

use crate::c06::spec_of;
use crate::util::*;

fn mutate(data: &[u8], m: &Value) -> Vec<u8> {
    let mut d = data.to_vec();
    match m["kind"].as_str().unwrap() {
        "flip" => {
            let k = m["bit"].as_u64().unwrap() as usize;
            if k / 8 < d.len() {
                d[k / 8] ^= 1 << (k % 8);
            }
        }
        "set" => {
            let p = m["pos"].as_u64().unwrap() as usize;
            for (i, v) in m["vals"].as_array().unwrap().iter().enumerate() {
                if p + i < d.len() {
                    d[p + i] = v.as_u64().unwrap() as u8;
                }
            }
        }
        "trunc" => d.truncate(m["len"].as_u64().unwrap() as usize),
        _ => panic!("mutation kind"),
    }
    d
}

pub fn run(v: &Value) -> Value {
    let spec = spec_of(v);
    let arrays: Vec<_> = v["arrays"]
        .as_array()
        .unwrap()
        .iter()
        .map(|a| json_to_array(&spec.data_type, a))
        .collect();
    let (index, data) = sv::build_column(&spec, &arrays);
    let idx = sv::build_index_file(spec.crc, &index);
    let nblocks = index.len();
    let rt = rt();
    let read_all = |idx: &[u8], data: &[u8]| -> Value {
        guard(std::panic::AssertUnwindSafe(|| {
            let ops = vec![ReadOp::Next(None); nblocks + 2];
            match rt.block_on(sv::read_column(&spec, idx, data, 0, &ops)) {
                Err(e) => json!({"err": errstr(e)}),
                Ok(outs) => {
                    let mut vals = vec![];
                    for o in outs {
                        if let ReadOut::Batch(Some((_, a)), _) = o {
                            vals.extend(array_to_json(&a).as_array().unwrap().clone());
                        }
                    }
                    json!({ "ok": vals })
                }
            }
        }))
    };
    let original = read_all(&idx, &data);
    let blocks_of = |idx: &[u8], data: &[u8]| -> Value {
        let mut out = vec![];
        for b in 0..nblocks {
            // a truncated in-memory file makes `Bytes::slice` panic: that is a failed read
            out.push(guard(std::panic::AssertUnwindSafe(|| {
                match rt.block_on(sv::get_block_repeated(idx, data, b as u32, 2)) {
                    Err(e) => json!({"err": errstr(e)}),
                    Ok(rs) => Value::Array(
                        rs.into_iter()
                            .map(|r| match r {
                                Ok(bytes) => json!({ "ok": bytes }),
                                Err(e) => json!({"err": errstr(e)}),
                            })
                            .collect(),
                    ),
                }
            })));
        }
        Value::Array(out)
    };
    let mut res = vec![];
    for m in v["muts"].as_array().unwrap() {
        let on_idx = m["file"].as_str() == Some("idx");
        let (i2, d2) = if on_idx {
            (mutate(&idx, m), data.clone())
        } else {
            (idx.clone(), mutate(&data, m))
        };
        let open = guard(std::panic::AssertUnwindSafe(|| match sv::parse_index_file(&i2) {
            Ok(ix) => json!({"ok": ix.len()}),
            Err(e) => json!({"err": errstr(e)}),
        }));
        let (read, blocks) = if open.get("ok").is_some() {
            (read_all(&i2, &d2), blocks_of(&i2, &d2))
        } else {
            (Value::Null, Value::Null)
        };
        res.push(json!({"open": open, "read": read, "blocks": blocks}));
    }
    json!({
        "index": index.iter().map(|i| json!([i.offset, i.length, i.row_count])).collect::<Vec<_>>(),
        "col": data, "idx": idx, "original": original, "res": res
    })
}

/// crc32fast as used by the engine, on raw bytes
pub fn crc(v: &Value) -> Value {
    let bytes: Vec<u8> = v.as_array().unwrap().iter().map(|b| b.as_u64().unwrap() as u8).collect();
    json!(sv::checksum(true, &bytes))
}
