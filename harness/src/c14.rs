//! C14: evaluate an expression over a chunk whose arrays have chosen raw content under NULL.
//! input : {"cols":[{"ty":"i32","valid":[..],"raw":[..]}..], "n": rows, "expr": "(+ #0 #1)"}
//! output: {"ok": {"ty":..,"valid":[..],"raw":[..]}} | {"err":..} | {"panic":..}
use bitvec::vec::BitVec;
use risinglight::array::*;
use risinglight::planner::RecExpr;
use serde_json::{Value, json};

use crate::util::*;

fn bitvec_of(v: &Value) -> BitVec {
    v.as_array().unwrap().iter().map(|b| b.as_bool().unwrap()).collect()
}

pub fn array_from_raw(c: &Value) -> ArrayImpl {
    let valid = bitvec_of(&c["valid"]);
    let raw = c["raw"].as_array().unwrap();
    match c["ty"].as_str().unwrap() {
        "bool" => ArrayImpl::new_bool(BoolArray::from_data(raw.iter().map(|x| x.as_bool().unwrap()), valid)),
        "i16" => ArrayImpl::new_int16(I16Array::from_data(raw.iter().map(|x| x.as_i64().unwrap() as i16), valid)),
        "i32" => ArrayImpl::new_int32(I32Array::from_data(raw.iter().map(|x| x.as_i64().unwrap() as i32), valid)),
        "i64" => ArrayImpl::new_int64(I64Array::from_data(raw.iter().map(|x| x.as_i64().unwrap()), valid)),
        "str" => ArrayImpl::new_string(StringArray::from_data(raw.iter().map(|x| x.as_str().unwrap().to_string()), valid)),
        t => panic!("type {t}"),
    }
}

pub fn array_to_raw(a: &ArrayImpl) -> Value {
    let valid: Vec<bool> = a.get_valid_bitmap().iter().by_vals().collect();
    let (ty, raw): (&str, Vec<Value>) = match a {
        ArrayImpl::Null(x) => ("null", (0..x.len()).map(|_| Value::Null).collect()),
        ArrayImpl::Bool(x) => ("bool", x.raw_iter().map(|v| json!(v)).collect()),
        ArrayImpl::Int16(x) => ("i16", x.raw_iter().map(|v| json!(v)).collect()),
        ArrayImpl::Int32(x) => ("i32", x.raw_iter().map(|v| json!(v)).collect()),
        ArrayImpl::Int64(x) => ("i64", x.raw_iter().map(|v| json!(v)).collect()),
        ArrayImpl::String(x) => ("str", x.raw_iter().map(|v| json!(v)).collect()),
        other => ("other", (0..other.len()).map(|i| json!(other.get(i).to_string())).collect()),
    };
    json!({"ty": ty, "valid": valid, "raw": raw})
}

pub fn run(v: &Value) -> Value {
    let cols: Vec<ArrayImpl> = v["cols"].as_array().unwrap().iter().map(array_from_raw).collect();
    let chunk: DataChunk = if cols.is_empty() {
        DataChunk::no_column(v["n"].as_u64().unwrap() as usize)
    } else {
        cols.into_iter().collect()
    };
    let expr: RecExpr = match v["expr"].as_str().unwrap().parse() {
        Ok(e) => e,
        Err(e) => return json!({"parse": errstr(e)}),
    };
    match risinglight::verif::eval_expr(&expr, &chunk) {
        Ok(a) => json!({"ok": array_to_raw(&a)}),
        Err(e) => json!({"err": errstr(e)}),
    }
}
