//! Build one row-set in memory and scan it (C13 key ranges, C07 delete vectors).
use std::ops::Bound;

use risinglight::array::DataChunk;
use risinglight::catalog::{ColumnCatalog, ColumnDesc};
use risinglight::storage::verif as sv;
use risinglight::storage::{KeyRange, StorageColumnRef};
use serde_json::{Value, json};

use crate::util::*;

fn bound(v: &Value) -> Bound<risinglight::types::DataValue> {
    if v.is_null() {
        return Bound::Unbounded;
    }
    let val = json_to_val(&v[1]);
    if v[0].as_str() == Some("in") {
        Bound::Included(val)
    } else {
        Bound::Excluded(val)
    }
}

pub fn run(v: &Value) -> Value {
    let cols = v["cols"].as_array().unwrap();
    let tys: Vec<_> = cols.iter().map(|c| parse_type(c["ty"].as_str().unwrap())).collect();
    let catalogs: Vec<ColumnCatalog> = cols
        .iter()
        .enumerate()
        .map(|(i, c)| {
            let mut d = ColumnDesc::new(
                format!("c{i}"),
                tys[i].clone(),
                c["nullable"].as_bool().unwrap_or(true),
            );
            if c["pk"].as_bool() == Some(true) {
                d.set_primary(true);
            }
            ColumnCatalog::new(i as u32, d)
        })
        .collect();
    let chunks: Vec<DataChunk> = v["chunks"]
        .as_array()
        .unwrap()
        .iter()
        .map(|ch| {
            ch.as_array()
                .unwrap()
                .iter()
                .enumerate()
                .map(|(i, col)| json_to_array(&tys[i], col))
                .collect()
        })
        .collect();
    let rt = rt();
    let built = match rt.block_on(sv::build_rowset(
        catalogs,
        v["block"].as_u64().unwrap() as usize,
        v["encode"].as_u64().unwrap_or(0) as u8,
        chunks,
    )) {
        Ok(b) => b,
        Err(e) => return json!({"err": errstr(e)}),
    };
    let key_blocks: Vec<Value> = built
        .key_blocks
        .iter()
        .map(|(f, n, k)| {
            let key = if k.len() == 4 {
                json!(i32::from_le_bytes([k[0], k[1], k[2], k[3]]))
            } else {
                json!(k)
            };
            json!([f, n, key])
        })
        .collect();
    let mut scans = vec![];
    for s in v["scans"].as_array().unwrap() {
        let col_refs: Vec<StorageColumnRef> = s["cols"]
            .as_array()
            .unwrap()
            .iter()
            .map(|c| match c.as_u64() {
                Some(i) => StorageColumnRef::Idx(i as u32),
                None => StorageColumnRef::RowHandler,
            })
            .collect();
        let dvs: Vec<Vec<u32>> = s["dvs"]
            .as_array()
            .map(|a| {
                a.iter()
                    .map(|d| d.as_array().unwrap().iter().map(|x| x.as_u64().unwrap() as u32).collect())
                    .collect()
            })
            .unwrap_or_default();
        let range = if s["range"].is_null() {
            None
        } else {
            Some(KeyRange {
                start: bound(&s["range"]["start"]),
                end: bound(&s["range"]["end"]),
            })
        };
        let size = s["size"].as_u64().map(|x| x as usize);
        let res = guard(std::panic::AssertUnwindSafe(|| {
            let start = rt.block_on(built.start_rowid(&range));
            match rt.block_on(built.scan(&col_refs, dvs.clone(), range.clone(), size)) {
                Err(e) => json!({"err": errstr(e)}),
                Ok(batches) => json!({
                    "start": start,
                    "batches": batches.iter().map(|b| json!({
                        "cols": b.arrays.iter().map(array_to_json).collect::<Vec<_>>(),
                        "vis": b.visibility,
                    })).collect::<Vec<_>>()
                }),
            }
        }));
        scans.push(res);
    }
    json!({"key_blocks": key_blocks, "scans": scans})
}
