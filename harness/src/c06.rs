//! C06: build one column with explicit options and read it back with an explicit request list.
use risinglight::storage::verif::{self as sv, ColumnSpec, ReadOp, ReadOut};
use serde_json::{Value, json};

use crate::util::*;

pub fn spec_of(v: &Value) -> ColumnSpec {
    ColumnSpec {
        data_type: parse_type(v["ty"].as_str().unwrap()),
        nullable: v["nullable"].as_bool().unwrap(),
        encode: v["encode"].as_u64().unwrap() as u8,
        block_size: v["block"].as_u64().unwrap() as usize,
        crc: v["crc"].as_bool().unwrap(),
        record_first_key: v["rfk"].as_bool().unwrap_or(false),
        char_width: v["cw"].as_u64(),
    }
}

pub fn run(v: &Value) -> Value {
    let spec = spec_of(v);
    let arrays: Vec<_> = v["arrays"]
        .as_array()
        .unwrap()
        .iter()
        .map(|a| json_to_array(&spec.data_type, a))
        .collect();
    let (index, data) = sv::build_column(&spec, &arrays);
    let index_file = sv::build_index_file(spec.crc, &index);
    let idx_json: Vec<Value> = index
        .iter()
        .map(|i| {
            json!([
                i.first_rowid,
                i.row_count,
                i.offset,
                i.length,
                i.first_key,
                i.is_first_key_null
            ])
        })
        .collect();
    let mut reads = vec![];
    for r in v["reads"].as_array().unwrap() {
        let start = r["start"].as_u64().unwrap() as u32;
        let ops: Vec<ReadOp> = r["ops"]
            .as_array()
            .unwrap()
            .iter()
            .map(|o| match o[0].as_str().unwrap() {
                "n" => ReadOp::Next(o[1].as_u64().map(|x| x as usize)),
                "s" => ReadOp::Skip(o[1].as_u64().unwrap() as usize),
                _ => ReadOp::Hint,
            })
            .collect();
        let res = guard(std::panic::AssertUnwindSafe(|| {
            let outs = rt().block_on(sv::read_column(&spec, &index_file, &data, start, &ops));
            match outs {
                Err(e) => json!({ "err": errstr(e) }),
                Ok(outs) => Value::Array(
                    outs.iter()
                        .map(|o| match o {
                            ReadOut::Batch(None, cur) => json!({"b": null, "cur": cur}),
                            ReadOut::Batch(Some((id, a)), cur) => {
                                json!({"b": [id, array_to_json(a)], "cur": cur})
                            }
                            ReadOut::Skipped(cur) => json!({ "s": cur }),
                            ReadOut::Hint(n, f) => json!({"h": [n, f]}),
                        })
                        .collect(),
                ),
            }
        }));
        reads.push(res);
    }
    json!({"index": idx_json, "data": data, "reads": reads})
}
