//! rlh — correspondence harness: runs the risinglight implementation on cases read from stdin
//! (one JSON value per line) and prints one JSON value per line.
mod c06;
mod c14;
mod c18;
mod c19;
mod plan;
mod rowset;
mod sql;
mod util;

use std::io::{BufRead, Write};

fn main() {
    let args: Vec<String> = std::env::args().collect();
    let cmd = args.get(1).map(|s| s.as_str()).unwrap_or("");
    let stdin = std::io::stdin();
    let stdout = std::io::stdout();
    let mut out = std::io::BufWriter::new(stdout.lock());
    // silence panic messages: panics are reported as values
    // silence panic messages (panics are reported as values) but remember where the last one happened
    std::panic::set_hook(Box::new(|info| {
        if let Some(l) = info.location() {
            *util::LAST_PANIC_AT.lock().unwrap() = format!("{}:{}", l.file(), l.line());
            if std::env::var("RLH_PANIC_LOG").is_ok() {
                eprintln!("PANIC at {}:{}: {}", l.file(), l.line(), info);
            }
        }
    }));
    for line in stdin.lock().lines() {
        let line = line.unwrap();
        if line.trim().is_empty() {
            continue;
        }
        let v: serde_json::Value = serde_json::from_str(&line).expect("bad json");
        let r = match cmd {
            "c06" => util::guard(|| c06::run(&v)),
            "c14" => util::guard(|| c14::run(&v)),
            "c18" => util::guard(|| c18::run(&v)),
            "c19" => util::guard(|| c19::run(&v)),
            "rowset" => util::guard(|| rowset::run(&v)),
            "crc" => util::guard(|| c18::crc(&v)),
            "sql" => util::guard(|| sql::run(&v)),
            "rules" => util::guard(|| {
                serde_json::Value::Array(
                    risinglight::verif::rule_inventory()
                        .into_iter()
                        .map(|(stage, name, lhs, rhs)| serde_json::json!({"stage": stage, "name": name, "lhs": lhs, "rhs": rhs}))
                        .collect(),
                )
            }),
            _ => panic!("unknown command {cmd}"),
        };
        writeln!(out, "{}", r).unwrap();
    }
    out.flush().unwrap();
}
