//! JSON -> RecExpr: ["op", child...] | {"t": table_id} | {"c": [table_id, column_id]} | "leaf"
//! (user tables live in schema 1, which the textual form of a plan cannot name)
use egg::{FromOp, Id};
use risinglight::catalog::{ColumnRefId, TableRefId};
use risinglight::planner::{Expr, RecExpr};
use serde_json::Value;

pub fn build(v: &Value, out: &mut RecExpr) -> Result<Id, String> {
    if let Some(s) = v.as_str() {
        let node = Expr::from_op(s, vec![]).map_err(|e| format!("leaf {s}: {e}"))?;
        return Ok(out.add(node));
    }
    if let Some(o) = v.as_object() {
        if let Some(t) = o.get("t") {
            return Ok(out.add(Expr::Table(TableRefId::new(1, t.as_u64().unwrap() as _))));
        }
        if let Some(c) = o.get("c") {
            return Ok(out.add(Expr::Column(ColumnRefId::new(
                1,
                c[0].as_u64().unwrap() as _,
                0,
                c[1].as_u64().unwrap() as _,
            ))));
        }
        return Err("bad leaf object".into());
    }
    let a = v.as_array().ok_or("bad node")?;
    let op = a[0].as_str().ok_or("op must be a string")?;
    let mut ids = vec![];
    for c in &a[1..] {
        ids.push(build(c, out)?);
    }
    let node = Expr::from_op(op, ids).map_err(|e| format!("node {op}: {e}"))?;
    Ok(out.add(node))
}

pub fn parse(v: &Value) -> Result<RecExpr, String> {
    let mut e = RecExpr::default();
    build(v, &mut e)?;
    Ok(e)
}
