//! Run a script of SQL statements (and engine events) against a fresh database.
//!
//! input : {"engine":"mem"|"disk", "block":N?, "rowset":N?, "crc":bool?, "steps":[step...]}
//! step  : {"sql": "..."} | {"reopen": true} | {"sleep_ms": N}   (time is paused: a sleep of
//!         >= 1000 ms lets the background compactor and vacuum run exactly one pass each)
//!         | {"corrupt": {...}}  (see c18)
//! output: [ {"ok": [[[cell..]..]..] (per statement result: rows), "chunks":[..]} | {"err": msg} | {"panic": msg} ... ]
use std::path::Path;

use risinglight::Database;
use risinglight::storage::SecondaryStorageOptions;
use serde_json::{Value, json};

use crate::util::*;

pub fn options(v: &Value, path: &Path) -> SecondaryStorageOptions {
    let mut o = SecondaryStorageOptions::default_for_cli();
    o.path = path.to_path_buf();
    if let Some(b) = v["block"].as_u64() {
        o.target_block_size = b as usize;
    }
    if let Some(b) = v["rowset"].as_u64() {
        o.target_rowset_size = b as usize;
    }
    if let Some(c) = v["crc"].as_bool() {
        o.checksum_type = if c {
            risinglight_proto::rowset::block_checksum::ChecksumType::Crc32
        } else {
            risinglight_proto::rowset::block_checksum::ChecksumType::None
        };
    }
    if let Some(c) = v["cache"].as_u64() {
        o.cache_size = c as usize;
    }
    o
}

pub fn array_kind(a: &risinglight::array::ArrayImpl) -> &'static str {
    use risinglight::array::ArrayImpl::*;
    match a {
        Null(_) => "Null",
        Bool(_) => "Bool",
        Int16(_) => "Int16",
        Int32(_) => "Int32",
        Int64(_) => "Int64",
        Float64(_) => "Float64",
        String(_) => "String",
        Blob(_) => "Blob",
        Vector(_) => "Vector",
        Decimal(_) => "Decimal",
        Date(_) => "Date",
        Timestamp(_) => "Timestamp",
        TimestampTz(_) => "TimestampTz",
        Interval(_) => "Interval",
    }
}

pub fn chunks_to_json(chunks: &[risinglight::array::Chunk]) -> Value {
    let mut results = vec![];
    for c in chunks {
        let mut rows = vec![];
        let mut sizes = vec![];
        for dc in c.data_chunks() {
            sizes.push(dc.cardinality());
            for r in dc.rows() {
                rows.push(Value::Array(r.values().map(|v| val_to_json(&v)).collect()));
            }
        }
        results.push(json!({"rows": rows, "chunks": sizes}));
    }
    Value::Array(results)
}

pub async fn open(v: &Value, dir: &Path) -> Database {
    if v["engine"].as_str() == Some("disk") {
        Database::new_on_disk(options(v, dir)).await
    } else {
        Database::new_in_memory()
    }
}

/// atomic mode: let the background tasks that just became runnable start, then wait for the
/// compaction they may be running
async fn settle(db: &Database) {
    for _ in 0..4 {
        tokio::task::yield_now().await;
    }
    db.verif_quiesce().await;
}

/// Let the other tasks run until nothing seems to happen any more: no task finishes a schedule point
/// or file operation for `idle_ms` of real time (bounded by `max_ms`).  Used with the gate: a task is
/// then either parked at a point, blocked on a lock, or done.
async fn quiet(idle_ms: u64, max_ms: u64) {
    let t0 = std::time::Instant::now();
    let mut last = std::time::Instant::now();
    let mut seen = risinglight::verif::sched::parked().len();
    loop {
        for _ in 0..64 {
            tokio::task::yield_now().await;
        }
        let now = risinglight::verif::sched::parked().len();
        if now != seen {
            seen = now;
            last = std::time::Instant::now();
        }
        if last.elapsed().as_millis() as u64 >= idle_ms || t0.elapsed().as_millis() as u64 >= max_ms {
            return;
        }
        std::thread::sleep(std::time::Duration::from_millis(1));
    }
}

pub fn run(v: &Value) -> Value {
    risinglight::planner::verif_set_disabled_rules(vec![]);
    // "dir": run on this (existing or new) directory and leave it in place; default: a temp dir
    let dir = tempfile::tempdir().unwrap();
    let path = match v["dir"].as_str() {
        Some(d) => std::path::PathBuf::from(d),
        None => dir.path().join("db"),
    };
    // "threads": n runs on a multi-threaded runtime with the real clock (C10's soak); default: one
    // thread and a paused clock
    let rt = match v["threads"].as_u64() {
        Some(n) => tokio::runtime::Builder::new_multi_thread().worker_threads(n as usize).enable_all().build().unwrap(),
        None => tokio::runtime::Builder::new_current_thread().enable_all().start_paused(true).build().unwrap(),
    };
    rt.block_on(async {
        let mut outs = vec![];
        // readers held open across steps (C08): name -> (transaction, iterator)
        let mut readers: std::collections::HashMap<
            String,
            (
                risinglight::storage::verif::SecondaryTransaction,
                Option<risinglight::storage::verif::SecondaryTableTxnIterator>,
                usize,
            ),
        > = Default::default();
        // statements running as their own tasks (C09 / C10): name -> join handle
        let mut pending: std::collections::HashMap<String, tokio::task::JoinHandle<Value>> = Default::default();
        // "atomic": true keeps the (paused) clock from auto-advancing while a statement waits for
        // file I/O, so that the background compactor / vacuum only run inside `sleep_ms` steps
        // (and once when the database is opened): a task that keeps the runtime busy.
        let atomic = v["atomic"].as_bool() == Some(true);
        let busy = std::sync::Arc::new(std::sync::atomic::AtomicBool::new(atomic));
        let wake = std::sync::Arc::new(tokio::sync::Notify::new());
        if atomic {
            let (busy, wake) = (busy.clone(), wake.clone());
            tokio::spawn(async move {
                loop {
                    if busy.load(std::sync::atomic::Ordering::SeqCst) {
                        tokio::task::yield_now().await;
                    } else {
                        wake.notified().await;
                    }
                }
            });
        }
        // "markers": true makes every step visible in a system-call trace: a failing open of
        // /__rlh_marker__/<i>_begin and <i>_end brackets step i
        let markers = v["markers"].as_bool() == Some(true);
        let mark = |s: String| {
            if markers {
                let _ = std::fs::File::open(format!("/__rlh_marker__/{s}"));
            }
        };
        mark("open_begin".into());
        let mut db = Some(std::sync::Arc::new(open(v, &path).await));
        if atomic {
            settle(db.as_ref().unwrap()).await;
        }
        mark("open_end".into());
        let mut step_no = 0usize;
        for step in v["steps"].as_array().unwrap() {
            if step_no > 0 {
                mark(format!("{}_end", step_no - 1));
            }
            mark(format!("{step_no}_begin"));
            step_no += 1;
            if atomic {
                // (shutdown waits for the background tasks, which only notice it when their timer fires)
                let sleeping = step.get("sleep_ms").is_some()
                    || step.get("reopen").is_some()
                    || step.get("shutdown").is_some();
                busy.store(!sleeping, std::sync::atomic::Ordering::SeqCst);
                wake.notify_one();
            }
            if let Some(sql) = step["sql"].as_str() {
                let Some(dbr) = db.as_ref() else {
                    outs.push(json!({"err": "database is closed"}));
                    continue;
                };
                let fut = dbr.run(sql);
                let r = std::panic::AssertUnwindSafe(fut);
                let r = futures::FutureExt::catch_unwind(r).await;
                outs.push(match r {
                    Ok(Ok(chunks)) => json!({"ok": chunks_to_json(&chunks)}),
                    Ok(Err(e)) => json!({"err": errstr(e)}),
                    Err(p) => json!({"panic": panic_msg(p)}),
                });
            } else if step["reopen"].as_bool() == Some(true) {
                let d = db.take().unwrap();
                let r = d.shutdown().await;
                drop(d);
                busy.store(atomic, std::sync::atomic::Ordering::SeqCst);
                wake.notify_one();
                let fut = std::panic::AssertUnwindSafe(open(v, &path));
                match futures::FutureExt::catch_unwind(fut).await {
                    Ok(d) => {
                        if atomic {
                            settle(&d).await;
                        }
                        db = Some(std::sync::Arc::new(d));
                        outs.push(json!({"reopened": r.is_ok()}));
                    }
                    Err(p) => {
                        outs.push(json!({"panic": panic_msg(p), "at": "reopen"}));
                        break;
                    }
                }
            } else if let Some(plan) = step.get("plan") {
                // run a hand-written physical plan (JSON tree, see plan.rs) through executor::build
                let Some(dbr) = db.as_ref() else {
                    outs.push(json!({"err": "database is closed"}));
                    continue;
                };
                let parsed = match crate::plan::parse(plan) {
                    Ok(p) => p,
                    Err(e) => {
                        outs.push(json!({"parse": e}));
                        continue;
                    }
                };
                let fut = std::panic::AssertUnwindSafe(dbr.verif_run_plan(&parsed));
                outs.push(match futures::FutureExt::catch_unwind(fut).await {
                    Ok(Ok(chunks)) => {
                        let c = risinglight::array::Chunk::new(chunks);
                        json!({"ok": chunks_to_json(std::slice::from_ref(&c))})
                    }
                    Ok(Err(e)) => json!({"err": errstr(e)}),
                    Err(p) => json!({"panic": panic_msg(p)}),
                });
            } else if let Some(names) = step["disable_rules"].as_array() {
                // leave these rewrite rules out of the optimiser from now on (empty list = all rules again)
                let v: Vec<String> = names.iter().filter_map(|x| x.as_str().map(String::from)).collect();
                let n = v.len();
                risinglight::planner::verif_set_disabled_rules(v);
                outs.push(json!({"disabled": n}));
            } else if let Some(q) = step["explain"].as_str() {
                let Some(dbr) = db.as_ref() else {
                    outs.push(json!({"err": "database is closed"}));
                    continue;
                };
                let opt = step["optimize"].as_bool().unwrap_or(true);
                let fut = std::panic::AssertUnwindSafe(dbr.verif_plan(q, opt));
                outs.push(match futures::FutureExt::catch_unwind(fut).await {
                    Ok(Ok(p)) => json!({"plan": p.to_string()}),
                    Ok(Err(e)) => json!({"err": errstr(e)}),
                    Err(p) => json!({"panic": panic_msg(p)}),
                });
            } else if step["shutdown"].as_bool() == Some(true) {
                if let Some(d) = db.take() {
                    let r = d.shutdown().await;
                    outs.push(json!({"shutdown": r.is_ok()}));
                }
            } else if step["open"].as_bool() == Some(true) {
                let fut = std::panic::AssertUnwindSafe(open(v, &path));
                match futures::FutureExt::catch_unwind(fut).await {
                    Ok(d) => {
                        db = Some(std::sync::Arc::new(d));
                        outs.push(json!({"opened": true}));
                    }
                    Err(p) => {
                        outs.push(json!({"panic": panic_msg(p), "at": "open"}));
                        break;
                    }
                }
            } else if let Some(f) = step.get("flip") {
                // flip one bit of a file of the database directory
                let file = path.join(f["path"].as_str().unwrap());
                let mut data = std::fs::read(&file).unwrap();
                let k = f["bit"].as_u64().unwrap() as usize % (data.len() * 8).max(1);
                data[k / 8] ^= 1 << (k % 8);
                std::fs::write(&file, &data).unwrap();
                outs.push(json!({"flipped": k, "len": data.len()}));
            } else if let Some(f) = step.get("overwrite") {
                let file = path.join(f["path"].as_str().unwrap());
                let mut data = std::fs::read(&file).unwrap();
                let p = f["pos"].as_u64().unwrap() as usize;
                for (i, b) in f["vals"].as_array().unwrap().iter().enumerate() {
                    if p + i < data.len() {
                        data[p + i] = b.as_u64().unwrap() as u8;
                    }
                }
                std::fs::write(&file, &data).unwrap();
                outs.push(json!({"overwritten": p, "len": data.len()}));
            } else if let Some(f) = step.get("truncate") {
                let file = path.join(f["path"].as_str().unwrap());
                let data = std::fs::read(&file).unwrap();
                let n = (f["len"].as_u64().unwrap() as usize).min(data.len());
                std::fs::write(&file, &data[..n]).unwrap();
                outs.push(json!({"truncated": n, "was": data.len()}));
            } else if let Some(ms) = step["sleep_ms"].as_u64() {
                tokio::time::sleep(std::time::Duration::from_millis(ms)).await;
                if atomic {
                    busy.store(true, std::sync::atomic::Ordering::SeqCst);
                    wake.notify_one();
                    if let Some(d) = db.as_ref() {
                        settle(d).await;
                    }
                }
                outs.push(json!({"slept": ms}));
            } else if let Some(ss) = step["sessions"].as_array() {
                // several sessions issue their statements concurrently on the one database
                let Some(dbr) = db.as_ref() else {
                    outs.push(json!({"err": "database is closed"}));
                    continue;
                };
                let mut handles = vec![];
                for sess in ss {
                    let d = dbr.clone();
                    let stmts: Vec<String> = sess.as_array().map(|a| a.iter().filter_map(|x| x.as_str().map(String::from)).collect()).unwrap_or_default();
                    handles.push(tokio::spawn(async move {
                        let mut res = vec![];
                        for sql in stmts {
                            let fut = std::panic::AssertUnwindSafe(d.run(&sql));
                            res.push(match futures::FutureExt::catch_unwind(fut).await {
                                Ok(Ok(chunks)) => json!({"ok": chunks_to_json(&chunks)}),
                                Ok(Err(e)) => json!({"err": errstr(e)}),
                                Err(p) => json!({"panic": panic_msg(p)}),
                            });
                            tokio::task::yield_now().await;
                        }
                        Value::Array(res)
                    }));
                }
                // "compactor_ticks": n lets the background compactor / vacuum run n passes WHILE the sessions run
                // (paused clock: the clock is advanced by a helper task)
                let ticks = step["compactor_ticks"].as_u64().unwrap_or(0);
                let ticker = if ticks > 0 && atomic {
                    Some(tokio::spawn(async move {
                        for _ in 0..ticks {
                            for _ in 0..8 {
                                tokio::task::yield_now().await;
                            }
                            tokio::time::advance(std::time::Duration::from_millis(1000)).await;
                        }
                    }))
                } else {
                    None
                };
                let t0 = std::time::Instant::now();
                let limit = step["timeout_ms"].as_u64().unwrap_or(20000) as u128;
                while !handles.iter().all(|h| h.is_finished()) && t0.elapsed().as_millis() < limit {
                    tokio::task::yield_now().await;
                    if !atomic {
                        tokio::time::sleep(std::time::Duration::from_millis(1)).await;
                    }
                }
                let mut all = vec![];
                for h in handles {
                    if h.is_finished() {
                        all.push(h.await.unwrap_or_else(|e| json!({"panic": format!("task: {e}")})));
                    } else {
                        h.abort();
                        all.push(json!({"deadlock": true}));
                    }
                }
                if let Some(t) = ticker {
                    t.abort();
                }
                if atomic {
                    if let Some(d) = db.as_ref() {
                        settle(d).await;
                    }
                }
                outs.push(json!({"sessions": all}));
            } else if let Some(g) = step.get("gate") {
                // hold background tasks at the schedule points with these name prefixes
                let prefixes = g.as_array().map(|a| a.iter().filter_map(|x| x.as_str().map(String::from)).collect()).unwrap_or_default();
                risinglight::verif::sched::enable(prefixes);
                outs.push(json!({"gated": true}));
            } else if step["ungate"].as_bool() == Some(true) {
                let log = risinglight::verif::sched::disable();
                quiet(40, 2000).await;
                outs.push(json!({"arrivals": log}));
            } else if let Some(ms) = step["tick"].as_u64() {
                // advance the clock (background timers fire) without waiting for the background tasks to finish
                busy.store(false, std::sync::atomic::Ordering::SeqCst);
                wake.notify_one();
                tokio::time::sleep(std::time::Duration::from_millis(ms)).await;
                busy.store(atomic, std::sync::atomic::Ordering::SeqCst);
                wake.notify_one();
                {
                    let t0 = std::time::Instant::now();
                    while risinglight::verif::sched::parked().is_empty() && t0.elapsed().as_millis() < 3000 {
                        for _ in 0..64 {
                            tokio::task::yield_now().await;
                        }
                        std::thread::sleep(std::time::Duration::from_millis(1));
                    }
                }
                outs.push(json!({"parked": risinglight::verif::sched::parked().iter().map(|(_, n)| n.clone()).collect::<Vec<_>>()}));
            } else if let Some(prefix) = step["release"].as_str() {
                let r = risinglight::verif::sched::release(prefix);
                // the released task runs on to its next schedule point (every compactor pass ends at
                // "compactor.pass_end"): wait until it is parked again
                if r.as_deref().is_some_and(|n| !n.ends_with("pass_end")) {
                    let t0 = std::time::Instant::now();
                    while risinglight::verif::sched::parked().is_empty() && t0.elapsed().as_millis() < 8000 {
                        for _ in 0..64 {
                            tokio::task::yield_now().await;
                        }
                        std::thread::sleep(std::time::Duration::from_millis(1));
                    }
                } else {
                    quiet(40, 2000).await;
                }
                outs.push(json!({"released": r, "parked": risinglight::verif::sched::parked().iter().map(|(_, n)| n.clone()).collect::<Vec<_>>()}));
            } else if let Some(sp) = step.get("spawn") {
                // start a statement as its own task; it is joined by a later step
                let (Some(dbr), Some(name), Some(sql)) = (db.as_ref(), sp["name"].as_str(), sp["sql"].as_str()) else {
                    outs.push(json!({"err": "spawn: bad arguments"}));
                    continue;
                };
                let d = dbr.clone();
                let sql = sql.to_string();
                let h = tokio::spawn(async move {
                    let fut = std::panic::AssertUnwindSafe(d.run(&sql));
                    match futures::FutureExt::catch_unwind(fut).await {
                        Ok(Ok(chunks)) => json!({"ok": chunks_to_json(&chunks)}),
                        Ok(Err(e)) => json!({"err": errstr(e)}),
                        Err(p) => json!({"panic": panic_msg(p)}),
                    }
                });
                pending.insert(name.to_string(), h);
                // wait until the statement has finished, or nothing has moved for idle_ms (it is blocked)
                {
                    let t0 = std::time::Instant::now();
                    let idle = step["idle_ms"].as_u64().unwrap_or(40);
                    let max = step["wait_ms"].as_u64().unwrap_or(1500);
                    while !pending.get(name).map(|h| h.is_finished()).unwrap_or(true) && (t0.elapsed().as_millis() as u64) < idle.min(max) {
                        for _ in 0..64 {
                            tokio::task::yield_now().await;
                        }
                        std::thread::sleep(std::time::Duration::from_millis(1));
                    }
                }
                let done = pending.get(name).map(|h| h.is_finished()).unwrap_or(false);
                outs.push(json!({"spawned": name, "finished": done}));
            } else if let Some(name) = step["join"].as_str() {
                match pending.remove(name) {
                    Some(h) => {
                        // wait (in real time) for the statement; a statement that does not finish stays pending
                        let t0 = std::time::Instant::now();
                        let limit = step["timeout_ms"].as_u64().unwrap_or(5000) as u128;
                        while !h.is_finished() && t0.elapsed().as_millis() < limit {
                            tokio::task::yield_now().await;
                        }
                        if h.is_finished() {
                            outs.push(match h.await {
                                Ok(v) => v,
                                Err(e) => json!({"panic": format!("task: {e}")}),
                            });
                        } else {
                            pending.insert(name.to_string(), h);
                            outs.push(json!({"pending": true}));
                        }
                    }
                    None => outs.push(json!({"err": "no such statement"})),
                }
            } else if let Some(r) = step.get("reader_open") {
                // open a scan on a table of the disk engine and keep it (pins a version)
                use risinglight::storage::{ScanOptions, Storage, StorageColumnRef, Table, Transaction};
                let (Some(dbr), Some(name), Some(table)) = (db.as_ref(), r["name"].as_str(), r["table"].as_u64()) else {
                    outs.push(json!({"err": "reader_open: bad arguments"}));
                    continue;
                };
                let Some(st) = dbr.verif_secondary() else {
                    outs.push(json!({"err": "not a disk database"}));
                    continue;
                };
                let tid = risinglight::catalog::TableRefId::new(1, table as u32);
                // "defer_scan": true only starts the transaction (pins the version); the scan is opened by a later reader_scan step
                let defer = r["defer_scan"].as_bool() == Some(true);
                let res = async {
                    let t = st.get_table(tid)?;
                    let ncols = t.columns()?.len();
                    let txn = t.read().await?;
                    let it = if defer {
                        None
                    } else {
                        let cols: Vec<StorageColumnRef> = (0..ncols).map(|i| StorageColumnRef::Idx(i as u32)).collect();
                        Some(txn.scan(&cols, ScanOptions::default()).await?)
                    };
                    Ok::<_, risinglight::storage::TracedStorageError>((txn, it, ncols))
                }
                .await;
                match res {
                    Ok(p) => {
                        readers.insert(name.to_string(), p);
                        outs.push(json!({"reader": name}));
                    }
                    Err(e) => outs.push(json!({"err": errstr(e)})),
                }
            } else if let Some(name) = step["reader_scan"].as_str() {
                use risinglight::storage::{ScanOptions, StorageColumnRef, Transaction};
                match readers.get_mut(name) {
                    Some((txn, it, ncols)) => {
                        let cols: Vec<StorageColumnRef> = (0..*ncols).map(|i| StorageColumnRef::Idx(i as u32)).collect();
                        let fut = std::panic::AssertUnwindSafe(txn.scan(&cols, ScanOptions::default()));
                        match futures::FutureExt::catch_unwind(fut).await {
                            Ok(Ok(i)) => {
                                *it = Some(i);
                                outs.push(json!({"scan": name}));
                            }
                            Ok(Err(e)) => outs.push(json!({"err": errstr(e)})),
                            Err(p) => outs.push(json!({"panic": panic_msg(p)})),
                        }
                    }
                    None => outs.push(json!({"err": "no such reader"})),
                }
            } else if let Some(name) = step["reader_next"].as_str() {
                use risinglight::storage::TxnIterator;
                match readers.get_mut(name) {
                    Some((_, Some(it), _)) => {
                        let fut = std::panic::AssertUnwindSafe(it.next_batch(step["size"].as_u64().map(|x| x as usize)));
                        match futures::FutureExt::catch_unwind(fut).await {
                            Ok(Ok(Some(chunk))) => {
                                let rows: Vec<Value> = chunk.rows().map(|r| Value::Array(r.values().map(|v| val_to_json(&v)).collect())).collect();
                                outs.push(json!({"batch": rows}));
                            }
                            Ok(Ok(None)) => outs.push(json!({"batch": null})),
                            Ok(Err(e)) => outs.push(json!({"err": errstr(e)})),
                            Err(p) => outs.push(json!({"panic": panic_msg(p)})),
                        }
                    }
                    Some((_, None, _)) => outs.push(json!({"err": "scan not opened"})),
                    None => outs.push(json!({"err": "no such reader"})),
                }
            } else if let Some(name) = step["reader_close"].as_str() {
                use risinglight::storage::Transaction;
                match readers.remove(name) {
                    Some((txn, it, _)) => {
                        drop(it);
                        let r = txn.abort().await;
                        outs.push(json!({"closed": r.is_ok()}));
                    }
                    None => outs.push(json!({"err": "no such reader"})),
                }
            } else if step["version"].as_bool() == Some(true) {
                // the version manager's bookkeeping (after letting background tasks settle)
                let Some(dbr) = db.as_ref() else {
                    outs.push(json!({"err": "database is closed"}));
                    continue;
                };
                if atomic {
                    settle(dbr).await;
                }
                match dbr.verif_secondary() {
                    Some(st) => {
                        let v = st.verif_version_state();
                        outs.push(json!({"version": {"epoch": v.epoch, "status": v.status, "ref_cnt": v.ref_cnt,
                                                     "pending": v.pending_deletions, "pool": v.pool}, "ls": list_dir(&path)}));
                    }
                    None => outs.push(json!({"err": "not a disk database"})),
                }
            } else if let Some(f) = step.get("fault") {
                // run a statement with a fault armed at (operator index, item index), or just observe the operators
                let Some(dbr) = db.as_ref() else {
                    outs.push(json!({"err": "database is closed"}));
                    continue;
                };
                let sql = f["sql"].as_str().unwrap_or("");
                let armed = f["op"].as_u64().map(|o| (o as usize, f["chunk"].as_u64().unwrap_or(0) as usize, f["panic"].as_bool() == Some(true)));
                risinglight::verif::fault::begin(armed);
                let fut = std::panic::AssertUnwindSafe(dbr.run(sql));
                let r = futures::FutureExt::catch_unwind(fut).await;
                let (ops, hit) = risinglight::verif::fault::end();
                let ops: Vec<Value> = ops.iter().map(|(n, c)| json!([n, c])).collect();
                outs.push(match r {
                    Ok(Ok(chunks)) => json!({"ok": chunks_to_json(&chunks), "ops": ops, "hit": hit}),
                    Ok(Err(e)) => json!({"err": errstr(e), "ops": ops, "hit": hit}),
                    Err(p) => json!({"panic": panic_msg(p), "ops": ops, "hit": hit}),
                });
            } else if let Some(sql) = step["typed"].as_str() {
                // a query together with its static output types and the variants of the arrays it returns
                let Some(dbr) = db.as_ref() else {
                    outs.push(json!({"err": "database is closed"}));
                    continue;
                };
                let stat = match dbr.verif_static_types(sql, step["optimize"].as_bool() != Some(false)).await {
                    Ok(ts) => json!(ts.iter().map(|t| format!("{t:?}")).collect::<Vec<_>>()),
                    Err(e) => json!({"err": errstr(e)}),
                };
                let fut = std::panic::AssertUnwindSafe(dbr.run(sql));
                let r = futures::FutureExt::catch_unwind(fut).await;
                outs.push(match r {
                    Ok(Ok(chunks)) => {
                        let mut runtime = vec![];
                        let mut arity = vec![];
                        for c in &chunks {
                            for dc in c.data_chunks() {
                                arity.push(dc.arrays().len());
                                runtime.push(dc.arrays().iter().map(|a| array_kind(a).to_string()).collect::<Vec<_>>());
                            }
                        }
                        json!({"ok": chunks_to_json(&chunks), "static": stat, "runtime": runtime, "arity": arity})
                    }
                    Ok(Err(e)) => json!({"err": errstr(e), "static": stat}),
                    Err(p) => json!({"panic": panic_msg(p), "static": stat}),
                });
            } else if let Some(t) = step["layout"].as_str() {
                // physical state of a disk table: live row-sets, their stored rows, their DVs
                let Some(dbr) = db.as_ref() else {
                    outs.push(json!({"err": "database is closed"}));
                    continue;
                };
                match dbr.verif_layout(t).await {
                    Ok(Some(l)) => {
                        let rs: Vec<Value> = l
                            .iter()
                            .map(|r| {
                                let mut rows = vec![];
                                for dc in &r.rows {
                                    for row in dc.rows() {
                                        rows.push(Value::Array(row.values().map(|v| val_to_json(&v)).collect()));
                                    }
                                }
                                json!({"id": r.rowset_id, "rows": rows, "dvs": r.dvs.iter().map(|(i, d)| json!([i, d])).collect::<Vec<_>>()})
                            })
                            .collect();
                        outs.push(json!({"layout": rs}));
                    }
                    Ok(None) => outs.push(json!({"layout": null})),
                    Err(e) => outs.push(json!({"err": errstr(&e)})),
                }
            } else if let Some(to) = step["snapshot"].as_str() {
                // copy the database directory as it is now (a crash image is built from such copies)
                // (a background vacuum may remove a stale row-set directory while it is copied:
                // entries that vanish are skipped)
                fn cp(from: &Path, to: &Path) -> std::io::Result<()> {
                    std::fs::create_dir_all(to)?;
                    let rd = match std::fs::read_dir(from) {
                        Ok(rd) => rd,
                        Err(e) if e.kind() == std::io::ErrorKind::NotFound => return Ok(()),
                        Err(e) => return Err(e),
                    };
                    for e in rd {
                        let Ok(e) = e else { continue };
                        if e.path().is_dir() {
                            cp(&e.path(), &to.join(e.file_name()))?;
                        } else if let Err(err) = std::fs::copy(e.path(), to.join(e.file_name())) {
                            if err.kind() != std::io::ErrorKind::NotFound {
                                return Err(err);
                            }
                        }
                    }
                    Ok(())
                }
                match cp(&path, Path::new(to)) {
                    Ok(()) => outs.push(json!({"snapshot": to})),
                    Err(e) => outs.push(json!({"err": errstr(e)})),
                }
            } else if let Some(f) = step["read"].as_str() {
                // the text of a (small) file of the database directory
                match std::fs::read(path.join(f)) {
                    Ok(b) => outs.push(json!({"read": String::from_utf8_lossy(&b)})),
                    Err(e) => outs.push(json!({"err": errstr(e)})),
                }
            } else if step["ls"].as_bool() == Some(true) {
                outs.push(json!({"ls": list_dir(&path)}));
            }
        }
        if step_no > 0 {
            mark(format!("{}_end", step_no - 1));
        }
        risinglight::verif::sched::disable();
        for (_, h) in pending.drain() {
            h.abort();
        }
        for (_, (txn, it, _)) in readers.drain() {
            use risinglight::storage::Transaction;
            drop(it);
            let _ = txn.abort().await;
        }
        busy.store(false, std::sync::atomic::Ordering::SeqCst);
        if let Some(d) = db.take() {
            let _ = d.shutdown().await;
        }
        Value::Array(outs)
    })
}

pub fn list_dir(p: &Path) -> Vec<String> {
    let mut out = vec![];
    fn walk(base: &Path, p: &Path, out: &mut Vec<String>) {
        if let Ok(rd) = std::fs::read_dir(p) {
            for e in rd.flatten() {
                let path = e.path();
                if path.is_dir() {
                    walk(base, &path, out);
                } else {
                    let len = std::fs::metadata(&path).map(|m| m.len()).unwrap_or(0);
                    out.push(format!(
                        "{}:{}",
                        path.strip_prefix(base).unwrap().display(),
                        len
                    ));
                }
            }
        }
    }
    walk(p, p, &mut out);
    out.sort();
    out
}
