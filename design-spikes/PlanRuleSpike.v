(* Design spike (DESIGN.md Appendix A.6): plan rewrite rules over named columns with
   column-dependency side conditions, proved as list equalities. Exploratory; not part of any check. *)
From Coq Require Import List ZArith Bool Lia Permutation PeanoNat.
Import ListNotations.
Open Scope Z_scope.

Inductive val := VNull | VBool (b:bool) | VInt (z:Z).
Definition col := nat.
Definition row := list (col * val).
Fixpoint lookup (c:col) (r:row) : val :=
  match r with [] => VNull | (c',v)::r' => if Nat.eqb c c' then v else lookup c r' end.
Definition dom (r:row) := map fst r.

Inductive expr := ECol (c:col) | EConst (v:val) | EEq (a b:expr) | EAnd (a b:expr) | EGt (a b:expr).
Definition and3 (a b:val) : val :=
  match a, b with
  | VBool false, _ | _, VBool false => VBool false
  | VBool true, VBool true => VBool true
  | _, _ => VNull end.
Definition eq3 (a b:val) : val :=
  match a, b with
  | VInt x, VInt y => VBool (Z.eqb x y)
  | VBool x, VBool y => VBool (Bool.eqb x y)
  | _, _ => VNull end.
Definition gt3 (a b:val) : val :=
  match a, b with VInt x, VInt y => VBool (Z.gtb x y) | _, _ => VNull end.
Fixpoint ev (r:row) (e:expr) : val :=
  match e with
  | ECol c => lookup c r | EConst v => v
  | EEq a b => eq3 (ev r a) (ev r b)
  | EAnd a b => and3 (ev r a) (ev r b)
  | EGt a b => gt3 (ev r a) (ev r b) end.
Fixpoint cols (e:expr) : list col :=
  match e with ECol c => [c] | EConst _ => [] | EEq a b | EAnd a b | EGt a b => cols a ++ cols b end.
Definition is_true (v:val) := match v with VBool true => true | _ => false end.

Inductive jt := Inner | LeftOuter.
Inductive plan :=
| PScan (rows : list row) (schema : list col)
| PFilter (c:expr) (p:plan)
| PJoin (t:jt) (on:expr) (l r:plan)
| PHashJoin (t:jt) (lk rk:expr) (l r:plan).

Fixpoint schema (p:plan) : list col :=
  match p with
  | PScan _ s => s | PFilter _ p => schema p
  | PJoin _ _ l r | PHashJoin _ _ _ l r => schema l ++ schema r end.
Definition nulls (s:list col) : row := map (fun c => (c, VNull)) s.

Definition jrow (t:jt) (rs:list col) (l:row) (ms:list row) : list row :=
  match t, ms with
  | LeftOuter, [] => [l ++ nulls rs]
  | _, _ => map (fun r => l ++ r) ms end.
Definition nl_join (t:jt) (on:expr) (rs:list col) (L R:list row) : list row :=
  flat_map (fun l => jrow t rs l (filter (fun r => is_true (ev (l ++ r) on)) R)) L.
Definition key_ok (v:val) := match v with VNull => false | _ => true end.
Definition veqb (a b:val) : bool :=
  match a, b with VInt x, VInt y => Z.eqb x y | VBool x, VBool y => Bool.eqb x y | VNull, VNull => true | _, _ => false end.
(* the repaired hash join: a NULL key is never in the table *)
Definition hash_join (t:jt) (lk rk:expr) (rs:list col) (L R:list row) : list row :=
  flat_map (fun l =>
    let k := ev l lk in
    jrow t rs l (if key_ok k then filter (fun r => veqb k (ev r rk)) R else [])) L.

Fixpoint exec (p:plan) : list row :=
  match p with
  | PScan rows _ => rows
  | PFilter c p => filter (fun r => is_true (ev r c)) (exec p)
  | PJoin t on l r => nl_join t on (schema r) (exec l) (exec r)
  | PHashJoin t lk rk l r => hash_join t lk rk (schema r) (exec l) (exec r) end.

(* rule: filter-merge *)
Lemma is_true_and a b : is_true (and3 a b) = is_true a && is_true b.
Proof. destruct a as [|[]|], b as [|[]|]; reflexivity. Qed.
Lemma filter_merge c1 c2 p : exec (PFilter c1 (PFilter c2 p)) = exec (PFilter (EAnd c1 c2) p).
Proof.
  cbn. induction (exec p) as [|r l IH]; cbn; [reflexivity|].
  rewrite is_true_and. destruct (is_true (ev r c2)), (is_true (ev r c1)) eqn:E; cbn; rewrite ?E; cbn; rewrite ?IH; try reflexivity.
Qed.

(* an expression reads only the columns it mentions *)
Lemma lookup_app_l c l r : In c (dom l) -> lookup c (l ++ r) = lookup c l.
Proof. induction l as [|[c' v] l IH]; cbn; [tauto|]. destruct (Nat.eqb_spec c c'); [reflexivity|]. intros [H|H]; [congruence|auto]. Qed.
Lemma ev_app_l e l r : (forall c, In c (cols e) -> In c (dom l)) -> ev (l ++ r) e = ev l e.
Proof.
  induction e; cbn; intros H; try reflexivity.
  - apply lookup_app_l, H; auto.
  - rewrite IHe1, IHe2; auto; intros; apply H, in_or_app; auto.
  - rewrite IHe1, IHe2; auto; intros; apply H, in_or_app; auto.
  - rewrite IHe1, IHe2; auto; intros; apply H, in_or_app; auto.
Qed.
Lemma lookup_app_r c l r : ~ In c (dom l) -> lookup c (l ++ r) = lookup c r.
Proof. induction l as [|[c' v] l IH]; cbn; [reflexivity|]. destruct (Nat.eqb_spec c c'); [intros H; exfalso; apply H; auto|]. intros H; apply IH; tauto. Qed.

Definition wf_rows (s:list col) (rows:list row) := Forall (fun r => dom r = s) rows.
Lemma flat_map_cons {A B} (f:A->list B) x l : flat_map f (x::l) = f x ++ flat_map f l.
Proof. reflexivity. Qed.

(* rule: pushdown-filter-left-outer-join, side condition not_depend_on(cond, right) *)
Lemma jrow_filter c s rs lr ms : dom lr = s -> (forall x, In x (cols c) -> In x s) ->
  filter (fun r => is_true (ev r c)) (jrow LeftOuter rs lr ms)
  = if is_true (ev lr c) then jrow LeftOuter rs lr ms else [].
Proof.
  intros Hd HC.
  assert (E: forall x, is_true (ev (lr ++ x) c) = is_true (ev lr c)).
  { intros x. rewrite ev_app_l; [reflexivity|]. intros cc Hc. rewrite Hd. auto. }
  destruct ms as [|m ms]; cbn [jrow].
  - cbn. rewrite E. destruct (is_true (ev lr c)); reflexivity.
  - generalize (m :: ms). intros l0. induction l0 as [|m' l0 IH]; cbn; [destruct (is_true _); reflexivity|].
    rewrite E, IH. destruct (is_true (ev lr c)); reflexivity.
Qed.
Lemma pf_aux c on rs s R : (forall x, In x (cols c) -> In x s) ->
  forall L, wf_rows s L ->
  filter (fun r => is_true (ev r c)) (nl_join LeftOuter on rs L R)
  = nl_join LeftOuter on rs (filter (fun r => is_true (ev r c)) L) R.
Proof.
  intros HC. induction L as [|lr L IH]; intros WF; [reflexivity|].
  inversion WF as [|? ? Hd WF']; subst.
  unfold nl_join in *. rewrite flat_map_cons, filter_app, IH by assumption.
  rewrite (jrow_filter c (dom lr)) by auto.
  cbn [filter]. destruct (is_true (ev lr c)); reflexivity.
Qed.
Lemma pushdown_filter_left_outer c on l r :
  wf_rows (schema l) (exec l) ->
  (forall x, In x (cols c) -> In x (schema l)) ->
  exec (PFilter c (PJoin LeftOuter on l r)) = exec (PJoin LeftOuter on (PFilter c l) r).
Proof. intros WF HC. cbn. apply pf_aux with (s := schema l); assumption. Qed.

(* rule: hash-join-on-one-eq, for inner and left outer at once *)
Lemma is_true_eq3 a b : is_true (eq3 a b) = key_ok a && veqb a b.
Proof. destruct a as [|[]|], b as [|[]|]; cbn; try reflexivity; destruct (Z.eqb _ _); reflexivity. Qed.
Lemma hash_join_on_one_eq t lk rk l r :
  wf_rows (schema l) (exec l) ->
  (forall x, In x (cols lk) -> In x (schema l)) ->
  (forall x, In x (cols rk) -> ~ In x (schema l)) ->
  exec (PJoin t (EEq lk rk) l r) = exec (PHashJoin t lk rk l r).
Proof.
  intros WF HL HR. cbn [exec]. unfold nl_join, hash_join.
  induction (exec l) as [|lr L IH]; [reflexivity|].
  inversion WF as [|? ? Hd WF']; subst. rewrite !flat_map_cons, IH by assumption. f_equal. clear IH.
  assert (EL: forall x, ev (lr ++ x) lk = ev lr lk).
  { intros x. apply ev_app_l. intros cc Hc. rewrite Hd. auto. }
  assert (ER: forall x, ev (lr ++ x) rk = ev x rk).
  { intros x. clear -HR Hd. induction rk; cbn in *; try reflexivity.
    - apply lookup_app_r. rewrite Hd. apply HR; auto.
    - rewrite IHrk1, IHrk2; auto; intros; apply HR, in_or_app; auto.
    - rewrite IHrk1, IHrk2; auto; intros; apply HR, in_or_app; auto.
    - rewrite IHrk1, IHrk2; auto; intros; apply HR, in_or_app; auto. }
  f_equal. cbn [ev].
  induction (exec r) as [|x xs IHx]; cbn [filter]; [destruct (key_ok _); reflexivity|].
  rewrite EL, ER, is_true_eq3, IHx. destruct (key_ok (ev lr lk)); cbn; reflexivity.
Qed.
Print Assumptions hash_join_on_one_eq.
