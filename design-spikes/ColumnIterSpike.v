(* Design spike (DESIGN.md C06): the block-walking loop of ConcreteColumnIterator::next_batch_inner
   over an ARBITRARY partition of a column into blocks. With a requested size k it returns exactly
   the next min(k, remaining) values of the column, whatever the block boundaries are.
   Exploratory; not part of any check. *)
From Coq Require Import List Arith Lia Bool PeanoNat.
Import ListNotations.

Section Col.
Variable A : Type.

Definition blocks := list (list A).
Definition first (bs : blocks) (i : nat) : nat := length (concat (firstn i bs)).   (* first_rowid of block i *)
Definition blk_at (bs : blocks) (i : nat) : list A := nth i bs [].

(* state after a call: (block id, current row id, finished) ; the block iterator's cursor is
   row - first bs blk, as in the code (iterators are created at start_pos = current_row_id) *)
Fixpoint nb_loop (fuel : nat) (bs : blocks) (blk row total k : nat) (acc : list A) : (nat * nat * bool) * list A :=
  match fuel with
  | O => ((blk, row, true), acc)
  | S f =>
      let b := blk_at bs blk in
      let cur := row - first bs blk in
      let want := Nat.min (length b - cur) (k - total) in
      let items := firstn want (skipn cur b) in
      let total' := total + want in
      let row' := row + want in
      if k <=? total' then ((blk, row', false), acc ++ items)
      else
        let blk' := S blk in
        if length bs <=? blk' then ((blk', row', true), acc ++ items)
        else nb_loop f bs blk' row' total' k (acc ++ items)
  end.

Definition next_batch (bs : blocks) (blk row k : nat) := nb_loop (length bs - blk) bs blk row 0 k [].

(* ---- lemmas about partitions ---- *)
Lemma first_S bs i : i < length bs -> first bs (S i) = first bs i + length (blk_at bs i).
Proof.
  unfold first, blk_at. revert i. induction bs as [|b bs IH]; intros i H; cbn in H; [lia|].
  destruct i as [|i]; cbn [firstn concat nth].
  - rewrite app_nil_r. cbn. lia.
  - rewrite !app_length. cbn [firstn concat] in IH. rewrite (IH i) by lia. lia.
Qed.
Lemma skipn_concat bs i c : i < length bs -> c <= length (blk_at bs i) ->
  skipn (first bs i + c) (concat bs) = skipn c (blk_at bs i) ++ concat (skipn (S i) bs).
Proof.
  unfold first, blk_at. revert i. induction bs as [|b bs IH]; intros i H Hc; cbn in H; [lia|].
  destruct i as [|i]; cbn [firstn concat nth skipn].
  - cbn [length Nat.add]. cbn [nth] in Hc. rewrite skipn_app. replace (c - length b) with 0 by lia. reflexivity.
  - cbn [nth] in Hc. rewrite app_length, skipn_app.
    replace (length b + length (concat (firstn i bs)) + c - length b) with (length (concat (firstn i bs)) + c) by lia.
    rewrite (skipn_all2 b) by lia. cbn [app]. apply IH; [lia|exact Hc].
Qed.
Lemma concat_skipn_S bs i : i < length bs -> concat (skipn i bs) = blk_at bs i ++ concat (skipn (S i) bs).
Proof.
  unfold blk_at. revert i. induction bs as [|b bs IH]; intros i H; cbn in H; [lia|].
  destruct i as [|i]; cbn [skipn concat nth]; [reflexivity|]. apply IH. lia.
Qed.

(* ---- the loop returns a prefix of what is left, of the right length ---- *)
Lemma nb_loop_spec bs k : forall fuel blk row total acc,
  blk < length bs -> fuel = length bs - blk ->
  first bs blk <= row <= first bs blk + length (blk_at bs blk) ->
  total < k ->
  let rest := skipn row (concat bs) in
  let '((blk', row', fin), out) := nb_loop fuel bs blk row total k acc in
  out = acc ++ firstn (k - total) rest /\
  row' = row + length (firstn (k - total) rest) /\
  (fin = false -> blk' < length bs /\ first bs blk' <= row' <= first bs blk' + length (blk_at bs blk')).
Proof.
  induction fuel as [|f IH]; intros blk row total acc Hb Hf Hrow Ht; [lia|].
  cbn [nb_loop]. cbv zeta.
  set (b := blk_at bs blk). set (cur := row - first bs blk).
  set (want := Nat.min (length b - cur) (k - total)).
  assert (Hcur : cur <= length b) by (unfold cur, b; lia).
  assert (Hrest : skipn row (concat bs) = skipn cur b ++ concat (skipn (S blk) bs)).
  { replace row with (first bs blk + cur) by (unfold cur; lia). apply skipn_concat; assumption. }
  assert (Hitems : firstn want (skipn cur b) = firstn want (skipn row (concat bs))).
  { rewrite Hrest, firstn_app. replace (want - length (skipn cur b)) with 0.
    - cbn. rewrite app_nil_r. reflexivity.
    - rewrite skipn_length. unfold want. lia. }
  assert (Hlen : length (firstn want (skipn cur b)) = want).
  { rewrite firstn_length, skipn_length. unfold want. lia. }
  destruct (Nat.leb_spec k (total + want)) as [Hk|Hk].
  - (* enough *)
    assert (want = k - total) by (unfold want in *; lia).
    split; [rewrite Hitems, H; reflexivity|]. split.
    + rewrite <- H, <- Hitems, Hlen. reflexivity.
    + intros _. split; [exact Hb|]. fold b. unfold cur in *. lia.
  - (* block exhausted, go on *)
    assert (Hw : want = length b - cur) by (unfold want; lia).
    assert (Hrow' : row + want = first bs (S blk)).
    { rewrite first_S by exact Hb. fold b. unfold cur in *. lia. }
    destruct (Nat.leb_spec (length bs) (S blk)) as [Hlast|Hmore].
    + (* that was the last block: everything left has been returned *)
      assert (Hnil : concat (skipn (S blk) bs) = []) by (rewrite skipn_all2 by lia; reflexivity).
      assert (Hall : firstn (k - total) (skipn row (concat bs)) = skipn cur b).
      { rewrite Hrest, Hnil, app_nil_r. apply firstn_all2. rewrite skipn_length. lia. }
      rewrite Hall. rewrite Hw. rewrite firstn_all2 by (rewrite skipn_length; lia).
      split; [reflexivity|]. split; [rewrite skipn_length; lia|discriminate].
    + (* continue in the next block *)
      specialize (IH (S blk) (row + want) (total + want) (acc ++ firstn want (skipn cur b))).
      assert (Hb' : S blk < length bs) by lia.
      assert (Hf' : f = length bs - S blk) by lia.
      assert (Hr' : first bs (S blk) <= row + want <= first bs (S blk) + length (blk_at bs (S blk))) by lia.
      assert (Ht' : total + want < k) by lia.
      specialize (IH Hb' Hf' Hr' Ht'). cbv zeta in IH.
      destruct (nb_loop f bs (S blk) (row + want) (total + want) k (acc ++ firstn want (skipn cur b))) as [[[blk' row'] fin] out].
      destruct IH as (Ho & Hr & Hfin).
      assert (Hsplit : firstn (k - total) (skipn row (concat bs))
                       = skipn cur b ++ firstn (k - (total + want)) (skipn (row + want) (concat bs))).
      { rewrite Hrest, firstn_app, skipn_length.
        rewrite (firstn_all2 (skipn cur b)) by (rewrite skipn_length; lia).
        f_equal. replace (k - total - (length b - cur)) with (k - (total + want)) by lia.
        f_equal. rewrite Hrow'. replace (first bs (S blk)) with (first bs (S blk) + 0) by lia.
        rewrite skipn_concat by (try assumption; lia). cbn [skipn].
        rewrite <- concat_skipn_S by assumption. reflexivity. }
      split; [|split].
      * rewrite Ho, Hsplit, <- app_assoc. f_equal. f_equal.
        rewrite Hw. apply firstn_all2. rewrite skipn_length. lia.
      * rewrite Hr, Hsplit, app_length, skipn_length. lia.
      * exact Hfin.
Qed.

(* Corollary: from a consistent position, a request for k > 0 values returns exactly the next
   min(k, remaining) values of the column, for every partition into blocks. *)
Theorem next_batch_exact bs blk row k :
  blk < length bs -> first bs blk <= row <= first bs blk + length (blk_at bs blk) -> 0 < k ->
  snd (next_batch bs blk row k) = firstn k (skipn row (concat bs)).
Proof.
  intros Hb Hrow Hk. unfold next_batch.
  pose proof (nb_loop_spec bs k (length bs - blk) blk row 0 [] Hb eq_refl Hrow Hk) as H. cbv zeta in H.
  destruct (nb_loop (length bs - blk) bs blk row 0 k []) as [[[blk' row'] fin] out].
  destruct H as (Ho & _). cbn [snd]. rewrite Ho, Nat.sub_0_r. reflexivity.
Qed.
End Col.
Print Assumptions next_batch_exact.
