(* Design spike (DESIGN.md Appendix A.3): generic tactic for expression rewrite rules under
   SQL three-valued logic, soundness modulo evaluation errors. Exploratory; not part of any check. *)
From Coq Require Import List ZArith String Lia Bool ZifyBool.
Import ListNotations.
Open Scope Z_scope.

Inductive val := VNull | VBool (b:bool) | VInt (z:Z) | VStr (s:string).
Inductive expr :=
| EVar (n:nat) | EConst (v:val)
| EAdd (a b:expr) | ESub (a b:expr) | EMul (a b:expr) | ENeg (a:expr)
| EEq (a b:expr) | ELt (a b:expr) | EGt (a b:expr) | ELe (a b:expr) | EGe (a b:expr) | ENe (a b:expr)
| EAnd (a b:expr) | EOr (a b:expr) | ENot (a:expr).

Definition arith (f:Z->Z->Z) (a b:val) : option val :=
  match a, b with
  | VNull, (VNull|VInt _) | VInt _, VNull => Some VNull
  | VInt x, VInt y => Some (VInt (f x y))
  | _, _ => None end.
Definition cmpop (f:Z->Z->bool) (g:string->string->bool) (a b:val) : option val :=
  match a, b with
  | VNull, _ | _, VNull => Some VNull
  | VInt x, VInt y => Some (VBool (f x y))
  | VBool x, VBool y => Some (VBool (f (Z.b2z x) (Z.b2z y)))
  | VStr x, VStr y => Some (VBool (g x y))
  | _, _ => None end.
Definition and3 (a b:val) : option val :=
  match a, b with
  | VBool false, (VBool _|VNull) | (VBool true|VNull), VBool false => Some (VBool false)
  | VBool true, VBool true => Some (VBool true)
  | VBool true, VNull | VNull, VBool true | VNull, VNull => Some VNull
  | _, _ => None end.
Definition or3 (a b:val) : option val :=
  match a, b with
  | VBool true, (VBool _|VNull) | (VBool false|VNull), VBool true => Some (VBool true)
  | VBool false, VBool false => Some (VBool false)
  | VBool false, VNull | VNull, VBool false | VNull, VNull => Some VNull
  | _, _ => None end.
Definition not3 (a:val) : option val :=
  match a with VNull => Some VNull | VBool b => Some (VBool (negb b)) | _ => None end.
Definition bind {A B} (x:option A) (f:A->option B) := match x with Some a => f a | None => None end.
Definition seq (x y:string) := if string_dec x y then true else false.
Fixpoint ev (rho:nat->val) (e:expr) : option val :=
  match e with
  | EVar n => Some (rho n) | EConst v => Some v
  | EAdd a b => bind (ev rho a) (fun x => bind (ev rho b) (arith Z.add x))
  | ESub a b => bind (ev rho a) (fun x => bind (ev rho b) (arith Z.sub x))
  | EMul a b => bind (ev rho a) (fun x => bind (ev rho b) (arith Z.mul x))
  | ENeg a => bind (ev rho a) (fun x => arith Z.sub (VInt 0) x)
  | EEq a b => bind (ev rho a) (fun x => bind (ev rho b) (cmpop Z.eqb seq x))
  | ENe a b => bind (ev rho a) (fun x => bind (ev rho b) (cmpop (fun p q => negb (Z.eqb p q)) (fun p q => negb (seq p q)) x))
  | ELt a b => bind (ev rho a) (fun x => bind (ev rho b) (cmpop Z.ltb (fun _ _ => false) x))
  | EGt a b => bind (ev rho a) (fun x => bind (ev rho b) (cmpop Z.gtb (fun _ _ => false) x))
  | ELe a b => bind (ev rho a) (fun x => bind (ev rho b) (cmpop Z.leb (fun _ _ => false) x))
  | EGe a b => bind (ev rho a) (fun x => bind (ev rho b) (cmpop Z.geb (fun _ _ => false) x))
  | EAnd a b => bind (ev rho a) (fun x => bind (ev rho b) (and3 x))
  | EOr a b => bind (ev rho a) (fun x => bind (ev rho b) (or3 x))
  | ENot a => bind (ev rho a) not3
  end.
(* soundness modulo errors: when both sides evaluate, they agree *)
Definition sound (l r:expr) := forall rho x y, ev rho l = Some x -> ev rho r = Some y -> x = y.

Ltac crush := unfold sound; intros rho; cbn [ev bind];
  repeat match goal with |- context[rho ?n] => generalize (rho n); intro end; clear rho;
  repeat match goal with v : val |- _ => destruct v as [|[]|?|?] end;
  cbn; intros x y H1 H2; try discriminate;
  try (injection H1 as <-; injection H2 as <-);
  try reflexivity; try solve [f_equal; ring | f_equal; lia | f_equal; f_equal; lia].

Lemma add_assoc : sound (EAdd (EVar 0) (EAdd (EVar 1) (EVar 2))) (EAdd (EAdd (EVar 0) (EVar 1)) (EVar 2)).
Proof. crush. Qed.
Lemma mul_distr : sound (EMul (EVar 0) (EAdd (EVar 1) (EVar 2))) (EAdd (EMul (EVar 0) (EVar 1)) (EMul (EVar 0) (EVar 2))).
Proof. crush. Qed.
Lemma and_comm : sound (EAnd (EVar 0) (EVar 1)) (EAnd (EVar 1) (EVar 0)).
Proof. crush. Qed.
Lemma not_and : sound (ENot (EAnd (EVar 0) (EVar 1))) (EOr (ENot (EVar 0)) (ENot (EVar 1))).
Proof. crush. Qed.
Lemma eq_add : sound (EEq (EAdd (EVar 0) (EVar 1)) (EVar 2)) (EEq (EVar 0) (ESub (EVar 2) (EVar 1))).
Proof. crush. Qed.
Lemma mul_zero_refuted : ~ sound (EMul (EVar 0) (EConst (VInt 0))) (EConst (VInt 0)).
Proof. intro H. specialize (H (fun _ => VNull) VNull (VInt 0) eq_refl eq_refl). discriminate. Qed.
Print Assumptions eq_add.
