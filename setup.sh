#!/bin/sh
# Build the verification framework from files on disk only (offline).
set -e
cd "$(dirname "$0")"
export CARGO_NET_OFFLINE=true
mkdir -p .cache evidence replays
# 1. implementation harness (path dependency on /repo, cargo feature `verif`)
cp /repo/Cargo.lock harness/Cargo.lock
(cd harness && cargo build --offline 2>&1 | tail -3)
# 2. Coq development: full .vo build (never -vos)
(cd coq && coq_makefile -f _CoqProject -o Makefile.coq >/dev/null && timeout 3000 make -f Makefile.coq -j16 2>&1 | tail -3)
echo "setup done"
