"""C02 — query answers follow standard SQL semantics on the core relational subset."""
import json
import sqlite3

from .common import *  # noqa: F401,F403
from .execlib import *  # noqa: F401,F403
from . import execlib, c11


def lit(v):
    return "null" if v is None else (f"'{v}'" if isinstance(v, str) else str(v))


def gen_db(rng):
    def rows(n, f):
        return [f() for _ in range(n)]
    a_batches = [rows(rng.randint(1, 4), lambda: [rng.choice([None, 0, 1, 2, 3]), rng.choice([None, 0, 1, 2, -1]), rng.choice([None, "", "a", "b"])])
                 for _ in range(rng.randint(0, 3))]
    b_batches = [rows(rng.randint(1, 4), lambda: [rng.choice([None, 0, 1, 2, 4]), rng.choice([None, 0, 1, 2, 5])])
                 for _ in range(rng.randint(0, 3))]
    return a_batches, b_batches


def pred(rng, tabs):
    """a simple WHERE / ON predicate over the given (alias, columns) list"""
    def term():
        al, cols = rng.choice(tabs)
        c = rng.choice(cols)
        return f"{al}.{c}"
    def atom():
        r = rng.random()
        if r < 0.55:
            l, rr = term(), rng.choice([term(), str(rng.randint(0, 3))])
            while rr == l:      # `c = c` is rewritten by NULL-unsound rules: C01's subject, kept out of this stream
                rr = str(rng.randint(0, 3))
            return f"{l} {rng.choice(['=', '<', '<=', '>', '>=', '<>'])} {rr}"
        if r < 0.7:
            return f"{term()} is {'not ' if rng.random() < 0.5 else ''}null"
        if r < 0.85:
            return f"{term()} in ({', '.join(str(rng.randint(0, 3)) for _ in range(rng.randint(1, 3)))})"
        l, rr = term(), term()
        while rr == l:
            rr = term() if rng.random() < 0.7 else str(rng.randint(0, 3))
        return f"{l} + 1 {rng.choice(['=', '<', '>'])} {rr}"
    r = rng.random()
    if r < 0.6:
        return atom()
    if r < 0.8:
        return f"({atom()} {rng.choice(['and', 'or'])} {atom()})"
    return f"not ({atom()})"


A = ("a", ["x", "y"])
B = ("b", ["x", "z"])


def gen_query(rng):
    """returns (sql, order_keys or None, tags)"""
    k = rng.random()
    tags = set()
    if k < 0.15:
        return f"select x, y, s from a where {pred(rng, [A])}", None, {"filter"}
    if k < 0.25:
        return f"select x + y, y * 2, x - 1 from a where {pred(rng, [A])}", None, {"proj"}
    if k < 0.5:
        jt = rng.choice(["inner", "left", "right", "full"])
        equi = rng.random() < 0.7
        cond = "a.x = b.x" + (f" and {pred(rng, [A, B])}" if rng.random() < 0.3 else "") if equi else pred(rng, [A, B])
        if equi and rng.random() < 0.2:
            cond = "a.x = b.x and a.y = b.z"       # a composite key: NULL in one component must prevent the match
        where = f" where {pred(rng, [A, B])}" if rng.random() < 0.25 else ""
        tags |= {"join", jt} | ({"nonequi"} if not equi or "and" in cond else set())
        if jt != "inner" and (cond != "a.x = b.x" or where):
            tags.add("pushable")      # a condition beyond the pure equi-join: what predicate pushdown moves
        return f"select a.x, a.y, b.x, b.z from a {jt} join b on {cond}{where}", None, tags
    if k < 0.65:
        neg = rng.random() < 0.4
        if rng.random() < 0.5:
            sub = "select x from b" + (f" where z > {rng.randint(0, 2)}" if rng.random() < 0.4 else "")
            tags |= {"in", "neg" if neg else "pos"}
            return f"select x, y from a where x {'not ' if neg else ''}in ({sub})", None, tags
        corr = rng.choice(["b.x = a.x", "b.x = a.x", "b.x = a.x and b.z > a.y", "b.z > a.y", "b.x <= a.x and b.z >= a.y", "b.x = a.x and b.z = a.y"])
        tags |= {"exists", "neg" if neg else "pos"}
        return f"select x, y from a where {'not ' if neg else ''}exists (select * from b where {corr})", None, tags
    if k < 0.85:
        grouped = rng.random() < 0.7
        aggs = rng.sample(["count(*)", "count(y)", "sum(y)", "min(y)", "max(y)", "count(distinct y)", "min(s)", "max(x)"], rng.randint(1, 4))
        where = f" where {pred(rng, [A])}" if rng.random() < 0.3 else ""
        if grouped:
            having = f" having count(*) > {rng.randint(0, 2)}" if rng.random() < 0.2 else ""
            return f"select x, {', '.join(aggs)} from a{where} group by x{having}", None, {"agg", "grouped"}
        return f"select {', '.join(aggs)} from a{where}", None, {"agg"}
    if k < 0.92:
        return f"select distinct {rng.choice(['x', 'x, y', 'y, s'])} from a", None, {"distinct"}
    if rng.random() < 0.3:
        # ORDER BY over a join one of whose inputs arrives ordered on the join key: the join does not pass that order on
        # (an outer hash join appends its unmatched rows at the end)
        jt = rng.choice(["left join", "left join", "full join", "join", "right join"])
        d = rng.random() < 0.3
        side = rng.random() < 0.7
        q = (f"select a.x, t.x, t.z from a {jt} (select x, z from b order by x{' desc' if d else ''}) t on a.x = t.x order by t.x{' desc' if d else ''}" if side else
             f"select t.x, t.y, b.x from (select x, y from a order by x{' desc' if d else ''}) t {jt} b on t.x = b.x order by t.x{' desc' if d else ''}")
        tags = {"order", "join", "ordered-input"} | ({"right"} if jt == "right join" else set()) | ({"full"} if jt == "full join" else set())
        return q, [(1 if side else 0, d)], tags
    keys = rng.sample(["x", "y", "s"], rng.choice([1, 2]))
    descs = [rng.random() < 0.4 for _ in keys]
    order = ", ".join(f"{c}{' desc' if d else ''}" for c, d in zip(keys, descs))
    n, m = rng.choice([None, 0, 1, 2, 5]), rng.choice([None, 0, 1, 3])
    tail = ("" if n is None else f" limit {n}") + ("" if m is None else f" offset {m}")
    if n is None and m is not None:
        tail = f" limit -1 offset {m}"      # SQLite needs a LIMIT before OFFSET
        rl_tail = f" offset {m}"
    else:
        rl_tail = tail
    cols = ["x", "y", "s"]
    return (f"select x, y, s from a order by {order}{rl_tail}", f"select x, y, s from a order by {order}{tail}"), \
        [(cols.index(c), d) for c, d in zip(keys, descs)], {"order"}


def sqlite_eval(a_batches, b_batches, q):
    con = sqlite3.connect(":memory:")
    con.execute("create table a(x int, y int, s text)")
    con.execute("create table b(x int, z int)")
    for batch in a_batches:
        con.executemany("insert into a values (?,?,?)", batch)
    for batch in b_batches:
        con.executemany("insert into b values (?,?)", batch)
    try:
        return [list(r) for r in con.execute(q).fetchall()]
    except sqlite3.Error as e:
        return ("sqlite-error", str(e))


def norm_rl(o):
    if not isinstance(o, dict) or "ok" not in o:
        return None
    out = []
    for r in o["ok"][0]["rows"]:
        row = []
        for v in r:
            if v is None:
                row.append(None)
            elif v[0] == "bool":
                row.append(1 if v[1] else 0)
            else:
                row.append(v[1])
        out.append(row)
    return out


def sort_key(ks):
    def key(row):
        out = []
        for (k, desc) in ks:
            v = row[k]
            rank = (0, 0, "") if v is None else ((1, v, "") if not isinstance(v, str) else (1, 0, v))
            if desc:
                rank = (-rank[0], -rank[1], tuple(-ord(ch) for ch in rank[2]) + (1,))
            else:
                rank = (rank[0], rank[1], tuple(ord(ch) for ch in rank[2]) + (-1,))
            out.append(rank)
        return tuple(out)
    return key


KF_PUSHDOWN_RULES = ["pushdown-join-condition-left", "pushdown-join-condition-left-1", "pushdown-join-condition-right", "pushdown-join-condition-right-1"]


def classify(q, tags, a_batches, b_batches, rl):
    bx = [r[0] for b in b_batches for r in b]
    ax = [r[0] for b in a_batches for r in b]
    if "in" in tags and "neg" in tags and (None in bx or None in ax):
        return "KF_C02_not_in_null"
    if rl is None and ({"right", "full"} & tags) and "nonequi" in tags:
        return "KF_C11_nl_right_full_todo"
    return None


def run(R, only=None):
    R.prove(extra=["Corr/Exec.vo"])
    build_harness()
    n = 1500 if R.tier == "quick" else 20000
    cases = []
    for i in range(n):
        a_b, b_b = gen_db(R.rng)
        q, ks, tags = gen_query(R.rng)
        rlq, sq = (q if isinstance(q, tuple) else (q, q))
        engine = R.rng.choice(["mem", "mem", "disk"])
        steps = [{"sql": "create table a(x int, y int, s varchar)"}, {"sql": "create table b(x int, z int)"}]
        for batch in a_b:
            steps.append({"sql": "insert into a values " + ", ".join("(" + ", ".join(lit(v) for v in r) + ")" for r in batch)})
        for batch in b_b:
            steps.append({"sql": "insert into b values " + ", ".join("(" + ", ".join(lit(v) for v in r) + ")" for r in batch)})
        n0 = len(steps)
        steps += [{"explain": rlq}, {"sql": rlq}, {"sql": "pragma disable_optimizer"}, {"sql": rlq}]
        if "pushable" in tags:
            # a third run without the rules the outer-join finding of C01 lists: what that finding explains must disappear with them
            steps += [{"sql": "pragma enable_optimizer"}, {"disable_rules": KF_PUSHDOWN_RULES}, {"sql": rlq}]
        cases.append({"engine": engine, "steps": steps, "a": a_b, "b": b_b, "q": rlq, "sq": sq, "ks": ks, "tags": tags, "n0": n0})
    # ORDER BY .. LIMIT / OFFSET beyond one processing window (1024 rows)
    for i in range(3 if R.tier == "quick" else 12):
        nrows = R.rng.choice([1500, 2100])
        big = [[(j * 7919) % nrows, j % 5, None] for j in range(nrows)]
        lim, off = R.rng.choice([(1200, None), (None, 1100), (600, 600), (1030, 0)])
        tail = ("" if lim is None else f" limit {lim}") + ("" if off is None else f" offset {off}")
        stail = tail if lim is not None else f" limit -1 offset {off}"
        steps = [{"sql": "create table a(x int, y int, s varchar)"}, {"sql": "create table b(x int, z int)"}]
        for part in (big[: nrows // 2], big[nrows // 2:]):
            steps.append({"sql": "insert into a values " + ", ".join("(" + ", ".join(lit(v) for v in r) + ")" for r in part)})
        q = f"select x, y, s from a order by x{' desc' if i % 2 else ''}"
        n0 = len(steps)
        steps += [{"explain": q + tail}, {"sql": q + tail}, {"sql": "pragma disable_optimizer"}, {"sql": q + tail}]
        cases.append({"engine": R.rng.choice(["mem", "disk"]), "steps": steps, "a": [big], "b": [], "q": q + tail, "sq": q + stail,
                      "ks": [(0, bool(i % 2))], "tags": {"order", "big"}, "n0": n0})
    # LIMIT / OFFSET without ORDER BY over tables loaded by several INSERTs (several chunks / row-sets): SQL fixes the NUMBER of rows
    # and that they are rows of the input; which ones is the engine's choice
    ucases = []
    for i in range(40 if R.tier == "quick" else 500):
        rng = R.rng
        a_b, b_b = gen_db(rng)
        while len(a_b) < 2:
            a_b = a_b + gen_db(rng)[0]
        na = sum(len(b) for b in a_b)
        lim, off = rng.choice([None, 0, 1, 2, na, na + 1]), rng.choice([None, 1, 2, 3, len(a_b[0]), len(a_b[0]) + 1, na])
        if lim is None and off is None:
            off = len(a_b[0])
        tail = ("" if lim is None else f" limit {lim}") + ("" if off is None else f" offset {off}")
        filt = rng.choice(["", "", " where y is not null"])
        q = f"select x, y, s from a{filt}{tail}"
        steps = [{"sql": "create table a(x int, y int, s varchar)"}]
        for batch in a_b:
            steps.append({"sql": "insert into a values " + ", ".join("(" + ", ".join(lit(v) for v in r) + ")" for r in batch)})
        steps += [{"sql": q}, {"sql": "pragma disable_optimizer"}, {"sql": q}]
        pool = [r for b in a_b for r in b if not filt or r[1] is not None]
        n = max(0, len(pool) - (off or 0))
        ucases.append({"engine": rng.choice(["mem", "disk"]), "steps": steps, "q": q, "pool": pool, "want": n if lim is None else min(lim, n)})
    uouts = run_harness("sql", [{"engine": c["engine"], "steps": c["steps"]} for c in ucases], jobs=16)
    for c, o in zip(ucases, uouts):
        rep = {"kind": "sql-script", "engine": c["engine"], "case": c["steps"]}
        if not isinstance(o, list) or len(o) < len(c["steps"]):
            R.property_fails(None, f"C02 `{c['q']}` aborted: {json.dumps(o)[-150:]}", rep)
            continue
        for which, x in (("optimizer on", o[-3]), ("optimizer off", o[-1])):
            rl = norm_rl(x)
            if rl is None:
                R.property_fails(None, f"C02 `{c['q']}` ({c['engine']}, {which}) failed: {json.dumps(x)[:120]}", rep)
                break
            pool = [json.dumps(list(r)) for r in c["pool"]]
            ok = len(rl) == c["want"]
            for r in map(json.dumps, rl):
                if r in pool:
                    pool.remove(r)
                else:
                    ok = False
            if not ok:
                R.property_fails(None, f"C02 `{c['q']}` ({c['engine']}, {which}) over {len(c['pool'])} qualifying rows loaded by {len(c['steps']) - 4} INSERTs "
                                       f"returned {len(rl)} rows, SQL prescribes {c['want']} rows of the input", rep)
                break
    outs = run_harness("sql", [{"engine": c["engine"], "steps": c["steps"]} for c in cases], jobs=16)
    nontriv, kinds, skipped = set(), {}, 0
    for c, o in zip(cases, outs):
        ref = sqlite_eval(c["a"], c["b"], c["sq"])
        for t in c["tags"]:
            kinds[t] = kinds.get(t, 0) + 1
        if isinstance(ref, tuple):
            skipped += 1
            continue
        full = isinstance(o, list) and len(o) >= len(c["steps"])
        n0 = c["n0"]
        last = o[n0 + 1] if full else {"abort": str(o)[:100]}
        rl = norm_rl(last)
        rl_off = norm_rl(o[n0 + 3]) if full else None
        rl_nokf = norm_rl(o[n0 + 6]) if full and len(c["steps"]) > n0 + 6 else None
        klass = classify(c["q"], c["tags"], c["a"], c["b"], rl)
        plan = o[n0].get("plan", "") if full and isinstance(o[n0], dict) else ""
        if rl is None and ("(join right_outer" in plan or "(join full_outer" in plan):
            klass = "KF_C11_nl_right_full_todo"     # the cost model picked the nested-loop join, which has no RIGHT / FULL
        if rl is None and ("not found from input" in json.dumps(last) or "Apply is not supported" in json.dumps(last)):
            klass = "KF_C17_subquery_not_executable"
        if klass is None and rl is not None and c["ks"] is None and "pushable" in c["tags"] \
                and (rl_off is None or sorted(map(json.dumps, rl_off)) == sorted(map(json.dumps, ref))) \
                and ((rl_nokf is not None and sorted(map(json.dumps, rl_nokf)) == sorted(map(json.dumps, ref)))
                     # (without those rules a RIGHT / FULL join with such a condition stays a nested-loop join, which has no implementation)
                     or (rl_nokf is None and ({"right", "full"} & c["tags"]))):
            klass = "KF_C01_outer_join_condition_pushdown"
        what = None
        if rl is None:
            what = f"`{c['q']}` failed on risinglight ({c['engine']}): {json.dumps(last)[:120]}; SQLite returns {len(ref)} rows"
        elif c["ks"] is not None:
            key = sort_key(c["ks"])
            if [key(r) for r in rl] != [key(r) for r in ref] or sorted(map(json.dumps, rl)) != sorted(map(json.dumps, ref)) and "limit" not in c["q"] and "offset" not in c["q"]:
                what = f"`{c['q']}` ({c['engine']}): ordered result differs from SQLite on the keys: {rl} vs {ref}"
        elif sorted(map(json.dumps, rl)) != sorted(map(json.dumps, ref)):
            what = f"`{c['q']}` ({c['engine']}): {sorted(map(json.dumps, rl))} but SQLite gives {sorted(map(json.dumps, ref))}"
        if what:
            R.property_fails(klass, "C02 " + what, {"kind": "sql-script", "engine": c["engine"], "case": c["steps"], "sqlite": ref})
        if any(c["a"]) and (any(c["b"]) or not ({"join", "in", "exists"} & c["tags"])):
            nontriv.add(json.dumps(c["steps"]))
    # operator models = implementation (shared with C11): a small batch on every run
    groups = [[c11.gen_join_group, c11.gen_agg_group, c11.gen_topn_group][i % 3](R.rng, R.tier) for i in range(60 if R.tier == "quick" else 600)]
    flat = [(g, p) for g in groups for p in g["plans"] if p[0] != "order+limit"]
    res = run_cases([{"tables": g["tables"], "plan": p[3]} for g, p in flat])
    terms = [case_term(p[4], g["L"], g["lt"], g["R"], g["rt"], rows) for (g, p), (rows, raw) in zip(flat, res)]
    failing = coq_eval("C02", execlib.HEADER, terms, per_file=60)
    if failing:
        g, p = flat[sorted(failing)[0]]
        R.correspondence_broken(f"C02 model of {p[0]} {p[1] or ''} = implementation", json.dumps({"tables": g["tables"], "plan": p[3]})[:2000])
    R.coverage.update({
        "evaluations": len(cases) + len(flat), "distinct_nontrivial": len(nontriv),
        "rule": "random core-subset queries (selection, projection, inner/left/right/full joins, IN / NOT IN / EXISTS / NOT EXISTS, GROUP BY "
                "with COUNT/SUM/MIN/MAX/COUNT DISTINCT, HAVING, DISTINCT, ORDER BY with LIMIT/OFFSET) over tables of 0-12 rows with NULLs "
                "and duplicates loaded by several INSERTs, on both engines, compared with SQLite 3.40 as bags (on the keys for ORDER BY); "
                "non-trivial = the tables the query reads are non-empty",
        "samples": [{"q": cases[i]["q"], "a": cases[i]["a"], "b": cases[i]["b"]} for i in range(2)],
        "query_kind_distribution": kinds, "sqlite_rejected": skipped, "operator_plans": len(flat),
        "model_vs_impl_disagreements": len(failing),
    })
    R.assumptions += ["SQLite 3.40 is the reading of 'standard SQL' on the constructs where the dialects agree (integer division truncates, "
                      "NULL sorts first ascending, BOOLEAN compared as 0/1)"]


def replay(R, path):
    run(R)
    return R.finish()
