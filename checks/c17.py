"""C17 — every accepted query is planned into an executable plan.

  (i)   proofs Props/C17.v (plan rewrites keep plans buildable and schema-equal; apply / dangling
        columns are not buildable);
  (ii)  per-run validation + correspondence Corr/C17.v: every bound and optimised plan of the
        generated statements is parsed into the model's terms; inside Coq, build_ok(optimised) must
        agree with what executor::build really did, and the optimised plan must have the bound
        plan's columns;
  (iii) oracle: planning and building never panic, on both engines (the disk engine plans with
        real statistics), for generated queries incl. subquery shapes, 3-way joins and DML.
"""
import json
import re

from .common import *  # noqa: F401,F403
from . import c02

HEADER = "From RL Require Import Corr.C17.\nOpen Scope string_scope.\n"
BUILD_PANICS = ("not found from input", "Apply is not supported", "invalid join type")


def tokenize(s):
    i, n, out = 0, len(s), []
    while i < n:
        c = s[i]
        if c.isspace():
            i += 1
        elif c in "()":
            out.append(c)
            i += 1
        elif c == "'":
            j = i + 1
            while j < n:
                if s[j] == "'" and j + 1 < n and s[j + 1] == "'":
                    j += 2
                elif s[j] == "'":
                    break
                else:
                    j += 1
            out.append(s[i:j + 1])
            i = j + 1
        else:
            j = i
            depth = 0
            while j < n and not (s[j].isspace() and depth == 0) and not (s[j] in "()" and depth == 0 and not re.match(r"[A-Z]+\($", s[i:j + 1])):
                if s[j] == "(":
                    depth += 1
                elif s[j] == ")":
                    depth -= 1
                j += 1
            out.append(s[i:j])
            i = j
    return out


def parse_sx(s):
    toks = tokenize(s)
    pos = [0]

    def rd():
        t = toks[pos[0]]
        pos[0] += 1
        if t == "(":
            op = toks[pos[0]]
            pos[0] += 1
            args = []
            while toks[pos[0]] != ")":
                args.append(rd())
            pos[0] += 1
            return (op, args)
        if t == ")":
            raise ValueError("unbalanced")
        return t
    r = rd()
    if pos[0] != len(toks):
        raise ValueError("trailing tokens")
    return r


def cstr(s):
    return '"' + s.replace('"', '""') + '"'


def sx_term(x):
    if isinstance(x, str):
        if any(ord(ch) > 126 or ord(ch) < 32 for ch in x):
            x = "".join(ch if 32 <= ord(ch) <= 126 else "?" for ch in x)
        return f"(Plan.A {cstr(x)})"
    return f"(Plan.N {cstr(x[0])} {clist(sx_term(a) for a in x[1])})"


def gen_stmt(rng):
    """(sql, tags)"""
    k = rng.random()
    if k < 0.45:
        q, ks, tags = c02.gen_query(rng)
        return (q[0] if isinstance(q, tuple) else q), tags
    if k < 0.62:
        shape = rng.choice([
            ("select x, (select z from b where b.x = a.x) from a", {"scalar-subquery-select"}),
            ("select x, (select max(z) from b where b.x = a.x) from a", {"scalar-subquery-select"}),
            ("select x, (select count(*) from b where b.x = a.x) from a", {"scalar-subquery-select"}),
            ("select x from a where x in (select x from b where z > a.y * 5)", {"correlated-in"}),
            ("select x from a where exists (select 1 from b where b.x = a.x limit 1)", {"exists-limit"}),
            ("select x from a where y > (select count(*) from b where b.x = a.x)", {"scalar-subquery-pred"}),
            ("select x from a where y = (select min(z) from b where b.x = a.x)", {"scalar-subquery-pred"}),
            ("select x from a where x in (select x from b)", {"in"}),
            ("select x from a where x < 26 and x in (select x from b)", {"in"}),
            ("select x from a where not exists (select * from b where b.x = a.x and b.z > a.y)", {"exists"}),
            ("select x from a where x > (select max(x) from b)", {"uncorrelated"}),
            ("select (select 1)", {"uncorrelated"}),
        ])
        return shape
    if k < 0.8:
        jt = [rng.choice(["join", "left join", "right join", "full join"]) for _ in range(2)]
        cond2 = rng.choice(["b.x = c.x", "a.y = c.w", "b.z < c.w", "a.x = c.x and b.z = c.w"])
        sel = rng.choice(["a.x, b.z, c.w", "count(*)", "a.x, sum(c.w)", "*"])
        grp = " group by a.x" if sel == "a.x, sum(c.w)" else ""
        where = rng.choice(["", " where a.y > 0", " where c.w is null", " where a.x = 1 and b.z = 2"])
        tail = rng.choice(["", "", " order by 1", " limit 2"]) if not grp else rng.choice(["", " order by a.x"])
        return f"select {sel} from a {jt[0]} b on a.x = b.x {jt[1]} c on {cond2}{where}{grp}{tail}", {"join3"}
    if k < 0.9:
        # join conditions whose equality operands mix both inputs; sort keys / group keys that are not selected
        mixed = rng.choice(["a.y * b.z", "b.z * a.y", "a.x * b.x", "a.x - b.x", "b.z - a.x", "a.y * b.z + 1"])
        plain = rng.choice(["a.x", "a.y", "b.x", "b.z", "a.x + a.y", "b.x * 2"])
        if rng.random() < 0.7:
            e1, e2 = (plain, mixed) if rng.random() < 0.5 else (mixed, plain)
        else:
            e1, e2 = rng.choice(["a.x", "a.x + a.y", "a.x * 2"]), rng.choice(["b.x", "b.x + b.z", "b.x * 2"])
        jt = rng.choice(["join", "join", "left join", "right join", "full join"])
        extra = rng.choice(["", "", "", " and a.y < b.z", " and a.y = b.z"])
        if rng.random() < 0.4:
            # two to four equality conjuncts (the 2- and 3-key hash-join rules); any of them may mix both inputs on either side
            def eq():
                r = rng.random()
                l, rr = rng.choice(["a.x", "a.y", "a.x + a.y"]), rng.choice(["b.x", "b.z", "b.x + b.z"])
                m = rng.choice(["a.y + b.z", "a.x * b.x", "b.z - a.y", "a.x + b.x"])
                return (f"{l} = {rr}" if r < 0.45 else f"{rr} = {l}" if r < 0.6 else f"{l} = {m}" if r < 0.75 else f"{m} = {rr}" if r < 0.85
                        else f"{rr} = {m}" if r < 0.95 else f"{m} = {l}")
            conj = [eq() for _ in range(rng.randint(2, 4))]
            e1, e2 = conj[0].split(" = ")
            extra = "".join(" and " + c for c in conj[1:])
        shapes = [
            (f"select a.x, b.z from a {jt} b on {e1} = {e2}{extra}", {"join-mixed-keys"}),
            (f"select count(*) from a {jt} b on {e1} = {e2}{extra}", {"join-mixed-keys"}),
            (f"select x from a order by {rng.choice(['y', 'y desc', 's, y', 'x + y'])} limit {rng.randint(1, 3)}", {"order-unselected"}),
            (f"select s from a order by {rng.choice(['y', 'x desc', 'y, x'])} limit 2 offset {rng.choice([0, 1, 2, 5000])}", {"order-unselected"}),
            (f"select a.x from a join b on a.x = b.x order by b.z {rng.choice(['', 'desc'])} limit 2", {"order-unselected"}),
            (f"select count(*) from a group by {rng.choice(['y', 'x + y', 's'])}", {"group-unselected"}),
            (f"select x from a where y > 0 order by y limit 1 offset {rng.choice([0, 1, 3000])}", {"order-unselected"}),
            (f"select x, y from a order by x limit 3 offset {rng.choice([1, 2000, 100000])}", {"big-offset"}),
        ]
        return rng.choice(shapes)
    if k < 0.95:
        return rng.choice([
            ("insert into b select x, y from a where x is not null", {"dml"}), ("delete from a where x in (select x from b)", {"dml"}),
            ("delete from a where y > (select count(*) from b)", {"dml"}), ("insert into a values (1, 2, 'z'), (3, 4, null)", {"dml"}),
            ("delete from b where z < 2", {"dml"}), ("insert into c select x, z from b", {"dml"}),
        ])
    return rng.choice([
        ("select x, count(*) over (partition by y) from a", {"window"}), ("select x, row_number() over (order by x) from a", {"window"}),
        ("select x, sum(y) over (partition by s order by x) from a", {"window"}), ("select distinct x, y from a order by x", {"distinct"}),
        ("select x + y as k, count(*) from a group by x + y having count(*) > 0 order by k", {"agg-expr"}),
        ("select s, max(x) - min(y) from a group by s", {"agg-expr"}), ("select * from a, b, c where a.x = b.x and b.x = c.x", {"join3"}),
        ("select x from a union all select x from b", {"setop"}), ("select 1e308", {"exponent-literal"}), ("select x from a where s like 'a%'", {"like"}),
        ("select cast(x as varchar) || s from a", {"cast"}), ("select case when x > 1 then y else x end from a", {"case"}),
        # ORDER BY keys that are not (only) selected columns: under DISTINCT / GROUP BY the statement is either rejected or executable
        ("select distinct x from a order by y + 1", {"distinct"}), ("select distinct x from a order by x + 1 desc", {"distinct"}),
        ("select distinct on (x) x, y from a order by y * 2", {"distinct"}), ("select distinct x, y from a order by x + y", {"distinct"}),
        ("select x from a order by y + 1 limit 2", {"order-expr"}), ("select x from a order by y desc, s limit 1 offset 1", {"order-expr"}),
        ("select x, row_number() over (order by x) as r from a order by r", {"window-order"}), ("select x from a order by row_number() over ()", {"window-order"}),
        ("select x, count(*) from a group by x order by max(y)", {"agg-expr"}), ("select x from a group by x order by count(*) desc limit 2", {"agg-expr"}),
    ])


def run(R, only=None):
    R.prove()
    build_harness()
    n = 700 if R.tier == "quick" else 10000
    cases = []
    for i in range(n):
        a_b, b_b = c02.gen_db(R.rng)
        c_rows = [[R.rng.choice([None, 0, 1, 2]), R.rng.choice([None, 1, 2, 3])] for _ in range(R.rng.randint(0, 3))]
        sql, tags = gen_stmt(R.rng)
        steps = [{"sql": "create table a(x int, y int, s varchar)"}, {"sql": "create table b(x int, z int)"}, {"sql": "create table c(x int, w int)"}]
        for batch in a_b:
            steps.append({"sql": "insert into a values " + ", ".join("(" + ", ".join(c02.lit(v) for v in r) + ")" for r in batch)})
        for batch in b_b:
            steps.append({"sql": "insert into b values " + ", ".join("(" + ", ".join(c02.lit(v) for v in r) + ")" for r in batch)})
        if c_rows:
            steps.append({"sql": "insert into c values " + ", ".join("(" + ", ".join(c02.lit(v) for v in r) + ")" for r in c_rows)})
        steps += [{"explain": sql, "optimize": False}, {"explain": sql}, {"sql": sql}]
        cases.append({"engine": R.rng.choice(["mem", "disk"]), "steps": steps, "sql": sql, "tags": tags})
    # uncorrelated IN / NOT IN whose sub-query returns an EXPRESSION (the in-to-exists applier wraps it in a reference), over tables
    # of 4-8 rows: none of the shapes of the sub-query known finding (correlation, scalar sub-queries, tiny tables)
    for i in range(40 if R.tier == "quick" else 500):
        rng = R.rng
        sql = rng.choice([
            "select x from a where x in (select x + 1 from b)", "select x, y from a where y not in (select z * 2 from b)",
            "select x from a where x in (select x + z from b where z > 0)", "select x from a where x + 1 in (select x from b)",
            "select count(*) from a where y in (select z - 1 from b)", "select x from a where x in (select x + 1 from b) and y > 0",
            "select x from a where x in (select -x from b) order by x", "select s from a where x not in (select x + 1 from b where z is not null)",
        ])
        steps = [{"sql": "create table a(x int, y int, s varchar)"}, {"sql": "create table b(x int, z int)"}, {"sql": "create table c(x int, w int)"},
                 {"sql": "insert into a values " + ", ".join(f"({rng.randint(0, 4)}, {rng.randint(0, 4)}, 'r{j}')" for j in range(rng.randint(4, 8)))},
                 {"sql": "insert into b values " + ", ".join(f"({rng.randint(0, 4)}, {rng.randint(0, 3)})" for j in range(rng.randint(4, 8)))}]
        steps += [{"explain": sql, "optimize": False}, {"explain": sql}, {"sql": sql}]
        cases.append({"engine": rng.choice(["mem", "disk"]), "steps": steps, "sql": sql, "tags": {"in-expr"}})
    # tables with primary keys (ordered inputs: merge joins, sort aggregation, elided ORDER BY)
    for i in range(60 if R.tier == "quick" else 600):
        rng = R.rng
        keys_p = rng.sample(range(1, 20), rng.randint(0, 6))
        keys_q = rng.sample(range(1, 20), rng.randint(0, 6))
        sql = rng.choice([
            "select k from p where k in (select k from q)", "select k from p where k not in (select k from q)",
            "select k from p where exists (select * from q where q.k = p.k)", "select k from p where not exists (select * from q where q.k = p.k)",
            "select p.k, q.w from p join q on p.k = q.k", "select p.k, q.w from p left join q on p.k = q.k", "select p.k, q.w from p full join q on p.k = q.k",
            # semi / anti joins whose two inputs arrive ordered on the key (there is no merge join for them)
            "select p.k from p where exists (select 1 from q where q.k = p.k)", "select p.k, p.v from p where not exists (select 1 from q where q.k = p.k)",
            "select k from p where k in (select k from q)", "select k from p where k not in (select k from q) and v > 0",
            "select p.k from p where exists (select 1 from q where q.k = p.k and q.w > p.v)",
            "select k, count(*) from p group by k", "select k, v from p order by k", "select k from p where k > 3 and k in (select k from q where w > 0)",
            "select p.k from p join q on p.k = q.k where q.w > 1 order by p.k limit 2", "select v, count(*) from p group by v order by v",
        ])
        steps = [{"sql": "create table p(k int primary key, v int)"}, {"sql": "create table q(k int primary key, w int)"}]
        for nm, ks in (("p", keys_p), ("q", keys_q)):
            for part in (ks[: len(ks) // 2], ks[len(ks) // 2:]):
                if part:
                    steps.append({"sql": f"insert into {nm} values " + ", ".join(f"({k}, {k % 3})" for k in part)})
        steps += [{"explain": sql, "optimize": False}, {"explain": sql}, {"sql": sql}]
        cases.append({"engine": rng.choice(["disk", "disk", "mem"]), "steps": steps, "sql": sql, "tags": {"pk-tables"}})
    outs = run_harness("sql", [{"engine": c["engine"], "steps": c["steps"]} for c in cases], jobs=16)
    terms, usable, kinds = [], [], {}
    unparsed = rejected = 0
    for c, o in zip(cases, outs):
        rep = {"kind": "sql-script", "case": {"engine": c["engine"], "steps": c["steps"]}}
        for t in c["tags"]:
            kinds[t] = kinds.get(t, 0) + 1
        if not isinstance(o, list) or len(o) < len(c["steps"]):
            tail = json.dumps(o[-1] if isinstance(o, list) and o else o)
            klass = "KF_C17_exponent_literal_panics" if "invalid digit" in tail else None
            R.property_fails(klass, f"C17 `{c['sql']}` ({c['engine']}): the process aborted while planning: {tail[:200]}", rep)
            continue
        bound, opt, ran = o[-3], o[-2], o[-1]
        txt = json.dumps(ran)
        if "plan" not in bound:
            if "panic" in bound:
                klass = "KF_C17_exponent_literal_panics" if "invalid digit" in json.dumps(bound) else None
                R.property_fails(klass, f"C17 `{c['sql']}`: the binder panics: {json.dumps(bound)[:200]}", rep)
            else:
                rejected += 1               # not accepted by the binder: outside the property
            continue
        if "plan" not in opt:
            klass = "KF_C14_overflow_panics" if "overflow" in json.dumps(opt) else None
            R.property_fails(klass, f"C17 `{c['sql']}` ({c['engine']}): the optimiser fails on a bound statement: {json.dumps(opt)[:200]}", rep)
            continue
        built = not any(t in txt for t in BUILD_PANICS)
        if built and "panic" not in ran and "execute error: abort" in txt:
            # an executor task panicked while the statement ran: the plan was not executable after all
            q = c["sql"]
            win_key = " over (" in q and ("order by" in q.rsplit(")", 1)[-1] or "order by" in q.split(" over (", 1)[0])
            klass = ("KF_C17_window_in_order_by" if win_key else
                     "KF_C11_nl_right_full_todo" if ("(join right_outer" in opt["plan"] or "(join full_outer" in opt["plan"]) else
                     "KF_C17_subquery_not_executable" if "(select" in q and ("max1row" in opt["plan"] or "apply" in opt["plan"]) else None)
            R.property_fails(klass, f"C17 `{c['sql']}` ({c['engine']}) was accepted and planned into {opt['plan'][:160]}; an operator panicked while it ran (execute error: abort)", rep)
            continue
        if not built or "panic" in ran:
            # (the known finding is the dangling column reference / residual apply left by un-nesting, not any plan that cannot be built)
            klass = "KF_C17_subquery_not_executable" if ("(select" in c["sql"] and "in-expr" not in c["tags"] and ("not found from input" in txt or "Apply is not supported" in txt)) else \
                    "KF_C11_nl_right_full_todo" if "not yet implemented" in txt else "KF_C14_overflow_panics" if "overflow" in txt else None
            R.property_fails(klass, f"C17 `{c['sql']}` ({c['engine']}) was accepted and planned into {opt['plan'][:160]} which the executor cannot run: {txt[:160]}", rep)
        try:
            tb, to = parse_sx(bound["plan"]), parse_sx(opt["plan"])
        except Exception:
            unparsed += 1
            continue
        terms.append(f"mk_case {sx_term(tb)} {sx_term(to)} {cbool(built)}")
        usable.append(c)
    failing = coq_eval("C17", HEADER, terms, per_file=60)
    if failing:
        i = sorted(failing)[0]
        c = usable[i]
        R.correspondence_broken("C17 " + {1: "build_ok(optimised plan) = what executor::build did", 2: "optimised plan has the bound plan's columns"}[failing[i][0]] + f": `{c['sql']}`",
                                json.dumps({"engine": c["engine"], "steps": c["steps"]})[:3000])
        if 2 in failing[i]:
            R.property_fails(None, f"C17 `{c['sql']}` ({c['engine']}): the optimised plan does not return the bound query's columns",
                             {"kind": "sql-script", "case": {"engine": c["engine"], "steps": c["steps"]}})
    R.coverage.update({
        "evaluations": len(cases), "distinct_nontrivial": len(terms),
        "rule": "statements over three small tables on both engines (the disk engine plans with real statistics): C02's query generator (filters, "
                "projections, all join types, IN / EXISTS, GROUP BY, DISTINCT, ORDER BY / LIMIT), 12 subquery shapes (scalar subquery in the select "
                "list or a predicate, correlated IN, EXISTS with LIMIT, NOT EXISTS with a non-equi correlation), 3-way joins of mixed types with "
                "residual predicates / aggregation, DML with subqueries, window functions, set operations, CASE, casts, an exponent literal; for each: "
                "bound plan, optimised plan, and the run; plans are parsed and validated inside Coq",
        "samples": [cases[0]["sql"], cases[1]["sql"]], "statement_kind_distribution": kinds, "rejected_by_binder": rejected, "plans_not_parsed": unparsed,
        "model_vs_impl_disagreements": len(failing),
    })
    R.assumptions += ["termination of the optimiser and the choice among equivalent plans are egg's (iteration / node limits); 'no residual apply' and "
                      "column resolution of the extracted plan are validated per run (translation validation), the rule theorems cover the listed rewrites"]


def replay(R, path):
    run(R)
    return R.finish()
