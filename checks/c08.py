"""C08 — readers see a stable snapshot and their files are never removed.

  (i)   proofs Props/C08.v (for every interleaving of commits, pins, unpins and vacuum passes every
        row-set of every pinned snapshot is still there; an epoch's snapshot never changes);
  (ii)  correspondence Corr/C08.v: the version manager's bookkeeping read after every step (hook)
        is the model's step(s) applied to the bookkeeping read before;
  (iii) oracle: scans opened through the storage API (Table::read / Transaction::scan) are held
        open and fetched batch by batch while inserts, deletes, drops, compactor and vacuum passes
        complete in between: each returns exactly the rows committed when it started, never fails,
        and the directories of its row-sets stay on disk until it is closed.
"""
import json

from .common import *  # noqa: F401,F403

HEADER = "From RL Require Import Corr.C08.\n"


def gen_history(rng, tier):
    steps, script = [], []
    live = {"t0": 0}        # name -> table id (ids are handed out in creation order)
    next_tid = [1]
    readers = {}
    pendscan = {}
    rcount = [0]
    steps.append({"sql": "create table t0(a int, b int)"})
    script.append(("create", "t0"))
    keys = [0]

    def ver():
        steps.append({"version": True})
        script.append(("version", None))
    ver()
    n = rng.randint(8, 16) if tier == "quick" else rng.randint(12, 40)
    for _ in range(n):
        r = rng.random()
        names = sorted(live)
        if r < 0.22 and names:
            t = rng.choice(names)
            rows = []
            for _ in range(rng.choice([1, 3, 8, 20])):
                keys[0] += 1
                rows.append((keys[0], rng.randint(0, 3)))
            steps.append({"sql": f"insert into {t} values " + ", ".join(f"({a}, {b})" for a, b in rows)})
            script.append(("insert", t, rows))
        elif r < 0.34 and names:
            t = rng.choice(names)
            k = rng.randint(0, 3)
            steps.append({"sql": f"delete from {t} where b = {k}"})
            script.append(("delete", t, k))
        elif r < 0.50:
            steps.append({"sleep_ms": 900})
            script.append(("sleep",))
        elif r < 0.66 and names and len(readers) < 3:
            t = rng.choice(names)
            rcount[0] += 1
            nm = f"r{rcount[0]}"
            readers[nm] = t
            defer = rng.random() < 0.4
            steps.append({"reader_open": {"name": nm, "table": live[t], "defer_scan": defer}})
            script.append(("open", nm, t))
            if defer:
                pendscan[nm] = True
        elif r < 0.84 and readers:
            nm = rng.choice(sorted(readers))
            if pendscan.pop(nm, None):
                # the transaction was started earlier (version pinned); the scan is opened only now
                steps.append({"reader_scan": nm})
                script.append(("scan", nm))
            else:
                steps.append({"reader_next": nm, "size": rng.choice([1, 2, 5, None])})
                script.append(("next", nm))
        elif r < 0.92 and readers:
            nm = rng.choice(sorted(readers))
            pendscan.pop(nm, None)
            del readers[nm]
            steps.append({"reader_close": nm})
            script.append(("close", nm))
        elif r < 0.96 and len(live) < 2:
            t = "t1" if "t1" not in live else "t0"
            if t in live:
                continue
            live[t] = next_tid[0]
            next_tid[0] += 1
            steps.append({"sql": f"create table {t}(a int, b int)"})
            script.append(("create", t))
        elif names and len(live) > 1:
            t = rng.choice(names)
            del live[t]
            steps.append({"sql": f"drop table {t}"})
            script.append(("drop", t))
        else:
            continue
        ver()
    # drain the readers that are still open
    for nm in sorted(readers):
        if pendscan.pop(nm, None):
            steps.append({"reader_scan": nm})
            script.append(("scan", nm))
        for _ in range(3):
            steps.append({"reader_next": nm})
            script.append(("next", nm))
        steps.append({"reader_close": nm})
        script.append(("close", nm))
        ver()
    return {"steps": steps, "script": script, "opts": {"block": rng.choice([64, None]), "rowset": rng.choice([None, 1200])}}


def obs_term(v, ids, epochs):
    def code(p):
        return str(ids[tuple(p)])
    st = dict((e, s) for e, s in v["status"])
    status = clist(f"({e}, {clist(code(p) for p in st.get(e, []))})" for e in sorted(epochs))
    ref = clist(f"({e}, {c})" for e, c in v["ref_cnt"])
    pend = clist(f"({e}, {clist(code(p) for p in d)})" for e, d in v["pending"])
    pool = clist(code(p) for p in v["pool"])
    return status, ref, pend, pool


def analyse(R, h, out):
    rep = {"kind": "sql-script", "case": {"engine": "disk", "atomic": True, **{k: v for k, v in h["opts"].items() if v is not None}, "steps": h["steps"]}}
    if not isinstance(out, list) or len(out) < len(h["steps"]):
        R.property_fails(None, f"C08 the history aborted: {json.dumps(out[-1] if isinstance(out, list) and out else out)[:220]}", rep)
        return []
    bags = {}
    readers = {}          # name -> {"want": [...], "got": [...], "done": bool, "epoch": e, "snap": [...]}
    ids = {}
    prev = None
    pending_op = None
    terms = []
    for i, (sc, st, o) in enumerate(zip(h["script"], h["steps"], out)):
        kind = sc[0]
        if kind in ("create", "insert", "delete", "drop"):
            if "ok" not in o:
                R.property_fails(None, f"C08 step {i} `{st['sql'][:60]}` failed: {json.dumps(o)[:200]}", rep)
                return terms
            if kind == "create":
                bags[sc[1]] = []
            elif kind == "insert":
                bags[sc[1]] += [list(r) for r in sc[2]]
            elif kind == "delete":
                bags[sc[1]] = [r for r in bags[sc[1]] if r[1] != sc[2]]
            else:
                bags.pop(sc[1], None)
            pending_op = ("commit",)
        elif kind == "sleep":
            pending_op = ("sleep",)
        elif kind == "open":
            if "reader" not in o:
                R.property_fails(None, f"C08 step {i}: opening a scan on {sc[2]} failed: {json.dumps(o)[:200]}", rep)
                return terms
            readers[sc[1]] = {"want": sorted(map(json.dumps, bags[sc[2]])), "got": [], "done": False, "table": sc[2]}
            pending_op = ("pin", sc[1])
        elif kind == "scan":
            if "scan" not in o:
                rd = readers.get(sc[1])
                R.property_fails(None, f"C08 step {i}: the transaction of reader {sc[1]} (on {rd['table'] if rd else '?'}) was started earlier; opening its scan now, after other "
                                       f"operations completed, fails: {json.dumps(o)[:200]}", rep)
                return terms
            pending_op = None
        elif kind == "next":
            rd = readers.get(sc[1])
            if "batch" not in o:
                R.property_fails(None, f"C08 step {i}: reader {sc[1]} (on {rd['table'] if rd else '?'}, opened earlier) fails while other operations completed in between: {json.dumps(o)[:200]}", rep)
                return terms
            if o["batch"] is None:
                rd["done"] = True
                if sorted(rd["got"]) != rd["want"]:
                    R.property_fails(None, f"C08 step {i}: reader {sc[1]} returned {len(rd['got'])} rows, the table held {len(rd['want'])} rows when the scan started", rep)
            else:
                rd["got"] += [json.dumps([v[1] for v in r]) for r in o["batch"]]
                extra = [x for x in set(rd["got"]) if rd["got"].count(x) > rd["want"].count(x)]
                if extra:
                    R.property_fails(None, f"C08 step {i}: reader {sc[1]} returned rows that were not in the table when the scan started: {extra[:3]}", rep)
            pending_op = None
        elif kind == "close":
            pending_op = ("unpin", sc[1])
        elif kind == "version":
            if "version" not in o:
                R.property_fails(None, f"C08 step {i}: no version state: {json.dumps(o)[:200]}", rep)
                return terms
            v = o["version"]
            dirs = {f.split("/")[0] for f in o["ls"] if "/" in f and not f.startswith("dv/")}
            st_map = dict((e, s) for e, s in v["status"])
            # every row-set of the current and of every pinned snapshot is in the pool and on disk
            for e in [v["epoch"]] + [e for e, c in v["ref_cnt"] if c > 0]:
                for t, r in st_map.get(e, []):
                    if [t, r] not in v["pool"] or f"{t}_{r}" not in dirs:
                        R.property_fails(None, f"C08 after step {i - 1} ({h['script'][i - 1][0]}): row-set {t}_{r} of the snapshot of epoch {e} "
                                               f"({'pinned' if e != v['epoch'] else 'current'}) is gone (pool {v['pool']}, directories {sorted(dirs)})", rep)
                        return terms
            # ids in creation order
            newp = sorted({tuple(p) for _, s in v["status"] for p in s} | {tuple(p) for p in v["pool"]}, key=lambda p: p[1])
            nadds_total = 0
            for p in newp:
                if p not in ids:
                    ids[p] = len(ids)
                    nadds_total += 1
            if prev is not None and pending_op is not None:
                pv, pnext = prev
                ops = []
                for e in range(pv["epoch"], v["epoch"]):
                    a, b = st_map.get(e, []), st_map.get(e + 1, [])
                    adds = [p for p in b if p not in a]
                    dels = [p for p in a if p not in b]
                    ops.append(f"Commit {len(adds)} {clist(str(ids[tuple(p)]) for p in dels)}")
                if pending_op[0] == "pin":
                    ops.append("Pin")
                if pending_op[0] == "unpin":
                    pe = readers.get(pending_op[1], {}).get("epoch")
                    if pe is None:
                        prev = (v, len(ids))
                        pending_op = None
                        continue
                    ops.append(f"Unpin {pe}")
                alts = [ops, ops + ["Vacuum"], ["Vacuum"] + ops]
                epochs = {pv["epoch"], v["epoch"]} | {e for e, _ in pv["ref_cnt"]} | {e for e, _ in v["ref_cnt"]} | set(range(pv["epoch"], v["epoch"] + 1))
                s1 = obs_term(pv, ids, epochs)
                s2 = obs_term(v, ids, epochs)
                terms.append(f"mk_case (mk_obs {pv['epoch']} {s1[0]} {s1[1]} {s1[2]} {s1[3]} {pnext}) {clist(clist(a) for a in alts)} "
                             f"(mk_obs {v['epoch']} {s2[0]} {s2[1]} {s2[2]} {s2[3]} {len(ids)})")
            if pending_op is not None and pending_op[0] == "pin":
                readers[pending_op[1]]["epoch"] = v["epoch"]
            prev = (v, len(ids))
            pending_op = None
    return terms


def run(R, only=None):
    R.prove()
    build_harness()
    n = 120 if R.tier == "quick" else 2000
    hs = only or [gen_history(R.rng, R.tier) for _ in range(n)]
    for h in hs:
        h["script"] = [tuple(x) for x in h["script"]]
    outs = run_harness("sql", [{"engine": "disk", "atomic": True, **{k: v for k, v in h["opts"].items() if v is not None}, "steps": h["steps"]} for h in hs], jobs=16)
    terms, owner, kinds = [], [], {}
    for h, o in zip(hs, outs):
        for s in h["script"]:
            kinds[s[0]] = kinds.get(s[0], 0) + 1
        ts = analyse(R, h, o)
        terms += ts
        owner += [h] * len(ts)
    failing = coq_eval("C08", HEADER, terms, per_file=150)
    if failing:
        i = sorted(failing)[0]
        R.correspondence_broken("C08 " + {1: "version manager state after the step = model step(s) on the state before", 2: "observed state satisfies the pinned-files invariant"}[failing[i][0]],
                                json.dumps({"history": owner[i]}))
    R.coverage.update({
        "evaluations": len(terms), "distinct_nontrivial": sum(1 for h in hs if sum(1 for s in h["script"] if s[0] == "open") >= 1 and any(s[0] == "sleep" for s in h["script"])),
        "rule": "histories of 8-40 steps over two tables: INSERT 1-20 rows, DELETE, DROP / CREATE TABLE, compactor + vacuum passes, and up to three scans "
                "held open through Table::read / Transaction::scan and fetched in batches of 1 / 2 / 5 / all rows in between; the version manager's "
                "bookkeeping and the directory listing are read after every step; block size 64 / default, row-set size 1200 / default",
        "samples": [hs[0]["steps"][:6]], "step_distribution": kinds, "model_vs_impl_disagreements": len(failing),
    })
    R.assumptions += ["steps are atomic at the granularity of a statement / compactor pass / batch fetch (the harness keeps the clock from advancing inside a "
                      "statement): the theorems cover every interleaving of these steps; preemption INSIDE a commit or a vacuum pass, the block cache and the "
                      "OS's unlink-while-open semantics are not modelled (C09's schedule points cover the compactor's internals)"]


def replay(R, path):
    d = json.load(open(path))
    h = d.get("history") or json.loads(d["detail"])["history"]
    run(R, only=[h])
    return R.finish()
