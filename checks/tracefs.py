"""Replay of the file-system operations of a traced run (strace) into crash images.

The harness is run under `strace -f -y -xx -s <big>`; the persistence steps the process really
executed on the database directory (mkdir, create, write with its data, rename, unlink, rmdir)
are extracted in completion order, together with the step markers of the harness.  A crash image
is the directory after a prefix of these operations, optionally with the last write torn."""
import os
import re
import subprocess

from .common import RLH, ENV

TRACE = ("openat,read,write,pwrite64,writev,rename,renameat,renameat2,unlink,unlinkat,mkdir,mkdirat,"
         "rmdir,fsync,fdatasync,close,lseek,ftruncate")
HEX = re.compile(r'"((?:\\x[0-9a-f]{2})*)"(\.\.\.)?')


def unhex(s):
    return bytes(int(s[i + 2:i + 4], 16) for i in range(0, len(s), 4))


def run_traced(case_json, trace_path, timeout=600):
    p = subprocess.run(["strace", "-f", "-o", trace_path, "-y", "-s", "100000000", "-xx", "-e", "trace=" + TRACE, RLH, "sql"],
                       input=case_json + "\n", capture_output=True, text=True, timeout=timeout, env=ENV)
    return p.stdout


def join_lines(text):
    """completed calls in completion order: (pid, call text)"""
    pending = {}
    for line in text.split("\n"):
        m = re.match(r"(\d+)\s+(.*)$", line)
        if not m:
            continue
        pid, rest = m.group(1), m.group(2)
        if rest.endswith("<unfinished ...>"):
            pending[pid] = rest[: -len("<unfinished ...>")]
            continue
        r = re.match(r"<\.\.\. \w+ resumed>(.*)$", rest)
        if r:
            rest = pending.pop(pid, "") + r.group(1)
        yield pid, rest


def parse(text, dbdir):
    """-> list of events on paths below dbdir (relative), and markers:
    ("marker", name) ("mkdir", p) ("create", p, trunc) ("write", p, off, data) ("rename", a, b) ("unlink", p) ("rmdir", p)"""
    dbdir = dbdir.rstrip("/") + "/"
    fds = {}           # fd -> [relpath, offset, append]
    events = []

    def rel(pathbytes):
        p = pathbytes.decode("utf-8", "replace")
        return p[len(dbdir):] if p.startswith(dbdir) else None

    for pid, call in join_lines(text):
        m = re.match(r"(\w+)\((.*)\)\s+= (-?\d+)(.*)$", call, re.S)
        if not m:
            continue
        name, args, ret, tail = m.group(1), m.group(2), int(m.group(3)), m.group(4)
        strs = [unhex(x[0]) for x in HEX.findall(args)]
        if name == "openat":
            path = strs[1] if len(strs) > 1 else (strs[0] if strs else b"")
            ptxt = path.decode("utf-8", "replace")
            if ptxt.startswith("/__rlh_marker__/"):
                events.append(("marker", ptxt[len("/__rlh_marker__/"):]))
                continue
            if ret < 0:
                continue
            r = rel(path)
            if r is None:
                fds.pop(ret, None)
                continue
            fds[ret] = [r, 0, "O_APPEND" in args]
            if "O_CREAT" in args or "O_TRUNC" in args:
                events.append(("create", r, "O_TRUNC" in args))
        elif name in ("read", "write", "pwrite64", "lseek", "close", "fsync", "fdatasync", "ftruncate"):
            fm = re.match(r"(\d+)", args)
            if not fm:
                continue
            fd = int(fm.group(1))
            if fd not in fds:
                continue
            ent = fds[fd]
            if name == "read" and ret > 0:
                ent[1] += ret
            elif name == "lseek" and ret >= 0:
                ent[1] = ret
            elif name == "write" and ret > 0:
                data = strs[-1][:ret] if strs else b""
                # the first hex string of the args is the fd's path (-y) when present: the data is the last one
                events.append(("write", ent[0], None if ent[2] else ent[1], data))
                ent[1] += ret
            elif name == "pwrite64" and ret > 0:
                off = int(re.findall(r", (\d+)\s*$", args)[0]) if re.findall(r", (\d+)\s*$", args) else 0
                events.append(("write", ent[0], off, strs[-1][:ret]))
            elif name == "ftruncate" and ret == 0:
                events.append(("create", ent[0], True))
            elif name == "close":
                fds.pop(fd, None)
        elif ret == 0 and name in ("rename", "renameat", "renameat2"):
            ps = [rel(s) for s in strs if s.startswith(b"/")]
            ps = [p for p in ps if p is not None]
            if len(ps) >= 2:
                events.append(("rename", ps[-2], ps[-1]))
        elif ret == 0 and name in ("unlink", "unlinkat"):
            ps = [rel(s) for s in strs if s.startswith(b"/")]
            ps = [p for p in ps if p is not None]
            if ps:
                events.append(("rmdir" if "AT_REMOVEDIR" in args else "unlink", ps[-1]))
        elif ret == 0 and name == "rmdir":
            ps = [rel(s) for s in strs]
            if ps and ps[0] is not None:
                events.append(("rmdir", ps[0]))
        elif ret == 0 and name in ("mkdir", "mkdirat"):
            ps = [rel(s + b"/") if not s.endswith(b"/") else rel(s) for s in strs if s.startswith(b"/")]
            if ps and ps[-1] is not None:
                events.append(("mkdir", ps[-1].rstrip("/")))
    return events


class FS:
    def __init__(self):
        self.files, self.dirs = {}, set()

    def apply(self, ev, cut=None):
        k = ev[0]
        if k == "mkdir":
            if ev[1]:
                self.dirs.add(ev[1])
        elif k == "create":
            if ev[2] or ev[1] not in self.files:
                self.files[ev[1]] = bytearray()
        elif k == "write":
            data = ev[3] if cut is None else ev[3][:cut]
            f = self.files.setdefault(ev[1], bytearray())
            off = len(f) if ev[2] is None else ev[2]
            if off > len(f):
                f.extend(b"\0" * (off - len(f)))
            f[off:off + len(data)] = data
        elif k == "rename":
            if ev[1] in self.files:
                self.files[ev[2]] = self.files.pop(ev[1])
        elif k == "unlink":
            self.files.pop(ev[1], None)
        elif k == "rmdir":
            self.dirs.discard(ev[1])

    def key(self):
        return (tuple(sorted((k, bytes(v)) for k, v in self.files.items())), tuple(sorted(self.dirs)))

    def materialise(self, d):
        os.makedirs(d, exist_ok=True)
        for x in sorted(self.dirs):
            os.makedirs(os.path.join(d, x), exist_ok=True)
        for k, v in self.files.items():
            os.makedirs(os.path.dirname(os.path.join(d, k)) or d, exist_ok=True)
            with open(os.path.join(d, k), "wb") as f:
                f.write(bytes(v))
