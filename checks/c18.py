"""C18 — corrupted column data is detected, not returned."""
import json

from .common import *  # noqa: F401,F403
from . import c06

HEADER = "From RL Require Import Corr.C18.\nOpen Scope Z_scope.\n"
CORPUS = os.path.join(VERIF, "corpus", "C18")


def gen_case(rng, tier):
    c = c06.gen_case(rng, tier)
    c.pop("reads")
    c["crc"] = True
    c["block"] = rng.choice([48, 64, 128])
    # keep files small so that every single-bit flip can be enumerated
    n = rng.choice([1, 3, 8, 20, 40])
    vals = [v for a in c["arrays"] for v in a][:n]
    c["arrays"] = [vals]
    return c


def gen_muts(rng, col_len, idx_len, index, tier):
    muts = []
    budget = 48 if tier == "quick" else 400
    for f, ln in (("col", col_len), ("idx", idx_len)):
        bits = list(range(ln * 8))
        if len(bits) > budget:
            # all bits of every block trailer / of the footer, plus a sample of the rest
            keep = set()
            if f == "col":
                for off, length, _ in index:
                    keep.update(range((off + length - 16) * 8, (off + length) * 8))
            else:
                keep.update(range((ln - 24) * 8, ln * 8))
            keep = sorted(keep)
            rng.shuffle(keep)
            bits = keep[: budget // 2] + rng.sample(bits, budget // 2)
        muts += [{"file": f, "kind": "flip", "bit": b} for b in bits]
        for _ in range(4):
            muts.append({"file": f, "kind": "set", "pos": rng.randrange(ln),
                         "vals": [rng.randint(0, 255) for _ in range(rng.choice([1, 2, 4, 12]))]})
        for _ in range(2):
            muts.append({"file": f, "kind": "trunc", "len": rng.randrange(ln)})
    # the block-type field of the last block overwritten by every other valid block type
    off, length, _ = index[-1]
    for t in range(19):
        muts.append({"file": "col", "kind": "set", "pos": off + length - 13, "vals": [t]})
    # the forged trailer: altered data, checksum type None, checksum 0 (known finding)
    off, length, _ = index[-1]
    if length > 16:
        muts.append({"file": "col", "kind": "set", "pos": off,
                     "vals": [7] + [None] * (length - 13) + [0] * 12, "forge": True})
    return muts


def py_mutate(data, m):
    d = list(data)
    if m["kind"] == "flip":
        k = m["bit"]
        if k // 8 < len(d):
            d[k // 8] ^= 1 << (k % 8)
    elif m["kind"] == "set":
        for i, v in enumerate(m["vals"]):
            if m["pos"] + i < len(d):
                d[m["pos"] + i] = v
    else:
        d = d[: m["len"]]
    return d


def oracle(case, out, m, r):
    """the property on one mutation: every read fails, or returns exactly the original data"""
    if r["open"].get("ok") is None:
        return None                       # the index file is rejected
    rd = r["read"]
    if rd is not None and "ok" in rd and rd["ok"] != out["original"]["ok"]:
        return f"a read of the corrupted {m['file']} file returned altered values"
    if isinstance(r["blocks"], list):
        for b, (off, length, _) in zip(r["blocks"], out["index"]):
            if isinstance(b, dict):
                continue
            orig = out["col"][off:off + length - 16]
            oks = [x["ok"] for x in b if "ok" in x]
            if any(o != orig for o in oks):
                return "get_block returned altered bytes of a corrupted block"
            if len(oks) not in (0, len(b)):
                return "repeated reads of a corrupted block disagree (error, then data from the cache)"
    return None


def classify(m):
    if m.get("forge") or (m["kind"] == "set" and len(m["vals"]) >= 12):
        return "KF_C18_forged_trailer"
    return None


def mut_term(m, r):
    if m["kind"] == "flip":
        mu = f"MFlip {m['bit']}%nat"
    elif m["kind"] == "set":
        mu = f"MSet {m['pos']}%nat {clist(str(v) for v in m['vals'])}"
    else:
        mu = f"MTrunc {m['len']}%nat"
    opened = r["open"].get("ok") is not None
    blocks = []
    if isinstance(r["blocks"], list):
        for b in r["blocks"]:
            if isinstance(b, dict):      # get_block_repeated failed as a whole / panicked
                blocks.append("[None; None]")
            else:
                blocks.append(clist(("(Some " + clist(str(x) for x in o["ok"]) + ")") if "ok" in o else "None" for o in b))
    return f"({cbool(m['file'] == 'idx')}, {mu}, {cbool(opened)}, {clist(blocks)})"


def sql_cases(rng, tier):
    """end to end on real files: two tables, corrupt one file of the first, reopen, read twice"""
    cases = []
    n = 6 if tier == "quick" else 60
    for i in range(n):
        rows = rng.choice([3, 40, 300])
        target = rng.choice(["0_0/0.col", "0_0/1.col", "0_0/0.idx", "0_0/1.idx"])
        kind = rng.choice(["flip", "flip", "flip", "truncate"])
        if i < 2:   # always: one index-file flip (the open-time known finding), one column-file flip
            target, kind = ["0_0/0.idx", "0_0/1.col"][i], "flip"
        if i == 2:  # always: a truncation that removes a block trailer (real file, positioned reads)
            target, kind, rows = "0_0/0.col", "truncate", 8
            step_fixed = {"truncate": {"path": target, "len": 12}}
        step = ({"flip": {"path": target, "bit": rng.randrange(1 << 20)}} if kind == "flip"
                else {"truncate": {"path": target, "len": rng.randrange(20)}})
        if i == 2:
            step = step_fixed
        vals = ",".join(f"({i},{i * 7 % 11})" for i in range(rows))
        cases.append({"engine": "disk", "crc": True, "target": target, "steps": [
            {"sql": "create table t(a int not null, b int)"}, {"sql": "create table u(a int not null, b int)"},
            {"sql": f"insert into t values {vals}"}, {"sql": f"insert into u values {vals}"},
            {"sql": "select a, b from t"}, {"sql": "select a, b from u"},
            {"shutdown": True}, step, {"open": True},
            {"sql": "select a, b from t"}, {"sql": "select a, b from t"}, {"sql": "select a, b from u"}]})
    # corruption met first by the background compactor: several blocks, a flipped bit in a later
    # block, a second row-set, one compactor pass, then queries
    for i in range(2 if tier == "quick" else 10):
        rows = 200
        vals = ",".join(f"({j},{j * 7 % 11})" for j in range(rows))
        cases.append({"engine": "disk", "crc": True, "block": 128, "target": "0_0/0.col", "compaction": True, "steps": [
            {"sql": "create table t(a int not null, b int)"}, {"sql": "create table u(a int not null, b int)"},
            {"sql": f"insert into t values {vals}"}, {"sql": f"insert into u values {vals}"},
            {"sql": "select a, b from t"}, {"sql": "select a, b from u"},
            {"shutdown": True}, {"flip": {"path": "0_0/0.col", "bit": 8 * (300 + 37 * i) + 3}}, {"open": True},
            {"sql": "insert into t values (1000, 1)"}, {"sleep_ms": 2500},
            {"sql": "select a, b from t"}, {"sql": "select a, b from t"}, {"sql": "select a, b from u"}]})
    # a keyed table with two row-sets: the sorted scan and the compactor read through the merge iterator; the flipped bit sits in a
    # later block of the first row-set, met in the middle of the merge (the second row-set is inserted after the reopen: a shutdown
    # leaves one row-set per table)
    for i in range(2 if tier == "quick" else 10):
        v1 = ",".join(f"({j},{j * 7 % 11})" for j in range(0, 800, 2))
        v2 = ",".join(f"({j},{j * 7 % 11})" for j in range(1, 60, 2))
        vu = ",".join(f"({j},{j * 7 % 11})" for j in range(50))
        cases.append({"engine": "disk", "crc": True, "block": 128, "target": "0_0/0.col", "merge": True, "steps": [
            {"sql": "create table t(a int primary key, b int)"}, {"sql": "create table u(a int not null, b int)"},
            {"sql": f"insert into t values {v1}"}, {"sql": f"insert into u values {vu}"},
            {"sql": "select a, b from t"}, {"sql": "select a, b from u"},
            {"shutdown": True}, {"flip": {"path": rng.choice(["0_0/0.col", "0_0/1.col"]), "bit": 8 * (300 + 37 * i + rng.randrange(900)) + 3}}, {"open": True},
            {"sql": f"insert into t values {v2}"},
            {"sql": "select a, b from t"}, {"sql": "select a, b from t order by a"}, {"sleep_ms": 2500},
            {"sql": "select a, b from t"}, {"sql": "select a, b from u"}]})
    return cases


def sql_oracle(case, out):
    if case.get("merge"):
        def rows(o):
            return sorted(json.dumps(r) for r in o["ok"][0]["rows"]) if "ok" in o else None
        if not isinstance(out, list) or len(out) < 15:
            if isinstance(out, list) and out and "panic" in out[-1] and out[-1].get("at") == "open":
                return (None, "a corrupted column file makes Database::new_on_disk panic: no table is readable")
            return (None, f"script stopped early: {json.dumps(out[-1] if isinstance(out, list) and out else out)[:200]}")
        t0, u0 = rows(out[4]), rows(out[5])
        if "ok" not in out[9]:
            return None          # (the INSERT itself met the corrupted block: detected)
        want = sorted(t0 + [json.dumps([["i32", j], ["i32", j * 7 % 11]]) for j in range(1, 60, 2)])
        for k in (10, 11, 13):
            r = rows(out[k])
            if r is not None and r != want:
                return (None, f"a merge scan over a corrupted row-set returned {len(r)} rows (Ok) instead of an error or the {len(want)} rows stored"
                              f"{' after a compactor pass' if k == 13 else ''}")
        if rows(out[14]) != u0:
            return (None, "the unaffected table is no longer readable / differs")
        return None
    if case.get("compaction"):
        def rows(o):
            return sorted(json.dumps(r) for r in o["ok"][0]["rows"]) if "ok" in o else None
        if len(out) < 14:
            return (None, f"script stopped early: {json.dumps(out[-1])[:200]}")
        t0, u0 = rows(out[4]), rows(out[5])
        want = sorted(t0 + [json.dumps([["i32", 1000], ["i32", 1]])])
        for o in out[11:13]:
            r = rows(o)
            if r is not None and r != want:
                return (None, f"after a compactor pass over a corrupted row-set a query returned {len(r)} rows instead of an error or the {len(want)} original rows")
        if rows(out[13]) != u0:
            return (None, "the unaffected table is no longer readable / differs")
        return None
    def rows(o):
        return sorted(json.dumps(r) for r in o["ok"][0]["rows"]) if "ok" in o else None
    if len(out) < 12:
        if out and "panic" in out[-1] and out[-1].get("at") == "open":
            return ("KF_C18_corrupt_file_blocks_open" if case["target"].endswith(".idx") else None,
                    f"a corrupted {case['target']} makes Database::new_on_disk panic: no table is readable")
        return (None, f"script stopped early: {json.dumps(out[-1])[:200]}")
    t0, u0 = rows(out[4]), rows(out[5])
    for o in out[9:11]:
        r = rows(o)
        if r is not None and r != t0:
            return (None, "a query over the corrupted table returned altered rows")
    r = rows(out[11])
    if r != u0:
        return (None, "the unaffected table is no longer readable / differs")
    return None


def run(R, only=None):
    R.prove()
    build_harness()
    n = 24 if R.tier == "quick" else 300
    cases = [gen_case(R.rng, R.tier) for _ in range(n)]
    # first pass to learn file sizes and block layout, second pass with the mutations
    probe = run_harness("c18", [dict(c, muts=[]) for c in cases], jobs=16)
    for c, p in zip(cases, probe):
        c["muts"] = gen_muts(R.rng, len(p["col"]), len(p["idx"]), p["index"], R.tier) if "col" in p else []
        for m in c["muts"]:
            if m.get("forge"):
                # keep the original bytes except the first one and the trailer
                off, length, _ = p["index"][-1]
                orig = p["col"][off:off + length]
                m["vals"] = [(orig[0] ^ 0x55)] + orig[1:length - 12] + [0] * 12
    outs = run_harness("c18", cases, jobs=16)
    terms, n_mut, n_detected, usable = [], 0, 0, []
    for c, o in zip(cases, outs):
        if "res" not in o:
            R.property_fails(None, "C18 harness failure " + json.dumps(o)[:200], {"kind": "fault", "case": c})
            continue
        for m, r in zip(c["muts"], o["res"]):
            n_mut += 1
            why = oracle(c, o, m, r)
            if why:
                R.property_fails(classify(m), "C18 " + why,
                                 {"kind": "fault", "case": dict(c, muts=[m]), "observed": r})
            if r["open"].get("ok") is None or (r["read"] and "ok" not in r["read"]):
                n_detected += 1
        idx = clist(f"({i[0]}%nat, {i[1]}%nat)" for i in o["index"])
        muts = clist(mut_term(m, r) for m, r in zip(c["muts"], o["res"]))
        terms.append(f"mk_case {clist(str(b) for b in o['col'])} {clist(str(b) for b in o['idx'])} {idx} {muts}")
        usable.append(c)
    failing = coq_eval("C18", HEADER, terms, per_file=2)
    names = {1: "the index file parses into one record per block", 2: "verdict on a mutation (model vs implementation)"}
    for i, subs in sorted(failing.items()):
        R.correspondence_broken("C18 " + "; ".join(names[s] for s in subs), json.dumps(usable[i])[:2000])
        break
    # CRC model vs crc32fast on raw byte strings
    blobs = [[R.rng.randint(0, 255) for _ in range(R.rng.choice([0, 1, 2, 7, 33, 100]))] for _ in range(40)]
    crcs = run_harness("crc", blobs, jobs=4)
    crc_terms = [f"({clist(str(b) for b in bl)}, {c})" for bl, c in zip(blobs, crcs)]
    bad = coq_eval("C18crc", "From RL Require Import Model.Crc.\nOpen Scope Z_scope.\n"
                   "Definition check_case (p : list Z * Z) : list nat := if crc32 (fst p) =? snd p then [] else [1%nat].\n",
                   crc_terms, per_file=40, ty="(list Z * Z)")
    if bad:
        R.correspondence_broken("C18 Model.Crc.crc32 = crc32fast::hash", json.dumps(blobs[sorted(bad)[0]]))
    # end to end on real files
    sc = sql_cases(R.rng, R.tier)
    so = run_harness("sql", sc, jobs=8)
    for c, o in zip(sc, so):
        res = sql_oracle(c, o)
        if res:
            R.property_fails(res[0], "C18 " + res[1], {"kind": "sql-script", "case": c, "observed": o[-3:]})
    R.coverage.update({
        "evaluations": n_mut + len(sc), "distinct_nontrivial": n_detected,
        "rule": "small columns of every type/encoding with CRC on; per column: every single-bit flip of the .col and .idx bytes "
                "(sampled above the budget, trailers and footer always complete), byte overwrites, truncations, and a forged trailer; "
                "each read twice through the same block cache; non-trivial = the mutation changes bytes that a read covers and is rejected",
        "samples": [{"case": {k: v for k, v in cases[0].items() if k != "muts"}, "mutations": cases[0]["muts"][:3]}],
        "mutations": n_mut, "sql_level_cases": len(sc), "crc_strings_compared": len(blobs),
        "model_vs_impl_disagreements": len(failing) + len(bad),
    })
    R.assumptions += [
        "crc32fast::hash = bitwise reflected CRC-32 (compared on random strings on every run)",
        "the moka cache behaves like a map filled only by a successful initialiser (try_get_with)",
        "prost's length-delimited framing of index records (varint length + body)",
    ]


def replay(R, path):
    run(R)
    return R.finish()
