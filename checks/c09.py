"""C09 — background compaction never loses or resurrects rows under concurrency.

  (i)   proofs Props/C09.v (for every interleaving of the protocol's events the table is exactly the
        acknowledged inserts minus the acknowledged deletes; refutations of the pre-repair protocols);
  (ii)  correspondence Corr/C09.v: schedules run on the real engine — the compactor is held at its
        schedule points (hook, gated from the harness), client INSERTs run and DELETEs are started
        as their own tasks in between — are replayed per table as the model's events;
  (iii) oracle: after the schedule and after a reopen every table holds the acknowledged inserts
        minus the rows of the acknowledged deletes.
"""
import json

from .common import *  # noqa: F401,F403

HEADER = "From RL Require Import Corr.C09.\n"
ALL = clist(str(i) for i in range(0, 60))      # "every live row-set" as a selection


def gen_schedule(rng, tier):
    tabs = {"a": 0, "b": 1}
    steps, script = [], []
    init = {"a": [], "b": []}
    for t in ("a", "b"):
        steps.append({"sql": f"create table {t}(k int, g int)"})
        script.append(("ddl",))
    nxt = {"a": 1, "b": 101}
    for t in ("a", "b"):
        for _ in range(rng.randint(2, 3)):
            rows = []
            for _ in range(rng.randint(1, 4)):
                rows.append(nxt[t])
                nxt[t] += 1
            init[t] += rows
            steps.append({"sql": f"insert into {t} values " + ", ".join(f"({k}, 0)" for k in rows)})
            script.append(("setup-insert", t, rows))
    wiped = None
    if rng.random() < 0.25:
        # every row of one table is deleted before the pass: its compaction writes no row-set at all
        wiped = rng.choice(["a", "b"])
    steps.append({"gate": ["compactor."]})
    script.append(("gate",))
    steps.append({"tick": 1000})
    script.append(("tick",))
    free = {t: list(init[t]) for t in init}      # initial keys no delete has claimed yet
    dcount = 0
    pend = []
    if wiped:
        dcount += 1
        steps.insert(len(steps) - 2, {"spawn": {"name": "d1", "sql": f"delete from {wiped}"}, "idle_ms": 300, "wait_ms": 3000})
        script.insert(len(script) - 2, ("spawn", "d1", wiped, list(init[wiped])))
        steps.insert(len(steps) - 2, {"join": "d1", "timeout_ms": 6000})
        script.insert(len(script) - 2, ("join", "d1"))
        free[wiped] = []
    nrel = rng.randint(11, 14)
    for _ in range(nrel):
        for _ in range(rng.choice([0, 0, 1, 1, 2])):
            r = rng.random()
            t = rng.choice(["a", "b"])
            if r < 0.35:
                rows = []
                for _ in range(rng.randint(1, 3)):
                    rows.append(nxt[t])
                    nxt[t] += 1
                steps.append({"sql": f"insert into {t} values " + ", ".join(f"({k}, 1)" for k in rows)})
                script.append(("insert", t, rows))
                free[t] += rows        # a later DELETE may span an old row-set and this new one
            elif r < 0.85 and free[t]:
                keys = rng.sample(free[t], min(len(free[t]), rng.randint(1, 3)))
                for k in keys:
                    free[t].remove(k)
                dcount += 1
                nm = f"d{dcount}"
                steps.append({"spawn": {"name": nm, "sql": f"delete from {t} where k in ({', '.join(map(str, keys))})"}, "idle_ms": 300, "wait_ms": 3000})
                script.append(("spawn", nm, t, keys))
                pend.append(nm)
            elif pend:
                nm = rng.choice(pend)
                steps.append({"join": nm, "timeout_ms": 300})
                script.append(("join", nm))
        steps.append({"release": "compactor."})
        script.append(("release",))
    steps.append({"ungate": True})
    script.append(("ungate",))
    for nm in pend:
        steps.append({"join": nm, "timeout_ms": 6000})
        script.append(("join", nm))
    for t in ("a", "b"):
        steps.append({"sql": f"select k from {t}"})
        script.append(("final", t))
    steps.append({"reopen": True})
    script.append(("reopen",))
    for t in ("a", "b"):
        steps.append({"sql": f"select k from {t}"})
        script.append(("final2", t))
    # a second reopen and new rows: ids handed out again after the reopens must not meet anything left over from the pass
    steps.append({"reopen": True})
    script.append(("reopen",))
    for t in ("a", "b"):
        rows = [nxt[t], nxt[t] + 1]
        nxt[t] += 2
        steps.append({"sql": f"insert into {t} values " + ", ".join(f"({k}, 2)" for k in rows)})
        script.append(("insert-late", t, rows))
    for t in ("a", "b"):
        steps.append({"sql": f"select k from {t}"})
        script.append(("final2", t))
    return {"steps": steps, "script": script, "init": init}


def analyse(R, h, out):
    rep = {"kind": "sql-script", "case": {"engine": "disk", "atomic": True, "steps": h["steps"]}, "schedule": h}
    if not isinstance(out, list) or len(out) < len(h["steps"]):
        R.property_fails(None, f"C09 the schedule aborted: {json.dumps(out[-1] if isinstance(out, list) and out else out)[:220]}", rep)
        return []
    tid = {"a": 0, "b": 1}
    ev = {"a": [], "b": []}
    inserted = {t: list(h["init"][t]) for t in ("a", "b")}
    deletes = {}                 # name -> dict(table, keys, state)
    holder = None                # table whose lock the compactor holds
    waiting = {"a": [], "b": []} # deletes waiting for the lock, in arrival order
    acked = {"a": [], "b": []}
    parked = []

    def comp_arrive(point):
        nonlocal holder
        name, _, t = point.partition(":")
        tname = {"0": "a", "1": "b"}.get(t)
        kind = name.split(".")[1]
        # arriving anywhere outside the locked section of the held table releases its lock
        if holder is not None and not (tname == holder and kind in ("pinned", "before_commit", "committed")):
            unlock()
        if kind == "pass_end":
            return
        if kind == "locked":
            holder = tname
            ev[tname].append("XCompLock")
        elif kind == "pinned":
            ev[tname].append(f"XCompPin {ALL}")
        elif kind == "committed":
            ev[tname].append("XCompCommit")

    def unlock():
        nonlocal holder
        t = holder
        holder = None
        if not any(e.startswith("XCompPin") for e in ev[t][-3:]) and ev[t] and ev[t][-1] == "XCompLock":
            pass
        # a pinned but never committed compaction (one row-set only): the model's commit of a single row-set is a no-op
        if ev[t] and ev[t][-1].startswith("XCompPin"):
            ev[t].append("XCompCommit")
        ev[t].append("XCompUnlock")
        for nm in waiting[t]:
            ev[t] += [f"XDelLock {deletes[nm]['id']}", f"XDelCommit {deletes[nm]['id']}"]
        waiting[t] = []

    for i, (sc, st, o) in enumerate(zip(h["script"], h["steps"], out)):
        k = sc[0]
        if k == "insert-late":
            if "ok" not in o:
                R.property_fails(None, f"C09 step {i} `{st['sql'][:60]}` (after the second reopen) failed: {json.dumps(o)[:200]}", rep)
                return []
            inserted[sc[1]] += sc[2]
            continue
        if k in ("ddl", "setup-insert", "insert"):
            if "ok" not in o:
                R.property_fails(None, f"C09 step {i} `{st['sql'][:60]}` failed: {json.dumps(o)[:200]}", rep)
                return []
            if k != "ddl":
                ev[sc[1]].append(f"XInsert {clist(map(str, sc[2]))}")
                if k == "insert":
                    inserted[sc[1]] += sc[2]
        elif k == "tick":
            parked = o.get("parked", [])
            for p in parked:
                comp_arrive(p)
        elif k == "release":
            newp = o.get("parked", [])
            for p in newp:
                if p not in parked or o.get("released") == p:
                    comp_arrive(p)
            if not newp and holder is not None:
                unlock()          # the pass is over
            parked = newp
        elif k == "spawn":
            nm, t, keys = sc[1], sc[2], sc[3]
            deletes[nm] = {"id": len(deletes), "table": t, "keys": keys, "res": None}
            ev[t].append(f"XDelBegin {deletes[nm]['id']} {clist(map(str, keys))}")
            if holder == t:
                waiting[t].append(nm)
                if o.get("finished"):
                    R.property_fails(None, f"C09 step {i}: `{st['spawn']['sql']}` completed while the compactor holds the lock of table {t} "
                                           f"(it is parked at {parked}): delete and compaction of one table are not mutually exclusive", rep)
            else:
                ev[t] += [f"XDelLock {deletes[nm]['id']}", f"XDelCommit {deletes[nm]['id']}"]
        elif k == "ungate":
            if holder is not None:
                unlock()
        elif k == "join":
            nm = sc[1]
            if o.get("pending"):
                continue
            if "err" in o and "no such statement" in o["err"]:
                continue
            d = deletes.get(nm)
            if d is None or d["res"] is not None:
                continue
            d["res"] = o
            if "ok" in o:
                acked[d["table"]] += d["keys"]
            elif "panic" in o:
                R.property_fails(None, f"C09 step {i}: the DELETE {nm} panicked: {json.dumps(o)[:200]}", rep)
        elif k in ("final", "final2"):
            t = sc[1]
            if "ok" not in o:
                R.property_fails(None, f"C09 step {i}: `select k from {t}` failed{' after the reopen' if k == 'final2' else ''}: {json.dumps(o)[:200]}", rep)
                return []
            got = sorted(r[0][1] for r in o["ok"][0]["rows"])
            want = sorted(x for x in inserted[t] if x not in acked[t])
            if got != want:
                res = {nm: ("acknowledged" if "ok" in (d["res"] or {}) else "failed" if d["res"] else "never finished") for nm, d in deletes.items() if d["table"] == t}
                R.property_fails(None, f"C09 table {t}{' after the reopen' if k == 'final2' else ''} holds {got}, the acknowledged inserts minus the acknowledged deletes are {want} "
                                       f"(deletes: {res})", rep)
                return []
            if k == "final":
                h.setdefault("final", {})[t] = got
        elif k == "reopen":
            if not o.get("reopened"):
                R.property_fails(None, f"C09 step {i}: the reopen failed: {json.dumps(o)[:200]}", rep)
                return []
    unfinished = [nm for nm, d in deletes.items() if d["res"] is None]
    if unfinished:
        R.property_fails(None, f"C09 the DELETE statements {unfinished} never finished (deadlock?)", rep)
        return []
    terms = []
    for t in ("a", "b"):
        terms.append((f"mk_case {clist(ev[t])} {clist(map(str, h['final'][t]))} {clist(map(str, sorted(set(acked[t]))))}", h, t))
    return terms


def run(R, only=None):
    R.prove()
    build_harness()
    n = 60 if R.tier == "quick" else 800
    hs = only or [gen_schedule(R.rng, R.tier) for _ in range(n)]
    for h in hs:
        h["script"] = [tuple(x) for x in h["script"]]
    outs = run_harness("sql", [{"engine": "disk", "atomic": True, "steps": h["steps"]} for h in hs], jobs=8, timeout=3000)
    terms, owner = [], []
    arrivals, blocked, failed_deletes, acks = {}, 0, 0, 0
    for h, o in zip(hs, outs):
        ts = analyse(R, h, o)
        for t, hh, tab in ts:
            terms.append(t)
            owner.append((hh, tab))
        if isinstance(o, list):
            for sc, x in zip(h["script"], o):
                if sc[0] == "ungate":
                    for a in x.get("arrivals", []):
                        key = a.split(":")[0]
                        arrivals[key] = arrivals.get(key, 0) + 1
                if sc[0] == "spawn" and not x.get("finished"):
                    blocked += 1
                if sc[0] == "join" and "err" in x and "NotFound" in x["err"]:
                    failed_deletes += 1
                if sc[0] == "join" and "ok" in x:
                    acks += 1
    failing = coq_eval("C09", HEADER, terms, per_file=40)
    if failing:
        i = sorted(failing)[0]
        hh, tab = owner[i]
        R.correspondence_broken(f"C09 table {tab}: " + {1: "the model accepts the observed event sequence", 2: "final rows = model", 3: "rows of the acknowledged deletes = model", 4: "final rows = serial execution of the ghost log"}[failing[i][0]],
                                json.dumps({"schedule": hh}))
    R.coverage.update({
        "evaluations": len(terms), "distinct_nontrivial": blocked,
        "rule": "schedules over two tables with 2-3 row-sets each: the compactor's pass is held at each of its points (pass_begin, before_lock, locked, pinned, "
                "before_commit, committed, per table) and released step by step; before each release 0-2 client actions: an INSERT of new keys, a DELETE of "
                "1-2 not yet claimed initial keys started as its own task (it blocks while the compactor holds the table's lock), or a join attempt; then "
                "everything is released and joined; final SELECT of both tables, reopen, SELECT again; non-trivial = DELETEs that had to wait for the lock",
        "samples": [hs[0]["steps"][8:16]], "schedule_points_reached": arrivals, "deletes_blocked_by_compaction": blocked,
        "deletes_refused_as_stale": failed_deletes, "deletes_acknowledged": acks, "model_vs_impl_disagreements": len(failing),
    })
    R.assumptions += ["interleavings are enumerated at the compactor's schedule points; a client statement runs to completion or until it blocks before the next "
                      "release (no preemption inside a client commit); real multi-threaded preemption is sampled by C10's soak, not proved"]


def replay(R, path):
    d = json.load(open(path))
    h = d.get("schedule") or json.loads(d["detail"])["schedule"]
    run(R, only=[h])
    return R.finish()
