"""C11 — all physical implementations of an operator agree."""
import json

from .common import *  # noqa: F401,F403
from .execlib import *  # noqa: F401,F403
from . import execlib


def gen_join_group(rng, tier, run_at_boundary=False):
    """one (L, R, equi keys) instance and every physical join plan over it"""
    # keys of different integer widths on the two sides (executor::build casts such a pair to the wider type)
    lt = [rng.choice(["i32", "i32", "i32", "i16", "i64"]), rng.choice(["i32", "i32", "i16"])]
    rt = [rng.choice(["i32", "i32", "i32", "i16", "i64"]), rng.choice(["i32", "i32", "i64"])]
    if run_at_boundary:
        rt = ["i32", "i32"]
    big = rng.random() < (0.02 if tier == "quick" else 0.05)   # > 1024 output rows: crosses the output chunk size
    L = gen_table(rng, 2, lt, max_rows=40 if big else 6, domain=[0, 1] if big else None)
    R = gen_table(rng, 2, rt, max_rows=40 if big else 6, domain=[0, 1] if big else None)
    nkeys = rng.choice([1, 1, 2])
    if run_at_boundary:
        # a run of equal keys across the 1024-row chunk boundary of the sorted input of the merge join
        shift = rng.choice([0, 1])
        rows = [[(i + shift) // 2 if i != 1026 else None, i] for i in range(1031)]
        L = [rows[:400], rows[400:1031]] if rng.random() < 0.5 else [rows]
        R = [[[k, 7] for k in (510, 511, 512, 512, 513, None)]]
        if rng.random() < 0.5:
            L, R = R, L
        nkeys = 1
    lk = [("col", 0, i) for i in range(nkeys)]
    rk = [("col", 1, i) for i in range(nkeys)]
    eq = None
    for a, b in zip(lk, rk):
        e = ("=", a, b)
        eq = e if eq is None else ("and", eq, e)
    resid = gen_sx(rng, 2, 2, 0) if rng.random() < 0.4 else None
    tables = [("a", lt, L), ("b", rt, R)]
    sa, sb = scan_json(0, 2), scan_json(1, 2)
    plans = []
    for t in ["inner", "left_outer", "right_outer", "full_outer", "semi", "anti"]:
        plans.append(("nl", t, None, ["join", t, sx_json(eq, [0, 1]), sa, sb], f"PNl {JT[t]} {sx_term(eq, 2)}"))
        plans.append(("hash", t, None, ["hashjoin", t, "true", ["list"] + [sx_json(k, [0, 1]) for k in lk],
                                        ["list"] + [sx_json(k, [0, 1]) for k in rk], sa, sb],
                      f"PHash {JT[t]} {clist(sx_term(k, 0) for k in lk)} {clist(sx_term(('col', 0, k[2]), 0) for k in rk)}"))
        if t in ("inner", "left_outer", "right_outer", "full_outer"):
            oa = ["order", ["list"] + [sx_json(k, [0, 1]) for k in lk], sa]
            ob = ["order", ["list"] + [sx_json(k, [0, 1]) for k in rk], sb]
            plans.append(("merge", t, None, ["mergejoin", t, "true", ["list"] + [sx_json(k, [0, 1]) for k in lk],
                                             ["list"] + [sx_json(k, [0, 1]) for k in rk], oa, ob],
                          f"PMerge {JT[t]} {clist(sx_term(k, 0) for k in lk)} {clist(sx_term(('col', 0, k[2]), 0) for k in rk)}"))
        if resid is not None and t in ("semi", "anti"):
            full = ("and", eq, resid)
            plans.append(("nl", t, "resid", ["join", t, sx_json(full, [0, 1]), sa, sb], f"PNl {JT[t]} {sx_term(full, 2)}"))
            plans.append(("hash", t, "resid", ["hashjoin", t, sx_json(resid, [0, 1]), ["list"] + [sx_json(k, [0, 1]) for k in lk],
                                               ["list"] + [sx_json(k, [0, 1]) for k in rk], sa, sb],
                          f"PHashSemi2 {cbool(t == 'anti')} {clist(sx_term(k, 0) for k in lk)} {clist(sx_term(('col', 0, k[2]), 0) for k in rk)} {sx_term(resid, 2)}"))
    return {"kind": "join", "tables": tables, "L": L, "R": R, "lt": lt, "rt": rt, "plans": plans,
            "mixed_width": lt[0] != rt[0] or (nkeys > 1 and lt[1] != rt[1])}


AGGS = [("sum", "ASum"), ("count", "ACount"), ("min", "AMin"), ("max", "AMax"), ("count-distinct", "ACountDistinct"),
        ("first", "AFirst"), ("last", "ALast")]


def gen_agg_group(rng, tier, fixed_groups=0):
    lt = ["i32", "i32", "i32"]
    big = rng.random() < (0.02 if tier == "quick" else 0.05)
    L = gen_table(rng, 3, lt, max_rows=700 if big else 7)
    if fixed_groups:
        # exactly k * 1024 groups: the output of a grouped aggregation fills whole chunks
        L = [[[i, i % 7, None if i % 5 == 0 else i % 3] for i in range(fixed_groups)]]
    nkeys = 1 if fixed_groups else rng.choice([0, 1, 1, 2])
    aggs = []
    for _ in range(rng.randint(1, 3)):
        if rng.random() < 0.15:
            aggs.append(("rowcount", "ARowCount", None))
        else:
            j, c = rng.choice(AGGS[:5])
            aggs.append((j, c, rng.randrange(3)))
    aj = ["list"] + [a[0] if a[2] is None else [a[0], {"c": [0, a[2]]}] for a in aggs]
    at = clist(a[1] if a[2] is None else f"{a[1]} (SCol {a[2]}%nat)" for a in aggs)
    keys = [("col", 0, i) for i in range(nkeys)]
    kj = ["list"] + [sx_json(k, [0]) for k in keys]
    kt = clist(sx_term(k, 0) for k in keys)
    s = scan_json(0, 3)
    plans = []
    if nkeys == 0:
        plans.append(("simple", None, None, ["agg", aj, s], f"PSimpleAgg {at}"))
        plans.append(("hashagg", None, None, ["hashagg", kj, aj, s], f"PHashAgg {kt} {at}"))
    else:
        srt = ["order", kj, s]
        plans.append(("hashagg", None, None, ["hashagg", kj, aj, s], f"PHashAgg {kt} {at}"))
        plans.append(("sortagg", None, "sorted", ["sortagg", kj, aj, srt], f"PSortAgg {kt} {at}"))
    return {"kind": "agg", "tables": [("a", lt, L)], "L": L, "R": [], "lt": lt, "rt": [], "plans": plans, "nkeys": nkeys,
            "empty": not any(L)}


def gen_topn_group(rng, tier):
    lt = ["i32", "i32"]
    L = gen_table(rng, 2, lt, max_rows=8, max_chunks=4)
    ks = [(("col", 0, i), rng.random() < 0.4) for i in rng.sample([0, 1], rng.choice([1, 2]))]
    limit = rng.choice([None, 0, 1, 2, 3, 100])
    offset = rng.choice([0, 0, 1, 2, 50])
    kj = ["list"] + [(["desc", sx_json(k, [0])] if d else sx_json(k, [0])) for k, d in ks]
    kt = clist(f"({sx_term(k, 0)}, {cbool(d)})" for k, d in ks)
    s = scan_json(0, 2)
    lim = "null" if limit is None else str(limit)
    lt_ = "None" if limit is None else f"(Some {limit}%nat)"
    plans = [("topn", None, None, ["topn", lim, str(offset), kj, s], f"PTopN {lt_} {offset}%nat {kt}"),
             ("order+limit", None, None, ["limit", lim, str(offset), ["order", kj, s]], f"PTopN {lt_} {offset}%nat {kt}")]
    return {"kind": "topn", "tables": [("a", lt, L)], "L": L, "R": [], "lt": lt, "rt": [], "plans": plans, "ks": ks}


def key_proj(rows, ks):
    return [json.dumps([r[k[2]] for k, _ in ks]) for r in rows]


def run(R, only=None):
    R.prove(extra=["Corr/Exec.vo"])
    build_harness()
    n = 500 if R.tier == "quick" else 5000
    groups = []
    groups.append(gen_agg_group(R.rng, R.tier, fixed_groups=1024))
    groups.append(gen_agg_group(R.rng, R.tier, fixed_groups=2048))
    for _ in range(2 if R.tier == "quick" else 8):
        groups.append(gen_join_group(R.rng, R.tier, run_at_boundary=True))
    for i in range(n):
        groups.append([gen_join_group, gen_join_group, gen_agg_group, gen_topn_group][i % 4](R.rng, R.tier))
    flat = [{"tables": g["tables"], "plan": p[3]} for g in groups for p in g["plans"]]
    res = run_cases(flat)
    terms, where, k, nontriv = [], [], 0, set()
    for g in groups:
        outs = {}
        for p in g["plans"]:
            rows, raw = res[k]
            k += 1
            outs[(p[0], p[1], p[2])] = rows
            # sort-agg over a model-sorted input: the model sorts the input itself
            L = g["L"]
            if p[0] == "sortagg":
                keys = [json.loads(x) for x in []]
            terms.append((p, g, rows))
        # ---- the property itself: implementations of one operator agree ----
        if g["kind"] == "join":
            for t in ["inner", "left_outer", "right_outer", "full_outer", "semi", "anti"]:
                for variant in (None, "resid"):
                    impls = {nm: outs[(nm, t, variant)] for nm in ("nl", "hash", "merge") if (nm, t, variant) in outs}
                    if len(impls) < 2:
                        continue
                    ok_vals = {nm: canon_rows(v) for nm, v in impls.items() if v is not None}
                    failed = [nm for nm, v in impls.items() if v is None]
                    klass = None
                    if failed:
                        if "nl" in failed and t in ("right_outer", "full_outer"):
                            klass = "KF_C11_nl_right_full_todo"
                        R.property_fails(klass, f"C11 {t} join: the {'/'.join(failed)} implementation fails where others answer",
                                         {"kind": "plan-pair", "tables": g["tables"], "join": t})
                    if len(set(map(json.dumps, ok_vals.values()))) > 1:
                        klass = None
                        R.property_fails(klass, f"C11 {t} join{' with residual' if variant else ''}: implementations disagree: " +
                                         "; ".join(f"{nm}={len(v)} rows" for nm, v in ok_vals.items()),
                                         {"kind": "plan-pair", "tables": g["tables"], "join": t, "results": ok_vals})
            if any(g["L"]) and any(g["R"]):
                nontriv.add(json.dumps(g["tables"]))
        elif g["kind"] == "agg":
            vals = {nm[0]: (canon_rows(v) if v is not None else None) for nm, v in outs.items()}
            if None in vals.values():
                R.property_fails(None, "C11 an aggregation implementation failed", {"kind": "plan-pair", "tables": g["tables"], "plans": [p[3] for p in g["plans"]]})
            elif g["nkeys"] == 0 and g["empty"]:
                pass    # ungrouped aggregation of an empty input: one row by definition; a hash aggregation has no group
            elif len(set(map(json.dumps, vals.values()))) > 1:
                R.property_fails(None, f"C11 aggregation implementations disagree: {vals}",
                                 {"kind": "plan-pair", "tables": g["tables"], "plans": [p[3] for p in g["plans"]]})
            if any(g["L"]):
                nontriv.add(json.dumps(g["tables"]))
        else:
            a, b = outs[("topn", None, None)], outs[("order+limit", None, None)]
            if a is None or b is None or key_proj(a, g["ks"]) != key_proj(b, g["ks"]):
                R.property_fails(None, "C11 top-N differs from sort-then-limit on the sort keys",
                                 {"kind": "plan-pair", "tables": g["tables"], "plans": [p[3] for p in g["plans"]]})
            if sum(len(c) for c in g["L"]) > 1:
                nontriv.add(json.dumps(g["tables"]))
    # ---- model = implementation, operator by operator ----
    coq_terms = []
    for p, g, rows in terms:
        if p[0] == "order+limit":
            continue
        coq_terms.append(case_term(p[4], g["L"], g["lt"], g["R"], g["rt"], rows))
    failing = coq_eval("C11", execlib.HEADER, coq_terms, per_file=60)
    if failing:
        i = sorted(failing)[0]
        used = [t for t in terms if t[0][0] != "order+limit"]
        p, g, rows = used[i]
        R.correspondence_broken(f"C11 model of {p[0]} {p[1] or ''} = implementation",
                                json.dumps({"tables": g["tables"], "plan": p[3], "observed": rows})[:2500])
    R.coverage.update({
        "evaluations": len(flat), "distinct_nontrivial": len(nontriv),
        "rule": "groups of physical plans over the same generated inputs (tables of 0-3 chunks, NULL / duplicate keys, INT vs BIGINT keys, "
                "one or two equi keys, optional residual condition): nested-loop / hash / merge joins of all six types, simple / hash / sort "
                "aggregation, top-N vs order+limit; non-trivial = both inputs non-empty",
        "samples": [{"tables": groups[0]["tables"], "plans": [p[3] for p in groups[0]["plans"]][:2]}],
        "plans_run": len(flat), "groups": len(groups), "model_vs_impl_disagreements": len(failing),
    })
    R.assumptions += ["hash-map iteration order and the unstable sort are abstracted: results are compared as bags / on the sort keys"]


def replay(R, path):
    run(R)
    return R.finish()
