"""C10 — concurrent sessions behave like some serial order.

  (i)   proofs Props/C10.v (an accepted certificate is a serial, session-order respecting execution
        reproducing every result; statements on different tables commute in the specification);
  (ii)  certificate checking Corr/C10.v: for every concurrent execution a total order of the
        acknowledged statements is searched and validated against the serial specification inside Coq;
  (iii) oracle: k sessions issue CREATE / DROP TABLE (same names), INSERT (incl. one large enough to
        flush several row-sets), DELETE and SELECT count concurrently on one database, on a single
        thread (interleaving at every await) and on a 4-thread runtime; no panic, no deadlock, a
        serial explanation exists, and the database reopens to the same state.
"""
import json

from .common import *  # noqa: F401,F403

HEADER = "From RL Require Import Corr.C10.\n"


def gen_case(rng, tier):
    k = rng.choice([2, 2, 3])
    key = [0]
    pre, pre_m = [], []

    def fresh(n):
        out = list(range(key[0] + 1, key[0] + n + 1))
        key[0] += n
        return out
    inserted = {1: [], 2: []}
    exists0 = set()
    for t in (1, 2):
        if rng.random() < 0.7:
            exists0.add(t)
            pre.append(f"create table t{t}(a int)")
            pre_m.append(("create", t))
            for _ in range(rng.randint(0, 2)):
                ks = fresh(rng.randint(1, 4))
                inserted[t] += ks
                pre.append(f"insert into t{t} values " + ", ".join(f"({x})" for x in ks))
                pre_m.append(("insert", t, ks))
    big = rng.random() < 0.25
    sessions, sess_m = [], []
    for si in range(k):
        stmts, ms = [], []
        for _ in range(rng.randint(2, 5)):
            t = rng.choice([1, 2])
            r = rng.random()
            if r < 0.12:
                stmts.append(f"create table t{t}(a int)")
                ms.append(("create", t))
            elif r < 0.2:
                stmts.append(f"drop table t{t}")
                ms.append(("drop", t))
            elif r < 0.5:
                n = rng.randint(1, 4)
                if big and si == 0 and not any(m[0] == "insert" and len(m[2]) > 100 for m in ms):
                    n = 3000
                ks = fresh(n)
                stmts.append(f"insert into t{t} values " + ", ".join(f"({x})" for x in ks))
                ms.append(("insert", t, ks))
            elif r < 0.7:
                pool = inserted[t] + [x for m in ms if m[0] == "insert" and m[1] == t for x in m[2][:5]]
                ks = rng.sample(pool, min(len(pool), rng.randint(1, 3))) if pool else [999999]
                stmts.append(f"delete from t{t} where a in ({', '.join(map(str, ks))})")
                ms.append(("delete", t, ks))
            else:
                stmts.append(f"select count(*) from t{t}")
                ms.append(("count", t))
        if big and si > 0:
            for _ in range(6):
                t = sessions_big_table(sess_m) or 1
                stmts.append(f"select count(*) from t{t}")
                ms.append(("count", t))
        sessions.append(stmts)
        sess_m.append(ms)
    mode = rng.choice([{"atomic": True}, {"atomic": True}, {"threads": 4}])
    if rng.random() < 0.15:
        # racing DDL: every session opens with the same DROP (of an existing table) or CREATE (of a missing one), on worker threads:
        # all of them bind while the statement is still legal, exactly one may win
        t = rng.choice([1, 2])
        first = (f"drop table t{t}", ("drop", t)) if t in exists0 else (f"create table t{t}(a int)", ("create", t))
        for stmts, ms in zip(sessions, sess_m):
            stmts.insert(0, first[0])
            ms.insert(0, first[1])
        mode = {"threads": 4}
    ticks = rng.choice([0, 2, 3]) if "atomic" in mode else 0      # compactor passes running while the sessions run
    opts = {"rowset": 4000} if big else {}
    return {"pre": pre, "pre_m": pre_m, "sessions": sessions, "sess_m": sess_m, "engine": rng.choice(["disk", "disk", "mem"]), "mode": mode, "opts": opts, "ticks": ticks}


def gen_held(rng):
    """one statement per session, started while the background compactor is HELD at one of its schedule points (possibly inside the
    locked section of a table), then the compactor is released step by step: the statements overlap a compaction for certain"""
    key = [0]

    def fresh(n):
        out = list(range(key[0] + 1, key[0] + n + 1))
        key[0] += n
        return out
    pre, pre_m, inserted = [], [], {1: [], 2: []}
    for t in (1, 2):
        pre.append(f"create table t{t}(a int)")
        pre_m.append(("create", t))
        for _ in range(rng.randint(2, 3)):
            ks = fresh(rng.randint(1, 4))
            inserted[t] += ks
            pre.append(f"insert into t{t} values " + ", ".join(f"({x})" for x in ks))
            pre_m.append(("insert", t, ks))
    sessions, sess_m = [], []
    claimed = set()
    for _ in range(rng.randint(2, 4)):
        t = rng.choice([1, 2])
        r = rng.random()
        if r < 0.3:
            ks = fresh(rng.randint(1, 3))
            sessions.append([f"insert into t{t} values " + ", ".join(f"({x})" for x in ks)])
            sess_m.append([("insert", t, ks)])
        elif r < 0.8:
            pool = [x for x in inserted[t] if x not in claimed]
            ks = rng.sample(pool, min(len(pool), rng.randint(1, 2))) if pool else [999999]
            claimed |= set(ks)
            sessions.append([f"delete from t{t} where a in ({', '.join(map(str, ks))})"])
            sess_m.append([("delete", t, ks)])
        else:
            sessions.append([f"select count(*) from t{t}"])
            sess_m.append([("count", t)])
    return {"pre": pre, "pre_m": pre_m, "sessions": sessions, "sess_m": sess_m, "engine": "disk", "mode": {"atomic": True}, "opts": {}, "ticks": 0,
            "held": rng.randint(0, 11)}


def held_steps(c):
    steps = [{"sql": s} for s in c["pre"]] + [{"gate": ["compactor."]}, {"tick": 1000}] + [{"release": "compactor."} for _ in range(c["held"])]
    steps += [{"spawn": {"name": f"s{i}", "sql": ss[0]}, "idle_ms": 300, "wait_ms": 3000} for i, ss in enumerate(c["sessions"])]
    steps += [{"release": "compactor."} for _ in range(14)] + [{"ungate": True}]
    steps += [{"join": f"s{i}", "timeout_ms": 6000} for i in range(len(c["sessions"]))]
    steps += [{"sql": f"select a from t{t}"} for t in (1, 2)] + [{"reopen": True}] + [{"sql": f"select a from t{t}"} for t in (1, 2)]
    return steps


def held_view(c, o):
    """the outputs of a held-compactor script in the layout of a `sessions` script"""
    need = len(held_steps(c))
    if not isinstance(o, list) or len(o) < need:
        return o
    npre, k = len(c["pre"]), len(c["sessions"])
    joins = o[need - 5 - k: need - 5]
    c["held_at"] = (o[npre + 1 + c["held"]] or {}).get("parked")
    return o[:npre] + [{"sessions": [[{"deadlock": True} if x.get("pending") else x] for x in joins]}] + o[need - 5:]


def sessions_big_table(sess_m):
    for ms in sess_m:
        for m in ms:
            if m[0] == "insert" and len(m[2]) > 100:
                return m[1]
    return None


def spec_exec(state, m):
    """state: dict t -> tuple(rows); returns (state', result) with result ("ok", n) | ("err",)"""
    kind, t = m[0], m[1]
    if kind == "create":
        if t in state:
            return state, ("err",)
        s = dict(state)
        s[t] = ()
        return s, ("ok", 0)
    if t not in state:
        return state, ("err",)
    s = dict(state)
    if kind == "drop":
        del s[t]
        return s, ("ok", 0)
    if kind == "insert":
        s[t] = state[t] + tuple(m[2])
        return s, ("ok", len(m[2]))
    if kind == "delete":
        ks = set(m[2])
        s[t] = tuple(x for x in state[t] if x not in ks)
        return s, ("ok", len(state[t]) - len(s[t]))
    return state, ("ok", len(state[t]))


def observed_result(m, o):
    """('ok', n) | ('err',) spec-level failure | ('abort',) failed without effect | ('bad', why)"""
    if "panic" in o or "deadlock" in o:
        return ("bad", json.dumps(o)[:160])
    if "err" in o:
        e = o["err"]
        if "invalid table" in e or "duplicated" in e or "already exists" in e or "not found" in e.lower() and "rowset" not in e.lower():
            return ("err",)
        return ("abort",)
    if m[0] in ("create", "drop"):
        return ("ok", 0)
    try:
        return ("ok", o["ok"][0]["rows"][0][0][1])
    except Exception:
        return ("bad", json.dumps(o)[:160])


def search(sess_m, obs, init, final):
    """total order (list of session indices) explaining obs and final, or None"""
    k = len(sess_m)
    seen = set()

    def key(state):
        return tuple(sorted((t, tuple(sorted(r))) for t, r in state.items()))

    def go(pos, state, order):
        if all(pos[i] == len(sess_m[i]) for i in range(k)):
            return order if key(state) == final else None
        sig = (tuple(pos), key(state))
        if sig in seen:
            return None
        seen.add(sig)
        for i in range(k):
            if pos[i] < len(sess_m[i]):
                m, ob = sess_m[i][pos[i]], obs[i][pos[i]]
                if ob[0] == "abort":
                    s2, r = state, None
                else:
                    s2, r = spec_exec(state, m)
                    if r != ob:
                        continue
                pos[i] += 1
                res = go(pos, s2, order + [i])
                pos[i] -= 1
                if res is not None:
                    return res
        return None
    return go([0] * k, init, [])


def stmt_term(m):
    kind, t = m[0], m[1]
    if kind == "create":
        return f"SCreate {t}"
    if kind == "drop":
        return f"SDrop {t}"
    if kind == "insert":
        return f"SInsert {t} {clist(map(str, m[2]))}"
    if kind == "delete":
        return f"SDelete {t} {clist(map(str, m[2]))}"
    return f"SCount {t}"


def run(R, only=None):
    R.prove(extra=["Corr/C09.vo"])
    build_harness()
    n = 200 if R.tier == "quick" else 3000
    cases = only or ([gen_case(R.rng, R.tier) for _ in range(n)] + [gen_held(R.rng) for _ in range(60 if R.tier == "quick" else 600)])
    jobs = []
    for c in cases:
        if "held" in c:
            jobs.append({"engine": "disk", "atomic": True, "steps": held_steps(c)})
            continue
        steps = [{"sql": s} for s in c["pre"]] + [{"sessions": c["sessions"], "timeout_ms": 60000, "compactor_ticks": c.get("ticks", 0)}] + \
            [{"sql": f"select a from t{t}"} for t in (1, 2)] + [{"reopen": True}] + [{"sql": f"select a from t{t}"} for t in (1, 2)]
        jobs.append({"engine": c["engine"], **c["mode"], **c["opts"], "steps": steps})
    outs = run_harness("sql", jobs, jobs=8, timeout=3000)
    terms, usable = [], []
    stats = {"explained": 0, "aborted_statements": 0, "single_thread": 0, "multi_thread": 0, "held_compactor": 0, "held_at": {}}
    for c, j, o in zip(cases, jobs, outs):
        rep = {"kind": "sql-script", "case": j, "sessions_case": c}
        npre = len(c["pre"])
        need = len(j["steps"])
        if "held" in c:
            o = held_view(c, o)
            need = npre + 6 if isinstance(o, list) and len(o) == npre + 6 else need
            stats["held_compactor"] += 1
            for p in c.get("held_at") or ["(pass over)"]:
                pt = p.split(":")[0]
                stats["held_at"][pt] = stats["held_at"].get(pt, 0) + 1
        creates = [(si, m[1]) for si, ms in enumerate(c["sess_m"]) for m in ms if m[0] == "create"]
        drops = [(si, m[1]) for si, ms in enumerate(c["sess_m"]) for m in ms if m[0] == "drop"]
        kf = None
        if False:
            pass
        else:
            dels = [(si, m[1], set(m[2])) for si, ms in enumerate(c["sess_m"]) for m in ms if m[0] == "delete"]
            if any(a[0] != b[0] and a[1] == b[1] and a[2] & b[2] for a in dels for b in dels):
                kf = "KF_C10_concurrent_delete_double_count"
        if not isinstance(o, list) or len(o) < need:
            R.property_fails(kf, f"C10 the process aborted during concurrent sessions ({c['mode']}): {json.dumps(o[-1] if isinstance(o, list) and o else o)[:200]}", rep)
            continue
        if any("ok" not in x for x in o[:npre]):
            continue
        sres = o[npre].get("sessions")
        if sres is None:
            R.property_fails(kf, f"C10 the sessions step failed: {json.dumps(o[npre])[:200]}", rep)
            continue
        obs, bad = [], None
        for si, (ms, rs) in enumerate(zip(c["sess_m"], sres)):
            if not isinstance(rs, list):
                bad = f"session {si}: {json.dumps(rs)[:160]}"
                break
            row = []
            for m, x in zip(ms, rs):
                r = observed_result(m, x)
                if r[0] == "bad":
                    bad = f"session {si} `{m[0]} t{m[1]}`: {r[1]}"
                row.append(r)
            obs.append(row)
        if bad:
            R.property_fails(kf, f"C10 a session panicked or deadlocked ({c['mode']}, {c['engine']}): {bad}", rep)
            continue
        fin = o[npre + 1: npre + 3]
        fin2 = o[npre + 4: npre + 6]
        if not o[npre + 3].get("reopened"):
            R.property_fails(kf, f"C10 the database does not reopen after the concurrent sessions: {json.dumps(o[npre + 3])[:200]}", rep)
            continue
        final = tuple(sorted((t, tuple(sorted(r[0][1] for r in x["ok"][0]["rows"]))) for t, x in zip((1, 2), fin) if "ok" in x))
        final2 = tuple(sorted((t, tuple(sorted(r[0][1] for r in x["ok"][0]["rows"]))) for t, x in zip((1, 2), fin2) if "ok" in x))
        if c["engine"] == "disk" and final2 != final:
            R.property_fails(kf, f"C10 after the reopen the tables are {[(t, len(r)) for t, r in final2]}, before it {[(t, len(r)) for t, r in final]}", rep)
            continue
        init = {}
        for m in c["pre_m"]:
            init, _ = spec_exec(init, m)
        order = search(c["sess_m"], obs, init, final)
        stats["aborted_statements"] += sum(1 for row in obs for r in row if r[0] == "abort")
        stats["multi_thread" if "threads" in c["mode"] else "single_thread"] += 1
        if order is None:
            R.property_fails(kf, f"C10 no serial order of the acknowledged statements explains the results {obs} and the final tables "
                                 f"{[(t, len(r)) for t, r in final]} ({c['mode']}, {c['engine']})", rep)
            continue
        stats["explained"] += 1
        if any(len(m[2]) > 100 for ms in c["sess_m"] for m in ms if m[0] in ("insert",)):
            continue            # the certificate of a 3000-row insert is validated by the Python specification only (size)
        # certificate for Coq: aborted statements are dropped (they had no effect)
        sess_t, obs_t, ord_t = [], [], []
        for ms, row in zip(c["sess_m"], obs):
            sess_t.append(clist(stmt_term(m) for m, r in zip(ms, row) if r[0] != "abort"))
            obs_t.append(clist(("RErr" if r[0] == "err" else f"ROk {r[1]}") for r in row if r[0] != "abort"))
        pos = [0] * len(c["sess_m"])
        for i in order:
            if obs[i][pos[i]][0] != "abort":
                ord_t.append(str(i + 1))
            pos[i] += 1
        pre_t = clist(stmt_term(m) for m in c["pre_m"])
        terms.append(f"mk_case {clist([pre_t] + sess_t)} {clist(['0'] * len(c['pre_m']) + ord_t)} {clist([clist(['ROk ' + str(spec_pre(c['pre_m'], q)) for q in range(len(c['pre_m']))])] + obs_t)} "
                     f"{clist(f'({t}, {clist(map(str, r))})' for t, r in final)}")
        usable.append(c)
    failing = coq_eval("C10", HEADER, terms, per_file=60)
    if failing:
        i = sorted(failing)[0]
        R.correspondence_broken("C10 the serial order found by the search is accepted by the Coq specification", json.dumps({"sessions_case": usable[i]})[:3000])
    # ---- the protocol model of the serialisability theorem against the engine: C09's schedules (compactor held at its points,
    #      INSERTs and DELETE tasks in between), replayed as the model's events; the serial execution of the ghost log must give
    #      the rows the engine returns
    if not only:
        from . import c09
        hs = [c09.gen_schedule(R.rng, R.tier) for _ in range(30 if R.tier == "quick" else 300)]
        for h in hs:
            h["script"] = [tuple(x) for x in h["script"]]
        pouts = run_harness("sql", [{"engine": "disk", "atomic": True, "steps": h["steps"]} for h in hs], jobs=8, timeout=3000)
        pterms, powner = [], []
        for h, o in zip(hs, pouts):
            for t, hh, tab in c09.analyse(R, h, o):
                pterms.append(t)
                powner.append((hh, tab))
        pfail = coq_eval("C10p", c09.HEADER, pterms, per_file=40)
        if pfail:
            i = sorted(pfail)[0]
            R.correspondence_broken(f"C10 protocol model, table {powner[i][1]}: " + {1: "the model accepts the observed event sequence", 2: "final rows = model",
                                    3: "rows of the acknowledged deletes = model", 4: "final rows = serial execution of the ghost log"}[pfail[i][0]],
                                    json.dumps({"schedule": powner[i][0]})[:3000])
        stats["protocol_schedules"] = len(pterms)
    R.coverage.update({
        "evaluations": len(cases), "distinct_nontrivial": stats["explained"],
        "rule": "2-3 sessions of 2-5 statements each over two tables (CREATE / DROP TABLE of the same names, INSERT of fresh keys, DELETE by key list, SELECT "
                "count(*)), 25% with one 3000-row INSERT on a 4000-byte row-set size and sessions polling count(*) meanwhile; both engines; run on a single "
                "thread (tasks interleave at every await) or on a 4-thread runtime; plus held-compactor schedules: 2-4 single-statement sessions started while "
                "the compactor is parked at one of its schedule points (0-11 releases into its pass over two tables with 2-3 row-sets), then released; afterwards SELECT of both tables, reopen, SELECT again; a total order "
                "is searched (memoised DFS) and validated inside Coq",
        "samples": [cases[0]["sessions"]], "outcomes": stats, "model_vs_impl_disagreements": len(failing),
    })
    R.assumptions += ["statement results across sessions and tables are decided for each observed execution (certificate checking); final-state "
                      "serialisability of the per-table protocol is proved for every interleaving of its events (Model/Conc.v, event granularity: no preemption "
                      "inside a commit); the multi-threaded runs are a sample of real preemption", "a statement that returned an error other "
                      "than a catalog error is unacknowledged and must have had no effect"]


def spec_pre(pre_m, q):
    s = {}
    r = None
    for m in pre_m[: q + 1]:
        s, r = spec_exec(s, m)
    return r[1] if r and r[0] == "ok" else 0


def replay(R, path):
    d = json.load(open(path))
    c = d.get("sessions_case") or json.loads(d["detail"])["sessions_case"]
    for key in ("pre_m",):
        c[key] = [tuple(x) for x in c[key]]
    c["sess_m"] = [[tuple(x) for x in ms] for ms in c["sess_m"]]
    run(R, only=[c])
    return R.finish()
