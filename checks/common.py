"""Shared machinery of the checks: build, run the implementation harness, run the Coq model,
audit the Coq development, write evidence, report violations and known findings."""
import hashlib
import json
import os
import random
import re
import subprocess
import sys
import time
from concurrent.futures import ThreadPoolExecutor

VERIF = os.path.dirname(os.path.dirname(os.path.abspath(__file__)))
COQ = os.path.join(VERIF, "coq")
HARNESS = os.path.join(VERIF, "harness")
CACHE = os.path.join(VERIF, ".cache")
RLH = os.path.join(CACHE, "target", "debug", "rlh")
REPO = "/repo"
ENV = dict(os.environ, CARGO_NET_OFFLINE="true")

FORBIDDEN = re.compile(
    r"\b(Admitted|admit|Axiom|Axioms|Parameter|Parameters|Conjecture|Conjectures|Hypothesis|Hypotheses|"
    r"Variable|Variables|Admit Obligations|Unset Guard Checking|Unset Positivity Checking|"
    r"Unset Universe Checking|bypass_check|type-in-type|impredicative-set|native_compute)\b")
# axioms of the standard library that may appear in Print Assumptions (named in the evidence)
ALLOWED_AXIOMS = {
    "functional_extensionality_dep", "FunctionalExtensionality.functional_extensionality_dep",
    "Eqdep.Eq_rect_eq.eq_rect_eq", "Classical_Prop.classic", "ClassicalEpsilon.constructive_indefinite_description",
    "JMeq.JMeq_eq", "ProofIrrelevance.proof_irrelevance",
}


class CheckFailure(Exception):
    pass


def log(*a):
    print(*a, file=sys.stderr, flush=True)


def sh(cmd, cwd=None, timeout=None, inp=None, env=None):
    p = subprocess.run(cmd, cwd=cwd, shell=isinstance(cmd, str), input=inp, capture_output=True,
                       text=True, timeout=timeout, env=env or ENV)
    return p.returncode, p.stdout, p.stderr


# ------------------------------------------------------------------------------------------------
# implementation side
# ------------------------------------------------------------------------------------------------
def build_harness():
    """(Re)build the harness against /repo's current working tree (cargo decides what to redo)."""
    t = time.time()
    lock = os.path.join(HARNESS, "Cargo.lock")
    if not os.path.exists(lock):
        subprocess.run(["cp", os.path.join(REPO, "Cargo.lock"), lock], check=True)
    os.makedirs(CACHE, exist_ok=True)
    # one cargo at a time (checks may run concurrently)
    import fcntl
    with open(os.path.join(CACHE, "cargo.lock"), "w") as lk:
        fcntl.flock(lk, fcntl.LOCK_EX)
        rc, out, err = sh(["cargo", "build", "--offline"], cwd=HARNESS, timeout=3000)
    if rc != 0:
        raise CheckFailure("harness build failed:\n" + err[-4000:])
    log(f"[build] harness ok in {time.time() - t:.1f}s")
    return RLH


def run_harness(cmd, cases, timeout=1800, jobs=8, extra_args=()):
    """Run `rlh <cmd>` on the cases (list of JSON-able values) in `jobs` parallel processes;
    returns the list of outputs in order."""
    if not cases:
        return []
    jobs = max(1, min(jobs, len(cases)))
    chunks = [cases[i::jobs] for i in range(jobs)]

    def one(chunk):
        inp = "\n".join(json.dumps(c) for c in chunk) + "\n"
        p = subprocess.run([RLH, cmd, *extra_args], input=inp, capture_output=True, text=True,
                           timeout=timeout, env=ENV)
        lines = [l for l in p.stdout.split("\n") if l.strip()]
        outs = []
        for l in lines:
            try:
                outs.append(json.loads(l))
            except Exception:
                outs.append({"harness_garbage": l[:200]})
        while len(outs) < len(chunk):   # the process died (abort): mark the rest
            outs.append({"abort": p.returncode, "stderr": p.stderr[-300:]})
        return outs

    with ThreadPoolExecutor(jobs) as ex:
        res = list(ex.map(one, chunks))
    out = [None] * len(cases)
    for j, r in enumerate(res):
        for i, o in enumerate(r):
            out[j + i * jobs] = o
    return out


# ------------------------------------------------------------------------------------------------
# Coq side
# ------------------------------------------------------------------------------------------------
def coq_files_closure(target_v):
    """.v files (relative to COQ) that `target_v` depends on, itself included."""
    rc, out, err = sh(["coqdep", "-Q", ".", "RL", "-sort", target_v], cwd=COQ)
    # -sort prints all files in dependency order on one line; restrict by walking the graph
    rc, out, err = sh("coqdep -Q . RL $(cat _CoqProject | grep '\\.v$')", cwd=COQ)
    deps = {}
    for line in out.split("\n"):
        if ":" not in line:
            continue
        lhs, rhs = line.split(":", 1)
        tgt = [t for t in lhs.split() if t.endswith(".vo")]
        if not tgt:
            continue
        v = tgt[0][:-1]
        deps[v] = [d[:-1] for d in rhs.split() if d.endswith(".vo") and not d.startswith("/")]
    seen, todo = set(), [target_v]
    while todo:
        f = todo.pop()
        if f in seen:
            continue
        seen.add(f)
        todo += deps.get(f, [])
    return sorted(seen)


def coq_make(targets, timeout=1500):
    """Full .vo build of the given targets (never -vos)."""
    t = time.time()
    if not os.path.exists(os.path.join(COQ, "Makefile.coq")):
        rc, out, err = sh("coq_makefile -f _CoqProject -o Makefile.coq", cwd=COQ)
        if rc != 0:
            raise CheckFailure("coq_makefile failed: " + err)
    rc, out, err = sh(["timeout", str(timeout), "make", "-f", "Makefile.coq", "-j16", *targets], cwd=COQ,
                      timeout=timeout + 30)
    log(f"[coq] make {' '.join(targets)}: rc={rc} in {time.time() - t:.1f}s")
    return rc, out + err


def audit_props(prop_v):
    """Forbidden-word scan over the closure of Props/Cxx.v, then compile it once more to read
    the Print Assumptions output.  Returns (obligations, theorems, axioms_used, files)."""
    files = coq_files_closure(prop_v)
    obligations = 0
    for f in files:
        src = open(os.path.join(COQ, f)).read()
        src_nc = strip_comments(src)
        m = FORBIDDEN.search(src_nc)
        if m and not (f.startswith("Model/") is False and False):
            # `Variable`/`Hypothesis` are allowed inside a Section only
            for mm in FORBIDDEN.finditer(src_nc):
                w = mm.group(1)
                if w in ("Variable", "Variables", "Hypothesis", "Hypotheses"):
                    if in_section(src_nc, mm.start()):
                        continue
                raise CheckFailure(f"forbidden construct `{w}` in coq/{f}")
        obligations += len(re.findall(r"^\s*(Theorem|Lemma|Corollary|Example|Fact|Proposition)\b", src_nc, re.M))
    rc, out, err = sh(["coqc", "-Q", ".", "RL", prop_v], cwd=COQ, timeout=600)
    if rc != 0:
        raise CheckFailure(f"coqc {prop_v} failed:\n{err[-3000:]}")
    theorems = re.findall(r"^\s*Theorem\s+(\w+)", strip_comments(open(os.path.join(COQ, prop_v)).read()), re.M)
    axioms = set()
    closed = out.count("Closed under the global context")
    for block in re.findall(r"Axioms:\n((?:.+\n?)+?)(?:\n|$)", out):
        for line in block.split("\n"):
            mm = re.match(r"^(\S+)\s*:", line)
            if mm:
                axioms.add(mm.group(1))
    bad = [a for a in axioms if a not in ALLOWED_AXIOMS and a.split(".")[-1] not in ALLOWED_AXIOMS]
    if bad:
        raise CheckFailure(f"Print Assumptions of {prop_v} lists axioms outside the allow-list: {bad}")
    n_pa = len(re.findall(r"Print Assumptions", open(os.path.join(COQ, prop_v)).read()))
    if closed + len(re.findall(r"Axioms:", out)) < n_pa:
        raise CheckFailure(f"could not read all Print Assumptions outputs of {prop_v}")
    return obligations, theorems, sorted(axioms), files


def strip_comments(src):
    out, depth, i = [], 0, 0
    while i < len(src):
        if src.startswith("(*", i):
            depth += 1
            i += 2
        elif src.startswith("*)", i) and depth > 0:
            depth -= 1
            i += 2
        else:
            if depth == 0:
                out.append(src[i])
            i += 1
    return "".join(out)


def in_section(src, pos):
    opened = len(re.findall(r"^\s*Section\s+\w+\s*\.", src[:pos], re.M))
    closed = len(re.findall(r"^\s*End\s+\w+\s*\.", src[:pos], re.M))
    return opened > closed


def coq_eval(name, header, case_terms, per_file=150, timeout=900, ty="case"):
    """Evaluate `failing (cases)` inside Coq.  `header` must import a module that defines
    `case` and `check_case : case -> list nat` (the numbers of the sub-checks that fail).
    Returns {case index: [failed sub-checks]} for the failing cases."""
    d = os.path.join(CACHE, "cases", name)
    os.makedirs(d, exist_ok=True)
    for f in os.listdir(d):
        os.remove(os.path.join(d, f))
    shards = [case_terms[i:i + per_file] for i in range(0, len(case_terms), per_file)]
    paths = []
    for k, sh_terms in enumerate(shards):
        p = os.path.join(d, f"cases_{k}.v")
        with open(p, "w") as f:
            f.write(header + "\n")
            f.write(f"Definition cases : list {ty} := [\n" + ";\n".join(sh_terms) + "\n].\n")
            f.write("Definition failing := filter (fun p => negb (match snd p with [] => true | _ => false end))\n"
                    "  (combine (map N.of_nat (seq 0 (List.length cases))) (map (fun c => map N.of_nat (check_case c)) cases)).\n")
            f.write("Eval vm_compute in failing.\n")
        paths.append(p)

    def one(p):
        rc, out, err = sh(["coqc", "-noglob", "-Q", COQ, "RL", "-Q", d, "Cases", p], cwd=d, timeout=timeout)
        return rc, out, err

    failing = {}
    with ThreadPoolExecutor(16) as ex:
        for k, (rc, out, err) in enumerate(ex.map(one, paths)):
            if rc != 0:
                raise CheckFailure(f"coqc failed on {paths[k]}:\n{err[-3000:]}")
            txt = " ".join(out.split())
            m = re.search(r"= (\[.*\]) : list \(N \* list N\)", txt)
            if not m:
                raise CheckFailure(f"cannot parse Coq output of {paths[k]}: {txt[:500]}")
            for idx, subs in re.findall(r"\((\d+)%N, \[([^\]]*)\]\)", m.group(1).replace("%N", "%N")):
                failing[k * per_file + int(idx)] = [int(x) for x in re.findall(r"(\d+)", subs)]
            # also the compact form without %N
            if m.group(1) != "[]" and not failing:
                for idx, subs in re.findall(r"\((\d+), \[([^\]]*)\]\)", m.group(1)):
                    failing[k * per_file + int(idx)] = [int(x) for x in re.findall(r"(\d+)", subs)]
                if not failing:
                    raise CheckFailure(f"unparsed failing list: {m.group(1)[:300]}")
    return failing


# Coq literal printers ---------------------------------------------------------------------------
def cz(n):
    return f"({n})" if n < 0 else str(n)


def clist(items):
    return "[" + "; ".join(items) + "]"


def cbool(b):
    return "true" if b else "false"


def copt(x, f):
    return "None" if x is None else f"(Some {f(x)})"


def cstring(s):
    """Coq string literal for a str made of printable ASCII; else a byte list is needed"""
    return '"' + s.replace('"', '""') + '"'


# ------------------------------------------------------------------------------------------------
# results
# ------------------------------------------------------------------------------------------------
def known_findings(pid):
    kf = json.load(open(os.path.join(VERIF, "KNOWN_FINDINGS.json")))
    return [f for f in kf["findings"] if f["property"] == pid or pid in f.get("also_affects", [])]


def write_replay(pid, obj):
    os.makedirs(os.path.join(VERIF, "replays"), exist_ok=True)
    h = hashlib.sha1(json.dumps(obj, sort_keys=True).encode()).hexdigest()[:10]
    p = os.path.join(VERIF, "replays", f"{pid}-{h}.json")
    obj = dict(obj, property=pid)
    json.dump(obj, open(p, "w"), indent=1)
    return p


def write_evidence(pid, tier, seed, coverage, wall, violations, assumptions):
    ev = {"property_id": pid, "tier": tier, "seed": seed, "level": "proof", "coverage": coverage,
          "assumptions": assumptions, "wall_s": round(wall, 1), "violations": violations}
    os.makedirs(os.path.join(VERIF, "evidence"), exist_ok=True)
    json.dump(ev, open(os.path.join(VERIF, "evidence", f"{pid}.json"), "w"), indent=1)


CHECKER_CMD = ("coq_makefile -f _CoqProject -o Makefile.coq && make -f Makefile.coq -j16 Props/{pid}.vo "
               "(Coq 8.16.1 kernel, full .vo build) && coqc Props/{pid}.v (Print Assumptions)")


class Runner:
    """Book-keeping of one check run: proof status, correspondence status, property oracle
    results, known findings, evidence, and the final verdict."""

    def __init__(self, pid, tier, seed):
        self.pid, self.tier, self.seed = pid, tier, seed
        self.t0 = time.time()
        self.rng = random.Random(seed * 1000003 + int(pid[1:]))
        self.broken = []          # (kind, name, detail): proof obligations / correspondences that no longer check
        self.prop_failures = []   # (class_or_None, description, replay_obj): property fails on the implementation
        self.coverage = {"evaluations": 0, "distinct_nontrivial": 0, "samples": [], "rule": "",
                         "obligations": 0, "discharged": 0,
                         "checker_cmd": CHECKER_CMD.format(pid=pid), "trusted_base": []}
        self.assumptions = []
        self.known_printed = []

    # -- proofs ---------------------------------------------------------------------------------
    def prove(self, translate=None, extra=()):
        prop_v = f"Props/{self.pid}.v"
        try:
            if translate:
                translate()
            targets = [prop_v + "o"]
            if os.path.exists(os.path.join(COQ, f"Corr/{self.pid}.v")):
                targets.append(f"Corr/{self.pid}.vo")
            targets += list(extra)
            rc, out = coq_make(targets)
            if rc != 0:
                m = re.search(r'File "\./([^"]+)", line (\d+)', out)
                where = f"{m.group(1)}:{m.group(2)}" if m else "?"
                self.broken.append(("proof", where, out[-2500:]))
                # count what still compiles for the evidence
                self.coverage["obligations"] = max(1, len(re.findall(
                    r"^\s*(Theorem|Lemma)", "".join(open(os.path.join(COQ, f)).read() for f in coq_files_closure(prop_v)), re.M)))
                self.coverage["discharged"] = 0
                return False
            obligations, theorems, axioms, files = audit_props(prop_v)
            self.coverage["obligations"] = obligations
            self.coverage["discharged"] = obligations
            self.coverage["theorems"] = theorems
            self.coverage["coq_files"] = files
            self.coverage["trusted_base"] += [
                "Coq 8.16.1 kernel (coqc, full .vo build; vm_compute used for reflection and to run the models; no native_compute)",
                "Print Assumptions of every theorem in " + prop_v + ": " +
                ("Closed under the global context" if not axioms else "Axioms: " + ", ".join(axioms)),
                "no Axiom/Parameter/Admitted/admit/unguarded Variable in the closure (scanned on every run)",
            ]
            return True
        except CheckFailure as e:
            self.broken.append(("proof", prop_v, str(e)))
            self.coverage["obligations"] = max(self.coverage["obligations"], 1)
            self.coverage["discharged"] = 0
            return False

    # -- correspondence ---------------------------------------------------------------------------
    def correspondence_broken(self, name, detail):
        self.broken.append(("correspondence", name, detail))

    def property_fails(self, klass, what, replay):
        """The property itself fails on the implementation for a concrete input."""
        self.prop_failures.append((klass, what, replay))

    # -- verdict ------------------------------------------------------------------------------------
    def finish(self):
        pid = self.pid
        open_classes = {f["class"]: f for f in known_findings(pid) if f.get("status") == "open" and f.get("class")}
        violations = 0
        seen_known = set()
        new_failures = []
        for klass, what, replay in self.prop_failures:
            if klass in open_classes:
                if klass not in seen_known:
                    seen_known.add(klass)
                    print(f"KNOWN-FINDING: property={pid} {open_classes[klass]['what']}")
            else:
                new_failures.append((klass, what, replay))
        if new_failures:
            klass, what, replay = new_failures[0]
            path = write_replay(pid, dict(replay, what=what, seed=self.seed, broken=[b[:2] for b in self.broken]))
            print(f"VIOLATION property={pid} replay={path}")
            log(f"  {what}")
            violations = len(new_failures)
            if os.environ.get("VERIF_VERBOSE"):
                for _, w, _ in new_failures[1:60]:
                    log(f"  also: {w[:300]}")
        elif self.broken:
            kind, name, detail = self.broken[0]
            path = write_replay(pid, {"kind": "unchecked", "unchecked": f"{kind}: {name}",
                                      "detail": detail, "seed": self.seed,
                                      "all_broken": [b[:2] for b in self.broken]})
            print(f"VIOLATION property={pid} replay={path} no-failing-input-found")
            log(f"  {kind} {name} no longer checks:\n{detail[-1500:]}")
            violations = 1
        self.coverage["known_findings_reproduced"] = sorted(seen_known)
        self.coverage["trusted_base"] += [
            "correspondence harness /verif/harness (Rust) and case writer /verif/checks (Python): move data only",
        ]
        write_evidence(pid, self.tier, self.seed, self.coverage, time.time() - self.t0, violations,
                       self.assumptions)
        log(f"[{pid}] done in {time.time() - self.t0:.1f}s: violations={violations} known={sorted(seen_known)}")
        return 1 if violations else 0
