"""C06 — column encodings round-trip every value exactly."""
import json

from .common import *  # noqa: F401,F403
from . import common

# type -> (fixed-width codec term or None for blob-style, value generator kind)
FW = {
    "i16": "fw_int_le 2", "i32": "fw_int_le 4", "i64": "fw_int_le 8", "bool": "fw_bool",
    "date": "fw_int_be 4", "ts": "fw_int_be 8", "tstz": "fw_int_be 8",
    "f64": "fw_f64", "iv": "fw_interval",
}
BTYPE_PRIM = {(0, False): 0, (0, True): 3, (1, False): 1, (1, True): 6, (2, False): 9, (2, True): 10}
BTYPE_VARCHAR = {(0, False): 5, (0, True): 14, (1, False): 8, (1, True): 16, (2, False): 12, (2, True): 18}


def codec_term(ty, nullable, encode):
    nn = "nn_blob" if ty in ("str", "blob") else f"(nn_plain ({FW[ty]}))"
    base = f"(bk_nullable {nn})" if nullable else f"(bk_plain {nn})"
    return [base, f"(bk_rle {base})", f"(bk_dict {base})"][encode]


def btype(ty, nullable, encode):
    return (BTYPE_VARCHAR if ty == "str" else BTYPE_PRIM)[(encode, nullable)]


def cell_term(v):
    if v is None:
        return "None"
    tag, p = v
    if tag in ("i16", "i32", "i64", "date", "ts", "tstz"):
        return f"(Some (CInt {cz(p)}))"
    if tag == "bool":
        return f"(Some (CInt {1 if p else 0}))"
    if tag == "f64":
        return f"(Some (CInt {int(p)}))"
    if tag == "str":
        return "(Some (CBytes " + clist(str(b) for b in p.encode()) + "))"
    if tag == "blob":
        return "(Some (CBytes " + clist(str(b) for b in p) + "))"
    if tag == "iv":
        return f"(Some (CIv {cz(p[0])} {cz(p[1])} {cz(p[2])}))"
    raise ValueError(tag)


# ---- generation ---------------------------------------------------------------------------------
def gen_value(rng, ty, style):
    if ty in ("i16", "i32", "i64", "date", "ts", "tstz"):
        bits = {"i16": 16, "i32": 32, "i64": 64, "date": 32, "ts": 64, "tstz": 64}[ty]
        lo, hi = -(1 << (bits - 1)), (1 << (bits - 1)) - 1
        if style == "extreme":
            return [ty, rng.choice([lo, hi, 0, -1, 1, lo + 1, hi - 1, 255, 256, -256])]
        if style == "small":
            return [ty, rng.randint(0, 3)]
        return [ty, rng.randint(lo, hi)]
    if ty == "bool":
        return [ty, rng.random() < 0.5]
    if ty == "f64":
        pats = [0, 1 << 63, 0x7FF0000000000000, 0xFFF0000000000000, 0x7FF8000000000000, 0x3FF0000000000000,
                0x0000000000000001, 0x7FEFFFFFFFFFFFFF]
        if style in ("extreme", "small"):
            return [ty, str(rng.choice(pats[: (3 if style == "small" else 8)]))]
        return [ty, str(rng.getrandbits(64))]
    if ty == "str":
        if style == "small":
            return [ty, rng.choice(["", "a", "b"])]
        if style == "extreme":
            return [ty, rng.choice(["", "x" * rng.randint(30, 90), "é€😀", "a,b\"c\n", "\x00", "a\x00"])]
        return [ty, "".join(rng.choice("abcXYZ 09é") for _ in range(rng.randint(0, 12)))]
    if ty == "blob":
        if style == "small":
            return [ty, rng.choice([[], [0], [255]])]
        return [ty, [rng.randint(0, 255) for _ in range(rng.randint(0, 40 if style == "extreme" else 8))]]
    if ty == "iv":
        if style == "extreme":
            return [ty, [rng.choice([-2**31, 2**31 - 1, 0]) for _ in range(3)]]
        return [ty, [rng.randint(-30, 30), rng.randint(-40, 40), rng.choice([0, 0, 1000, -86400000, rng.randint(-10**6, 10**6)])]]
    raise ValueError(ty)


def gen_array(rng, ty, nullable, n):
    style = rng.choice(["small", "small", "extreme", "random"])
    shape = rng.choice(["runs", "alternate", "iid", "nullruns"])
    if n >= 300:
        shape = "longruns"
    out = []
    cur = gen_value(rng, ty, style)
    while len(out) < n:
        if shape == "longruns":
            # run lengths around the first boundary of the variable-length run count (1 byte up to 127)
            k = rng.choice([127, 128, 128, 129, 255, 256])
            v = gen_value(rng, ty, style) if rng.random() < 0.85 else None
            while out and v == out[-1]:
                v = gen_value(rng, ty, "random")
            out += [v] * k
        elif shape == "runs":
            k = rng.randint(1, 9)
            v = gen_value(rng, ty, style) if rng.random() < 0.8 else None
            out += [v] * k
        elif shape == "nullruns":
            k = rng.randint(1, 12)
            out += ([None] * k) if rng.random() < 0.5 else [gen_value(rng, ty, style) for _ in range(k)]
        elif shape == "alternate":
            out.append(cur if len(out) % 2 == 0 else (None if rng.random() < 0.3 else gen_value(rng, ty, style)))
        else:
            out.append(None if rng.random() < 0.2 else gen_value(rng, ty, style))
    out = out[:n]
    if not nullable:
        out = [v if v is not None else gen_value(rng, ty, style) for v in out]
    return out


def gen_skip_read(rng, n):
    """several skips in a row (the second and later ones run on the `fake` iterator), then reads"""
    ops = []
    for _ in range(rng.randint(2, 4)):
        ops.append(["s", rng.choice([1, 2, 3, 5, 8, 11, 12, 13, rng.randint(0, max(1, n // 3))])])
        if rng.random() < 0.3:
            ops.append(["h"])
    ops += [["n", rng.choice([None, None, 3, 1000])]] * rng.randint(1, 4)
    return {"start": rng.choice([0, 0, rng.randint(0, max(0, n // 4))]), "ops": ops}


def gen_reads(rng, n):
    reads = [gen_skip_read(rng, n)] if rng.random() < 0.6 else []
    for _ in range(rng.randint(2, 4)):
        start = rng.choice([0, 0, rng.randint(0, n), n, max(0, n - 1)])
        ops = []
        for _ in range(rng.randint(1, 10)):
            r = rng.random()
            if r < 0.35:
                ops.append(["n", rng.choice([1, 2, 3, 7, 16, 64, rng.randint(1, max(1, n))])])
            elif r < 0.6:
                ops.append(["n", None])
            elif r < 0.85:
                ops.append(["s", rng.choice([0, 1, 2, 5, rng.randint(0, max(1, n // 2))])])
            else:
                ops.append(["h"])
        # drain
        if rng.random() < 0.7:
            ops += [["n", rng.choice([None, 5, 1000])]] * rng.randint(1, 3)
        reads.append({"start": start, "ops": ops})
    return reads


def gen_case(rng, tier):
    ty = rng.choice(["i16", "i32", "i32", "i64", "bool", "date", "ts", "tstz", "f64", "str", "str", "blob", "iv"])
    nullable = rng.random() < 0.6
    encode = rng.choice([0, 0, 1, 2])
    n = rng.choice([1, 2, 3, 8, 9, 17, rng.randint(1, 60), rng.randint(1, 200 if tier == "quick" else 400)])
    block = rng.choice([32, 48, 64, 128, 4096])
    if encode == 1 and rng.random() < 0.45:      # (a dictionary column cuts one block per row: nothing to gain there)
        # long runs: only meaningful for the run-length encoding, in blocks large enough to hold them
        n = rng.choice([300, 400, 700])        # (the model counts in unary: encoded sizes have to stay below a few thousand bytes)
        block = 4096
    k = rng.randint(1, 3)
    cuts = sorted(rng.randint(0, n) for _ in range(k - 1))
    vals = gen_array(rng, ty, nullable, n)
    arrays = [vals[a:b] for a, b in zip([0] + cuts, cuts + [n])]
    if nullable and len(arrays) > 1 and rng.random() < 0.4:
        # a NULL-free first append followed by appends with NULLs (the builder outlives an append)
        arrays[0] = [v if v is not None else gen_value(rng, ty, "small") for v in arrays[0]]
        if arrays[1]:
            arrays[1][rng.randrange(len(arrays[1]))] = None
    return {"ty": ty, "nullable": nullable, "encode": encode, "block": block, "crc": rng.random() < 0.6,
            "arrays": arrays, "reads": gen_reads(rng, n)}


# ---- the property itself, evaluated on the implementation's answers (independent of the model) ---
def oracle(case, out):
    """None if the reads are exact, else a description of the first failure."""
    if "panic" in out or "abort" in out:
        return f"implementation panicked: {json.dumps(out)[:200]}"
    a = [v for arr in case["arrays"] for v in arr]
    for rd, res in zip(case["reads"], out["reads"]):
        if isinstance(res, dict):
            return f"read from {rd['start']} failed: {json.dumps(res)[:200]}"
        cur = rd["start"]
        for op, o in zip(rd["ops"], res):
            if op[0] == "n":
                b = o["b"]
                if b is None:
                    if cur < len(a):
                        return f"next_batch returned nothing at row {cur} of {len(a)}"
                else:
                    rid, data = b
                    if rid != cur:
                        return f"reported row id {rid}, expected {cur}"
                    if len(data) == 0 or data != a[cur:cur + len(data)]:
                        return f"batch at row {cur} differs from the written values"
                    if op[1] is not None and len(data) != min(op[1], len(a) - cur):
                        return f"batch of requested size {op[1]} at row {cur} has {len(data)} values"
                    cur += len(data)
                # positions past the end of the column carry no meaning
                if cur < len(a) and o["cur"] != cur:
                    return f"current row id {o['cur']}, expected {cur}"
            elif op[0] == "s":
                cur += op[1]
                if cur < len(a) and o["s"] != cur:
                    return f"row id after skip {o['s']}, expected {cur}"
    return None


def nontrivial(case, out):
    """>= 2 blocks and some read starting strictly inside a block or spanning a boundary"""
    idx = out.get("index", [])
    if len(idx) < 2:
        return False
    firsts = {i[0] for i in idx}
    return any(rd["start"] not in firsts or any(op[0] == "s" for op in rd["ops"]) for rd in case["reads"])


def case_term(case, out):
    vals = [v for arr in case["arrays"] for v in arr]
    idx = clist(f"({i[0]}%nat, {i[1]}%nat, {i[2]}%nat, {i[3]}%nat)" for i in out["index"])
    reads = []
    for rd, res in zip(case["reads"], out["reads"]):
        reqs, outs = [], []
        for op, o in zip(rd["ops"], res):
            if op[0] == "n":
                reqs.append("RNext " + copt(op[1], lambda k: f"{k}%nat"))
                if o["b"] is None:
                    outs.append(f"OBatch _ None {o['cur']}%nat")
                else:
                    outs.append(f"OBatch _ (Some ({o['b'][0]}%nat, {clist(cell_term(x) for x in o['b'][1])})) {o['cur']}%nat")
            elif op[0] == "s":
                reqs.append(f"RSkip {op[1]}%nat")
                outs.append(f"OSkipped _ {o['s']}%nat")
            else:
                reqs.append("RHint")
                outs.append(f"OHint _ {o['h'][0]}%nat {cbool(o['h'][1])}")
        reads.append(f"({rd['start']}%nat, {clist(reqs)}, {clist(outs)})")
    return (f"mk_case {codec_term(case['ty'], case['nullable'], case['encode'])} {btype(case['ty'], case['nullable'], case['encode'])} "
            f"{cbool(case['crc'])} {clist(cell_term(v) for v in vals)} {idx} {clist(str(b) for b in out['data'])} {clist(reads)} {cbool(classify(case) is not None)}")


HEADER = "From RL Require Import Corr.C06.\nOpen Scope Z_scope.\n"
CORPUS = os.path.join(VERIF, "corpus", "C06")


def load_corpus():
    cases = []
    if os.path.isdir(CORPUS):
        for f in sorted(os.listdir(CORPUS)):
            if f.endswith(".json"):
                cases.append(json.load(open(os.path.join(CORPUS, f)))["case"])
    return cases


def classify(case):
    """known-finding class of a failing input, or None"""
    vals = [v for arr in case["arrays"] for v in arr if v is not None]
    if case["ty"] == "f64" and case["encode"] != 0:
        pats = {int(v[1]) for v in vals}
        zeros = {p for p in pats if p % (1 << 63) == 0}
        nans = {p for p in pats if (p >> 52) & 0x7FF == 0x7FF and p & ((1 << 52) - 1)}
        if len(zeros) > 1 or len(nans) > 1:
            return "KF_C06_f64_eq_classes_rle_dict"
    return None


def run(R, only_cases=None):
    R.prove()
    build_harness()
    n = 400 if R.tier == "quick" else 6000
    corpus = load_corpus()
    cases = only_cases if only_cases is not None else corpus + [gen_case(R.rng, R.tier) for _ in range(n)]
    outs = run_harness("c06", cases, jobs=16)
    # 1. the property, directly on the implementation
    usable, terms = [], []
    for c, o in zip(cases, outs):
        why = oracle(c, o)
        if why is not None:
            R.property_fails(classify(c), "C06 " + why, {"kind": "column-read", "case": c, "observed": o})
        if "index" in o and all(isinstance(r, list) for r in o["reads"]):
            usable.append((c, o))
            terms.append(case_term(c, o))
    # 2. model = implementation
    failing = coq_eval("C06", HEADER, terms, per_file=40 if R.tier == "quick" else 60)
    names = {1: "index is a partition laid out back to back", 2: "column bytes = model encoding",
             3: "model decoding of the bytes = values", 4: "read trace = model iterator"}
    for i, subs in sorted(failing.items()):
        c, o = usable[i]
        R.correspondence_broken("C06 " + "; ".join(names[s] for s in subs),
                                json.dumps({"case": c, "observed_index": o["index"]})[:3000])
        break
    if failing and not R.prop_failures and only_cases is None:
        # search: the model and the code disagree; look for an input of the same families on which
        # the property itself fails on the implementation (oracle only, no Coq needed)
        fams = {(usable[i][0]["ty"], usable[i][0]["nullable"], usable[i][0]["encode"]) for i in failing}
        extra = []
        for _ in range(6000):
            c = gen_case(R.rng, R.tier)
            ty, nu, en = R.rng.choice(sorted(fams))
            if c["ty"] != ty:
                continue
            c["nullable"], c["encode"] = nu, en
            if not nu:
                continue_ok = all(v is not None for arr in c["arrays"] for v in arr)
                if not continue_ok:
                    c["arrays"] = [[v if v is not None else gen_value(R.rng, ty, "small") for v in arr] for arr in c["arrays"]]
            extra.append(c)
        extra = extra[:1500]
        for c, o in zip(extra, run_harness("c06", extra, jobs=16)):
            why = oracle(c, o)
            if why is not None:
                R.property_fails(classify(c), "C06 " + why, {"kind": "column-read", "case": c, "observed": o})
        R.coverage["search_cases"] = len(extra)
    # oracle only (sizes the unary Coq model cannot count): run lengths at the 2-byte and 16-bit boundaries of the run-length encoding
    if only_cases is None:
        big = []
        for _ in range(3 if R.tier == "quick" else 12):
            ty = R.rng.choice(["i32", "i64", "bool", "str"])
            runs = R.rng.sample([16383, 16384, 16385, 65535, 65536, 65537, 70000, 3, 1], 4)
            vals, prev, spec = [], None, []
            for k in runs:
                v = gen_value(R.rng, ty, "random")
                while v == prev:
                    v = gen_value(R.rng, ty, "random")
                prev = v
                vals += [v] * k
                spec.append([v, k])
            n = len(vals)
            big.append({"ty": ty, "nullable": False, "encode": 1, "block": 4096, "crc": True, "arrays": [vals], "_runs": spec,
                        "reads": [{"start": 0, "ops": [["n", None]] * 4 + [["n", 100000]] * 3},
                                  {"start": max(0, n - 5), "ops": [["n", None], ["n", None]]},
                                  {"start": runs[0] - 1, "ops": [["n", 3], ["s", max(0, runs[1] - 2)], ["n", 4], ["n", None]]}]})
        for c, o in zip(big, run_harness("c06", [{k: v for k, v in c.items() if k != "_runs"} for c in big], jobs=4)):
            why = oracle(c, o)
            if why is not None:
                R.property_fails(classify(c), "C06 (long runs) " + why, {"kind": "column-read", "case": {**{k: v for k, v in c.items() if k != "_runs"}, "arrays": "one array: the runs [value, length] of `runs`", "runs": c["_runs"]},
                                                                                 "observed": str(o)[:300]})
        R.coverage["long_run_cases_oracle_only"] = len(big)
    dist = {}
    for c in cases:
        key = f"{c['ty']}/{'null' if c['nullable'] else 'nn'}/{['plain', 'rle', 'dict'][c['encode']]}"
        dist[key] = dist.get(key, 0) + 1
    seen = set()
    for c, o in usable:
        if nontrivial(c, o):
            seen.add(json.dumps(c, sort_keys=True))
    R.coverage.update({
        "evaluations": len(cases), "distinct_nontrivial": len(seen),
        "rule": "random columns (13 types x plain/rle/dict x nullable x block sizes 32..4096, run-heavy / NULL-run / "
                "alternating / extreme distributions) each read from several start rows with next(Some k)/next(None)/skip/hint "
                "requests; non-trivial = the column has >= 2 blocks and a read starts inside a block or skips",
        "samples": [{"case": cases[i], "index": outs[i].get("index")} for i in range(min(2, len(cases)))],
        "input_distribution": dist, "corpus_cases": len(corpus),
        "model_vs_impl_disagreements": len(failing),
    })
    R.assumptions += [
        "f64 payloads are opaque 8-byte patterns (their serialisers are trusted); Decimal and vector columns are not generated",
        "the moka block cache and file I/O are outside the model (columns are read from an in-memory file)",
        "block iterators are cursors over the decoded block: proved for the decode functions, checked by correspondence for the RLE / dictionary iterator state machines",
    ]


def replay(R, path):
    obj = json.load(open(path))
    if "case" not in obj:
        log("replay names an unchecked theorem/correspondence: re-running the whole check")
        run(R)
    else:
        run(R, only_cases=[obj["case"]])
    return R.finish()
